(* DispatchProofs.v — proofs about the dispatch model of Dispatch.v (property C08).

   D is the DECLARATION of the type: the (class name, instance) pairs of its record, which no lookup ever changes.
   dspec D c = the instance of the first pair whose name is the name of class c.

   Main results
     step_ok         one small step of any lookup preserves the invariant of the shared words and the local invariant
                     of the stepping lookup, and never touches a word outside the cache area
     lookup_ok       a lookup run alone terminates within its fuel and returns dspec D c
     history_ok      every history of lookups from a cold (or any reachable) record returns the declared instances
     run_sched_ok    under EVERY schedule of the small steps of several threads: no corruption, invariant kept, every
                     logged result is the declared instance
     sched_complete  a thread that is scheduled often enough (a bound that does not depend on the other threads)
                     finishes its whole script whatever the others do: lookups are wait-free *)
From Coq Require Import List Arith String Bool Lia.
From CelloV Require Import Generated Dispatch.
Import ListNotations.

(* ---------- generic list facts ---------- *)
Lemma nth_error_set_nth : forall {A} (f : A -> A) (l : list A) (k j : nat),
  nth_error (set_nth k f l) j = if Nat.eqb j k then option_map f (nth_error l j) else nth_error l j.
Proof.
  induction l as [|x r IH]; intros k j.
  - destruct k, j; simpl; try reflexivity; destruct (Nat.eqb _ _); reflexivity.
  - destruct k, j; simpl; try reflexivity. apply IH.
Qed.

Lemma length_set_nth : forall {A} (f : A -> A) (l : list A) k, List.length (set_nth k f l) = List.length l.
Proof. induction l; intros [|k]; simpl; auto. Qed.

Lemma Forall_set_nth : forall {A} (P : A -> Prop) (l : list A) k y,
  Forall P l -> P y -> Forall P (set_nth k (fun _ => y) l).
Proof.
  induction l as [|x r IH]; intros k y H Hy; destruct k; simpl; auto;
    inversion H; subst; constructor; auto.
Qed.

Lemma nodup_fst_inj : forall {A B} (l : list (A * B)) i a b,
  NoDup (map fst l) -> In (i, a) l -> In (i, b) l -> a = b.
Proof.
  induction l as [|[j x] r IH]; intros i a b Hn Ha Hb; simpl in *; [contradiction|].
  inversion Hn as [|? ? Hnot Hn']; subst.
  destruct Ha as [Ha|Ha], Hb as [Hb|Hb].
  - congruence.
  - inversion Ha; subst. exfalso. apply Hnot. change i with (fst (i, b)). apply in_map; assumption.
  - inversion Hb; subst. exfalso. apply Hnot. change i with (fst (i, a)). apply in_map; assumption.
  - eapply IH; eauto.
Qed.

Definition decl (ts : list triple) : list (string * inst) := map (fun t => (t_name t, t_inst t)) ts.

Lemma decl_set_memo : forall ts k c, decl (set_memo k c ts) = decl ts.
Proof.
  unfold set_memo. induction ts as [|t r IH]; intros [|k] c; simpl; auto. f_equal. apply IH.
Qed.

Lemma decl_nth : forall ts k t, nth_error ts k = Some t -> nth_error (decl ts) k = Some (t_name t, t_inst t).
Proof. intros. unfold decl. erewrite map_nth_error; eauto. Qed.

Lemma decl_nth_none : forall ts k, nth_error ts k = None -> nth_error (decl ts) k = None.
Proof. intros ts k H. apply nth_error_None in H. apply nth_error_None. unfold decl. rewrite map_length. exact H. Qed.

Lemma decl_length : forall ts, List.length (decl ts) = List.length ts.
Proof. intros. unfold decl. apply map_length. Qed.

Lemma decl_cold : forall n d, decl (trips (cold_type n d)) = d.
Proof.
  intros n d. unfold cold_type, decl; simpl. rewrite map_map. simpl.
  induction d as [|[a b] r IH]; simpl; auto. f_equal. exact IH.
Qed.

Section Proofs.
  Variable cn : cls -> string.
  Variable wiring : list (nat * cls).
  Variable skipnull reread : bool.
  Variable ncache : nat.
  Hypothesis wiring_nodup : NoDup (map fst wiring).
  Hypothesis wiring_bound : forall i c, In (i, c) wiring -> i < ncache.

  (* ---------- the specification on declarations ---------- *)
  Definition dspec (D : list (string * inst)) (c : cls) : option inst :=
    option_map snd (find (fun d => String.eqb (fst d) (cn c)) D).

  Lemma spec_lookup_decl : forall ts c, spec_lookup cn ts c = dspec (decl ts) c.
  Proof.
    unfold spec_lookup, dspec. induction ts as [|t r IH]; intro c; simpl; auto.
    destruct (String.eqb (t_name t) (cn c)); simpl; auto.
  Qed.

  Definition nomatch (D : list (string * inst)) (c : cls) (k : nat) : Prop :=
    forall j d, j < k -> nth_error D j = Some d -> String.eqb (fst d) (cn c) = false.

  Lemma nomatch_0 : forall D c, nomatch D c 0.
  Proof. intros D c j d H. lia. Qed.

  Lemma nomatch_S : forall D c k d, nomatch D c k -> nth_error D k = Some d -> String.eqb (fst d) (cn c) = false ->
    nomatch D c (S k).
  Proof.
    intros D c k d H Hk He j d' Hj Hd'. destruct (Nat.eq_dec j k) as [->|Hne].
    - rewrite Hk in Hd'. inversion Hd'; subst; assumption.
    - eapply H; eauto. lia.
  Qed.

  Lemma nomatch_tail : forall a D c k, nomatch (a :: D) c (S k) -> nomatch D c k.
  Proof. intros a D c k H j d Hj Hd. apply (H (S j) d); [lia | exact Hd]. Qed.

  Lemma dspec_first : forall D c k d, nomatch D c k -> nth_error D k = Some d -> String.eqb (fst d) (cn c) = true ->
    dspec D c = Some (snd d).
  Proof.
    unfold dspec. induction D as [|a r IH]; intros c k d Hn Hk He.
    - destruct k; discriminate.
    - destruct k as [|k]; simpl in *.
      + inversion Hk; subst. rewrite He. reflexivity.
      + rewrite (Hn 0 a); [| lia | reflexivity]. eapply IH; eauto. eapply nomatch_tail; eauto.
  Qed.

  Lemma dspec_none : forall D c k, nomatch D c k -> nth_error D k = None -> dspec D c = None.
  Proof.
    unfold dspec. induction D as [|a r IH]; intros c k Hn Hk; simpl; auto.
    destruct k as [|k]; [discriminate|]. simpl in Hk.
    rewrite (Hn 0 a); [| lia | reflexivity]. eapply IH; eauto. eapply nomatch_tail; eauto.
  Qed.

  (* ---------- wiring ---------- *)
  Lemma wired_slot_In : forall w c i, wired_slot w c = Some i -> In (i, c) w.
  Proof.
    induction w as [|[j l] r IH]; intros c i H; simpl in *; [discriminate|].
    destruct (Nat.eqb c l) eqn:E.
    - apply Nat.eqb_eq in E. inversion H; subst. left; reflexivity.
    - right. apply IH; assumption.
  Qed.

  Lemma wired_unique : forall c c' i, wired_slot wiring c = Some i -> wired_slot wiring c' = Some i -> c = c'.
  Proof. intros c c' i H H'. eapply nodup_fst_inj; eauto using wired_slot_In. Qed.

  Lemma wired_bound : forall c i, wired_slot wiring c = Some i -> i < ncache.
  Proof. intros c i H. eapply wiring_bound. eapply wired_slot_In; eauto. Qed.

  (* ---------- invariants ---------- *)
  Variable D : list (string * inst).

  (* a filled cache word holds the declared instance of the class whose lookups use that slot *)
  Definition cache_ok (T : trec) : Prop :=
    List.length (cache T) = ncache /\
    forall i v c, nth_error (cache T) i = Some (Some v) -> wired_slot wiring c = Some i -> dspec D c = Some v.

  (* a memo word at triple k holds a class whose name matches triple k and no earlier triple *)
  Definition memo_ok (T : trec) : Prop :=
    forall k t c, nth_error (trips T) k = Some t -> t_memo t = Some c ->
      String.eqb (t_name t) (cn c) = true /\ nomatch D c k.

  Definition inv (T : trec) : Prop := decl (trips T) = D /\ cache_ok T /\ memo_ok T.

  Definition slot_ok (c : cls) (slot : option nat) : Prop := forall i, slot = Some i -> wired_slot wiring c = Some i.

  (* what a lookup of class c knows at program point p.  Everything but the last clause refers to the immutable
     declaration only; the clause for the re-read says that the word about to be read again is filled when the class is
     declared -- filled words never change (filled_stays), so steps of other threads cannot disturb it *)
  Definition pc_ok (T : trec) (c : cls) (p : pc) : Prop :=
    match p with
    | PStart _ => True
    | PCacheRead i => wired_slot wiring c = Some i
    | PPtrScan _ slot => slot_ok c slot
    | PNameScan k slot => slot_ok c slot /\ nomatch D c k
    | PCacheWrite i v => wired_slot wiring c = Some i /\ v = dspec D c
    | PCacheReread i => wired_slot wiring c = Some i /\
                        forall x, dspec D c = Some x -> nth_error (cache T) i = Some (Some x)
    | PDone v => v = dspec D c
    end.

  Definition filled_stays (T T' : trec) : Prop :=
    forall i x, nth_error (cache T) i = Some (Some x) -> nth_error (cache T') i = Some (Some x).

  Lemma filled_stays_refl : forall T, filled_stays T T.
  Proof. intros T i x H; exact H. Qed.

  Lemma pc_ok_mono : forall T T' c p, filled_stays T T' -> pc_ok T c p -> pc_ok T' c p.
  Proof.
    intros T T' c p Hf Hp. destruct p; simpl in *; auto.
    destruct Hp as [Hw Hx]. split; [exact Hw|]. intros x Hd. apply Hf. apply Hx. exact Hd.
  Qed.

  Lemma finish_ok : forall T c slot v, slot_ok c slot -> v = dspec D c -> pc_ok T c (finish slot v).
  Proof. intros T c [i|] v Hs Hv; simpl; auto. Qed.

  Lemma inv_cold : forall T, decl (trips T) = D -> List.length (cache T) = ncache ->
    (forall i x, nth_error (cache T) i = Some x -> x = None) ->
    (forall k t, nth_error (trips T) k = Some t -> t_memo t = None) -> inv T.
  Proof.
    intros T Hd Hl Hc Hm. split; [exact Hd|]. split.
    - split; [exact Hl|]. intros i v c H. apply Hc in H. discriminate.
    - intros k t c H H'. rewrite (Hm k t H) in H'. discriminate.
  Qed.

  (* ---------- one small step ---------- *)
  Theorem step_ok : forall c T p, inv T -> pc_ok T c p ->
    exists T' p', step cn wiring skipnull reread c T p = Some (T', p') /\ inv T' /\ pc_ok T' c p' /\ filled_stays T T'.
  Proof.
    intros c T p [Hd [[Hl Hc] Hm]] Hp.
    assert (HI : inv T) by (split; [exact Hd | split; [split; assumption | assumption]]).
    pose proof (filled_stays_refl T) as HR.
    destruct p as [k | i | k slot | k slot | i v | i | v]; simpl in *.
    - (* PStart *)
      destruct k.
      + destruct (wired_slot wiring c) as [i|] eqn:E.
        * exists T, (PCacheRead i). split; [reflexivity|]. split; [exact HI|]. split; [exact E | exact HR].
        * exists T, (PPtrScan 0 None). split; [reflexivity|]. split; [exact HI|]. split; [|exact HR]. intros i Hi; discriminate.
      + exists T, (PPtrScan 0 None). split; [reflexivity|]. split; [exact HI|]. split; [|exact HR]. intros i Hi; discriminate.
    - (* PCacheRead *)
      destruct (nth_error (cache T) i) as [[v|]|] eqn:E.
      + assert (Hv : dspec D c = Some v) by (eapply Hc; eauto).
        exists T, (if reread then PCacheReread i else PDone (Some v)).
        split; [reflexivity|]. split; [exact HI|]. split; [|exact HR].
        destruct reread; simpl.
        * split; [exact Hp|]. intros x Hx. rewrite Hv in Hx. inversion Hx; subst. exact E.
        * symmetry; exact Hv.
      + exists T, (PPtrScan 0 (Some i)). split; [reflexivity|]. split; [exact HI|]. split; [|exact HR].
        intros j Hj. inversion Hj; subst; assumption.
      + exfalso. apply nth_error_None in E. pose proof (wired_bound _ _ Hp). lia.
    - (* PPtrScan *)
      destruct (nth_error (trips T) k) as [t|] eqn:E.
      + destruct (opt_cls_eqb (t_memo t) c) eqn:Em.
        * exists T, (finish slot (Some (t_inst t))). split; [reflexivity|]. split; [exact HI|]. split; [|exact HR].
          apply finish_ok; auto.
          unfold opt_cls_eqb in Em. destruct (t_memo t) as [x|] eqn:Ex; [|discriminate].
          apply Nat.eqb_eq in Em; subst x.
          destruct (Hm k t c E Ex) as [He Hn].
          symmetry.
          apply (dspec_first D c k (t_name t, t_inst t)); auto. rewrite <- Hd. apply decl_nth; assumption.
        * exists T, (PPtrScan (S k) slot). split; [reflexivity|]. split; [exact HI|]. split; [exact Hp | exact HR].
      + exists T, (PNameScan 0 slot). split; [reflexivity|]. split; [exact HI|]. split; [|exact HR].
        split; [exact Hp | apply nomatch_0].
    - (* PNameScan *)
      destruct Hp as [Hs Hn].
      destruct (nth_error (trips T) k) as [t|] eqn:E.
      + assert (Ed : nth_error D k = Some (t_name t, t_inst t)) by (rewrite <- Hd; apply decl_nth; assumption).
        destruct (String.eqb (t_name t) (cn c)) eqn:Ee.
        * exists (mkTrec (cache T) (set_memo k c (trips T))), (finish slot (Some (t_inst t))).
          split; [reflexivity|]. split; [|split].
          -- split; [simpl; rewrite decl_set_memo; exact Hd|]. split; [split; assumption|].
             intros k' t' c' Hk' Hm'. simpl in Hk'. unfold set_memo in Hk'. rewrite nth_error_set_nth in Hk'.
             destruct (Nat.eqb k' k) eqn:Ek.
             ++ apply Nat.eqb_eq in Ek; subst k'. rewrite E in Hk'. simpl in Hk'. inversion Hk'; subst t'.
                simpl in Hm'. inversion Hm'; subst c'. simpl. split; assumption.
             ++ eapply Hm; eauto.
          -- apply finish_ok; auto. symmetry.
             apply (dspec_first D c k (t_name t, t_inst t)); auto.
          -- intros i x Hix. exact Hix.
        * exists T, (PNameScan (S k) slot). split; [reflexivity|]. split; [exact HI|]. split; [|exact HR].
          split; [exact Hs|]. eapply nomatch_S; eauto.
      + exists T, (finish slot None). split; [reflexivity|]. split; [exact HI|]. split; [|exact HR].
        apply finish_ok; auto. symmetry. eapply dspec_none; eauto.
        rewrite <- Hd. apply decl_nth_none; assumption.
    - (* PCacheWrite *)
      destruct Hp as [Hw Hv].
      pose proof (wired_bound _ _ Hw) as Hb.
      assert (Hlt : Nat.ltb i (List.length (cache T)) = true) by (apply Nat.ltb_lt; lia).
      (* the state after a real store *)
      assert (Hstore : inv (mkTrec (set_nth i (fun _ => v) (cache T)) (trips T)) /\
                       filled_stays T (mkTrec (set_nth i (fun _ => v) (cache T)) (trips T)) /\
                       (forall x, v = Some x -> nth_error (set_nth i (fun _ => v) (cache T)) i = Some (Some x))).
      { split; [|split].
        - split; [exact Hd|]. split; [|exact Hm].
          split; [simpl; rewrite length_set_nth; exact Hl|].
          intros i' v' c' Hi' Hw'. simpl in Hi'. rewrite nth_error_set_nth in Hi'.
          destruct (Nat.eqb i' i) eqn:Ei.
          + apply Nat.eqb_eq in Ei; subst i'.
            assert (c = c') by (eapply wired_unique; eauto). subst c'.
            destruct (nth_error (cache T) i); simpl in Hi'; [|discriminate].
            inversion Hi'. congruence.
          + eapply Hc; eauto.
        - intros j x Hj. simpl. rewrite nth_error_set_nth.
          destruct (Nat.eqb j i) eqn:Ej; [|exact Hj].
          apply Nat.eqb_eq in Ej; subst j. rewrite Hj. simpl.
          assert (dspec D c = Some x) by (eapply Hc; eauto). congruence.
        - intros x Hx. rewrite nth_error_set_nth. rewrite Nat.eqb_refl.
          destruct (nth_error (cache T) i) eqn:En; simpl; [congruence|].
          apply nth_error_None in En. lia. }
      destruct Hstore as [HIs [HFs Hfill]].
      destruct v as [x|].
      + rewrite Hlt.
        exists (mkTrec (set_nth i (fun _ => Some x) (cache T)) (trips T)), (if reread then PCacheReread i else PDone (Some x)).
        split; [reflexivity|]. split; [exact HIs|]. split; [|exact HFs].
        destruct reread; simpl; [|exact Hv].
        split; [exact Hw|]. intros y Hy. rewrite <- Hv in Hy. inversion Hy; subst. apply Hfill. reflexivity.
      + destruct skipnull.
        * exists T, (if reread then PCacheReread i else PDone None).
          split; [reflexivity|]. split; [exact HI|]. split; [|exact HR].
          destruct reread; simpl; [|exact Hv].
          split; [exact Hw|]. intros y Hy. rewrite <- Hv in Hy. discriminate.
        * rewrite Hlt.
          exists (mkTrec (set_nth i (fun _ => None) (cache T)) (trips T)), (if reread then PCacheReread i else PDone None).
          split; [reflexivity|]. split; [exact HIs|]. split; [|exact HFs].
          destruct reread; simpl; [|exact Hv].
          split; [exact Hw|]. intros y Hy. rewrite <- Hv in Hy. discriminate.
    - (* PCacheReread *)
      destruct Hp as [Hw Hx].
      destruct (nth_error (cache T) i) as [w|] eqn:E.
      + exists T, (PDone w). split; [reflexivity|]. split; [exact HI|]. split; [|exact HR]. simpl.
        destruct (dspec D c) as [x|] eqn:Ed.
        * specialize (Hx x eq_refl). inversion Hx. reflexivity.
        * destruct w as [y|]; [|reflexivity].
          assert (dspec D c = Some y) by (eapply Hc; eauto). congruence.
      + exfalso. apply nth_error_None in E. pose proof (wired_bound _ _ Hw). lia.
    - exists T, (PDone v). split; [reflexivity|]. split; [exact HI|]. split; [exact Hp | exact HR].
  Qed.

  (* ---------- termination: a measure that decreases with every step, whatever the shared words contain ---------- *)
  Definition measure (n : nat) (p : pc) : nat :=
    match p with
    | PStart _ => 2 * n + 6
    | PCacheRead _ => 2 * n + 5
    | PPtrScan k _ => (n - k) + n + 4
    | PNameScan k _ => (n - k) + 3
    | PCacheWrite _ _ => 2
    | PCacheReread _ => 1
    | PDone _ => 0
    end.

  Lemma measure_finish : forall n slot v, measure n (finish slot v) <= 2.
  Proof. intros n [i|] v; simpl; lia. Qed.

  Lemma step_trips_length : forall c T p T' p', step cn wiring skipnull reread c T p = Some (T', p') ->
    List.length (trips T') = List.length (trips T).
  Proof.
    intros c T p T' p' H.
    destruct p as [k | i | k slot | k slot | i v | i | v]; simpl in H.
    - destruct k; [destruct (wired_slot wiring c)|]; inversion H; subst; reflexivity.
    - destruct (nth_error (cache T) i) as [[v|]|]; inversion H; subst; reflexivity.
    - destruct (nth_error (trips T) k) as [t|]; [destruct (opt_cls_eqb (t_memo t) c)|]; inversion H; subst; reflexivity.
    - destruct (nth_error (trips T) k) as [t|]; [destruct (String.eqb (t_name t) (cn c))|]; inversion H; subst; simpl;
        try reflexivity. unfold set_memo. apply length_set_nth.
    - destruct v; [|destruct skipnull]; try (destruct (Nat.ltb i (List.length (cache T)))); inversion H; subst; reflexivity.
    - destruct (nth_error (cache T) i); inversion H; subst; reflexivity.
    - inversion H; subst; reflexivity.
  Qed.

  Lemma step_measure : forall c T p T' p', step cn wiring skipnull reread c T p = Some (T', p') -> (forall v, p <> PDone v) ->
    measure (List.length (trips T)) p' < measure (List.length (trips T)) p.
  Proof.
    intros c T p T' p' H Hnd.
    set (n := List.length (trips T)).
    destruct p as [k | i | k slot | k slot | i v | i | v]; simpl in H.
    - destruct k; [destruct (wired_slot wiring c)|]; inversion H; subst; simpl; lia.
    - destruct (nth_error (cache T) i) as [[v|]|]; inversion H; subst; destruct reread; simpl; lia.
    - destruct (nth_error (trips T) k) as [t|] eqn:E.
      + assert (k < n) by (apply nth_error_Some; rewrite E; discriminate).
        destruct (opt_cls_eqb (t_memo t) c); inversion H; subst.
        * pose proof (measure_finish n slot (Some (t_inst t))). simpl. lia.
        * simpl. lia.
      + inversion H; subst. simpl. lia.
    - destruct (nth_error (trips T) k) as [t|] eqn:E.
      + assert (k < n) by (apply nth_error_Some; rewrite E; discriminate).
        destruct (String.eqb (t_name t) (cn c)); inversion H; subst.
        * pose proof (measure_finish n slot (Some (t_inst t))). simpl. lia.
        * simpl. lia.
      + inversion H; subst. pose proof (measure_finish n slot None). simpl. lia.
    - destruct v; [|destruct skipnull]; try (destruct (Nat.ltb i (List.length (cache T)))); inversion H; subst;
        destruct reread; simpl; lia.
    - destruct (nth_error (cache T) i); inversion H; subst. simpl. lia.
    - exfalso. eapply Hnd; reflexivity.
  Qed.

  (* ---------- a lookup run alone ---------- *)
  Lemma run_ok : forall fuel c T p, inv T -> pc_ok T c p -> measure (List.length (trips T)) p <= fuel ->
    exists T', run cn wiring skipnull reread fuel c T p = ROk T' (dspec D c) /\ inv T'.
  Proof.
    induction fuel as [|f IH]; intros c T p HI Hp Hm.
    - destruct p; simpl in Hm; try lia. simpl. exists T. simpl in Hp. subst. auto.
    - destruct (match p with PDone _ => true | _ => false end) eqn:Ed.
      + destruct p; try discriminate. simpl. exists T. simpl in Hp. subst. auto.
      + destruct (step_ok c T p HI Hp) as [T' [p' [Hs [HI' [Hp' _]]]]].
        assert (Hnd : forall v, p <> PDone v) by (intros v Hv; subst; discriminate).
        pose proof (step_measure _ _ _ _ _ Hs Hnd) as Hlt.
        pose proof (step_trips_length _ _ _ _ _ Hs) as Hlen.
        assert (Hrun : run cn wiring skipnull reread (S f) c T p = run cn wiring skipnull reread f c T' p').
        { clear Hlt Hm IH. destruct p; try discriminate Ed; simpl in Hs |- *; rewrite Hs; reflexivity. }
        rewrite Hrun. apply IH; auto. rewrite Hlen. lia.
  Qed.

  Theorem lookup_ok : forall k c T, inv T ->
    exists T', lookup cn wiring skipnull reread k c T = ROk T' (dspec D c) /\ inv T'.
  Proof.
    intros k c T HI. unfold lookup. apply run_ok; [exact HI | exact I | unfold fuel_for; simpl; lia].
  Qed.

  Theorem history_ok : forall h T, inv T ->
    exists T', run_history cn wiring skipnull reread T h = Some (T', map (fun kc => dspec D (snd kc)) h) /\ inv T'.
  Proof.
    induction h as [|[k c] r IH]; intros T HI; simpl.
    - exists T; auto.
    - destruct (lookup_ok k c T HI) as [T1 [H1 HI1]]. rewrite H1.
      destruct (IH T1 HI1) as [T2 [H2 HI2]]. rewrite H2. exists T2; auto.
  Qed.

  (* ---------- several threads, every schedule ---------- *)
  Definition log_ok (l : list (cls * option inst)) : Prop := Forall (fun e => snd e = dspec D (fst e)) l.

  Definition thread_ok (T : trec) (th : thread) : Prop :=
    match th_cur th with None => True | Some (c, p) => pc_ok T c p end /\ log_ok (th_log th).

  Lemma thread_ok_mono : forall T T' th, filled_stays T T' -> thread_ok T th -> thread_ok T' th.
  Proof.
    intros T T' th Hf [Hc Hl]. split; [|exact Hl].
    destruct (th_cur th) as [[c p]|]; [|exact I]. eapply pc_ok_mono; eauto.
  Qed.

  Definition sys_inv (s : sys) : Prop := inv (fst s) /\ Forall (thread_ok (fst s)) (snd s).

  Lemma thread_step_nd : forall T th c p, th_cur th = Some (c, p) -> (forall v, p <> PDone v) ->
    thread_step cn wiring skipnull reread T th =
    match step cn wiring skipnull reread c T p with
    | None => None
    | Some (T', p') => Some (T', mkThread (th_todo th) (Some (c, p')) (th_log th))
    end.
  Proof.
    intros T th c p E H. unfold thread_step. rewrite E.
    destruct p; try reflexivity. exfalso. eapply H. reflexivity.
  Qed.

  Lemma thread_step_done : forall T th c v, th_cur th = Some (c, PDone v) ->
    thread_step cn wiring skipnull reread T th = Some (T, mkThread (th_todo th) None (th_log th ++ [(c, v)])).
  Proof. intros T th c v E. unfold thread_step. rewrite E. reflexivity. Qed.

  Lemma pc_done_dec : forall p, (exists v, p = PDone v) \/ (forall v, p <> PDone v).
  Proof. destruct p; try (right; intros; discriminate). left; eexists; reflexivity. Qed.

  Lemma thread_step_ok : forall T th, inv T -> thread_ok T th ->
    exists T' th', thread_step cn wiring skipnull reread T th = Some (T', th') /\ inv T' /\ thread_ok T' th' /\ filled_stays T T'.
  Proof.
    intros T th HI [Hc Hl].
    destruct (th_cur th) as [[c p]|] eqn:E.
    - destruct (pc_done_dec p) as [[v ->]|Hnd].
      + rewrite (thread_step_done T th c v E).
        exists T, (mkThread (th_todo th) None (th_log th ++ [(c, v)])).
        split; [reflexivity|]. split; [exact HI|]. split; [|apply filled_stays_refl]. split; [exact I|].
        simpl. unfold log_ok. apply Forall_app. split; [exact Hl|]. constructor; [exact Hc | constructor].
      + rewrite (thread_step_nd T th c p E Hnd).
        destruct (step_ok c T p HI Hc) as [T' [p' [Hs [HI' [Hp' Hf]]]]]. rewrite Hs.
        exists T', (mkThread (th_todo th) (Some (c, p')) (th_log th)).
        split; [reflexivity|]. split; [exact HI'|]. split; [|exact Hf]. split; [exact Hp' | exact Hl].
    - unfold thread_step. rewrite E.
      destruct (th_todo th) as [|[k c] r].
      + exists T, th. split; [reflexivity|]. split; [exact HI|]. split; [|apply filled_stays_refl].
        split; [rewrite E; exact I | exact Hl].
      + exists T, (mkThread r (Some (c, PStart k)) (th_log th)).
        split; [reflexivity|]. split; [exact HI|]. split; [|apply filled_stays_refl]. split; [exact I | exact Hl].
  Qed.

  Theorem sys_step_ok : forall s tid, sys_inv s -> exists s', sys_step cn wiring skipnull reread s tid = Some s' /\ sys_inv s'.
  Proof.
    intros [T ths] tid [HI HF]. simpl in *.
    destruct (nth_error ths tid) as [th|] eqn:E.
    - assert (Hth : thread_ok T th) by (eapply Forall_forall; eauto; eapply nth_error_In; eauto).
      destruct (thread_step_ok T th HI Hth) as [T' [th' [Hs [HI' [Hth' Hf]]]]]. rewrite Hs.
      exists (T', set_nth tid (fun _ => th') ths). split; auto. split; simpl; auto.
      apply Forall_set_nth; auto.
      eapply Forall_impl; [|exact HF]. intros a Ha. eapply thread_ok_mono; eauto.
    - exists (T, ths). split; auto. split; auto.
  Qed.

  Theorem run_sched_ok : forall sched s, sys_inv s -> exists s', run_sched cn wiring skipnull reread sched s = Some s' /\ sys_inv s'.
  Proof.
    induction sched as [|tid r IH]; intros s HS; simpl.
    - exists s; auto.
    - destruct (sys_step_ok s tid HS) as [s1 [H1 HS1]]. rewrite H1. apply IH; assumption.
  Qed.

  (* ---------- wait-freedom: the work left for a thread shrinks with each of its own steps and is not
                touched by the steps of others ---------- *)
  Definition tmeasure (n : nat) (th : thread) : nat :=
    List.length (th_todo th) * (2 * n + 8) +
    match th_cur th with None => 0 | Some (_, p) => measure n p + 1 end.

  Definition finished (th : thread) : Prop := th_todo th = [] /\ th_cur th = None.

  (* the classes of a thread's script, in order: answered, in progress, still to do *)
  Definition script (th : thread) : list cls :=
    map fst (th_log th) ++ match th_cur th with Some (c, _) => [c] | None => [] end ++ map snd (th_todo th).

  Lemma thread_step_progress : forall T th T' th', thread_step cn wiring skipnull reread T th = Some (T', th') ->
    List.length (trips T') = List.length (trips T) /\ script th' = script th /\
    (tmeasure (List.length (trips T)) th = 0 \/ tmeasure (List.length (trips T)) th' < tmeasure (List.length (trips T)) th).
  Proof.
    intros T th T' th' H.
    destruct (th_cur th) as [[c p]|] eqn:E.
    - destruct (pc_done_dec p) as [[v ->]|Hnd].
      + rewrite (thread_step_done T th c v E) in H. inversion H; subst.
        unfold script, tmeasure. rewrite E. simpl.
        split; [reflexivity|]. split.
        * rewrite map_app. simpl. rewrite <- app_assoc. reflexivity.
        * right. lia.
      + rewrite (thread_step_nd T th c p E Hnd) in H.
        destruct (step cn wiring skipnull reread c T p) as [[T1 p1]|] eqn:Hs; [|discriminate].
        inversion H; subst.
        pose proof (step_trips_length _ _ _ _ _ Hs) as Hlen.
        pose proof (step_measure _ _ _ _ _ Hs Hnd) as Hlt.
        unfold script, tmeasure. rewrite E. simpl.
        split; [exact Hlen|]. split; [reflexivity|]. right. lia.
    - unfold thread_step in H. rewrite E in H.
      unfold script, tmeasure. rewrite E.
      destruct (th_todo th) as [|[k c] r] eqn:Et; inversion H; subst; simpl.
      + rewrite E, Et. simpl. auto.
      + split; [reflexivity|]. split; [reflexivity|]. right. lia.
  Qed.

  Lemma tmeasure_0_finished : forall n th, tmeasure n th = 0 -> finished th.
  Proof.
    intros n th H. unfold tmeasure in H. unfold finished.
    destruct (th_cur th) as [[c p]|]; [lia|].
    destruct (th_todo th); [auto|]. simpl in H. lia.
  Qed.

  Lemma finished_step_id : forall T th, finished th -> thread_step cn wiring skipnull reread T th = Some (T, th).
  Proof. intros T th [H1 H2]. unfold thread_step. rewrite H2, H1. reflexivity. Qed.

  (* every thread occurs in the schedule at least as often as it has work left *)
  Definition enough (n : nat) (sched : list nat) (ths : list thread) : Prop :=
    forall tid th, nth_error ths tid = Some th -> tmeasure n th <= count_occ Nat.eq_dec sched tid.

  Theorem sched_complete : forall sched s, sys_inv s -> enough (List.length (trips (fst s))) sched (snd s) ->
    exists s', run_sched cn wiring skipnull reread sched s = Some s' /\ sys_inv s' /\
      List.length (snd s') = List.length (snd s) /\
      forall tid th th', nth_error (snd s) tid = Some th -> nth_error (snd s') tid = Some th' ->
        finished th' /\ script th' = script th.
  Proof.
    induction sched as [|t r IH]; intros [T ths] HS He; cbn [fst snd] in *.
    - exists (T, ths). split; [reflexivity|]. split; [exact HS|]. split; [reflexivity|].
      intros tid th th' Hn Hn'. simpl in Hn, Hn'. rewrite Hn in Hn'. inversion Hn'; subst th'. split; [|reflexivity].
      eapply tmeasure_0_finished. pose proof (He tid th Hn) as Hle. simpl in Hle.
      apply Nat.le_0_r in Hle. exact Hle.
    - destruct (sys_step_ok (T, ths) t HS) as [s1 [H1 HS1]].
      assert (Hrs : run_sched cn wiring skipnull reread (t :: r) (T, ths) = run_sched cn wiring skipnull reread r s1)
        by (cbn [run_sched]; rewrite H1; reflexivity).
      rewrite Hrs. clear Hrs.
      unfold sys_step in H1. cbn beta iota in H1.
      destruct (nth_error ths t) as [th0|] eqn:Et.
      + destruct (thread_step cn wiring skipnull reread T th0) as [[T1 th1]|] eqn:Hts; [|discriminate].
        inversion H1; subst s1. clear H1.
        destruct (thread_step_progress _ _ _ _ Hts) as [Hlen [Hscr Hprog]].
        destruct (IH (T1, set_nth t (fun _ => th1) ths) HS1) as [s' [Hr [HS' [Hl' Hfin]]]].
        * simpl. rewrite Hlen. intros tid th Hn. rewrite nth_error_set_nth in Hn.
          destruct (Nat.eqb tid t) eqn:Eq.
          -- apply Nat.eqb_eq in Eq; subst tid. rewrite Et in Hn. simpl in Hn. inversion Hn; subst th.
             pose proof (He t th0 Et) as Hle. cbn [count_occ] in Hle. destruct (Nat.eq_dec t t) as [_|]; [|congruence].
             destruct Hprog as [H0|Hlt].
             ++ pose proof (tmeasure_0_finished _ _ H0) as Hf. rewrite (finished_step_id T th0 Hf) in Hts.
                inversion Hts; subst. lia.
             ++ lia.
          -- apply Nat.eqb_neq in Eq. pose proof (He tid th Hn) as Hle. cbn [count_occ] in Hle.
             destruct (Nat.eq_dec t tid) as [->|]; [congruence|]. exact Hle.
        * exists s'. split; [exact Hr|]. split; [exact HS'|]. simpl in *. rewrite length_set_nth in Hl'.
          split; [exact Hl'|].
          intros tid th th' Hn Hn'.
          destruct (Nat.eq_dec tid t) as [->|Hne].
          -- rewrite Et in Hn. inversion Hn; subst th.
             destruct (Hfin t th1 th') as [Hf Hs]; auto.
             ++ rewrite nth_error_set_nth. rewrite Nat.eqb_refl. rewrite Et. reflexivity.
             ++ split; auto. congruence.
          -- apply (Hfin tid th th'); auto.
             rewrite nth_error_set_nth. apply Nat.eqb_neq in Hne. rewrite Hne. exact Hn.
      + inversion H1; subst s1.
        destruct (IH (T, ths) HS1) as [s' [Hr [HS' [Hl' Hfin]]]].
        * simpl. intros tid th Hn. pose proof (He tid th Hn) as Hle. cbn [count_occ] in Hle.
          destruct (Nat.eq_dec t tid) as [->|]; [congruence|]. exact Hle.
        * exists s'. auto.
  Qed.

  (* the log of a finished thread that started idle is exactly the declared answers to its script *)
  Lemma finished_log : forall T th, thread_ok T th -> finished th ->
    th_log th = map (fun c => (c, dspec D c)) (script th).
  Proof.
    intros T th [_ Hl] [Ht Hc]. unfold script. rewrite Ht, Hc. simpl. rewrite app_nil_r.
    unfold log_ok in Hl. induction (th_log th) as [|[c v] r IH]; simpl; auto.
    inversion Hl; subst. simpl in *. f_equal; [f_equal; assumption | apply IH; assumption].
  Qed.
End Proofs.

(* ---------- instances of the invariant ---------- *)
Lemma inv_cold_type : forall cn wiring ncache d, inv cn wiring ncache d (cold_type ncache d).
Proof.
  intros. apply inv_cold.
  - apply decl_cold.
  - simpl. apply repeat_length.
  - simpl. intros i x H. apply nth_error_In in H. apply repeat_spec in H. exact H.
  - simpl. intros k t H. apply nth_error_In in H. apply in_map_iff in H. destruct H as [x [Hx _]]. subst. reflexivity.
Qed.

(* ---------- declaration by class IDENTITY ---------- *)
Lemma dspec_decl_lookup : forall cn dl c,
  (forall c', In c' (map fst dl) -> cn c' = cn c -> c' = c) ->
  dspec cn (map (fun d => (cn (fst d), snd d)) dl) c = decl_lookup dl c.
Proof.
  unfold dspec. induction dl as [|[c' i] r IH]; intros c Hinj; simpl; auto.
  destruct (String.eqb (cn c') (cn c)) eqn:E.
  - apply String.eqb_eq in E. assert (c' = c) by (apply Hinj; simpl; auto). subst.
    rewrite Nat.eqb_refl. reflexivity.
  - assert (Hne : Nat.eqb c' c = false).
    { apply Nat.eqb_neq. intro; subst. rewrite String.eqb_refl in E. discriminate. }
    rewrite Hne. apply IH. intros c'' Hin. apply Hinj. simpl; auto.
Qed.

(* ================= statements assembled for Properties_C08.v ================= *)

Section FromCold.
  Variable cn : cls -> string.
  Variable wiring : list (nat * cls).
  Variable skipnull reread : bool.
  Variable ncache : nat.
  Hypothesis wiring_nodup : NoDup (map fst wiring).
  Hypothesis wiring_bound : forall i c, In (i, c) wiring -> i < ncache.
  Variable D : list (string * inst).

  Lemma every_history_from_cold : forall h,
    exists T', run_history cn wiring skipnull reread (cold_type ncache D) h = Some (T', map (fun kc => dspec cn D (snd kc)) h)
               /\ inv cn wiring ncache D T'.
  Proof. intro h. apply history_ok; auto. apply inv_cold_type. Qed.

  Lemma every_history_from_reachable : forall T h, inv cn wiring ncache D T ->
    exists T', run_history cn wiring skipnull reread T h = Some (T', map (fun kc => dspec cn D (snd kc)) h)
               /\ inv cn wiring ncache D T'.
  Proof. intros T h H. apply history_ok; auto. Qed.

  Lemma idle_threads_ok : forall T scripts, Forall (thread_ok cn wiring D T) (map idle_thread scripts).
  Proof.
    intros T scripts. apply Forall_forall. intros th Hin. apply in_map_iff in Hin. destruct Hin as [scr [<- _]].
    split; simpl; [exact I | constructor].
  Qed.

  Lemma every_schedule_from_cold : forall scripts sched,
    exists s', run_sched cn wiring skipnull reread sched (cold_type ncache D, map idle_thread scripts) = Some s' /\
               inv cn wiring ncache D (fst s') /\
               forall th, In th (snd s') -> Forall (fun e => snd e = dspec cn D (fst e)) (th_log th).
  Proof.
    intros scripts sched.
    destruct (run_sched_ok cn wiring skipnull reread ncache wiring_nodup wiring_bound D sched (cold_type ncache D, map idle_thread scripts))
      as [s' [Hr [HI HF]]].
    - split; simpl; [apply inv_cold_type | apply idle_threads_ok].
    - exists s'. split; [exact Hr|]. split; [exact HI|].
      intros th Hin. eapply Forall_forall in HF; eauto. destruct HF as [_ Hl]. exact Hl.
  Qed.

  (* every thread that gets  (number of its lookups) * (2 * #instances + 8)  turns finishes its whole script with the
     declared answers, whatever the other threads do and however the turns are interleaved *)
  Lemma wait_free_from_cold : forall scripts sched,
    (forall tid scr, nth_error scripts tid = Some scr ->
       List.length scr * (2 * List.length D + 8) <= count_occ Nat.eq_dec sched tid) ->
    exists s', run_sched cn wiring skipnull reread sched (cold_type ncache D, map idle_thread scripts) = Some s' /\
               List.length (snd s') = List.length scripts /\
               forall tid scr th', nth_error scripts tid = Some scr -> nth_error (snd s') tid = Some th' ->
                 th_todo th' = [] /\ th_cur th' = None /\
                 th_log th' = map (fun kc => (snd kc, dspec cn D (snd kc))) scr.
  Proof.
    intros scripts sched He.
    destruct (sched_complete cn wiring skipnull reread ncache wiring_nodup wiring_bound D sched (cold_type ncache D, map idle_thread scripts))
      as [s' [Hr [[HI HF] [Hl Hfin]]]].
    - split; simpl; [apply inv_cold_type | apply idle_threads_ok].
    - simpl. intros tid th Hn. rewrite nth_error_map in Hn.
      destruct (nth_error scripts tid) as [scr|] eqn:E; [|discriminate]. simpl in Hn. inversion Hn; subst th.
      unfold tmeasure, idle_thread; simpl. rewrite map_length. pose proof (He tid scr E). lia.
    - exists s'. split; [exact Hr|]. simpl in Hl. rewrite map_length in Hl. split; [exact Hl|].
      intros tid scr th' Hn Hn'.
      destruct (Hfin tid (idle_thread scr) th') as [[Ht Hc] Hs]; auto.
      { simpl. rewrite nth_error_map. rewrite Hn. reflexivity. }
      split; [exact Ht|]. split; [exact Hc|].
      assert (Hok : thread_ok cn wiring D (fst s') th') by (eapply Forall_forall; eauto; eapply nth_error_In; eauto).
      rewrite (finished_log cn wiring D (fst s') th' Hok (conj Ht Hc)). rewrite Hs.
      unfold script, idle_thread; simpl. rewrite map_map. reflexivity.
  Qed.

  (* method call and cast on top of a lookup *)
  Variable imem : inst -> nat -> bool.

  Lemma method_call_from_reachable : forall T c m, inv cn wiring ncache D T ->
    exists T' v, lookup cn wiring skipnull reread KInstance c T = ROk T' v /\ inv cn wiring ncache D T' /\
      method_result imem true v m =
        match dspec cn D c with
        | None => MRaise ClassError                                (* class not implemented *)
        | Some i => if imem i m then MInvoke i m else MRaise ClassError   (* member left empty *)
        end.
  Proof.
    intros T c m HI. destruct (lookup_ok cn wiring skipnull reread ncache wiring_nodup wiring_bound D KInstance c T HI) as [T' [H1 HI']].
    exists T', (dspec cn D c). split; [exact H1|]. split; [exact HI'|].
    unfold method_result. destruct (dspec cn D c); reflexivity.
  Qed.

  Lemma implements_method_from_reachable : forall T c m, inv cn wiring ncache D T ->
    exists T' v, lookup cn wiring skipnull reread KScan c T = ROk T' v /\ inv cn wiring ncache D T' /\
      implements_method_result imem v m = match dspec cn D c with None => false | Some i => imem i m end.
  Proof.
    intros T c m HI. destruct (lookup_ok cn wiring skipnull reread ncache wiring_nodup wiring_bound D KScan c T HI) as [T' [H1 HI']].
    exists T', (dspec cn D c). auto.
  Qed.

  Lemma cast_from_reachable : forall T ccast tself ttype, inv cn wiring ncache D T ->
    exists T' v, lookup cn wiring skipnull reread KInstance ccast T = ROk T' v /\ inv cn wiring ncache D T' /\
      cast_result imem v tself ttype =
        match dspec cn D ccast with
        | Some i => if imem i 0 then CCustom i else if Nat.eqb tself ttype then CSelf else CRaise ValueError
        | None => if Nat.eqb tself ttype then CSelf else CRaise ValueError
        end.
  Proof.
    intros T ccast tself ttype HI.
    destruct (lookup_ok cn wiring skipnull reread ncache wiring_nodup wiring_bound D KInstance ccast T HI) as [T' [H1 HI']].
    exists T', (dspec cn D ccast). auto.
  Qed.
End FromCold.

Lemma method_absent_or_empty_raises : forall imem r m,
  (r = None \/ exists i, r = Some i /\ imem i m = false) -> method_result imem true r m = MRaise ClassError.
Proof. intros imem r m [->|[i [-> H]]]; simpl; [reflexivity | rewrite H; reflexivity]. Qed.

Lemma method_invokes_only_declared : forall imem r m i m',
  method_result imem true r m = MInvoke i m' -> r = Some i /\ m' = m /\ imem i m = true.
Proof.
  intros imem r m i m' H. unfold method_result in H. destruct r as [j|]; [|discriminate].
  destruct (imem j m) eqn:E; [|discriminate]. inversion H; subst. auto.
Qed.

Lemma cast_other_type_raises : forall imem r tself ttype, tself <> ttype ->
  (r = None \/ exists i, r = Some i /\ imem i 0 = false) -> cast_result imem r tself ttype = CRaise ValueError.
Proof.
  intros imem r tself ttype Hne H. apply Nat.eqb_neq in Hne. unfold cast_result.
  destruct H as [->|[i [-> Hi]]]; [|rewrite Hi]; rewrite Hne; reflexivity.
Qed.

Lemma cast_same_type_returns_self : forall imem r t,
  (r = None \/ exists i, r = Some i /\ imem i 0 = false) -> cast_result imem r t t = CSelf.
Proof.
  intros imem r t H. unfold cast_result.
  destruct H as [->|[i [-> Hi]]]; [|rewrite Hi]; rewrite Nat.eqb_refl; reflexivity.
Qed.

(* distinct class objects with one name are indistinguishable to the lookup: the identity-level reading needs
   distinct names (it holds for the builtin classes, below) *)
Lemma same_name_classes_alias : exists (cn : cls -> string) dl c,
  dspec cn (map (fun d => (cn (fst d), snd d)) dl) c <> decl_lookup dl c.
Proof. exists (fun _ => "X"%string), [(0, 10)], 1. vm_compute. discriminate. Qed.

(* ================= the data generated from the C sources ================= *)

Fixpoint nodupb {A} (eqb : A -> A -> bool) (l : list A) : bool :=
  match l with [] => true | x :: r => negb (existsb (eqb x) r) && nodupb eqb r end.

Lemma nodupb_sound : forall {A} (eqb : A -> A -> bool), (forall a, eqb a a = true) ->
  forall l, nodupb eqb l = true -> NoDup l.
Proof.
  intros A eqb Hr. induction l as [|x r IH]; intro H; [constructor|].
  simpl in H. apply andb_true_iff in H. destruct H as [H1 H2]. constructor; [|apply IH; exact H2].
  intro Hin. apply negb_true_iff in H1.
  assert (existsb (eqb x) r = true) by (apply existsb_exists; exists x; split; auto).
  congruence.
Qed.

Section Names.
  Variable objs : list string.
  Hypothesis objs_nodup : NoDup objs.

  Lemma index_of_In : forall s, In s objs -> cn_of objs (index_of s objs) = s /\ index_of s objs < List.length objs.
  Proof.
    clear objs_nodup. unfold cn_of. induction objs as [|x r IH]; intros s Hin; [contradiction|]. simpl.
    destruct (String.eqb x s) eqn:E.
    - apply String.eqb_eq in E. subst. split; [reflexivity | lia].
    - destruct Hin as [->|Hin]; [rewrite String.eqb_refl in E; discriminate|].
      destruct (IH s Hin) as [H1 H2]. split; [exact H1 | lia].
  Qed.

  Lemma cn_of_inj : forall c c', c < List.length objs -> c' < List.length objs -> cn_of objs c = cn_of objs c' -> c = c'.
  Proof. intros c c' H H' E. unfold cn_of in E. eapply NoDup_nth; eauto. Qed.

  Lemma names_roundtrip : forall (names : list string) (ids : list inst), Forall (fun s => In s objs) names ->
    map (fun d => (cn_of objs (fst d), snd d)) (combine (map (fun s => index_of s objs) names) ids) = combine names ids.
  Proof.
    induction names as [|s r IH]; intros ids HF; simpl; auto.
    destruct ids as [|i ids]; simpl; auto. inversion HF; subst.
    f_equal; [|apply IH; assumption]. simpl. destruct (index_of_In s H1) as [-> _]. reflexivity.
  Qed.

  Lemma dspec_identity_objs : forall (names : list string) (ids : list inst) c,
    Forall (fun s => In s objs) names -> c < List.length objs ->
    dspec (cn_of objs) (combine names ids) c =
    decl_lookup (combine (map (fun s => index_of s objs) names) ids) c.
  Proof.
    intros names ids c HF Hc.
    rewrite <- (names_roundtrip names ids HF).
    apply dspec_decl_lookup. intros c' Hin Heq.
    assert (Hc' : c' < List.length objs).
    { apply in_map_iff in Hin. destruct Hin as [[a b] [Ha Hin]]. simpl in Ha; subst a.
      apply in_combine_l in Hin. apply in_map_iff in Hin. destruct Hin as [s [<- Hs]].
      eapply Forall_forall in HF; eauto. apply index_of_In; assumption. }
    apply cn_of_inj; auto.
  Qed.
End Names.

Definition cn_b : cls -> string := cn_of builtin_objects.
Definition wiring_b : list (nat * cls) := wiring_ids builtin_objects cache_wiring.
Definition builtin_decl_ids (insts : list (string * list bool)) : list (cls * inst) :=
  combine (map (fun s => index_of s builtin_objects) (map fst insts)) (seq 0 (List.length insts)).

Definition all_shapes_ok : bool :=
  disp_cache_entry_shape_ok && disp_type_instance_shape_ok && disp_type_scan_shape_ok && disp_implements_shape_ok &&
  disp_method_check_shape_ok && disp_implements_method_shape_ok && disp_cast_shape_ok && disp_declaration_shape_ok.

Definition generated_check : bool :=
  nodupb Nat.eqb (map fst cache_wiring)                                             (* no two entries share a slot *)
  && forallb (fun e => Nat.ltb (fst e) cello_cache_num) cache_wiring                (* slots lie inside the cache area *)
  && Nat.eqb (Nat.modulo cello_cache_num 3) 0                                       (* the area is whole triples *)
  && forallb (fun e => existsb (fun c => String.eqb (fst c) (snd e)) builtin_classes) cache_wiring
  && nodupb String.eqb builtin_objects                                              (* distinct classes, distinct names *)
  && forallb (fun c => existsb (String.eqb (fst c)) builtin_objects) builtin_classes
  && forallb (fun t => existsb (String.eqb (fst t)) builtin_objects) builtin_types
  && forallb (fun t => forallb (fun i => existsb (fun c => String.eqb (fst c) (fst i) &&
                                                           Nat.eqb (snd c) (List.length (snd i))) builtin_classes)
                                (snd t)) builtin_types                              (* instances are of class structs *)
  && all_shapes_ok.

Lemma generated_check_true : generated_check = true.
Proof. vm_compute. reflexivity. Qed.

Lemma generated_facts :
  NoDup (map fst cache_wiring) /\
  (forall i n, In (i, n) cache_wiring -> i < cello_cache_num /\ exists k, In (n, k) builtin_classes) /\
  Nat.modulo cello_cache_num 3 = 0 /\
  NoDup builtin_objects /\
  (forall t insts, In (t, insts) builtin_types -> Forall (fun s => In s builtin_objects) (map fst insts)) /\
  all_shapes_ok = true.
Proof.
  pose proof generated_check_true as H. unfold generated_check in H.
  repeat (apply andb_true_iff in H; let H' := fresh "H" in destruct H as [H H']).
  split; [apply (nodupb_sound Nat.eqb Nat.eqb_refl); assumption|].
  split.
  { intros i n Hin. split.
    - rewrite forallb_forall in H7. apply H7 in Hin. apply Nat.ltb_lt in Hin. exact Hin.
    - rewrite forallb_forall in H5. apply H5 in Hin. apply existsb_exists in Hin.
      destruct Hin as [[c k] [Hc He]]. cbn [fst snd] in He. apply String.eqb_eq in He. subst. exists k; exact Hc. }
  split; [apply Nat.eqb_eq; assumption|].
  split; [apply (nodupb_sound String.eqb String.eqb_refl); assumption|].
  split; [|assumption].
  intros t insts Hin. apply Forall_forall. intros s Hs. apply in_map_iff in Hs. destruct Hs as [[s' m] [<- Hs]].
  rewrite forallb_forall in H1. apply H1 in Hin. cbn [snd] in Hin. rewrite forallb_forall in Hin. apply Hin in Hs.
  apply existsb_exists in Hs. destruct Hs as [[c k] [Hc He]]. cbn [fst snd] in He. apply andb_true_iff in He. destruct He as [He _].
  apply String.eqb_eq in He. subst.
  rewrite forallb_forall in H3. apply H3 in Hc. apply existsb_exists in Hc. destruct Hc as [o [Ho Heq]].
  cbn [fst] in Heq. apply String.eqb_eq in Heq. subst. exact Ho.
Qed.

Lemma wiring_b_nodup : NoDup (map fst wiring_b).
Proof. unfold wiring_b, wiring_ids. rewrite map_map. simpl. apply generated_facts. Qed.

Lemma wiring_b_bound : forall i c, In (i, c) wiring_b -> i < cello_cache_num.
Proof.
  intros i c Hin. unfold wiring_b, wiring_ids in Hin. apply in_map_iff in Hin. destruct Hin as [[j n] [He Hin]].
  simpl in He. inversion He; subst. destruct generated_facts as [_ [H _]]. apply (H i n Hin).
Qed.

(* every builtin type, every history of lookups of builtin objects used as classes: the instance the type declared for
   that class, by class IDENTITY *)
Lemma builtin_every_history : forall tname insts h, In (tname, insts) builtin_types ->
  Forall (fun kc => snd kc < List.length builtin_objects) h ->
  exists T', run_history cn_b wiring_b cache_write_skips_null cache_fetch_rereads (cold_type cello_cache_num (builtin_decl insts)) h =
             Some (T', map (fun kc => decl_lookup (builtin_decl_ids insts) (snd kc)) h).
Proof.
  intros tname insts h Hin HF.
  destruct (every_history_from_cold cn_b wiring_b cache_write_skips_null cache_fetch_rereads cello_cache_num wiring_b_nodup wiring_b_bound (builtin_decl insts) h)
    as [T' [H _]].
  exists T'. rewrite H. f_equal. f_equal. apply map_ext_in. intros [k c] Hkc. simpl.
  destruct generated_facts as [_ [_ [_ [Hnd [Hnames _]]]]].
  unfold builtin_decl, builtin_decl_ids, cn_b.
  apply dspec_identity_objs; auto.
  - eapply Hnames; eauto.
  - eapply Forall_forall in HF; eauto. exact HF.
Qed.

(* the two hypotheses on the wiring are needed: with two classes on one slot a warm lookup returns the other class's
   instance; with a slot outside the cache area the write lands outside it *)
Lemma shared_slot_breaks_lookup : exists cn wiring D h,
  ~ NoDup (map fst wiring) /\
  exists T' r, run_history cn wiring false false (cold_type 2 D) h = Some (T', r) /\ r <> map (fun kc => dspec cn D (snd kc)) h.
Proof.
  exists (fun c => if Nat.eqb c 5 then "A" else "B")%string, [(0, 5); (0, 7)], [("A", 1); ("B", 2)]%string,
         [(KInstance, 5); (KInstance, 7)].
  split.
  - intro H. inversion H as [|? ? Hn _]; subst. apply Hn. simpl; auto.
  - eexists. eexists. split; [vm_compute; reflexivity | vm_compute; discriminate].
Qed.

Lemma slot_outside_cache_corrupts : exists cn wiring D c,
  lookup cn wiring false false KInstance c (cold_type 1 D) = RCrash.
Proof. exists (fun _ => "A"%string), [(1, 5)], [("A"%string, 1)], 5. vm_compute. reflexivity. Qed.

(* ================= run-time types: a new type starts cold whatever block it is built in ================= *)

Lemma fresh_type_is_cold : forall zeroed cleared ncache garbage D,
  zeroed = true \/ ncache <= cleared -> List.length garbage = ncache ->
  fresh_type zeroed cleared ncache garbage D = cold_type ncache D.
Proof.
  intros zeroed cleared ncache garbage D H Hl. unfold fresh_type, cold_type.
  destruct zeroed; [reflexivity|]. destruct H as [H|H]; [discriminate|].
  rewrite Nat.min_r by exact H. rewrite skipn_all2 by lia. rewrite app_nil_r. reflexivity.
Qed.

Definition fresh_check : bool := type_alloc_zeroed || Nat.leb cello_cache_num type_new_cleared_words.

Lemma fresh_check_true : fresh_check = true.
Proof. vm_compute. reflexivity. Qed.

Lemma generated_fresh_type_cold : forall garbage D, List.length garbage = cello_cache_num ->
  fresh_type type_alloc_zeroed type_new_cleared_words cello_cache_num garbage D = cold_type cello_cache_num D.
Proof.
  intros garbage D Hl. apply fresh_type_is_cold; [|exact Hl].
  pose proof fresh_check_true as H. unfold fresh_check in H. apply orb_true_iff in H.
  destruct H as [H|H]; [left; exact H | right; apply Nat.leb_le; exact H].
Qed.

(* lookups on a freshly built run-time type depend on its own declaration only, not on what the block held before *)
Lemma fresh_type_every_history : forall cn wiring skipnull reread,
  NoDup (map fst wiring) -> (forall i c, In (i, c) wiring -> i < cello_cache_num) ->
  forall garbage D h, List.length garbage = cello_cache_num ->
  exists T', run_history cn wiring skipnull reread
               (fresh_type type_alloc_zeroed type_new_cleared_words cello_cache_num garbage D) h
             = Some (T', map (fun kc => dspec cn D (snd kc)) h).
Proof.
  intros cn wiring skipnull reread Hn Hb garbage D h Hl. rewrite (generated_fresh_type_cold garbage D Hl).
  destruct (every_history_from_cold cn wiring skipnull reread cello_cache_num Hn Hb D h) as [T' [H _]].
  exists T'. exact H.
Qed.

(* clearing only part of the cache words of a recycled block is not enough *)
Lemma partial_clear_breaks_fresh_type : exists cn wiring garbage D h,
  NoDup (map fst wiring) /\ (forall i c, In (i, c) wiring -> i < 2) /\ List.length garbage = 2 /\
  exists T' r, run_history cn wiring false false (fresh_type false 1 2 garbage D) h = Some (T', r) /\
               r <> map (fun kc => dspec cn D (snd kc)) h.
Proof.
  exists (fun c => if Nat.eqb c 5 then "A" else "B")%string, [(0, 5); (1, 7)], [Some 40; Some 41], [("A", 1)]%string,
         [(KInstance, 7)].
  split; [repeat constructor; simpl; intuition discriminate|].
  split; [intros i c [H|[H|[]]]; inversion H; subst; auto|].
  split; [reflexivity|].
  eexists. eexists. split; [vm_compute; reflexivity | vm_compute; discriminate].
Qed.
