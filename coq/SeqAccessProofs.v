(* SeqAccessProofs.v — the sequence models have no hidden access state: a read (get, mem) returns
   the state it got, for EVERY state, so reads interleaved anywhere in an operation sequence change
   neither the final state nor the outcome of any other operation.  (An implementation that caches
   a cursor between indexed accesses, or re-balances on reads, must therefore be unobservable;
   seeded change C04-r5-2 is the counterexample on the C side.)  Property C04. *)
From Coq Require Import List Arith Bool ZArith Lia.
From CelloV Require Import SeqModels.
Import ListNotations.

Section ReadsArePure.
  Variable E : Type.
  Variable eqb ltb same : E -> E -> bool.
  Variable zero : E.
  Variables gc sc : nat -> nat -> bool.
  Variables gs ss : nat -> nat -> nat.

  Ltac crush :=
    repeat match goal with
           | |- context [match ?x with _ => _ end] => destruct x
           | |- context [if ?x then _ else _] => destruct x
           end; reflexivity.

  Lemma a_read_pure a o : is_read E o = true -> fst (a_step E eqb ltb gc sc gs ss a o) = a.
  Proof. destruct o; simpl; try discriminate; intros _; cbn [a_step]; crush. Qed.

  Lemma l_read_pure l o : is_read E o = true -> fst (l_step E eqb zero l o) = l.
  Proof. destruct o; simpl; try discriminate; intros _; cbn [l_step]; crush. Qed.

  Lemma t_read_pure t o : is_read E o = true -> fst (t_step E eqb ltb same t o) = t.
  Proof.
    destruct o; simpl; try discriminate; intros _; unfold t_step;
      (destruct (t_len E t); [|reflexivity]); crush.
  Qed.
End ReadsArePure.

Section Interleaving.
  Variable E : Type.
  Variable St : Type.
  Variable step : St -> sop E -> St * out E.
  Hypothesis read_pure : forall s o, is_read E o = true -> fst (step s o) = s.

  (* dropping every read from a history changes neither the final state nor what the remaining
     operations return *)
  Theorem reads_do_not_disturb : forall (ops : list (sop E)) (s : St),
    final E St step s ops = final E St step s (filter (is_write E) ops) /\
    filter (fun p => is_write E (fst p)) (trace E St step s ops) =
      trace E St step s (filter (is_write E) ops).
  Proof.
    induction ops as [|o ops IH]; intros s; [split; reflexivity|].
    unfold is_write in *. simpl. destruct (is_read E o) eqn:Hr; simpl.
    - rewrite (read_pure s o Hr). apply IH.
    - destruct (IH (fst (step s o))) as [H1 H2]. split; [exact H1 | f_equal; exact H2].
  Qed.

  (* hence two histories with the same writes in the same order end in the same state and give the
     same results for the writes, wherever their reads are *)
  Corollary same_writes_same_results (ops ops' : list (sop E)) (s : St) :
    filter (is_write E) ops = filter (is_write E) ops' ->
    final E St step s ops = final E St step s ops' /\
    filter (fun p => is_write E (fst p)) (trace E St step s ops) =
      filter (fun p => is_write E (fst p)) (trace E St step s ops').
  Proof.
    intros H. destruct (reads_do_not_disturb ops s) as [A1 A2].
    destruct (reads_do_not_disturb ops' s) as [B1 B2]. rewrite A1, A2, B1, B2, H. split; reflexivity.
  Qed.

  (* and a read returns the same whether or not other reads were made before it *)
  Corollary read_result_independent_of_reads (pre : list (sop E)) (o : sop E) (s : St) :
    snd (step (final E St step s pre) o) = snd (step (final E St step s (filter (is_write E) pre)) o).
  Proof. destruct (reads_do_not_disturb pre s) as [H _]. rewrite H. reflexivity. Qed.
End Interleaving.
