(* Extraction of the registry model (C17) and of its specification (led_list) for the
   correspondence driver.  ExtrOcamlBasic only; numbers stay the extracted inductive types. *)
From Coq Require Import List Arith NArith ZArith Extraction ExtrOcamlBasic.
From CelloV Require Import Generated RobinHood RegistryModel.

(* GC_Hash as written in the source: ptr >> gc_hash_shift *)
Definition rg_hash (p : N) : N := N.shiftr p gc_hash_shift.

(* ownership links of a case: association list, first match *)
Fixpoint rg_owns (l : list (N * list N)) (p : N) : list N :=
  match l with
  | nil => nil
  | (q, ts) :: r => if N.eqb q p then ts else rg_owns r p
  end.

Fixpoint rg_spawns (l : list (N * list dact)) (p : N) : list dact :=
  match l with
  | nil => nil
  | (q, ts) :: r => if N.eqb q p then ts else rg_spawns r p
  end.

Definition rg_init : gc := gc_init.
Definition rg_step (ow : list (N * list N)) (sp : list (N * list dact)) (rem_fin null_first : bool) :=
  gc_step rg_hash gc_swap gc_primes gc_load_num gc_load_den (rg_owns ow) (rg_spawns sp) rem_fin null_first.
Definition rg_mem := gc_mem rg_hash.
Definition rg_rem_fin := gc_rem_fin.
Definition rg_null_first := gc_null_first.
Definition rg_led := led_list.
Definition rg_led_step := led_step.   (* led_list (e :: l) = led_step e (led_list l) by definition *)
Definition rg_ideal := ideal_size gc_primes gc_load_num gc_load_den.
Definition n_add := N.add.
Definition n_mul := N.mul.
Definition n_ltb := N.ltb.
Definition n_eqb := N.eqb.
Definition n_sub := N.sub.
Definition n_div := N.div.
Definition z_add := Z.add.   (* ocaml/conv.ml.inc mentions the type z *)

Extraction Language OCaml.
Extraction "../ocaml/gen/Registry.ml" rg_init rg_step rg_mem rg_rem_fin rg_null_first rg_led rg_led_step rg_ideal
  rg_hash slots nitems mitems minptr maxptr running pending evs
  n_add n_mul n_ltb n_eqb n_sub n_div z_add uintptr_max.
