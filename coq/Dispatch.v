(* Dispatch.v — executable model of Cello's type-class dispatch (src/Type.c), property C08.
   NO proofs here (they live in DispatchProofs.v) so that the model keeps running when a proof breaks.

   A type object is, after its header,
       CELLO_CACHE_NUM cache words | ("__Name", name) | ("__Size", size) | (cls, name, inst)* | (NULL,NULL,NULL)
   (include/Cello.h CelloObject / Instance, src/Type.c Type_New).  Only two kinds of words are ever written after
   the type has been built: the cache words (Type_Cache_Entry) and the `cls` word of a triple, which memoises the class
   POINTER for which the NAME comparison succeeded (Type_Scan).  Class names and instance pointers never change.

   A lookup is modelled as SMALL STEPS, each containing at most one access to a mutable shared word, so that every
   interleaving of lookups running in several threads is expressible (aligned word reads/writes are taken to be atomic;
   this assumption is named in the manifest).

   Pointers are modelled by identities: classes and instances are natural numbers; NULL is `None`.
   `cn c` is the name stored in class object c (Type_Builtin_Name(cls)). *)
From Coq Require Import List Arith String Bool.
Import ListNotations.

Definition cls := nat.
Definition inst := nat.

Record triple := mkTriple { t_memo : option cls;   (* struct Type .cls : NULL until a name scan hit this triple *)
                            t_name : string;       (* .name : #Class, or c_str(type_of(ins)) for run-time types *)
                            t_inst : inst }.       (* .inst *)

Record trec := mkTrec { cache : list (option inst);   (* ((var* )self)[0 .. CELLO_CACHE_NUM-1] *)
                        trips : list triple }.        (* self + CELLO_NBUILTINS ... up to the NULL triple *)

Inductive dexn := ClassError | ValueError.

(* which entry point: Type_Instance (instance, type_instance, method_at_offset, type_method_at_offset, cast)
   consults the cache; Type_Scan alone serves implements, type_implements, (type_)implements_method_at_offset *)
Inductive kind := KInstance | KScan.

(* program counter of one lookup *)
Inductive pc :=
| PStart (k : kind)                         (* entry: compare cls against the wired literals (no shared access) *)
| PCacheRead (i : nat)                      (* var inst = ((var* )self)[i]; *)
| PPtrScan (k : nat) (slot : option nat)    (* first loop of Type_Scan, at triple k:  t->cls is cls ? *)
| PNameScan (k : nat) (slot : option nat)   (* second loop, at triple k: strcmp(t->name, name(cls)) is 0 ? t->cls = cls *)
| PCacheWrite (i : nat) (v : option inst)   (* ((var* )self)[i] = inst; *)
| PCacheReread (i : nat)                    (* return *slot;  -- the word is read again (Type_Cache_Fetch form) *)
| PDone (v : option inst).                  (* return inst *)

Definition opt_cls_eqb (a : option cls) (c : cls) : bool :=
  match a with Some x => Nat.eqb x c | None => false end.

Fixpoint set_nth {A} (k : nat) (f : A -> A) (l : list A) : list A :=
  match l, k with
  | [], _ => []
  | x :: r, O => f x :: r
  | x :: r, S k' => x :: set_nth k' f r
  end.

Definition set_memo (k : nat) (c : cls) (ts : list triple) : list triple :=
  set_nth k (fun t => mkTriple (Some c) (t_name t) (t_inst t)) ts.

Section Model.
  Variable cn : cls -> string.             (* Type_Builtin_Name(cls) *)
  Variable wiring : list (nat * cls).      (* the Type_Cache_Entry(i, Class) lines, in order *)
  (* two equivalent shapes of the cache entry that the translator recognises (tools/genx_disp.py):
     skipnull : the scan result is stored only when it is not NULL  (`if (inst isnt NULL) { slots[i] = inst; }`)
     reread   : the entry returns the cache word read once more     (`... *slot = Type_Scan(self, cls); return *slot;`) *)
  Variable skipnull reread : bool.

  (* the chain of `if (cls is lit)` tests: first literal equal to cls decides the slot *)
  Fixpoint wired_slot (w : list (nat * cls)) (c : cls) : option nat :=
    match w with
    | [] => None
    | (i, l) :: r => if Nat.eqb c l then Some i else wired_slot r c
    end.

  (* leaving Type_Scan: back in the cache entry (write the word) or straight out *)
  Definition finish (slot : option nat) (v : option inst) : pc :=
    match slot with Some i => PCacheWrite i v | None => PDone v end.

  (* one small step of a lookup of class c on type record T.  None = the step touches a word outside the cache area
     (slot index >= CELLO_CACHE_NUM would alias the "__Name" entry and the triples): memory corruption. *)
  Definition step (c : cls) (T : trec) (p : pc) : option (trec * pc) :=
    match p with
    | PStart KScan => Some (T, PPtrScan 0 None)
    | PStart KInstance =>
        match wired_slot wiring c with
        | Some i => Some (T, PCacheRead i)
        | None => Some (T, PPtrScan 0 None)
        end
    | PCacheRead i =>
        match nth_error (cache T) i with
        | None => None
        | Some (Some v) => Some (T, if reread then PCacheReread i else PDone (Some v))
        | Some None => Some (T, PPtrScan 0 (Some i))
        end
    | PPtrScan k slot =>
        match nth_error (trips T) k with
        | None => Some (T, PNameScan 0 slot)                       (* t->name is NULL: end of first loop *)
        | Some t => if opt_cls_eqb (t_memo t) c
                    then Some (T, finish slot (Some (t_inst t)))
                    else Some (T, PPtrScan (S k) slot)
        end
    | PNameScan k slot =>
        match nth_error (trips T) k with
        | None => Some (T, finish slot None)                       (* return NULL *)
        | Some t => if String.eqb (t_name t) (cn c)
                    then Some (mkTrec (cache T) (set_memo k c (trips T)), finish slot (Some (t_inst t)))
                    else Some (T, PNameScan (S k) slot)
        end
    | PCacheWrite i v =>
        let next := if reread then PCacheReread i else PDone v in
        match v with
        | None => if skipnull then Some (T, next)
                  else if Nat.ltb i (List.length (cache T))
                       then Some (mkTrec (set_nth i (fun _ => v) (cache T)) (trips T), next) else None
        | Some _ => if Nat.ltb i (List.length (cache T))
                    then Some (mkTrec (set_nth i (fun _ => v) (cache T)) (trips T), next) else None
        end
    | PCacheReread i =>
        match nth_error (cache T) i with
        | None => None
        | Some w => Some (T, PDone w)
        end
    | PDone v => Some (T, PDone v)
    end.

  Inductive rres := ROk (T : trec) (v : option inst) | RCrash | RFuel.

  Fixpoint run (fuel : nat) (c : cls) (T : trec) (p : pc) : rres :=
    match p with
    | PDone v => ROk T v
    | _ => match fuel with
           | O => RFuel
           | S f => match step c T p with
                    | None => RCrash
                    | Some (T', p') => run f c T' p'
                    end
           end
    end.

  (* enough for start, cache read, both loops (n+1 tests each), cache write, cache re-read *)
  Definition fuel_for (T : trec) : nat := 2 * List.length (trips T) + 6.

  Definition lookup (k : kind) (c : cls) (T : trec) : rres := run (fuel_for T) c T (PStart k).

  (* ---- what the type DECLARES: first triple whose class NAME is the name of c ---- *)
  Definition spec_lookup (ts : list triple) (c : cls) : option inst :=
    option_map t_inst (find (fun t => String.eqb (t_name t) (cn c)) ts).

  (* ---- members: imem i m = member m of instance i is non-NULL ---- *)
  Variable imem : inst -> nat -> bool.

  Inductive mres := MInvoke (i : inst) (m : nat)   (* the macro goes on to call ((struct C* )inst)->M(...) *)
                  | MRaise (e : dexn)
                  | MCrash.                        (* CELLO_METHOD_CHECK == 0: call through NULL *)

  (* Type_Method_At_Offset after its Type_Instance call; check = CELLO_METHOD_CHECK *)
  Definition method_result (check : bool) (r : option inst) (m : nat) : mres :=
    match r with
    | None => if check then MRaise ClassError else MCrash
    | Some i => if imem i m then MInvoke i m else if check then MRaise ClassError else MCrash
    end.

  (* Type_Implements_Method_At_Offset after its Type_Scan call *)
  Definition implements_method_result (r : option inst) (m : nat) : bool :=
    match r with None => false | Some i => imem i m end.

  Inductive cres := CSelf | CCustom (i : inst) | CRaise (e : dexn).

  (* cast(self, type) after `instance(self, Cast)`; tself = type_of(self) *)
  Definition cast_result (r : option inst) (tself ttype : nat) : cres :=
    match r with
    | Some i => if imem i 0 then CCustom i
                else if Nat.eqb tself ttype then CSelf else CRaise ValueError
    | None => if Nat.eqb tself ttype then CSelf else CRaise ValueError
    end.

  (* ---- several threads ---- *)
  Record thread := mkThread { th_todo : list (kind * cls);
                              th_cur : option (cls * pc);
                              th_log : list (cls * option inst) }.   (* finished lookups, oldest first *)

  Definition sys := (trec * list thread)%type.

  (* thread tid performs its next small step; None = memory corruption (see step) *)
  Definition thread_step (T : trec) (th : thread) : option (trec * thread) :=
    match th_cur th with
    | None => match th_todo th with
              | [] => Some (T, th)
              | (k, c) :: r => Some (T, mkThread r (Some (c, PStart k)) (th_log th))
              end
    | Some (c, PDone v) => Some (T, mkThread (th_todo th) None (th_log th ++ [(c, v)]))
    | Some (c, p) => match step c T p with
                     | None => None
                     | Some (T', p') => Some (T', mkThread (th_todo th) (Some (c, p')) (th_log th))
                     end
    end.

  Definition sys_step (s : sys) (tid : nat) : option sys :=
    let (T, ths) := s in
    match nth_error ths tid with
    | None => Some s
    | Some th => match thread_step T th with
                 | None => None
                 | Some (T', th') => Some (T', set_nth tid (fun _ => th') ths)
                 end
    end.

  Fixpoint run_sched (sched : list nat) (s : sys) : option sys :=
    match sched with
    | [] => Some s
    | tid :: r => match sys_step s tid with None => None | Some s' => run_sched r s' end
    end.

  Definition idle_thread (todo : list (kind * cls)) : thread := mkThread todo None [].

  (* ---- executable form of the invariant (evaluated by the driver after every step as a sanity check;
          DispatchProofs.v proves it is preserved) ---- *)
  Fixpoint first_index (f : triple -> bool) (ts : list triple) : option nat :=
    match ts with
    | [] => None
    | t :: r => if f t then Some 0 else option_map S (first_index f r)
    end.

  Definition opt_inst_eqb (a : option inst) (v : inst) : bool :=
    match a with Some x => Nat.eqb x v | None => false end.

  (* every filled cache word i holds the declared instance of the class whose lookups use slot i *)
  Definition check_cache (T : trec) : bool :=
    forallb (fun iv => match snd iv with
                       | None => true
                       | Some v => forallb (fun c => match wired_slot wiring c with
                                                     | Some j => if Nat.eqb j (fst iv)
                                                                 then opt_inst_eqb (spec_lookup (trips T) c) v
                                                                 else true
                                                     | None => true end) (map snd wiring)
                       end)
            (combine (seq 0 (List.length (cache T))) (cache T)).

  (* a memo word at triple k holds a class whose name has its FIRST match at k *)
  Definition check_memo (T : trec) : bool :=
    forallb (fun kt => match t_memo (snd kt) with
                       | None => true
                       | Some c => match first_index (fun t => String.eqb (t_name t) (cn c)) (trips T) with
                                   | Some j => Nat.eqb j (fst kt) | None => false end
                       end)
            (combine (seq 0 (List.length (trips T))) (trips T)).

  Definition check_inv (T : trec) : bool := check_cache T && check_memo T.
End Model.

(* a freshly declared (static) or freshly built (Type_New) type: every cache word and every memo word NULL *)
Definition cold_type (ncache : nat) (decl : list (string * inst)) : trec :=
  mkTrec (repeat None ncache) (map (fun d => mkTriple None (fst d) (snd d)) decl).

(* a run-time type right after Type_Alloc + Type_New: the block is zeroed by the allocator (calloc) or holds arbitrary
   previous contents `garbage` (a recycled block: the cache words of a deleted type), of which Type_New clears the
   first `cleared` words; the memo words are written NULL with each triple *)
Definition fresh_type (zeroed : bool) (cleared ncache : nat) (garbage : list (option inst))
                      (decl : list (string * inst)) : trec :=
  mkTrec (if zeroed then repeat None ncache else repeat None (Nat.min cleared ncache) ++ skipn cleared garbage)
         (map (fun d => mkTriple None (fst d) (snd d)) decl).

(* ---- the declaration seen through class IDENTITIES (what the programmer wrote: Instance(Class, ...)) ---- *)
Fixpoint decl_lookup (dl : list (cls * inst)) (c : cls) : option inst :=
  match dl with
  | [] => None
  | (c', i) :: r => if Nat.eqb c' c then Some i else decl_lookup r c
  end.

Definition type_of_decl (cn : cls -> string) (ncache : nat) (dl : list (cls * inst)) : trec :=
  cold_type ncache (map (fun d => (cn (fst d), snd d)) dl).

(* ---- sequential histories: a list of lookups run one after the other ---- *)
Fixpoint run_history (cn : cls -> string) (wiring : list (nat * cls)) (skipnull reread : bool) (T : trec) (h : list (kind * cls))
  : option (trec * list (option inst)) :=
  match h with
  | [] => Some (T, [])
  | (k, c) :: r => match lookup cn wiring skipnull reread k c T with
                   | ROk T' v => match run_history cn wiring skipnull reread T' r with
                                 | Some (T'', vs) => Some (T'', v :: vs)
                                 | None => None
                                 end
                   | _ => None
                   end
  end.

(* ---- helpers to instantiate the model with the data generated from the source ---- *)
Fixpoint index_of (s : string) (l : list string) : nat :=
  match l with
  | [] => 0
  | x :: r => if String.eqb x s then 0 else S (index_of s r)
  end.

Definition wiring_ids (objs : list string) (w : list (nat * string)) : list (nat * cls) :=
  map (fun e => (fst e, index_of (snd e) objs)) w.

Definition cn_of (objs : list string) (c : cls) : string := nth c objs EmptyString.

(* instance identity of a builtin type's k-th declared instance = k *)
Definition builtin_decl (insts : list (string * list bool)) : list (string * inst) :=
  combine (map fst insts) (seq 0 (List.length insts)).

Definition builtin_imem (insts : list (string * list bool)) (i : inst) (m : nat) : bool :=
  nth m (snd (nth i insts (EmptyString, []))) false.
