(* Extraction of the Table model and its specification for the correspondence driver.
   ExtrOcamlBasic only: bool, option, unit, list, prod, sumbool map to OCaml's; numbers
   stay the extracted inductive types. *)
From Coq Require Import List Arith NArith ZArith Extraction ExtrOcamlBasic.
From CelloV Require Import Generated RobinHood TableModel TableLayout.

Definition zt_table := table Z Z.
Definition zt_empty : zt_table := t_empty Z Z table_primes table_load_num table_load_den.
Definition zt_new (hash : Z -> N) := t_new Z Z Z.eqb hash table_swap table_primes table_load_num table_load_den.
Definition zt_step (hash : Z -> N) := t_step Z Z Z.eqb hash table_swap table_primes table_load_num table_load_den.
Definition zt_iter := t_iter Z Z.
Definition zt_slots (t : zt_table) := slots Z Z t.
Definition zt_nitems (t : zt_table) := nitems Z Z t.
Definition zs_step := spec_step Z Z Z.eqb.
Definition zt_ideal := ideal_size table_primes table_load_num table_load_den.
Definition gc_ideal := ideal_size gc_primes gc_load_num gc_load_den.

Definition int_hash (k : Z) : N := Z.to_N (k mod 18446744073709551616)%Z.
Definition z_ltb := Z.ltb.
Definition zt_size_round := size_round.
Definition zt_slot_body := slot_body.

Extraction Language OCaml.
Extraction "../ocaml/gen/Table.ml" zt_empty zt_new zt_step zt_iter zt_slots zt_nitems zs_step zt_ideal gc_ideal int_hash z_ltb zt_size_round zt_slot_body.
