(* FileText.v — the text part of property C20 on FileModel.v: records written by
   print_to(f, 0, "%ld %s\n", k, w) are scanned back identical by scan_from(f, 0, "%ld %s\n", …)
   after reopening the file.  What vfprintf makes of k and w is not modelled here (C14): a record
   is the bytes  [sign] digits SP word NL  with a word free of white space; the theorem is about
   the four vfscanf directives "%ld" " " "%s" "\n" as modelled by scan_rec, for every
   classification of bytes in which white space, digits and signs are disjoint. *)
From Coq Require Import List Arith Bool ZArith Lia.
From CelloV Require Import FileModel FileProofs FileRoundTrip.
Import ListNotations.

Section Text.
  Variable B : Type.
  Variable zero : B.
  Variables is_ws is_digit is_sign : B -> bool.
  Variable creatable : nat -> bool.
  Variable close_fails : nat -> bool.
  Variables sp nl : B.

  Hypothesis ws_not_digit : forall b, is_ws b = true -> is_digit b = false.
  Hypothesis digit_not_sign : forall b, is_digit b = true -> is_sign b = false.
  Hypothesis sign_not_ws : forall b, is_sign b = true -> is_ws b = false.
  Hypothesis sp_ws : is_ws sp = true.
  Hypothesis nl_ws : is_ws nl = true.

  Notation sstep := (spec_step B zero is_ws is_digit is_sign creatable close_fails).
  Notation srun := (spec_run B zero is_ws is_digit is_sign creatable close_fails).
  Notation sworld := (sworld B).
  Notation out := (out B).
  Notation scan := (scan_rec B is_ws is_digit is_sign).
  Notation spanB := (span B).

  Record trec := mkR { r_sign : list B; r_digits : list B; r_word : list B }.

  Definition well_formed (r : trec) : Prop :=
    (r_sign r = [] \/ exists s, r_sign r = [s] /\ is_sign s = true) /\
    r_digits r <> [] /\ Forall (fun b => is_digit b = true) (r_digits r) /\
    r_word r <> [] /\ Forall (fun b => is_ws b = false) (r_word r).

  Definition num_of (r : trec) : list B := r_sign r ++ r_digits r.
  Definition text_of (r : trec) : list B := num_of r ++ [sp] ++ r_word r ++ [nl].

  Definition starts_not (p : B -> bool) (l : list B) : Prop :=
    match l with [] => True | b :: _ => p b = false end.

  Lemma span_all : forall p l rest,
    Forall (fun b => p b = true) l -> starts_not p rest -> spanB p (l ++ rest) = (l, rest).
  Proof.
    intros p l rest Hl Hr. induction Hl as [|b l Hb Hl IH]; simpl.
    - destruct rest as [|c rest]; simpl in *; auto. rewrite Hr. auto.
    - rewrite Hb, IH. auto.
  Qed.

  Lemma span_none : forall p l, starts_not p l -> spanB p l = ([], l).
  Proof. intros p l H. apply (span_all p [] l); auto. Qed.

  Lemma digit_not_ws : forall b, is_digit b = true -> is_ws b = false.
  Proof. intros b H. destruct (is_ws b) eqn:E; auto. rewrite (ws_not_digit b E) in H. discriminate. Qed.

  Lemma text_starts_not_ws : forall r rest, well_formed r -> starts_not is_ws (text_of r ++ rest).
  Proof.
    intros r rest (Hs & Hd & Hdd & _). unfold text_of, num_of.
    destruct Hs as [-> | (s & -> & Hs)]; simpl.
    - destruct (r_digits r) as [|d dg]; [contradiction|]. simpl. inversion Hdd; subst. apply digit_not_ws; auto.
    - apply sign_not_ws; auto.
  Qed.

  Lemma texts_start_not_ws : forall rs, Forall well_formed rs -> starts_not is_ws (concat (map text_of rs)).
  Proof. intros rs H. destruct H; simpl; auto. apply text_starts_not_ws; auto. Qed.

  (* one scan_from over one record *)
  Lemma scan_one : forall r rest,
    well_formed r -> starts_not is_ws rest ->
    scan (text_of r ++ rest) = (Some (num_of r, r_word r), length (text_of r), at_end B rest).
  Proof.
    intros r rest Hwf Hrest.
    pose proof (text_starts_not_ws r rest Hwf) as Hstart.
    destruct Hwf as (Hs & Hd & Hdd & Hw & Hww).
    unfold scan_rec. rewrite (span_none is_ws _ Hstart).
    assert (Hnw : Forall (fun b => negb (is_ws b) = true) (r_word r)).
    { eapply Forall_impl; [|exact Hww]. simpl. intros b Hb. rewrite Hb. auto. }
    assert (Htail : spanB is_digit (r_digits r ++ [sp] ++ r_word r ++ [nl] ++ rest)
                    = (r_digits r, [sp] ++ r_word r ++ [nl] ++ rest)).
    { apply span_all; auto. simpl. apply ws_not_digit; auto. }
    assert (Hsp : spanB is_ws ([sp] ++ r_word r ++ [nl] ++ rest) = ([sp], r_word r ++ [nl] ++ rest)).
    { apply (span_all is_ws [sp]); auto.
      destruct (r_word r) as [|c wd]; [contradiction|]. simpl. inversion Hww; auto. }
    assert (Hwd : spanB (fun x => negb (is_ws x)) (r_word r ++ [nl] ++ rest) = (r_word r, [nl] ++ rest)).
    { apply span_all; auto. simpl. rewrite nl_ws. auto. }
    assert (Hnl : spanB is_ws ([nl] ++ rest) = ([nl], rest)).
    { apply (span_all is_ws [nl]); auto. }
    unfold text_of, num_of in *. rewrite <- !app_assoc.
    destruct Hs as [Hsg | (s & Hsg & Hss)]; rewrite Hsg in *.
    - destruct (r_digits r) as [|d dg] eqn:Ed; [contradiction|].
      assert (Hds : is_sign d = false) by (apply digit_not_sign; inversion Hdd; auto).
      rewrite !app_nil_l.
      change ((d :: dg) ++ [sp] ++ r_word r ++ [nl] ++ rest) with (d :: (dg ++ [sp] ++ r_word r ++ [nl] ++ rest)) at 1.
      cbv beta match. rewrite Hds.
      change (d :: (dg ++ [sp] ++ r_word r ++ [nl] ++ rest)) with ((d :: dg) ++ [sp] ++ r_word r ++ [nl] ++ rest).
      rewrite Htail. rewrite Hsp.
      destruct (r_word r ++ [nl] ++ rest) as [|c0 l0] eqn:El.
      { destruct (r_word r); [contradiction|discriminate]. }
      rewrite Hwd, Hnl. simpl. repeat (rewrite app_length; simpl).
      f_equal. f_equal. lia.
    - change ([s] ++ r_digits r ++ [sp] ++ r_word r ++ [nl] ++ rest) with (s :: (r_digits r ++ [sp] ++ r_word r ++ [nl] ++ rest)).
      cbv beta match. rewrite Hss. rewrite Htail.
      destruct (r_digits r) as [|d dg] eqn:Ed; [contradiction|].
      rewrite Hsp.
      destruct (r_word r ++ [nl] ++ rest) as [|c0 l0] eqn:El.
      { destruct (r_word r); [contradiction|discriminate]. }
      rewrite Hwd, Hnl. simpl. repeat (rewrite app_length; simpl).
      f_equal. f_equal. lia.
  Qed.

  Notation srun_app := (srun_app B zero is_ws is_digit is_sign creatable close_fails).
  Notation srun_cons := (srun_cons B zero is_ws is_digit is_sign creatable close_fails).
  Notation srun_one := (srun_one B zero is_ws is_digit is_sign creatable close_fails).
  Notation srun_nil := (srun_nil B zero is_ws is_digit is_sign creatable close_fails).

  Definition printed (t : list B) : out := OkUnit B.
  Definition scanned (r : trec) : out := OkScan B (num_of r) (r_word r).
  Definition nonempty {A} (l : list A) : bool := match l with [] => false | _ => true end.

  (* print_to at the end of the file *)
  Lemma sprints : forall i ts (a : sworld) s,
    sw_objs B a i = SOpen s -> m_write (s_mode s) = true ->
    s_pos s = length (content B (sw_fs B a) (s_path s)) ->
    exists (a' : sworld) s',
      srun a (map (OPrint B i) ts) = (a', map printed ts) /\
      sw_objs B a' i = SOpen s' /\ s_path s' = s_path s /\ s_mode s' = s_mode s /\ s_eof s' = s_eof s /\
      content B (sw_fs B a') (s_path s) = content B (sw_fs B a) (s_path s) ++ concat ts /\
      s_pos s' = length (content B (sw_fs B a') (s_path s)) /\
      (sw_fs B a (s_path s) <> None -> sw_fs B a' (s_path s) <> None).
  Proof.
    intros i ts. induction ts as [|d r IH]; intros a s Hi Hw Hp.
    - exists a, s. simpl. rewrite app_nil_r. repeat split; auto.
    - simpl. unfold s_on_open. rewrite Hi. rewrite Hw. simpl negb. cbv iota.
      unfold fwrite. rewrite Hw. simpl negb.
      destruct (length d =? 0) eqn:Hd.
      + destruct d as [|b d']; [|simpl in Hd; discriminate]. simpl.
        set (a1 := mkSW B (sw_fs B a) (upd (sw_objs B a) i (SOpen s)) (sw_stack B a)).
        destruct (IH a1 s) as (a' & s' & Hr & H1 & H2 & H3 & H4 & H5 & H6 & H7); auto.
        { unfold a1; simpl. apply upd_same. }
        exists a', s'. rewrite Hr.
        split; [reflexivity|]. split; [auto|]. split; [auto|]. split; [auto|]. split; [auto|].
        split; [auto|]. split; [auto|]. exact H7.
      + apply Nat.eqb_neq in Hd. simpl.
        set (c := content B (sw_fs B a) (s_path s)) in *.
        assert (Hat : (if m_append (s_mode s) then length c else s_pos s) = length c)
          by (destruct (m_append (s_mode s)); auto).
        rewrite Hat. rewrite write_at_end.
        set (s1 := set_pos s (length c + length d) (s_eof s)).
        set (a1 := mkSW B (upd (sw_fs B a) (s_path s) (Some (c ++ d))) (upd (sw_objs B a) i (SOpen s1)) (sw_stack B a)).
        destruct (IH a1 s1) as (a' & s' & Hr & H1 & H2 & H3 & H4 & H5 & H6 & H7); auto.
        { unfold a1; simpl. apply upd_same. }
        { unfold a1, s1; simpl. rewrite content_upd, app_length. auto. }
        exists a', s'. rewrite Hr.
        unfold a1, s1 in H2, H3, H4, H5, H6, H7. simpl in H2, H3, H4, H5, H6, H7.
        rewrite content_upd in H5.
        split; [reflexivity|]. split; [auto|]. split; [auto|]. split; [auto|]. split; [auto|].
        split; [rewrite H5, <- app_assoc; auto|]. split; [auto|].
        intros _. apply H7. rewrite upd_same. discriminate.
  Qed.

  Lemma skipn_app_exact : forall (l r : list B), skipn (length l) (l ++ r) = r.
  Proof. induction l; simpl; auto. Qed.

  (* scan_from over the records that make up the rest of the file *)
  Lemma sscans : forall i rs (a : sworld) s,
    sw_objs B a i = SOpen s -> m_read (s_mode s) = true -> Forall well_formed rs ->
    skipn (s_pos s) (content B (sw_fs B a) (s_path s)) = concat (map text_of rs) ->
    exists (a' : sworld) s',
      srun a (map (fun _ => OScan B i) rs) = (a', map scanned rs) /\
      sw_objs B a' i = SOpen s' /\ s_path s' = s_path s /\ s_mode s' = s_mode s /\
      s_eof s' = (s_eof s || nonempty rs) /\ sw_fs B a' = sw_fs B a /\
      skipn (s_pos s') (content B (sw_fs B a) (s_path s)) = [].
  Proof.
    intros i rs. induction rs as [|r rs IH]; intros a s Hi Hr Hwf Hsk.
    - exists a, s. simpl. rewrite orb_false_r. repeat split; auto.
    - inversion Hwf as [|? ? Hr0 Hrs]; subst.
      simpl. unfold s_on_open. rewrite Hi. rewrite Hr. simpl negb. cbv iota.
      rewrite Hsk. simpl concat.
      rewrite (scan_one r (concat (map text_of rs)) Hr0 (texts_start_not_ws rs Hrs)).
      set (s1 := set_pos s (s_pos s + length (text_of r)) (s_eof s || at_end B (concat (map text_of rs)))).
      set (a1 := s_set B a i (SOpen s1)).
      destruct (IH a1 s1) as (a' & s' & Hrun & H1 & H2 & H3 & H4 & H5 & H6); auto.
      { unfold a1; simpl. apply upd_same. }
      { unfold a1, s1; simpl.
        rewrite <- (skipn_skipn' B (length (text_of r)) (s_pos s)). rewrite Hsk. simpl concat.
        apply skipn_app_exact. }
      exists a', s'. unfold a1, s1, s_set in Hrun, H2, H3, H4, H5, H6. simpl in Hrun, H2, H3, H4, H5, H6.
      unfold a1, s1, s_set. rewrite Hrun.
      split; [reflexivity|]. split; [auto|]. split; [auto|]. split; [auto|].
      split; [|split; auto].
      rewrite H4. destruct rs as [|r' rs']; simpl.
      + rewrite orb_false_r. auto.
      + rewrite orb_true_r. destruct (s_eof s); auto.
  Qed.

  Definition text_history (i p : nat) (mw mr : mode) (rs : list trec) : list (op B) :=
    OOpen B i p mw :: map (OPrint B i) (map text_of rs) ++ [OClose B i; OOpen B i p mr] ++
    map (fun _ => OScan B i) rs ++ [OEof B i; OScan B i].
  Definition text_outcome (rs : list trec) : list out :=
    OkUnit B :: map printed (map text_of rs) ++ [OkUnit B; OkUnit B] ++
    map scanned rs ++ [OkBool B (nonempty rs); ORaise B FFormatError].

  Theorem spec_text_roundtrip : forall i p mw mr rs (a : sworld),
    sw_objs B a i = SClosed -> creatable p = true -> close_fails p = false ->
    trunc_mode mw -> from_start_mode mr -> Forall well_formed rs ->
    snd (srun a (text_history i p mw mr rs)) = text_outcome rs.
  Proof.
    intros i p mw mr rs a Hi Hc Hcf Hmw Hmr Hwf. unfold text_history, text_outcome.
    assert (Hf : fopen B creatable (sw_fs B a) p mw = Some (upd (sw_fs B a) p (Some []), mkS p 0 false mw)).
    { unfold fopen. rewrite Hc. destruct Hmw as [-> | ->]; auto. }
    rewrite srun_cons. rewrite (sopen_closed B zero is_ws is_digit is_sign creatable close_fails a i p mw _ _ Hi Hf).
    set (a0 := mkSW B (upd (sw_fs B a) p (Some [])) (upd (sw_objs B a) i (SOpen (mkS p 0 false mw))) (sw_stack B a)).
    destruct (sprints i (map text_of rs) a0 (mkS p 0 false mw)) as (a1 & s1 & Hr & H1 & H2 & H3 & H4 & H5 & H6 & H7).
    { unfold a0; simpl. apply upd_same. }
    { simpl. destruct Hmw as [-> | ->]; auto. }
    { unfold a0; simpl. rewrite content_upd. auto. }
    simpl in H2, H3, H4, H5, H6, H7. unfold a0 in H5, H7. simpl in H5, H7. rewrite content_upd in H5. simpl in H5.
    rewrite srun_app, Hr. cbv beta match. rewrite srun_app.
    assert (Hcl : sstep a1 (OClose B i) = (s_set B a1 i SClosed, OkUnit B)).
    { apply (sclose_open B zero is_ws is_digit is_sign creatable close_fails a1 i s1 H1). rewrite H2; auto. }
    set (a2 := s_set B a1 i SClosed) in *.
    assert (Hne : sw_fs B a1 p <> None) by (apply H7; rewrite upd_same; discriminate).
    assert (Hex : exists c0, sw_fs B a2 p = Some c0).
    { unfold a2; simpl. destruct (sw_fs B a1 p) eqn:E; [eauto|contradiction]. }
    destruct Hex as [c0 Hc0].
    assert (Hop : exists fs3, fopen B creatable (sw_fs B a2) p mr = Some (fs3, mkS p 0 false mr) /\
                              content B fs3 p = concat (map text_of rs)).
    { unfold fopen. rewrite Hc. simpl negb. cbv iota.
      destruct Hmr as [-> | [-> | ->]].
      - rewrite Hc0. eexists; split; eauto.
      - rewrite Hc0. eexists; split; eauto.
      - eexists; split; eauto. rewrite content_upd. unfold a2; simpl; auto. }
    destruct Hop as (fs3 & Hop & Hcont).
    assert (Hi2 : sw_objs B a2 i = SClosed) by (unfold a2; simpl; apply upd_same).
    rewrite srun_cons, Hcl. cbv beta match.
    rewrite srun_one, (sopen_closed B zero is_ws is_digit is_sign creatable close_fails a2 i p mr fs3 _ Hi2 Hop). cbv beta match.
    set (a3 := mkSW B fs3 (upd (sw_objs B a2) i (SOpen (mkS p 0 false mr))) (sw_stack B a2)).
    destruct (sscans i rs a3 (mkS p 0 false mr)) as (a4 & s4 & Hrun & G1 & G2 & G3 & G4 & G5 & G6).
    { unfold a3; simpl. apply upd_same. }
    { destruct Hmr as [-> | [-> | ->]]; auto. }
    { auto. }
    { unfold a3; simpl. auto. }
    rewrite srun_app, Hrun. cbv beta match.
    rewrite srun_cons, (seof_open B zero is_ws is_digit is_sign creatable close_fails a4 i s4 G1). cbv beta match.
    rewrite srun_one. cbn [spec_step]. unfold s_on_open. rewrite G1.
    assert (Hmr4 : m_read (s_mode s4) = true) by (rewrite G3; destruct Hmr as [-> | [-> | ->]]; auto).
    rewrite Hmr4. simpl negb. cbv iota.
    rewrite G5, G2. unfold a3 in G6. simpl in G6. unfold a3. simpl sw_fs. simpl s_path. rewrite G6.
    unfold scan_rec. simpl. rewrite G4. simpl. reflexivity.
  Qed.

  (* the same for the model of File.c, after any prefix history that leaves File i closed *)
  Notation runF := (run B zero is_ws is_digit is_sign creatable close_fails true true).

  Theorem text_roundtrip : forall fs objs pre i p mw mr rs,
    (forall j h, objs j <> FObj (Some h)) ->
    let w := fst (runF (w_init B fs objs) pre) in
    w_objs B w i = FObj None -> creatable p = true -> close_fails p = false ->
    trunc_mode mw -> from_start_mode mr -> Forall well_formed rs ->
    snd (runF w (text_history i p mw mr rs)) = text_outcome rs.
  Proof.
    intros fs objs pre i p mw mr rs Hn w Hi Hc Hcf Hmw Hmr Hwf.
    destruct (run_inv B zero is_ws is_digit is_sign creatable close_fails pre _ (inv_init B fs objs Hn)) as [Hinv _].
    fold w in Hinv.
    destruct (run_refines B zero is_ws is_digit is_sign creatable close_fails (text_history i p mw mr rs) w _ Hinv (equiv_refl B w)) as [Ho _].
    rewrite <- Ho. apply spec_text_roundtrip; auto. simpl. rewrite Hi. reflexivity.
  Qed.

  (* ------------------------------------------------------------------ the Format sink has no length bound *)
  (* print_to hands File_Format_To pieces of formatted text; whatever their lengths (no bound: a piece may
     be longer than any internal buffer), the file then holds exactly their concatenation: reopened and
     read in ANY chunking it gives the text back, stell = its length *)
  Definition print_history (i p : nat) (mw mr : mode) (ts : list (list B)) (ns : list nat) : list (op B) :=
    OOpen B i p mw :: map (OPrint B i) ts ++ [OTell B i] ++ [OClose B i; OOpen B i p mr] ++
    map (ORead B i) ns ++ [OTell B i; OEof B i; ORead B i 1; OEof B i].
  Definition print_outcome (ts : list (list B)) (ns : list nat) : list out :=
    OkUnit B :: map printed ts ++ [OkNum B (length (concat ts))] ++ [OkUnit B; OkUnit B] ++
    map (got B) (pieces B ns (concat ts)) ++
    [OkNum B (length (concat ts)); OkBool B false; OkRead B 0 []; OkBool B true].

  Theorem spec_print_read_roundtrip : forall i p mw mr ts ns (a : sworld),
    sw_objs B a i = SClosed -> creatable p = true -> close_fails p = false ->
    trunc_mode mw -> from_start_mode mr -> list_sum ns = length (concat ts) ->
    snd (srun a (print_history i p mw mr ts ns)) = print_outcome ts ns.
  Proof.
    intros i p mw mr ts ns a Hi Hc Hcf Hmw Hmr Hsum. unfold print_history, print_outcome.
    assert (Hf : fopen B creatable (sw_fs B a) p mw = Some (upd (sw_fs B a) p (Some []), mkS p 0 false mw)).
    { unfold fopen. rewrite Hc. destruct Hmw as [-> | ->]; auto. }
    rewrite srun_cons. rewrite (sopen_closed B zero is_ws is_digit is_sign creatable close_fails a i p mw _ _ Hi Hf).
    set (a0 := mkSW B (upd (sw_fs B a) p (Some [])) (upd (sw_objs B a) i (SOpen (mkS p 0 false mw))) (sw_stack B a)).
    destruct (sprints i ts a0 (mkS p 0 false mw)) as (a1 & s1 & Hr & H1 & H2 & H3 & H4 & H5 & H6 & H7).
    { unfold a0; simpl. apply upd_same. }
    { simpl. destruct Hmw as [-> | ->]; auto. }
    { unfold a0; simpl. rewrite content_upd. auto. }
    simpl in H2, H3, H4, H5, H6, H7. unfold a0 in H5, H7. simpl in H5, H7. rewrite content_upd in H5. simpl in H5.
    rewrite srun_app, Hr. cbv beta match. rewrite srun_app.
    rewrite srun_one, (stell_open B zero is_ws is_digit is_sign creatable close_fails a1 i s1 H1). cbv beta match.
    rewrite srun_app.
    assert (Hcl : sstep a1 (OClose B i) = (s_set B a1 i SClosed, OkUnit B)).
    { apply (sclose_open B zero is_ws is_digit is_sign creatable close_fails a1 i s1 H1). rewrite H2; auto. }
    set (a2 := s_set B a1 i SClosed) in *.
    assert (Hne : sw_fs B a1 p <> None) by (apply H7; rewrite upd_same; discriminate).
    assert (Hex : exists c0, sw_fs B a2 p = Some c0).
    { unfold a2; simpl. destruct (sw_fs B a1 p) eqn:E; [eauto|contradiction]. }
    destruct Hex as [c0 Hc0].
    assert (Hop : exists fs3, fopen B creatable (sw_fs B a2) p mr = Some (fs3, mkS p 0 false mr) /\
                              content B fs3 p = concat ts).
    { unfold fopen. rewrite Hc. simpl negb. cbv iota.
      destruct Hmr as [-> | [-> | ->]].
      - rewrite Hc0. eexists; split; eauto.
      - rewrite Hc0. eexists; split; eauto.
      - eexists; split; eauto. rewrite content_upd. unfold a2; simpl; auto. }
    destruct Hop as (fs3 & Hop & Hcont).
    assert (Hi2 : sw_objs B a2 i = SClosed) by (unfold a2; simpl; apply upd_same).
    rewrite srun_cons, Hcl. cbv beta match.
    rewrite srun_one, (sopen_closed B zero is_ws is_digit is_sign creatable close_fails a2 i p mr fs3 _ Hi2 Hop). cbv beta match.
    set (a3 := mkSW B fs3 (upd (sw_objs B a2) i (SOpen (mkS p 0 false mr))) (sw_stack B a2)).
    pose proof (phase_read B zero is_ws is_digit is_sign creatable close_fails i ns a3 (mkS p 0 false mr) (concat ts)) as Hrd.
    destruct (srun a3 (map (ORead B i) ns ++ [OTell B i; OEof B i; ORead B i 1; OEof B i])) as [a4 outs].
    simpl in Hrd. rewrite Hrd; auto.
    - rewrite H6, H5. simpl. reflexivity.
    - unfold a3; simpl. apply upd_same.
    - destruct Hmr as [-> | [-> | ->]]; auto.
  Qed.

  Theorem print_read_roundtrip : forall fs objs pre i p mw mr ts ns,
    (forall j h, objs j <> FObj (Some h)) ->
    let w := fst (runF (w_init B fs objs) pre) in
    w_objs B w i = FObj None -> creatable p = true -> close_fails p = false ->
    trunc_mode mw -> from_start_mode mr -> list_sum ns = length (concat ts) ->
    snd (runF w (print_history i p mw mr ts ns)) = print_outcome ts ns /\
    concat (pieces B ns (concat ts)) = concat ts.
  Proof.
    intros fs objs pre i p mw mr ts ns Hn w Hi Hc Hcf Hmw Hmr Hsum.
    destruct (run_inv B zero is_ws is_digit is_sign creatable close_fails pre _ (inv_init B fs objs Hn)) as [Hinv _].
    fold w in Hinv.
    destruct (run_refines B zero is_ws is_digit is_sign creatable close_fails (print_history i p mw mr ts ns) w _ Hinv (equiv_refl B w)) as [Ho _].
    split; [|apply pieces_concat; auto].
    rewrite <- Ho. apply spec_print_read_roundtrip; auto. simpl. rewrite Hi. reflexivity.
  Qed.
End Text.
