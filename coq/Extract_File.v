(* Extraction of the File model and its specification for the correspondence driver
   (ocaml/File_driver.ml).  ExtrOcamlBasic only.  The byte type stays a type variable: the
   driver instantiates it with OCaml's int. *)
From Coq Require Import List Arith Bool NArith ZArith Extraction ExtrOcamlBasic.
From CelloV Require Import FileModel.
Import ListNotations.

(* the paths of a case: 0,1,2 = regular files in the case directory, 3 = a file in a
   directory that does not exist, 4 = /dev/full *)
Definition fx_creatable (p : nat) : bool := (p <? 3) || (p =? 4).
Definition fx_close_fails (p : nat) : bool := p =? 4.

Definition fx_fs0 {B : Type} : fsys B := fun p : nat => if p =? 4 then Some [] else None.
(* objects 0,1: heap Files created by the case; 2,3: `$(File, NULL)` on the stack *)
Definition fx_objs0 : nat -> fobj := fun i => if (i =? 2) || (i =? 3) then FObj None else FDead.
Definition fx_sobjs0 : nat -> sobj := fun i => if (i =? 2) || (i =? 3) then SClosed else SDead.

Definition fx_init {B : Type} (_ : unit) : world B := w_init B fx_fs0 fx_objs0.
Definition fx_sinit {B : Type} (_ : unit) : sworld B := mkSW B fx_fs0 fx_sobjs0 [].

(* the two booleans describe File_Close as found in the source; the check passes the values
   of Generated.file_close_tests_closed / file_close_clears_always to the driver (so that the
   driver still builds, and the specification still runs, when a pattern no longer matches) *)
Definition fx_step {B : Type} (zero : B) (ws dg sg : B -> bool) (tests_closed clears_always : bool) :=
  step B zero ws dg sg fx_creatable fx_close_fails tests_closed clears_always.
Definition fx_spec_step {B : Type} (zero : B) (ws dg sg : B -> bool) :=
  spec_step B zero ws dg sg fx_creatable fx_close_fails.

Definition fx_objs {B : Type} (w : world B) := w_objs B w.
Definition fx_files {B : Type} (w : world B) := w_files B w.
Definition fx_trace {B : Type} (w : world B) := w_trace B w.
Definition fx_fs {B : Type} (w : world B) := w_fs B w.
Definition fx_sobjs {B : Type} (w : sworld B) := sw_objs B w.
Definition fx_sfs {B : Type} (w : sworld B) := sw_fs B w.
Definition fx_closes (r : frec) := f_closes r.
Definition fx_st (r : frec) := f_st r.

(* ocaml/conv.ml.inc refers to the extracted N *)
Definition fx_n_of_nat := N.of_nat.

Extraction Language OCaml.
Extraction "../ocaml/gen/File.ml" fx_init fx_sinit fx_step fx_spec_step fx_objs fx_files fx_trace fx_fs
  fx_sobjs fx_sfs fx_closes fx_st fx_n_of_nat s_path s_pos s_eof s_mode.
