(* ExnTie.v — the tie between the C text of src/Exception.c and the machine of Exn.v (property C07).
   tools/exn_symex.py translates exception_try, exception_try_end, exception_try_fail, exception_throw and
   exception_catch (with Exception_Len and Exception_Buffer inlined) into Gallina state transformers
   over the C view of the record (Generated.ExnTr: depth and the buffers array apart).  Here each
   translated transformer is proved to SIMULATE the model's function through the abstraction
   "the jump-buffer stack is buffers[depth-1], .., buffers[0]": statement order, temporaries and index
   arithmetic of the C text are free, its effect is not. *)
From Coq Require Import List Arith Bool Lia.
From CelloV Require Import Generated Exn.
Import ListNotations.
Import ExnTr.

Definition stack (f : nat -> nat) (d : nat) : list nat := map f (rev (seq 0 d)).

Definition abs (s : cstate) : mstate :=
  MS (c_obj s) (c_msg s) (stack (c_buf s) (c_depth s)) (c_active s).

Lemma stack_S : forall f d, stack f (S d) = f d :: stack f d.
Proof. intros f d. unfold stack. rewrite seq_S, rev_app_distr. reflexivity. Qed.

Lemma stack_length : forall f d, length (stack f d) = d.
Proof. intros f d. unfold stack. now rewrite map_length, rev_length, seq_length. Qed.

Lemma stack_upd_above : forall f d v i, d <= i -> stack (upd f i v) d = stack f d.
Proof.
  intros f d v i Hle. unfold stack. apply map_ext_in. intros j Hj.
  apply in_rev, in_seq in Hj. unfold upd. destruct (j =? i) eqn:E; [|reflexivity].
  apply Nat.eqb_eq in E. lia.
Qed.

Lemma stack_push : forall f d v i, i = d -> stack (upd f i v) (S d) = v :: stack f d.
Proof.
  intros f d v i ->. rewrite stack_S. f_equal.
  - unfold upd. now rewrite Nat.eqb_refl.
  - apply stack_upd_above. lia.
Qed.

Lemma depth_abs : forall s, depth (abs s) = c_depth s.
Proof. intros s. unfold depth, abs. cbn. apply stack_length. Qed.

(* what a C function of the exception system can do, seen on the machine's state *)
Inductive mres : Type :=
| MRet (st : mstate) (v : option nat)
| MJmp (st : mstate) (t : nat)
| MDie (st : mstate)
| MAbt
| MWld
| MFmt (st : mstate) (k : mstate -> mres).

Inductive sim : cout -> mres -> Prop :=
| sim_ret : forall s st v, abs s = st -> sim (CRet s v) (MRet st v)
| sim_jump : forall s st t, abs s = st -> sim (CJump s t) (MJmp st t)
| sim_die : forall s st, abs s = st -> sim (CDie s) (MDie st)
| sim_abort : sim CAbort MAbt
| sim_wild : sim CWild MWld
| sim_fmt : forall s st k mk, abs s = st -> (forall s1, sim (k s1) (mk (abs s1))) ->
            sim (CFormat s k) (MFmt st mk).

(* the model's functions in that vocabulary *)
Definition of_out (st : mstate) (r : mout) : mres :=
  match r with
  | MJump t => MJmp st t
  | MDied _ _ => MDie st
  | MAbort => MAbt
  | _ => MWld
  end.

Definition m_try (max : nat) (tko : bool) (env : nat) (st : mstate) : mres :=
  match exception_try max tko env st with None => MAbt | Some st' => MRet st' None end.
Definition m_try_end (st : mstate) : mres :=
  match exception_try_end st with None => MAbt | Some st' => MRet st' None end.
Definition m_try_fail (st : mstate) : mres := MRet (exception_try_fail st) None.
Definition m_catch (clr : bool) (fs : list nat) (st : mstate) : mres :=
  match exception_catch clr fs st with
  | (st', CNull) => MRet st' None
  | (st', CBind k) => MRet st' (Some k)
  | (st', COut r) => of_out st' r
  end.
Definition m_throw (oaf : bool) (o m : nat) (st : mstate) : mres :=
  MFmt (throw_pre oaf o st)
       (fun s1 => let s2 := throw_post oaf o m s1 in of_out s2 (jump_or_die s2)).

(* ------------------------------------------------------------------ the proofs: case analysis + stack algebra *)

Ltac norm_nat :=
  repeat match goal with
  | H : (_ =? _) = true |- _ => apply Nat.eqb_eq in H
  | H : (_ =? _) = false |- _ => apply Nat.eqb_neq in H
  | H : (_ <=? _) = true |- _ => apply Nat.leb_le in H
  | H : (_ <=? _) = false |- _ => apply Nat.leb_gt in H
  | H : (_ <? _) = true |- _ => apply Nat.ltb_lt in H
  | H : (_ <? _) = false |- _ => apply Nat.ltb_ge in H
  end.

Ltac split_ifs :=
  repeat match goal with
  | |- context [if ?c then _ else _] =>
      lazymatch c with
      | context [if _ then _ else _] => fail
      | _ => destruct c eqn:?
      end
  end.

(* abs (CS ..) = MS ..  by components; the stack component through stack_S / stack_push / stack_upd_above *)
Ltac stack_eq :=
  rewrite ?Nat.add_1_r;
  repeat first
    [ rewrite stack_push by lia
    | rewrite stack_upd_above by lia ];
  try reflexivity;
  try (f_equal; lia).

Ltac abs_eq :=
  unfold abs; cbn [c_obj c_msg c_depth c_active c_buf];
  f_equal; try reflexivity; try stack_eq.

Lemma tie_try : forall env s,
  sim (tr_exception_try env s) (m_try exc_max_depth try_keeps_obj env (abs s)).
Proof.
  intros env s. unfold tr_exception_try, m_try, exception_try, try_keeps_obj. cbv beta iota. rewrite depth_abs.
  split_ifs; norm_nat; try (exfalso; lia); try constructor.
  all: unfold abs at 1; cbn [c_obj c_msg c_depth c_active c_buf obj msg bufs active abs]; f_equal; try reflexivity; stack_eq.
Qed.

Lemma tie_try_end : forall s, sim (tr_exception_try_end s) (m_try_end (abs s)).
Proof.
  intros s. unfold tr_exception_try_end, m_try_end, exception_try_end.
  cbn [abs bufs obj msg active]. destruct (c_depth s) as [|d] eqn:Hd.
  - cbn. constructor.
  - rewrite stack_S. split_ifs; norm_nat; try (exfalso; lia); try discriminate.
    constructor. unfold abs; cbn [c_obj c_msg c_depth c_active c_buf]. f_equal. f_equal. lia.
Qed.

Lemma tie_try_fail : forall s, sim (tr_exception_try_fail s) (m_try_fail (abs s)).
Proof. intros s. unfold tr_exception_try_fail, m_try_fail, exception_try_fail. constructor. reflexivity. Qed.

Lemma jump_target : forall s, 1 <= c_depth s ->
  bufs (abs s) = c_buf s (c_depth s - 1) :: stack (c_buf s) (c_depth s - 1).
Proof.
  intros s H. cbn [abs bufs]. destruct (c_depth s) as [|d]; [lia|].
  rewrite stack_S. replace (S d - 1) with d by lia. reflexivity.
Qed.

Lemma c_exists_matches : forall fs k,
  c_exists (fun a => c_eq (fun f o => kind_of f =? kind_of o) a (Some k)) fs
  = Some (existsb (fun f => kind_of f =? kind_of k) fs).
Proof.
  induction fs as [|f r IH]; intros k; cbn [c_exists existsb c_eq]; [reflexivity|].
  destruct (kind_of f =? kind_of k); [reflexivity | apply IH].
Qed.

Lemma tie_catch : forall fs s,
  sim (tr_exception_catch (fun f o => kind_of f =? kind_of o) fs s)
      (m_catch clear_active_on_catch fs (abs s)).
Proof.
  intros fs s. unfold tr_exception_catch, m_catch, exception_catch, clear_active, clear_active_on_catch. cbv beta iota.
  cbn [abs active obj].
  destruct (c_active s) eqn:Ha; cbn [negb].
  2:{ constructor. unfold abs. cbn [c_obj c_msg c_depth c_active c_buf]. now rewrite Ha. }
  destruct (c_obj s) as [k|] eqn:Ho.
  - rewrite c_exists_matches. unfold matches. destruct fs as [|f r].
    + cbn [length Nat.eqb]. constructor. unfold abs; cbn [c_obj c_msg c_depth c_active c_buf]. reflexivity.
    + cbn [length Nat.eqb].
      destruct (existsb (fun f0 => kind_of f0 =? kind_of k) (f :: r)) eqn:He.
      * constructor. unfold abs; cbn [c_obj c_msg c_depth c_active c_buf]. reflexivity.
      * unfold jump_or_die. change (bufs (abs s)) with (stack (c_buf s) (c_depth s)).
        destruct (c_depth s) as [|d] eqn:Hd.
        -- cbn. constructor. unfold abs; cbn [c_obj c_msg c_depth c_active c_buf]. now rewrite Hd, Ha, Ho.
        -- rewrite stack_S. split_ifs; norm_nat; try (exfalso; lia); try discriminate.
           cbn [of_out]. replace (S d - 1) with d by lia.
           constructor. unfold abs; cbn [c_obj c_msg c_depth c_active c_buf]. now rewrite Hd, Ha, Ho, stack_S.
  - destruct fs as [|f r]; cbn [length Nat.eqb c_exists c_eq].
    + constructor. unfold abs; cbn [c_obj c_msg c_depth c_active c_buf]. reflexivity.
    + constructor.
Qed.

Lemma tie_throw : forall o m s,
  sim (tr_exception_throw (set_msg m) o s) (m_throw throw_records_obj_after_format o m (abs s)).
Proof.
  intros o m s. unfold tr_exception_throw, m_throw, throw_pre, throw_post, throw_records_obj_after_format. cbv beta iota.
  constructor.
  - destruct s; reflexivity.
  - intros s1. cbn zeta. unfold jump_or_die. cbn [bufs].
    change (bufs (abs s1)) with (stack (c_buf s1) (c_depth s1)).
    destruct (c_depth s1) as [|d] eqn:Hd.
    + cbn. constructor. unfold abs; cbn [c_obj c_msg c_depth c_active c_buf]. rewrite ?Hd; reflexivity.
    + rewrite stack_S. split_ifs; norm_nat; try (exfalso; lia); try discriminate.
      cbn [of_out]. replace (S d - 1) with d by lia.
      constructor. unfold abs; cbn [c_obj c_msg c_depth c_active c_buf]. rewrite ?Hd, ?stack_S; reflexivity.
Qed.
