(* ExnTie.v — the tie between the C text of src/Exception.c and the machine of Exn.v (property C07).
   tools/exn_symex.py translates exception_try, exception_try_end, exception_try_fail, exception_throw and
   exception_catch (with Exception_Len and Exception_Buffer inlined) into Gallina state transformers
   over the C view of the record (Generated.ExnTr: depth and the buffers array apart).  Here each
   translated transformer is proved to SIMULATE the model's function through the abstraction
   "the jump-buffer stack is buffers[depth-1], .., buffers[0]": statement order, temporaries and index
   arithmetic of the C text are free, its effect is not. *)
From Coq Require Import List Arith Bool Lia.
From CelloV Require Import Generated Exn.
Import ListNotations.
Import ExnTr.

Definition stack (f : nat -> nat) (d : nat) : list nat := map f (rev (seq 0 d)).

Definition abs (s : cstate) : mstate :=
  MS (c_obj s) (c_msg s) (stack (c_buf s) (c_depth s)) (c_active s).

Lemma stack_S : forall f d, stack f (S d) = f d :: stack f d.
Proof. intros f d. unfold stack. rewrite seq_S, rev_app_distr. reflexivity. Qed.

Lemma stack_length : forall f d, length (stack f d) = d.
Proof. intros f d. unfold stack. now rewrite map_length, rev_length, seq_length. Qed.

Lemma stack_upd_above : forall f d v i, d <= i -> stack (upd f i v) d = stack f d.
Proof.
  intros f d v i Hle. unfold stack. apply map_ext_in. intros j Hj.
  apply in_rev, in_seq in Hj. unfold upd. destruct (j =? i) eqn:E; [|reflexivity].
  apply Nat.eqb_eq in E. lia.
Qed.

Lemma stack_push : forall f d v i, i = d -> stack (upd f i v) (S d) = v :: stack f d.
Proof.
  intros f d v i ->. rewrite stack_S. f_equal.
  - unfold upd. now rewrite Nat.eqb_refl.
  - apply stack_upd_above. lia.
Qed.

Lemma depth_abs : forall s, depth (abs s) = c_depth s.
Proof. intros s. unfold depth, abs. cbn. apply stack_length. Qed.

Definition minv (max : nat) (st : mstate) : Prop :=
  depth st <= max /\ Forall (fun t => t <> 0) (bufs st).

(* what a C function of the exception system can do, seen on the machine's state *)
Inductive mres : Type :=
| MRet (st : mstate) (v : option nat)
| MJmp (st : mstate) (t : nat)
| MDie (st : mstate)
| MAbt
| MWld
| MFmt (st : mstate) (k : mstate -> mres).

Inductive sim : cout -> mres -> Prop :=
| sim_ret : forall s st v, abs s = st -> sim (CRet s v) (MRet st v)
| sim_jump : forall s st t, abs s = st -> sim (CJump s t) (MJmp st t)
| sim_die : forall s st, abs s = st -> sim (CDie s) (MDie st)
| sim_abort : sim CAbort MAbt
| sim_wild : sim CWild MWld
| sim_fmt : forall s st k mk, abs s = st ->
            (forall s1, minv exc_max_depth (abs s1) -> sim (k s1) (mk (abs s1))) ->
            sim (CFormat s k) (MFmt st mk).

(* the model's functions in that vocabulary *)
Definition of_out (st : mstate) (r : mout) : mres :=
  match r with
  | MJump t => MJmp st t
  | MDied _ _ => MDie st
  | MAbort => MAbt
  | _ => MWld
  end.

Definition m_try (max : nat) (tko : bool) (env : nat) (st : mstate) : mres :=
  match exception_try max tko env st with None => MAbt | Some st' => MRet st' None end.
Definition m_try_end (st : mstate) : mres :=
  match exception_try_end st with None => MAbt | Some st' => MRet st' None end.
Definition m_try_fail (st : mstate) : mres := MRet (exception_try_fail st) None.
Definition m_catch (clr : bool) (fs : list nat) (st : mstate) : mres :=
  match exception_catch clr fs st with
  | (st', CNull) => MRet st' None
  | (st', CBind k) => MRet st' (Some k)
  | (st', COut r) => of_out st' r
  end.
Definition m_throw (oaf : bool) (o m : nat) (st : mstate) : mres :=
  MFmt (throw_pre oaf o st)
       (fun s1 => let s2 := throw_post oaf o m s1 in of_out s2 (jump_or_die s2)).

(* ------------------------------------------------------------------ the domain: the record's invariant *)

(* The functions are compared on states that satisfy the invariant of the record: depth within the
   array, and the live slots hold addresses of jump buffers (never NULL = 0).  On other states the C
   text is undefined (out-of-bounds access, longjmp through NULL), and equivalent rewrites differ
   there (an overflow test `>=` instead of `is`, aborts that cannot fire).  ExnProofs.mrun_inv: the
   machine never leaves this domain. *)
Lemma minv_c : forall max s, minv max (abs s) ->
  c_depth s <= max /\ (1 <= c_depth s -> c_buf s (c_depth s - 1) <> 0).
Proof.
  intros max s (Hd & Hf). rewrite depth_abs in Hd. split; [exact Hd|].
  intros H1. cbn [abs bufs] in Hf. destruct (c_depth s) as [|d]; [lia|].
  rewrite stack_S in Hf. inversion Hf; subst. replace (S d - 1) with d by lia. assumption.
Qed.

(* ------------------------------------------------------------------ the proofs: case analysis + stack algebra *)

Ltac norm_nat :=
  repeat match goal with
  | H : (_ =? _) = true |- _ => apply Nat.eqb_eq in H
  | H : (_ =? _) = false |- _ => apply Nat.eqb_neq in H
  | H : (_ <=? _) = true |- _ => apply Nat.leb_le in H
  | H : (_ <=? _) = false |- _ => apply Nat.leb_gt in H
  | H : (_ <? _) = true |- _ => apply Nat.ltb_lt in H
  | H : (_ <? _) = false |- _ => apply Nat.ltb_ge in H
  | H : orb _ _ = true |- _ => apply orb_true_iff in H; destruct H
  | H : orb _ _ = false |- _ => apply orb_false_iff in H; destruct H
  | H : andb _ _ = true |- _ => apply andb_true_iff in H; destruct H
  | H : andb _ _ = false |- _ => apply andb_false_iff in H; destruct H
  | H : negb _ = true |- _ => apply negb_true_iff in H
  | H : negb _ = false |- _ => apply negb_false_iff in H
  end.

Ltac split_ifs :=
  repeat match goal with
  | |- context [if ?c then _ else _] =>
      lazymatch c with
      | context [if _ then _ else _] => fail
      | _ => destruct c eqn:?
      end
  end.

Ltac stack_eq :=
  rewrite ?Nat.add_1_r;
  repeat first
    [ rewrite stack_push by lia
    | rewrite stack_upd_above by lia ];
  try reflexivity;
  try (f_equal; lia).

(* close a goal  sim (C outcome) (model outcome)  once every condition is decided *)
Ltac close_sim :=
  norm_nat; try (exfalso; lia); try discriminate; try contradiction;
  try (constructor; unfold abs; cbn [c_obj c_msg c_depth c_active c_buf obj msg bufs active];
       f_equal; try reflexivity; stack_eq).

Lemma tie_try : forall env s,
  minv exc_max_depth (abs s) ->
  sim (tr_exception_try env s) (m_try exc_max_depth try_keeps_obj env (abs s)).
Proof.
  intros env s Hinv. apply minv_c in Hinv. destruct Hinv as (Hle & Hnz).
  unfold tr_exception_try, m_try, exception_try, try_keeps_obj. cbv beta iota. rewrite depth_abs.
  split_ifs; close_sim.
Qed.

Lemma tie_try_end : forall s,
  minv exc_max_depth (abs s) -> sim (tr_exception_try_end s) (m_try_end (abs s)).
Proof.
  intros s Hinv. apply minv_c in Hinv. destruct Hinv as (Hle & Hnz).
  unfold tr_exception_try_end, m_try_end, exception_try_end.
  change (bufs (abs s)) with (stack (c_buf s) (c_depth s)).
  destruct (c_depth s) as [|d] eqn:Hd.
  - cbn [stack seq rev map]. split_ifs; close_sim.
  - rewrite stack_S. split_ifs; close_sim.
    all: try (constructor; unfold abs; cbn [c_obj c_msg c_depth c_active c_buf]; rewrite ?Hd;
              replace (S d - 1) with d by lia; f_equal; rewrite ?stack_upd_above by lia; reflexivity).
Qed.

(* exception_try_fail is only reached by a jump that landed in the innermost open block
   (ExnProofs.mjump_state: the state then has a buffer on its stack) *)
Lemma tie_try_fail : forall s,
  minv exc_max_depth (abs s) -> 1 <= c_depth s ->
  sim (tr_exception_try_fail s) (m_try_fail (abs s)).
Proof.
  intros s Hinv H1. unfold tr_exception_try_fail, m_try_fail, exception_try_fail.
  split_ifs; close_sim.
Qed.

Lemma c_exists_matches : forall fs k,
  c_exists (fun a => c_eq (fun f o => kind_of f =? kind_of o) a (Some k)) fs
  = Some (existsb (fun f => kind_of f =? kind_of k) fs).
Proof.
  induction fs as [|f r IH]; intros k; cbn [c_exists existsb c_eq]; [reflexivity|].
  destruct (kind_of f =? kind_of k); [reflexivity | apply IH].
Qed.

(* the common tail "jump to the innermost buffer, or die": whatever way the C text decides it *)
Ltac tail_sim s :=
  unfold jump_or_die; change (bufs (abs s)) with (stack (c_buf s) (c_depth s));
  let d := fresh "d" in let Hd := fresh "Hd" in
  destruct (c_depth s) as [|d] eqn:Hd;
  [ cbn [stack seq rev map of_out]; split_ifs; norm_nat; try (exfalso; lia); try discriminate;
    try (constructor; unfold abs; cbn [c_obj c_msg c_depth c_active c_buf obj msg active bufs]; rewrite ?Hd, ?stack_S; cbn [stack seq rev map]; congruence)
  | rewrite stack_S; cbn [of_out]; split_ifs; norm_nat; try (exfalso; lia); try discriminate; try contradiction;
    try (replace (S d - 1) with d in * by lia);
    try contradiction;
    try (constructor; unfold abs; cbn [c_obj c_msg c_depth c_active c_buf obj msg active bufs]; rewrite ?Hd, ?stack_S; cbn [stack seq rev map]; congruence) ].

Lemma tie_catch : forall istuple fs s,
  minv exc_max_depth (abs s) ->
  sim (tr_exception_catch (fun f o => kind_of f =? kind_of o) istuple fs s)
      (m_catch clear_active_on_catch fs (abs s)).
Proof.
  intros istuple fs s Hinv. apply minv_c in Hinv. destruct Hinv as (Hle & Hnz).
  unfold tr_exception_catch, m_catch, exception_catch, clear_active, clear_active_on_catch. cbv beta iota.
  cbn [abs active obj].
  destruct (c_active s) eqn:Ha; cbn [negb].
  2:{ constructor. unfold abs. cbn [c_obj c_msg c_depth c_active c_buf]. now rewrite Ha. }
  destruct (c_obj s) as [k|] eqn:Ho.
  - rewrite ?c_exists_matches. unfold matches. destruct fs as [|f r].
    + cbn [length Nat.eqb c_exists existsb]. destruct istuple; constructor; unfold abs; cbn [c_obj c_msg c_depth c_active c_buf]; reflexivity.
    + cbn [length Nat.eqb].
      destruct (existsb (fun f0 => kind_of f0 =? kind_of k) (f :: r)) eqn:He.
      * destruct istuple; constructor; unfold abs; cbn [c_obj c_msg c_depth c_active c_buf]; reflexivity.
      * destruct istuple; tail_sim s.
  - destruct fs as [|f r]; cbn [length Nat.eqb c_exists c_eq].
    + destruct istuple; constructor; unfold abs; cbn [c_obj c_msg c_depth c_active c_buf]; reflexivity.
    + destruct istuple; constructor.
Qed.

Lemma tie_throw : forall o m s,
  minv exc_max_depth (abs s) ->
  sim (tr_exception_throw (set_msg m) o s) (m_throw throw_records_obj_after_format o m (abs s)).
Proof.
  intros o m s Hinv.
  unfold tr_exception_throw, m_throw, throw_pre, throw_post, throw_records_obj_after_format. cbv beta iota.
  constructor.
  - destruct s; reflexivity.
  - intros s1 Hinv1. apply minv_c in Hinv1. destruct Hinv1 as (Hle & Hnz).
    cbn zeta. cbn [bufs].
    match goal with |- sim _ (of_out ?s2 (jump_or_die ?s2)) =>
      unfold jump_or_die; cbn [bufs] end.
    change (bufs (abs s1)) with (stack (c_buf s1) (c_depth s1)).
    destruct (c_depth s1) as [|d] eqn:Hd.
    + cbn [stack seq rev map of_out]. split_ifs; norm_nat; try (exfalso; lia); try discriminate.
      all: constructor; unfold abs; cbn [c_obj c_msg c_depth c_active c_buf obj msg active bufs]; rewrite ?Hd, ?stack_S; cbn [stack seq rev map]; congruence.
    + rewrite stack_S. cbn [of_out]. split_ifs; norm_nat; try (exfalso; lia); try discriminate; try contradiction.
      all: try (replace (S d - 1) with d in * by lia); try contradiction.
      all: constructor; unfold abs; cbn [c_obj c_msg c_depth c_active c_buf obj msg active bufs]; rewrite ?Hd, ?stack_S; cbn [stack seq rev map]; congruence.
Qed.

(* ------------------------------------------------------------------ the machine stays in the domain *)

Lemma minv_bufs : forall max a b, bufs b = bufs a -> minv max a -> minv max b.
Proof. intros max a b H (Hd & Hf). unfold minv, depth in *. now rewrite H. Qed.

Lemma jump_or_die_target : forall s t, jump_or_die s = MJump t -> exists b, bufs s = t :: b.
Proof.
  intros s t H. unfold jump_or_die in H. destruct (bufs s) as [|x b]; [discriminate|].
  inversion H; subst. now exists b.
Qed.

Section MachineDomain.
Variables (max : nat) (clr oaf tko : bool).
Notation run := (mrun max clr oaf tko).

Lemma catch_bufs : forall fs s s' c, exception_catch clr fs s = (s', c) -> bufs s' = bufs s.
Proof.
  intros fs s s' c H. unfold exception_catch, clear_active in H.
  destruct (negb (active s)); [inversion H; reflexivity|].
  destruct (obj s).
  - destruct (matches fs n); inversion H; subst; destruct clr; reflexivity.
  - destruct fs; inversion H; subst; destruct clr; reflexivity.
Qed.

(* every state the machine produces satisfies the record's invariant: the hypotheses of the tie
   theorems hold wherever the machine applies a function *)
Lemma mrun_inv : forall p st tr r st', minv max st -> run p st = (tr, r, st') -> minv max st'.
Proof.
  induction p as [ | n | p IHp q IHq | o m f IHf | b IHb fs h IHh | k0 | p IHp ];
    intros st tr r st' Hinv Hrun; cbn [mrun] in Hrun.
  - inversion Hrun; subst; exact Hinv.
  - inversion Hrun; subst; exact Hinv.
  - destruct (run p st) as [[t1 r1] s1] eqn:E1. pose proof (IHp _ _ _ _ Hinv E1) as H1.
    destruct r1; try (inversion Hrun; subst; exact H1).
    destruct (run q s1) as [[t2 r2] s2] eqn:E2. inversion Hrun; subst. exact (IHq _ _ _ _ H1 E2).
  - assert (H0 : minv max (throw_pre oaf o st)) by (apply (minv_bufs max st); [unfold throw_pre; destruct oaf; reflexivity | exact Hinv]).
    destruct (run f (throw_pre oaf o st)) as [[t1 r1] s1] eqn:E1. pose proof (IHf _ _ _ _ H0 E1) as H1.
    destruct (fn_end r1); inversion Hrun; subst; exact H1.
  - unfold exception_try in Hrun. destruct (depth st =? max) eqn:Hd; [inversion Hrun; subst; exact Hinv|].
    apply Nat.eqb_neq in Hd.
    set (s0 := MS (if tko then obj st else None) (msg st) (S (depth st) :: bufs st) false) in *.
    assert (H0 : minv max s0).
    { destruct Hinv as (Hle & Hf). split; [unfold depth in *; cbn; lia | constructor; [discriminate | exact Hf]]. }
    destruct (run b s0) as [[t1 r1] s1] eqn:E1. pose proof (IHb _ _ _ _ H0 E1) as H1.
    assert (Hpop : forall s2, minv max s2 -> forall s3, exception_try_end s2 = Some s3 -> minv max s3).
    { intros s2 (Hle & Hf) s3 He. unfold exception_try_end in He. destruct (bufs s2) as [|x l] eqn:Hb2; [discriminate|].
      inversion He; subst. unfold minv, depth in *. cbn. rewrite Hb2 in *. inversion Hf; subst. split; [cbn in Hle; lia | assumption]. }
    assert (Hrest : forall s2, minv max s2 ->
              match exception_try_end s2 with
              | Some s3 =>
                  match exception_catch clr fs s3 with
                  | (s4, CNull) => (t1, MNormal, s4)
                  | (s4, CBind k) => let '(t2, r2, s5) := run h s4 in (t1 ++ EHandler k (msg s4) (depth s4) :: t2, handler_end r2, s5)
                  | (s4, COut r0) => (t1, r0, s4)
                  end
              | None => (t1, MAbort, s2)
              end = (tr, r, st') -> minv max st').
    { intros s2 H2 Hr. destruct (exception_try_end s2) as [s3|] eqn:He; [|inversion Hr; subst; exact H2].
      pose proof (Hpop _ H2 _ He) as H3.
      destruct (exception_catch clr fs s3) as [s4 c] eqn:Hc.
      assert (H4 : minv max s4) by (apply (minv_bufs max s3); [exact (catch_bufs _ _ _ _ Hc) | exact H3]).
      destruct c; try (inversion Hr; subst; exact H4).
      destruct (run h s4) as [[t2 r2] s5] eqn:E2. inversion Hr; subst. exact (IHh _ _ _ _ H4 E2). }
    destruct r1; try (inversion Hrun; subst; exact H1).
    + exact (Hrest _ H1 Hrun).
    + destruct (target =? S (depth st)); [|inversion Hrun; subst; exact H1].
      apply (Hrest (exception_try_fail s1)); [|exact Hrun].
      apply (minv_bufs max s1); [reflexivity | exact H1].
  - inversion Hrun; subst; exact Hinv.
  - destruct (run p st) as [[t1 r1] s1] eqn:E1. inversion Hrun; subst. exact (IHp _ _ _ _ Hinv E1).
Qed.

(* a jump in flight carries the state it was started from: its target is the innermost buffer there.
   So exception_try_fail — reached only when a jump lands — runs with a buffer on the stack. *)
Lemma fn_end_jump : forall r t, fn_end r = MJump t -> r = MJump t.
Proof. intros [] t H; cbn in H; try discriminate; try exact H. destruct k; discriminate. Qed.
Lemma handler_end_jump : forall r t, handler_end r = MJump t -> r = MJump t.
Proof. intros [] t H; cbn in H; try discriminate; try exact H. destruct k; discriminate. Qed.

Lemma mjump_state : forall p st tr t s, run p st = (tr, MJump t, s) -> exists b, bufs s = t :: b.
Proof.
  induction p as [ | n | p IHp q IHq | o m f IHf | b IHb fs h IHh | k0 | p IHp ];
    intros st tr t s Hrun; cbn [mrun] in Hrun.
  - discriminate.
  - discriminate.
  - destruct (run p st) as [[t1 r1] s1] eqn:E1.
    destruct r1; try (inversion Hrun; subst; eapply IHp; eassumption); try discriminate.
    destruct (run q s1) as [[t2 r2] s2] eqn:E2. inversion Hrun; subst. eapply IHq; eassumption.
  - destruct (run f (throw_pre oaf o st)) as [[t1 r1] s1] eqn:E1.
    destruct (fn_end r1) eqn:Hf; inversion Hrun; subst.
    + eapply jump_or_die_target; eassumption.
    + apply fn_end_jump in Hf. subst. eapply IHf; eassumption.
  - destruct (exception_try max tko (S (depth st)) st) as [s0|]; [|discriminate].
    destruct (run b s0) as [[t1 r1] s1] eqn:E1.
    assert (Hrest : forall s2,
              match exception_try_end s2 with
              | Some s3 =>
                  match exception_catch clr fs s3 with
                  | (s4, CNull) => (t1, MNormal, s4)
                  | (s4, CBind k) => let '(t2, r2, s5) := run h s4 in (t1 ++ EHandler k (msg s4) (depth s4) :: t2, handler_end r2, s5)
                  | (s4, COut r0) => (t1, r0, s4)
                  end
              | None => (t1, MAbort, s2)
              end = (tr, MJump t, s) -> exists b0, bufs s = t :: b0).
    { intros s2 Hr. destruct (exception_try_end s2) as [s3|]; [|discriminate].
      unfold exception_catch in Hr.
      destruct (negb (active s3)); [discriminate|].
      destruct (obj s3) as [k|].
      - destruct (matches fs k).
        + destruct (run h (clear_active clr s3)) as [[t2 r2] s5] eqn:E2. inversion Hr; subst.
          match goal with H : handler_end _ = MJump _ |- _ => apply handler_end_jump in H; subst end.
          eapply IHh; eassumption.
        + inversion Hr; subst. eapply jump_or_die_target; eassumption.
      - destruct fs; discriminate. }
    destruct r1; try discriminate; try (inversion Hrun; subst; eapply IHb; eassumption).
    + exact (Hrest _ Hrun).
    + destruct (target =? S (depth st)); [exact (Hrest _ Hrun)|].
      inversion Hrun; subst. eapply IHb; eassumption.
  - discriminate.
  - destruct (run p st) as [[t1 r1] s1] eqn:E1. inversion Hrun; subst.
    match goal with H : fn_end _ = MJump _ |- _ => apply fn_end_jump in H; subst end.
    eapply IHp; eassumption.
Qed.

End MachineDomain.
