(* RoundTripInst.v — the C15 theorems instantiated with the data re-extracted from the C text
   (Generated.v): escape tables of String_Show / String_Look, presence of `continue`, "%lf" in
   Float_Look, the sign-extension rule of scan_from_with.  A change of the C text that breaks a
   side condition makes a `vm_compute` proof here fail = broken obligation. *)
From Coq Require Export List NArith ZArith.
From Coq Require Import Bool Lia.
From CelloV Require Import Generated RoundTrip RoundTripProofs RoundTripFloat.
Import ListNotations.
Local Open Scope N_scope.

Definition rt_cfg : config :=
  {| cf_show_esc := rt_show_escapes; cf_look_esc := rt_look_escapes; cf_look_cont := rt_look_continue;
     cf_float_look_long := rt_float_look_long; cf_int_signext := rt_scan_int_signext; cf_int_signext_narrow := rt_scan_int_signext_narrow;
     cf_lit_measure := rt_scan_lit_measures; cf_pct_measure := rt_scan_pct_measures |}.

(* the shape of the surrounding C code the model encodes is still the one found by genx_rt.py *)
Lemma rt_shape : (rt_show_default_ok && rt_show_quotes_ok && rt_int_show_li && rt_int_look_li
                  && rt_float_show_f && rt_scan_float_l_rule)%bool = true.
Proof. vm_compute. reflexivity. Qed.

Lemma rt_cfg_ok : config_ok rt_cfg.
Proof. split; vm_compute; reflexivity. Qed.

Lemma rt_string_roundtrip : forall s rest, nul_free s ->
  look_string rt_look_continue rt_look_escapes (show_string rt_show_escapes s ++ rest)
  = LDone s (length (show_string rt_show_escapes s)).
Proof.
  intros s rest H. replace rt_look_continue with true by (vm_compute; reflexivity).
  apply string_roundtrip; [vm_compute; reflexivity | assumption].
Qed.

Lemma rt_int_roundtrip : forall z rest, int64 z -> stops_int rest ->
  look_value rt_cfg TInt (show_value rt_cfg (VInt z) ++ rest) = Some (VInt z, length (show_value rt_cfg (VInt z))).
Proof. intros z rest Hz Hr. apply (show_value_reads rt_cfg (VInt z) rest rt_cfg_ok Hz Hr). Qed.

Lemma rt_show_seq_string : forall its pre rest, show_seq_ok rt_cfg its rest -> lits_ok rt_cfg its rest ->
  scan_str rt_cfg (fst (print_to_string rt_cfg pre (length pre) its) ++ rest) (length pre) (map sitem_of its) []
  = SOk (values_of its) (snd (print_to_string rt_cfg pre (length pre) its)).
Proof. intros. now apply show_seq_roundtrip_string; [apply rt_cfg_ok| |]. Qed.

Lemma rt_show_seq_file : forall its old rest, show_seq_ok rt_cfg its rest -> lits_ok rt_cfg its rest ->
  scan_file rt_cfg (skipn (length old) (fst (print_to_file rt_cfg old (length old) its) ++ rest)) (length old)
    (map sitem_of its) []
  = SOk (values_of its) (snd (print_to_file rt_cfg old (length old) its)).
Proof. intros. now apply show_seq_roundtrip_file; [apply rt_cfg_ok| |]. Qed.

(* D7: with the tables of the source and without the `continue`, "\n" does not come back *)
Lemma rt_look_without_continue_refuted :
  exists s, nul_free s /\
    look_string false rt_look_escapes (show_string rt_show_escapes s) <> LDone s (length (show_string rt_show_escapes s)).
Proof. apply look_without_continue_refuted; vm_compute; reflexivity. Qed.

(* non-vacuity witnesses *)
Definition ex_string : text := [97; 10; 34; 92; 200; 255; 7].
Definition ex_rest : text := [32; 120].
Example ex_nul_free : nul_free ex_string.
Proof. repeat constructor; discriminate. Qed.

Example ex_string_roundtrip :
  look_string rt_look_continue rt_look_escapes (show_string rt_show_escapes [97; 10; 34; 92; 200] ++ [44; 32])
  = LDone [97; 10; 34; 92; 200] 10.
Proof. vm_compute. reflexivity. Qed.

Definition ex_items : list pitem :=
  [PShow (VInt (-42)); PLit [44; 32]; PShow (VStr [97; 10; 98]); PLit [59]; PShow (VInt 9223372036854775807)].

Example ex_show_seq_ok : show_seq_ok rt_cfg ex_items ex_rest.
Proof.
  vm_compute. repeat split; try (intros; discriminate); try lia; repeat constructor; try discriminate.
Qed.

Example ex_lits_ok : lits_ok rt_cfg ex_items ex_rest.
Proof. vm_compute. repeat split; (left; reflexivity) || (right; reflexivity). Qed.

(* literals with white space at the end and with a '%': matched by their own text when no white space follows *)
Definition ex_items_pct : list pitem :=
  [PShow (VInt 50); PLit [37; 32; 111; 102; 32]; PShow (VStr [120]); PLit [44; 32]; PShow (VInt (-1)); PLit [32; 37; 37]].

Example ex_lits_ok_pct : lits_ok rt_cfg ex_items_pct ex_rest /\ show_seq_ok rt_cfg ex_items_pct ex_rest.
Proof.
  split.
  - vm_compute. repeat split; (left; reflexivity) || (right; reflexivity).
  - vm_compute. repeat split; try (intros; discriminate); try lia; repeat constructor; try discriminate.
Qed.

Example ex_pct_run :
  scan_file rt_cfg (print_items rt_cfg ex_items_pct ++ ex_rest) 0 (map sitem_of ex_items_pct) []
  = SOk [VInt 50; VStr [120]; VInt (-1)] 17.
Proof. vm_compute. reflexivity. Qed.

(* D22 / D23 as found: pos advanced by the length of a literal piece (File: the white-space directive had
   eaten the padding of the next number) and by 2 for "%%" (one character) *)
Definition cfg_old_literals : config :=
  {| cf_show_esc := rt_show_escapes; cf_look_esc := rt_look_escapes; cf_look_cont := true;
     cf_float_look_long := true; cf_int_signext := true; cf_int_signext_narrow := true; cf_lit_measure := false; cf_pct_measure := false |}.

Definition spec_5li : nspec := {| n_conv := 105; n_long := true; n_plus := false; n_space := false;
                                  n_zero := false; n_alt := false; n_width := 5; n_prec := None; n_short := 0 |}.

Lemma rt_literal_length_refuted :
  let its := [PShow (VStr [97; 98]); PLit [32]; PNum spec_5li (VInt 42)] in
  let sits := [SLook TStr; SLit [32]; SNum spec_li] in
  length (print_items cfg_old_literals its) = 10%nat /\
  scan_str cfg_old_literals (print_items cfg_old_literals its) 0 sits [] = SOk [VStr [97; 98]; VInt 42] 10 /\
  scan_file cfg_old_literals (print_items cfg_old_literals its) 0 sits [] = SOk [VStr [97; 98]; VInt 42] 7 /\
  scan_file rt_cfg (print_items rt_cfg its) 0 sits [] = SOk [VStr [97; 98]; VInt 42] 10.
Proof. vm_compute. repeat split; reflexivity. Qed.

Lemma rt_percent_two_refuted :
  let its := [PShow (VInt 5); PLit [37]; PShow (VInt 7)] in
  let sits := [SLook TInt; SLit [37]; SLook TInt] in
  print_items cfg_old_literals its = [53; 37; 55] /\
  scan_str cfg_old_literals (print_items cfg_old_literals its) 0 sits [] = SRaise [VInt 5] /\
  scan_str rt_cfg (print_items rt_cfg its) 0 sits [] = SOk [VInt 5; VInt 7] 3.
Proof. vm_compute. repeat split; reflexivity. Qed.

Example ex_show_seq_run :
  scan_str rt_cfg ([112; 112] ++ print_items rt_cfg ex_items ++ [32; 120]) 2 (map sitem_of ex_items) []
  = SOk [VInt (-42); VStr [97; 10; 98]; VInt 9223372036854775807] 33.
Proof. vm_compute. reflexivity. Qed.

(* ------------------------------------------------------------------ Floats and numeric directives *)

Lemma rt_cfg_ok_float : config_ok_float rt_cfg.
Proof. split; [exact rt_cfg_ok | vm_compute; reflexivity]. Qed.

Lemma rt_seq_string : forall its sits pre rest, wf_seq rt_cfg its sits rest -> lits_ok rt_cfg its rest ->
  exists vs',
    scan_str rt_cfg (fst (print_to_string rt_cfg pre (length pre) its) ++ rest) (length pre) sits []
    = SOk vs' (snd (print_to_string rt_cfg pre (length pre) its))
    /\ Forall2 value_close (values_of its) vs'.
Proof. intros. now apply wf_seq_roundtrip_string; [apply rt_cfg_ok_float| |]. Qed.

Lemma rt_seq_file : forall its sits old rest, wf_seq rt_cfg its sits rest -> lits_ok rt_cfg its rest ->
  exists vs',
    scan_file rt_cfg (skipn (length old) (fst (print_to_file rt_cfg old (length old) its) ++ rest)) (length old) sits []
    = SOk vs' (snd (print_to_file rt_cfg old (length old) its))
    /\ Forall2 value_close (values_of its) vs'.
Proof. intros. now apply wf_seq_roundtrip_file; [apply rt_cfg_ok_float| |]. Qed.

Lemma rt_float_show_look : forall b rest, finite b -> stops_float rest ->
  exists b', look_value rt_cfg TFloat (show_value rt_cfg (VFloat b) ++ rest)
             = Some (VFloat b', length (show_value rt_cfg (VFloat b)))
             /\ float_close 6 b b'.
Proof.
  intros b rest Hf Hr. destruct (show_float_item rt_cfg b rest rt_cfg_ok_float Hf Hr) as [b' Hi].
  exists b'. inversion Hi; subst.
  - match goal with H : showable (VFloat _) |- _ => destruct H end.
  - split; assumption.
Qed.

(* F6 as found: a d directive without `l` stores 32 bits into a zeroed long; -5 comes back as 2^32 - 5 *)
Definition spec_d : nspec := {| n_conv := 100; n_long := false; n_plus := false; n_space := false;
                                n_zero := false; n_alt := false; n_width := 0; n_prec := None; n_short := 0 |}.
Definition cfg_no_signext : config :=
  {| cf_show_esc := rt_show_escapes; cf_look_esc := rt_look_escapes; cf_look_cont := true;
     cf_float_look_long := true; cf_int_signext := false; cf_int_signext_narrow := false; cf_lit_measure := true; cf_pct_measure := true |}.

Lemma rt_scan_d_zero_extends_refuted :
  exists z, (- two31 <= z < two31)%Z /\
    scan_num cfg_no_signext spec_d (print_num spec_d (VInt z)) <> Some (VInt z, length (print_num spec_d (VInt z))).
Proof. exists (-5)%Z. split; [unfold two31; lia|]. vm_compute. discriminate. Qed.

Lemma rt_scan_d_repaired_example :
  scan_num rt_cfg spec_d (print_num spec_d (VInt (-5))) = Some (VInt (-5), 2%nat).
Proof. vm_compute. reflexivity. Qed.

Definition spec_p08d : nspec := {| n_conv := 100; n_long := false; n_plus := true; n_space := false;
                                   n_zero := true; n_alt := false; n_width := 8; n_prec := None; n_short := 0 |}.

Definition spec_lX : nspec := {| n_conv := 88; n_long := true; n_plus := false; n_space := false;
                                 n_zero := false; n_alt := false; n_width := 0; n_prec := None; n_short := 0 |}.
Definition spec_lx : nspec := {| n_conv := 120; n_long := true; n_plus := false; n_space := false;
                                 n_zero := false; n_alt := false; n_width := 0; n_prec := None; n_short := 0 |}.

Definition spec_p020_8lf : nspec := {| n_conv := 102; n_long := true; n_plus := true; n_space := false;
                                      n_zero := true; n_alt := false; n_width := 20; n_prec := Some 8%nat; n_short := 0 |}.

Definition ex_items_f : list pitem :=
  [PShow (VFloat 4728057454355442549); PLit [44; 32]; PShow (VStr [97; 34]); PLit [59];
   PNum spec_li (VInt (-7)); PLit [32]; PNum (spec_f true) (VFloat 4591870180066957722); PLit [47];
   PNum spec_p08d (VInt (-2147483648)); PLit [58]; PNum spec_lX (VInt (-5)); PLit [59];
   PNum spec_p020_8lf (VFloat 4614256656552045848)].
Definition ex_sitems_f : list sitem :=
  [SLook TFloat; SLit [44; 32]; SLook TStr; SLit [59]; SNum spec_li; SLit [32]; SNum (spec_f true); SLit [47];
   SNum spec_d; SLit [58]; SNum spec_lx; SLit [59]; SNum (spec_f true)].

Ltac side :=
  first [ reflexivity | exact I
        | (right; split; reflexivity) | (left; reflexivity)
        | (right; left; reflexivity) | (right; right; left; reflexivity) | (right; right; right; reflexivity)
        | (intros; vm_compute; reflexivity)
        | (vm_compute; discriminate)
        | (unfold showable, nul_free; repeat constructor; discriminate)
        | (unfold in_range, urange, two63, two31, two32; cbn; lia)
        | (vm_compute; repeat split; first [reflexivity | discriminate | (intros; discriminate)]) ].

Example ex_wf_seq : wf_seq rt_cfg ex_items_f ex_sitems_f ex_rest.
Proof.
  cbn [wf_seq ex_items_f ex_sitems_f ty_of].
  repeat match goal with
         | |- _ /\ _ => split
         | |- int_directive_ok _ spec_lX _ _ _ => right
         | |- int_directive_ok _ _ _ _ _ => left
         end; side.
Qed.

Example ex_wf_seq_run :
  scan_str rt_cfg (print_items rt_cfg ex_items_f ++ ex_rest) 0 ex_sitems_f []
  = SOk [VFloat 4728057454355442563; VStr [97; 34]; VInt (-7); VFloat 4591870180066957722; VInt (-2147483648); VInt (-5); VFloat 4614256656543962353] 85.
Proof. vm_compute. reflexivity. Qed.

(* Int through a numeric specification: signed decimal directives with flags and width, unsigned
   directives u x X o with 0 flag and width *)
Lemma rt_int_spec_roundtrip : forall sp ssp z rest, int_directive_ok rt_cfg sp ssp z rest ->
  scan_num rt_cfg ssp (print_num sp (VInt z) ++ rest) = Some (VInt z, length (print_num sp (VInt z))).
Proof. exact (int_directive_roundtrip rt_cfg). Qed.

(* the `l`-less signed class is not empty for rt_cfg: the sign restoration is in the source *)
Lemma rt_signext : cf_int_signext rt_cfg = true.
Proof. vm_compute. reflexivity. Qed.

Example ex_int_directive_d : int_directive_ok rt_cfg spec_p08d spec_d (-2147483648) ex_rest.
Proof.
  left. repeat split; try reflexivity; try (left; reflexivity); try (cbn; unfold two31; lia); try discriminate.
Qed.

(* the sign restoration covers every narrow directive: none (int), h (short), hh (char) *)
Lemma rt_int_restore : forall sp, int_restore rt_cfg sp = true.
Proof. intros sp. unfold int_restore. destruct (n_short sp); vm_compute; reflexivity. Qed.

Definition spec_hhd : nspec := {| n_conv := 100; n_long := false; n_plus := false; n_space := false;
                                  n_zero := false; n_alt := false; n_width := 0; n_prec := None; n_short := 2 |}.
Definition spec_hx : nspec := {| n_conv := 120; n_long := false; n_plus := false; n_space := false;
                                 n_zero := true; n_alt := false; n_width := 6; n_prec := None; n_short := 1 |}.

Example ex_int_directive_hhd : int_directive_ok rt_cfg spec_hhd spec_hhd (-128) ex_rest.
Proof.
  left. repeat split; try reflexivity; try (left; reflexivity); try (cbn; lia); try discriminate.
Qed.

Example ex_int_directive_hx : int_directive_ok rt_cfg spec_hx spec_hx 65535 ex_rest.
Proof.
  right. repeat split; try reflexivity; try (cbn; lia); try discriminate;
    try (right; left; reflexivity).
Qed.

(* as found after the first repair: h / hh results were still zero-extended (-1 read back as 255) *)
Definition cfg_no_narrow : config :=
  {| cf_show_esc := rt_show_escapes; cf_look_esc := rt_look_escapes; cf_look_cont := true;
     cf_float_look_long := true; cf_int_signext := true; cf_int_signext_narrow := false;
     cf_lit_measure := true; cf_pct_measure := true |}.

Lemma rt_scan_hh_zero_extends_refuted :
  scan_num cfg_no_narrow spec_hhd (print_num spec_hhd (VInt (-1))) = Some (VInt 255, 2%nat) /\
  scan_num rt_cfg spec_hhd (print_num spec_hhd (VInt (-1))) = Some (VInt (-1), 2%nat).
Proof. vm_compute. split; reflexivity. Qed.

Example ex_int_directive_lX : int_directive_ok rt_cfg spec_lX spec_lx (-5) ex_rest.
Proof.
  right. repeat split; try reflexivity; try (cbn; unfold two63; lia); try discriminate;
    try (right; right; left; reflexivity); try (right; left; reflexivity).
Qed.

Example ex_finite : finite 4728057454355442549.
Proof. vm_compute. discriminate. Qed.

(* the writer's table found in the source is admissible for the table-generic theorem *)
Lemma rt_show_table_ok : show_table_ok rt_show_escapes.
Proof.
  unfold show_table_ok. split; [|split; [|split]].
  - cbv [rt_show_escapes map snd]. repeat (constructor; [cbn; intuition discriminate|]). constructor.
  - cbv [rt_show_escapes]. repeat (constructor; [cbn; discriminate|]). constructor.
  - vm_compute. discriminate.
  - vm_compute. discriminate.
Qed.
