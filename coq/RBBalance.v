(* RBBalance.v — proofs about the Tree model (RBTree.v), part 2: COLOURS AND BLACK HEIGHT.
   rbh t n   : t has no red node with a red child and every path to a leaf has n black nodes.
   pinv p n  : the context p expects a subtree of black height n in its hole and is otherwise valid
               (a red frame has a black sibling subtree and a black frame above it).
   Tree_Set_Fix and Tree_Rem_Fix never reach their Crash branches under these invariants and
   return valid red-black trees; height bound from rbh.  Nothing here depends on keys. *)
From Coq Require Import List Arith Bool ZArith Lia.
From CelloV Require Import RBTree.
Import ListNotations.

Section Balance.
  Variables K V : Type.
  Variable use_succ : bool -> bool -> bool.

  Notation tree := (tree K V).
  Notation path := (path K V).
  Notation frame := (frame K V).
  Notation plug := (plug K V).
  Notation fill := (fill K V).
  Notation color_of := (color_of K V).
  Notation blacken := (blacken K V).

  Inductive rbh : tree -> nat -> Prop :=
  | rbh_E : rbh E 0
  | rbh_R : forall l k v r n, color_of l = Black -> color_of r = Black -> rbh l n -> rbh r n ->
                              rbh (T Red l k v r) n
  | rbh_B : forall l k v r n, rbh l n -> rbh r n -> rbh (T Black l k v r) (S n).

  Definition hd_black (p : path) : Prop :=
    match p with F _ _ _ Black _ _ _ :: _ => True | _ => False end.

  Inductive pinv : path -> nat -> Prop :=
  | pinv_nil : forall n, pinv [] n
  | pinv_R : forall d k v s p n, color_of s = Black -> rbh s n -> pinv p n -> hd_black p ->
                                 pinv (F K V d Red k v s :: p) n
  | pinv_B : forall d k v s p n, rbh s n -> pinv p (S n) -> pinv (F K V d Black k v s :: p) n.

  (* a valid red-black tree: black root, no red-red, equal black heights *)
  Definition rb_tree (t : tree) : Prop := color_of t = Black /\ exists n, rbh t n.

  (* a valid subtree sitting in a valid context *)
  Definition foc (t : tree) (p : path) (n : nat) : Prop :=
    rbh t n /\ pinv p n /\ (color_of t = Red -> hd_black p).

  Ltac inv H := inversion H; subst; clear H.

  (* invert every rbh/pinv hypothesis whose subject starts with a constructor *)
  Ltac rbinv :=
    repeat match goal with
           | H : rbh E _ |- _ => inv H
           | H : rbh (T _ _ _ _ _) _ |- _ => inv H
           | H : pinv (_ :: _) _ |- _ => inv H
           | H : hd_black [] |- _ => destruct H
           | H : hd_black (F _ _ _ Red _ _ _ :: _) |- _ => destruct H
           | H : Red = Black |- _ => discriminate H
           | H : Black = Red |- _ => discriminate H
           | H : color_of (T ?c _ _ _ _) = _ |- _ => simpl in H
           | H : color_of E = _ |- _ => simpl in H
           end.

  Lemma pinv_R_inv : forall d k v s p n, pinv (F K V d Red k v s :: p) n ->
    color_of s = Black /\ rbh s n /\ pinv p n /\ hd_black p.
  Proof. intros. inv H. auto. Qed.
  Lemma pinv_B_inv : forall d k v s p n, pinv (F K V d Black k v s :: p) n -> rbh s n /\ pinv p (S n).
  Proof. intros. inv H. auto. Qed.
  Lemma rbh_R_inv : forall l k v r n, rbh (T Red l k v r) n ->
    color_of l = Black /\ color_of r = Black /\ rbh l n /\ rbh r n.
  Proof. intros. inv H. auto. Qed.
  Lemma rbh_B_inv : forall l k v r n, rbh (T Black l k v r) n -> exists m, n = S m /\ rbh l m /\ rbh r m.
  Proof. intros. inv H. eauto. Qed.

  Lemma plug_valid : forall p t n, foc t p n -> rb_tree (plug t p).
  Proof.
    induction p as [|[d c k v s] p IH]; intros t n (Ht & Hp & Hc).
    - simpl. split; [|eauto]. destruct (color_of t) eqn:E1; auto. destruct (Hc eq_refl).
    - simpl. inv Hp.
      + (* red frame: the focus is black *)
        assert (color_of t = Black).
        { destruct (color_of t) eqn:E1; auto. destruct (Hc eq_refl). }
        apply (IH _ n). split; [|split; auto].
        destruct d; simpl; constructor; auto.
      + apply (IH _ (S n)). split; [|split; auto].
        * destruct d; simpl; constructor; auto.
        * destruct d; simpl; discriminate.
  Qed.

  Lemma foc_root : forall t, rb_tree t -> exists n, foc t [] n.
  Proof.
    intros t (Hc & n & Hn). exists n. split; auto. split; [constructor|]. congruence.
  Qed.

  Lemma rbh_blacken : forall t n, rbh t n -> exists m, rbh (blacken t) m.
  Proof.
    intros t n H. destruct H; simpl.
    - exists 0. constructor.
    - exists (S n). constructor; auto.
    - exists (S n). constructor; auto.
  Qed.

  Lemma rb_blacken : forall t n, rbh t n -> rb_tree (blacken t).
  Proof.
    intros t n H. split.
    - destruct t; reflexivity.
    - eapply rbh_blacken; eauto.
  Qed.

  Lemma rbh_color_cases : forall t n, rbh t n ->
    (color_of t = Black) \/ (exists l k v r, t = T Red l k v r).
  Proof. intros t n H. destruct H; simpl; eauto 6. Qed.

  (* ------------------------------------------------------------ walking down keeps the invariant *)
  Lemma foc_left : forall c l k v r p n, foc (T c l k v r) p n ->
    exists m, foc l (F K V DL c k v r :: p) m.
  Proof.
    intros c l k v r p n (Ht & Hp & Hc). inv Ht.
    - exists n. split; auto. split; [constructor; auto|]. intros Hl. rewrite Hl in *. discriminate.
    - exists n0. split; auto. split; [constructor; auto|]. intros _. exact I.
  Qed.

  Lemma foc_right : forall c l k v r p n, foc (T c l k v r) p n ->
    exists m, foc r (F K V DR c k v l :: p) m.
  Proof.
    intros c l k v r p n (Ht & Hp & Hc). inv Ht.
    - exists n. split; auto. split; [constructor; auto|]. intros Hl. rewrite Hl in *. discriminate.
    - exists n0. split; auto. split; [constructor; auto|]. intros _. exact I.
  Qed.

  (* the frame pushed by Tree_Rem for the two-children case carries another key/value *)
  Lemma foc_left_any : forall c l k v r p n k' v', foc (T c l k v r) p n ->
    exists m, foc l (F K V DL c k' v' r :: p) m.
  Proof.
    intros c l k v r p n k' v' (Ht & Hp & Hc). inv Ht.
    - exists n. split; auto. split; [constructor; auto|]. intros Hl. rewrite Hl in *. discriminate.
    - exists n0. split; auto. split; [constructor; auto|]. intros _. exact I.
  Qed.

  Lemma descend_foc : forall (cmp : K -> K -> comparison) t k p n x p',
    foc t p n -> descend K V cmp t k p = (x, p') -> exists m, foc x p' m.
  Proof.
    induction t as [|c l IHl k' v r IHr]; intros k p n x p' Hf H; simpl in H.
    - inv H. eauto.
    - destruct (cmp k' k).
      + inv H. eauto.
      + apply foc_left in Hf as (m & Hm). eapply IHl; eauto.
      + apply foc_right in Hf as (m & Hm). eapply IHr; eauto.
  Qed.

  Lemma max_node_foc : forall t p n x p',
    foc t p n -> max_node K V t p = (x, p') -> exists m, foc x p' m.
  Proof.
    induction t as [|c l IHl k v r IHr]; intros p n x p' Hf H; simpl in H.
    - inv H. eauto.
    - destruct r as [|rc rl rk rv rr].
      + inv H. eauto.
      + apply foc_right in Hf as (m & Hm). eapply IHr; eauto.
  Qed.

  (* ------------------------------------------------------------ Tree_Set_Fix *)
  Lemma set_fix_valid_n : forall m p, length p <= m -> forall t n,
    rbh t n -> pinv p n -> color_of t = Red ->
    exists r, set_fix K V t p = Ok r /\ rb_tree r.
  Proof.
    induction m as [|m IH]; intros p Hl t n Ht Hp Hc.
    - destruct p; [|simpl in Hl; lia]. simpl. eexists; split; eauto. eapply rb_blacken; eauto.
    - destruct p as [|[d [] pk pv s] p1].
      + simpl. eexists; split; eauto. eapply rb_blacken; eauto.
      + (* red parent *)
        destruct p1 as [|[d2 gc gk gv u] p2].
        { apply pinv_R_inv in Hp as (_ & _ & _ & Hb). destruct Hb. }
        apply pinv_R_inv in Hp as (Hsc & Hs & Hp1 & Hb).
        destruct gc; [destruct Hb|]. apply pinv_B_inv in Hp1 as (Hu0 & Hp2).
        cbn [set_fix]. destruct (is_red K V u) eqn:Hu.
        * (* red uncle: recolour and climb *)
          unfold is_red in Hu. destruct u as [|[] ul uk uv ur]; simpl in Hu; try discriminate.
          apply rbh_R_inv in Hu0 as (? & ? & ? & ?).
          eapply (IH p2); [simpl in Hl; lia| | exact Hp2 |].
          -- destruct d, d2; simpl; constructor; simpl; auto; constructor; auto.
          -- destruct d2; reflexivity.
        * (* black uncle: rotations *)
          assert (Hub : color_of u = Black).
          { unfold is_red in Hu. destruct (color_of u); auto; discriminate. }
          destruct t as [|[] tl tk tv tr]; simpl in Hc; try discriminate.
          apply rbh_R_inv in Ht as (? & ? & ? & ?).
          destruct d2, d; (eexists; split; [reflexivity|]); apply (plug_valid _ _ (S n));
            (split; [|split; [exact Hp2 | simpl; discriminate]]);
            repeat (constructor; simpl; auto).
      + (* black parent: nothing to do *)
        exists (plug t (F K V d Black pk pv s :: p1)). split; [reflexivity|].
        apply (plug_valid _ _ n). split; [exact Ht|split; [exact Hp|intros _; exact I]].
  Qed.

  Lemma set_fix_valid : forall p t n, rbh t n -> pinv p n -> color_of t = Red ->
    exists r, set_fix K V t p = Ok r /\ rb_tree r.
  Proof. intros. eapply set_fix_valid_n; eauto. Qed.

  Lemma set_root_valid : forall (cmp : K -> K -> comparison) t k v,
    rb_tree t -> exists r added, set_root K V cmp t k v = Ok (r, added) /\ rb_tree r.
  Proof.
    intros cmp t k v Ht. unfold set_root.
    destruct (descend K V cmp t k []) as [x p'] eqn:Hd.
    apply foc_root in Ht as (n & Hf). eapply descend_foc in Hd as (m & Hx & Hp & Hc); eauto.
    destruct x as [|c l k0 v0 r].
    - inv Hx. destruct (set_fix_valid p' (T Red E k v E) 0) as (r & Hr & Hv); auto.
      { constructor; auto; constructor. }
      rewrite Hr. simpl. eauto.
    - eexists. eexists. split; [reflexivity|]. apply (plug_valid _ _ m). split; [|split]; auto.
      inv Hx; constructor; auto.
  Qed.

  (* ------------------------------------------------------------ Tree_Rem_Fix *)
  Lemma is_black_color : forall t, is_black K V t = true <-> color_of t = Black.
  Proof. intros t. unfold is_black, is_red. destruct (color_of t); simpl; split; congruence. Qed.
  Lemma is_red_color : forall t, is_red K V t = true <-> color_of t = Red.
  Proof. intros t. unfold is_red. destruct (color_of t); simpl; split; congruence. Qed.

  (* the loop body after the red-sibling step and the climb test: black sibling of black height
     n+1, focus of black height n; not (black parent and both nephews black) *)
  Lemma rem_finish_valid : forall t d pc pk pv sl sk sv sr n,
    rbh t n -> rbh (T Black sl sk sv sr) (S n) ->
    ~ (pc = Black /\ color_of sl = Black /\ color_of sr = Black) ->
    exists r, rem_finish K V t d pc pk pv (T Black sl sk sv sr) = Ok r /\
              rbh r (match pc with Black => S (S n) | Red => S n end) /\
              (pc = Black -> color_of r = Black).
  Proof.
    intros t d pc pk pv sl sk sv sr n Ht Hs Hnc.
    apply rbh_B_inv in Hs as (m & Hm & Hsl & Hsr). inversion Hm; subst m; clear Hm.
    unfold rem_finish.
    destruct (rbh_color_cases _ _ Hsl) as [Hl | (a & x & y & b & ->)];
    destruct (rbh_color_cases _ _ Hsr) as [Hr | (a' & x' & y' & b' & ->)].
    - (* both nephews black: the parent is red *)
      destruct pc; [|exfalso; auto].
      assert (Hbl : is_black K V sl = true) by now apply is_black_color.
      assert (Hbr : is_black K V sr = true) by now apply is_black_color.
      rewrite Hbl, Hbr. simpl.
      eexists. split; [reflexivity|]. split; [|discriminate].
      destruct d; simpl; constructor; auto; constructor; auto.
    - (* right nephew red, left black *)
      assert (Hbl : is_black K V sl = true) by now apply is_black_color.
      rewrite Hbl. replace (is_black K V (T Red a' x' y' b')) with false by reflexivity.
      replace (is_red K V (T Red a' x' y' b')) with true by reflexivity.
      replace (is_red K V sl) with false by (unfold is_black in Hbl; destruct (is_red K V sl); auto; discriminate).
      rewrite !andb_false_r. simpl. apply rbh_R_inv in Hsr as (? & ? & ? & ?).
      destruct d, pc; simpl.
      all: try (eexists; split; [reflexivity|]; split; [|try discriminate; auto];
                repeat (constructor; simpl; auto)).
      all: destruct sl; simpl in *; (eexists; split; [reflexivity|]; split; [|try discriminate; auto]);
           rbinv; repeat (constructor; simpl; auto).
    - (* left nephew red, right black *)
      assert (Hbr : is_black K V sr = true) by now apply is_black_color.
      rewrite Hbr. replace (is_black K V (T Red a x y b)) with false by reflexivity.
      replace (is_red K V (T Red a x y b)) with true by reflexivity.
      replace (is_red K V sr) with false by (unfold is_black in Hbr; destruct (is_red K V sr); auto; discriminate).
      rewrite !andb_false_r. simpl. apply rbh_R_inv in Hsl as (? & ? & ? & ?).
      destruct d, pc; simpl.
      all: try (eexists; split; [reflexivity|]; split; [|try discriminate; auto];
                repeat (constructor; simpl; auto)).
      all: destruct sr; simpl in *; (eexists; split; [reflexivity|]; split; [|try discriminate; auto]);
           rbinv; repeat (constructor; simpl; auto).
    - (* both nephews red *)
      replace (is_black K V (T Red a x y b)) with false by reflexivity.
      replace (is_black K V (T Red a' x' y' b')) with false by reflexivity.
      rewrite !andb_false_r. simpl. apply rbh_R_inv in Hsl as (? & ? & ? & ?). apply rbh_R_inv in Hsr as (? & ? & ? & ?).
      destruct d, pc; simpl;
        (eexists; split; [reflexivity|]; split; [|try discriminate; auto]);
        repeat (constructor; simpl; auto).
  Qed.

  Lemma rem_fix_valid : forall p t n, rbh t n -> pinv p (S n) ->
    exists r m, rem_fix K V t p = Ok r /\ rbh r m /\ (color_of t = Black \/ p <> [] -> color_of r = Black).
  Proof.
    induction p as [|[d pc pk pv s] p IH]; intros t n Ht Hp.
    - exists t, n. simpl. repeat split; auto. intros [H|H]; congruence.
    - cbn [rem_fix]. destruct pc.
      + (* red parent: the sibling is black *)
        apply pinv_R_inv in Hp as (Hsc & Hs & Hp1 & Hb).
        destruct s as [|[] sl sk sv sr]; simpl in Hsc; try discriminate.
        { inversion Hs. }
        replace (cblack Red) with false by reflexivity. simpl (false && _ && _).
        destruct (rem_finish_valid t d Red pk pv sl sk sv sr n Ht Hs) as (r0 & Hr0 & Hh & _).
        { intros (Hx & _); discriminate. }
        rewrite Hr0. simpl.
        destruct (plug_valid p r0 (S n)) as (Hc & m & Hm).
        { split; [|split]; auto. }
        exists (plug r0 p), m. auto.
      + (* black parent *)
        apply pinv_B_inv in Hp as (Hs & Hp1).
        destruct s as [|[] sl sk sv sr]; [inversion Hs| |].
        * (* (1) red sibling: its children are black with black height n+1 *)
          apply rbh_R_inv in Hs as (Hlc & Hrc & Hsl & Hsr).
          destruct d.
          -- destruct sl as [|[] a x y b]; simpl in Hlc; try discriminate; [inversion Hsl|].
             destruct (rem_finish_valid t DL Red pk pv a x y b n Ht Hsl) as (r0 & Hr0 & Hh & _).
             { intros (Hx & _); discriminate. }
             rewrite Hr0. simpl.
             destruct (plug_valid (F K V DL Black sk sv sr :: p) r0 (S n)) as (Hc & m & Hm).
             { split; [|split]; [auto|constructor; auto|intros _; exact I]. }
             exists (plug r0 (F K V DL Black sk sv sr :: p)), m. auto.
          -- destruct sr as [|[] a x y b]; simpl in Hrc; try discriminate; [inversion Hsr|].
             destruct (rem_finish_valid t DR Red pk pv a x y b n Ht Hsr) as (r0 & Hr0 & Hh & _).
             { intros (Hx & _); discriminate. }
             rewrite Hr0. simpl.
             destruct (plug_valid (F K V DR Black sk sv sl :: p) r0 (S n)) as (Hc & m & Hm).
             { split; [|split]; [auto|constructor; auto|intros _; exact I]. }
             exists (plug r0 (F K V DR Black sk sv sl :: p)), m. auto.
        * (* black sibling *)
          destruct (cblack Black && is_black K V sl && is_black K V sr) eqn:Hcl.
          -- (* (2) everything black: recolour the sibling, continue one level up *)
             simpl in Hcl. apply andb_true_iff in Hcl as [H1 H2].
             apply is_black_color in H1. apply is_black_color in H2.
             apply rbh_B_inv in Hs as (m & Hm & Hsl & Hsr). inversion Hm; subst m.
             destruct (IH (fill (F K V d Black pk pv (T Red sl sk sv sr)) t) (S n)) as (r & m' & Hr & Hh & Hc); auto.
             { destruct d; simpl; constructor; auto; constructor; auto. }
             exists r, m'. repeat split; auto. intros _. apply Hc. left. destruct d; reflexivity.
          -- destruct (rem_finish_valid t d Black pk pv sl sk sv sr n Ht Hs) as (r0 & Hr0 & Hh & Hcb).
             { intros (_ & H1 & H2). apply is_black_color in H1. apply is_black_color in H2.
               simpl in Hcl. rewrite H1, H2 in Hcl. discriminate. }
             rewrite Hr0. simpl.
             destruct (plug_valid p r0 (S (S n))) as (Hc & m & Hm).
             { split; [|split]; auto. intros Hx. rewrite Hcb in Hx; auto. discriminate. }
             exists (plug r0 p), m. auto.
  Qed.

  (* ------------------------------------------------------------ Tree_Rem after the search *)
  Lemma rem_node_valid : forall nc nl nk nv nr p1 n,
    foc (T nc nl nk nv nr) p1 n -> exists r, rem_node K V (T nc nl nk nv nr) p1 = Ok r /\ rb_tree r.
  Proof.
    intros nc nl nk nv nr p1 n (Ht & Hp & Hc). simpl. unfold rem_splice.
    set (chld := match nr with E => nl | T _ _ _ _ _ => nr end).
    destruct nc.
    - (* red node: its children are black, the child takes its place *)
      apply rbh_R_inv in Ht as (Hlc & Hrc & Hl & Hr).
      assert (Hch : rbh chld n /\ color_of chld = Black) by (subst chld; destruct nr; auto).
      destruct Hch as (Hch & Hcc).
      assert (Hv : rb_tree (plug chld p1)).
      { apply (plug_valid _ _ n). split; [|split]; auto; congruence. }
      destruct p1; [destruct (Hc eq_refl)|]. eauto.
    - apply rbh_B_inv in Ht as (m & -> & Hl & Hr).
      assert (Hch : rbh chld m) by (subst chld; destruct nr; auto).
      destruct (rem_fix_valid p1 chld m Hch Hp) as (r & m' & Hr1 & Hh & Hcb).
      rewrite Hr1. destruct p1.
      + simpl. eexists; split; eauto. eapply rb_blacken; eauto.
      + eexists; split; eauto. split; eauto. apply Hcb. right. discriminate.
  Qed.

  Lemma max_node_nonE : forall t p, t <> E ->
    exists c l k v r q, max_node K V t p = (T c l k v r, q).
  Proof.
    induction t as [|c l IHl k v r IHr]; intros p Hne; [congruence|].
    destruct r as [|rc rl rk rv rr].
    - simpl. eauto 10.
    - change (max_node K V (T c l k v (T rc rl rk rv rr)) p)
        with (max_node K V (T rc rl rk rv rr) (F K V DR c k v l :: p)).
      apply IHr. congruence.
  Qed.

  Lemma min_node_foc : forall t p n x p',
    foc t p n -> min_node K V t p = (x, p') -> exists m, foc x p' m.
  Proof.
    induction t as [|c l IHl k v r IHr]; intros p n x p' Hf H; simpl in H.
    - inv H. eauto.
    - destruct l as [|lc ll lk lv lr].
      + inv H. eauto.
      + apply foc_left in Hf as (m & Hm). eapply IHl; eauto.
  Qed.

  Lemma min_node_nonE : forall t p, t <> E ->
    exists c l k v r q, min_node K V t p = (T c l k v r, q).
  Proof.
    induction t as [|c l IHl k v r IHr]; intros p Hne; [congruence|].
    destruct l as [|lc ll lk lv lr].
    - simpl. eauto 10.
    - change (min_node K V (T c (T lc ll lk lv lr) k v r) p)
        with (min_node K V (T lc ll lk lv lr) (F K V DL c k v r :: p)).
      apply IHl. congruence.
  Qed.

  Lemma foc_right_any : forall c l k v r p n k' v', foc (T c l k v r) p n ->
    exists m, foc r (F K V DR c k' v' l :: p) m.
  Proof.
    intros c l k v r p n k' v' (Ht & Hp & Hc). inv Ht.
    - exists n. split; auto. split; [constructor; auto|]. intros Hl. rewrite Hl in *. discriminate.
    - exists n0. split; auto. split; [constructor; auto|]. intros _. exact I.
  Qed.

  Lemma max_kv_some : forall t, t <> E -> max_kv K V t <> None.
  Proof.
    induction t as [|c l IHl k v r IHr]; intros Hne; [congruence|].
    destruct r as [|rc rl rk rv rr]; [simpl; discriminate|].
    change (max_kv K V (T c l k v (T rc rl rk rv rr))) with (max_kv K V (T rc rl rk rv rr)).
    apply IHr. congruence.
  Qed.

  Lemma min_kv_some : forall t, t <> E -> min_kv K V t <> None.
  Proof.
    induction t as [|c l IHl k v r IHr]; intros Hne; [congruence|].
    destruct l as [|lc ll lk lv lr]; [simpl; discriminate|].
    change (min_kv K V (T c (T lc ll lk lv lr) k v r)) with (min_kv K V (T lc ll lk lv lr)).
    apply IHl. congruence.
  Qed.

  Lemma rem_pred_valid : forall xc xl xk xv xr p n, xl <> E ->
    foc (T xc xl xk xv xr) p n -> exists r, rem_pred K V xc xl xr p = Ok r /\ rb_tree r.
  Proof.
    intros xc xl xk xv xr p n Hne Hf. unfold rem_pred.
    destruct (max_kv K V xl) as [[pk pv]|] eqn:Hk.
    - destruct (max_node_nonE xl (F K V DL xc pk pv xr :: p) Hne) as (c & l & k & v & r & q & Hm).
      rewrite Hm.
      destruct (foc_left_any _ _ _ _ _ _ _ pk pv Hf) as (m & Hf2).
      eapply max_node_foc in Hm as (m' & Hm'); eauto.
      eapply rem_node_valid; eauto.
    - exfalso. eapply max_kv_some; eauto.
  Qed.

  Lemma rem_succ_valid : forall xc xl xk xv xr p n, xr <> E ->
    foc (T xc xl xk xv xr) p n -> exists r, rem_succ K V xc xl xr p = Ok r /\ rb_tree r.
  Proof.
    intros xc xl xk xv xr p n Hne Hf. unfold rem_succ.
    destruct (min_kv K V xr) as [[sk sv]|] eqn:Hk.
    - destruct (min_node_nonE xr (F K V DR xc sk sv xl :: p) Hne) as (c & l & k & v & r & q & Hm).
      rewrite Hm.
      destruct (foc_right_any _ _ _ _ _ _ _ sk sv Hf) as (m & Hf2).
      eapply min_node_foc in Hm as (m' & Hm'); eauto.
      eapply rem_node_valid; eauto.
    - exfalso. eapply min_kv_some; eauto.
  Qed.

  (* whichever in-order neighbour the source's donor rule picks *)
  Lemma rem_at_valid : forall xc xl xk xv xr p n,
    foc (T xc xl xk xv xr) p n -> exists r, rem_at K V use_succ (T xc xl xk xv xr) p = Ok r /\ rb_tree r.
  Proof.
    intros xc xl xk xv xr p n Hf. unfold rem_at.
    destruct xl as [|lc ll lk lv lr]; [eapply rem_node_valid; eauto|].
    destruct xr as [|rc rl rk rv rr]; [eapply rem_node_valid; eauto|].
    destruct (donor_is_succ K V use_succ _ _).
    - eapply rem_succ_valid; eauto. congruence.
    - eapply rem_pred_valid; eauto. congruence.
  Qed.

  (* ------------------------------------------------------------ height bound *)
  Notation size := (size K V).
  Notation height := (height K V).

  Lemma rbh_size : forall t n, rbh t n -> 2 ^ n <= size t + 1.
  Proof.
    induction 1; simpl in *; lia.
  Qed.

  Lemma rbh_height : forall t n, rbh t n ->
    height t <= 2 * n + (match color_of t with Red => 1 | Black => 0 end).
  Proof.
    induction 1; simpl in *; try lia.
    - rewrite H, H0 in *. lia.
    - destruct (color_of l), (color_of r); lia.
  Qed.

  (* the descents visit at most `height` nodes; the fix-up loops recurse on the path they leave *)
  Lemma descend_depth : forall (cmp : K -> K -> comparison) t k p x p',
    descend K V cmp t k p = (x, p') -> length p' + height x <= length p + height t.
  Proof.
    induction t as [|c l IHl k' v r IHr]; intros k p x p' H; simpl in H.
    - inv H. lia.
    - destruct (cmp k' k).
      + inv H. lia.
      + apply IHl in H. simpl in *. lia.
      + apply IHr in H. simpl in *. lia.
  Qed.

  Lemma max_node_depth : forall t p x p',
    max_node K V t p = (x, p') -> length p' + height x <= length p + height t.
  Proof.
    induction t as [|c l IHl k v r IHr]; intros p x p' H.
    - simpl in H. inv H. lia.
    - destruct r as [|rc rl rk rv rr].
      + simpl in H. inv H. lia.
      + change (max_node K V (T c l k v (T rc rl rk rv rr)) p)
          with (max_node K V (T rc rl rk rv rr) (F K V DR c k v l :: p)) in H.
        apply IHr in H. simpl length in H. simpl height in *. lia.
  Qed.

  Lemma min_node_depth : forall t p x p',
    min_node K V t p = (x, p') -> length p' + height x <= length p + height t.
  Proof.
    induction t as [|c l IHl k v r IHr]; intros p x p' H.
    - simpl in H. inv H. lia.
    - destruct l as [|lc ll lk lv lr].
      + simpl in H. inv H. lia.
      + remember (T lc ll lk lv lr) as tl eqn:Etl.
        assert (Hm : min_node K V (T c tl k v r) p = min_node K V tl (F K V DL c k v r :: p))
          by (subst tl; reflexivity).
        rewrite Hm in H. apply IHl in H. simpl in *. lia.
  Qed.

  Lemma rb_height_bound : forall t, rb_tree t -> 2 ^ height t <= (size t + 1) ^ 2.
  Proof.
    intros t (Hc & n & Hn). pose proof (rbh_size _ _ Hn) as Hs. pose proof (rbh_height _ _ Hn) as Hh.
    rewrite Hc in Hh.
    transitivity (2 ^ (n * 2)).
    - apply Nat.pow_le_mono_r; lia.
    - rewrite Nat.pow_mul_r. apply Nat.pow_le_mono_l. exact Hs.
  Qed.

  (* search depth: the way found by the descent of Tree_Get/Mem/Set/Rem in a valid tree has at most
     2*log2(n+1) frames (integer form) *)
  Lemma rb_search_depth : forall (cmp : K -> K -> comparison) t k x p,
    rb_tree t -> descend K V cmp t k [] = (x, p) -> 2 ^ length p <= (size t + 1) ^ 2.
  Proof.
    intros cmp t k x p Hv Hd. apply descend_depth in Hd. simpl in Hd.
    transitivity (2 ^ height t); [apply Nat.pow_le_mono_r; lia | now apply rb_height_bound].
  Qed.

  (* ... and so has the way to the node that Tree_Rem finally takes out (the predecessor) *)
  Lemma rb_pred_depth : forall p c l k v r k' v' x p',
    max_node K V l (F K V DL c k' v' r :: p) = (x, p') ->
    length p' <= length p + height (T c l k v r).
  Proof.
    intros p c l k v r k' v' x p' H. apply max_node_depth in H. simpl in *. lia.
  Qed.

  Lemma rb_succ_depth : forall p c l k v r k' v' x p',
    min_node K V r (F K V DR c k' v' l :: p) = (x, p') ->
    length p' <= length p + height (T c l k v r).
  Proof.
    intros p c l k v r k' v' x p' H. apply min_node_depth in H. simpl in *. lia.
  Qed.
End Balance.
