(* C09 — cmp is a consistent total order and the predicates derive from it. *)
From CelloV Require Import Generated Values CmpProofs.
