(* Properties_C09.v — property C09: cmp is a consistent total order and the predicates derive
   from it.  Only statements closed by `exact`, each followed by Print Assumptions.
   Reading guide: `value` = the value universe (Int, Float, String, Type, plain struct, Array/List/
   Tuple as element lists, Tree as binding lists); `dom s v` = v is a value of sort s (Float: not
   NaN; sequences: all elements of one sort, whatever the container kinds; Tree: keys of one sort,
   values of one sort); `value_cmp` = the model of cmp (Values.v, tied to the C text by the
   correspondence check and by Generated.v); `value_ord` = the reference order (numeric / byte-wise
   lexicographic / name order, induced lexicographic order on containers); `value_eqv` = "equal
   values". *)
From Coq Require Import List ZArith NArith Bool Reals.
From Flocq Require Import Core IEEE754.BinarySingleNaN.
From CelloV Require Import Generated Values CmpProofs.
Import ListNotations.
Local Open Scope Z_scope.

(* 1. cmp orders values exactly as the reference order does (and never raises on one sort) *)
Theorem cmp_orders_as_reference : forall a s b, dom s a -> dom s b ->
  value_cmp a b = Some (z_of_cmp (value_ord a b)).
Proof. exact CmpProofs.value_cmp_is_order. Qed.
Print Assumptions cmp_orders_as_reference.

(* 2. what the reference order is: Z order, unsigned-byte lexicographic order, induced
      lexicographic order over elements / over (key, value) bindings *)
Theorem reference_order_is : 
  (forall x y, value_ord (VInt x) (VInt y) = (x ?= y)) /\
  (forall x y, value_ord (VStr x) (VStr y) = lex_compare N.compare x y) /\
  (forall x y, value_ord (VType x) (VType y) = lex_compare N.compare x y) /\
  (forall t t' x y, value_ord (VStruct t x) (VStruct t' y) = lex_compare N.compare x y) /\
  (forall k k' xs ys, value_ord (VSeq k xs) (VSeq k' ys) = lex_compare value_ord xs ys) /\
  (forall xs ys, value_ord (VTree xs) (VTree ys) = lex_compare (pair_ord value_ord value_ord) xs ys).
Proof. exact CmpProofs.reference_order_scalars. Qed.
Print Assumptions reference_order_is.

(* 3. Float (NaN excluded): Float_Cmp = sign of the rounded binary64 difference = the order of the
      extended reals: signed zeros equal, denormals ordered, infinities at the ends *)
Theorem float_cmp_is_numeric_order : forall x y : bfloat, is_nan x = false -> is_nan y = false ->
  float_ord x y = Rcompare (fkey x) (fkey y) /\
  float_cmp x y = z_of_cmp (Rcompare (fkey x) (fkey y)) /\
  (is_finite x = true -> fkey x = B2R x).
Proof. exact CmpProofs.float_order_is_numeric. Qed.
Print Assumptions float_cmp_is_numeric_order.

(* 4. lexicographic = equal common prefix, then either the left operand ends first or the first
      differing pair decides *)
Theorem lexicographic_means : forall {A B} (c : A -> B -> comparison) xs ys,
  lex_compare c xs ys = Lt <->
  exists p q xs' ys', xs = p ++ xs' /\ ys = q ++ ys' /\ all2 (fun x y => c x y = Eq) p q /\
    ((xs' = [] /\ ys' <> []) \/ (exists x y xr yr, xs' = x :: xr /\ ys' = y :: yr /\ c x y = Lt)).
Proof. exact @CmpProofs.lex_compare_Lt_spec. Qed.
Print Assumptions lexicographic_means.

(* 5. the order laws of the reference order on every sort *)
Theorem reference_order_total : forall s a, dom s a ->
  value_ord a a = Eq /\
  (forall b, dom s b -> value_ord b a = CompOpp (value_ord a b)) /\
  (forall b c, dom s b -> dom s c -> value_ord a b = Lt -> value_ord b c <> Gt -> value_ord a c = Lt) /\
  (forall b c, dom s b -> dom s c -> value_ord a b = Eq -> value_ord a c = value_ord b c) /\
  (forall b, dom s b -> (value_ord a b = Eq <-> value_eqv a b)).
Proof. exact CmpProofs.reference_order_laws. Qed.
Print Assumptions reference_order_total.

(* 6. ... and directly about cmp: cmp(a,a) = 0 *)
Theorem cmp_reflexive : forall s a, dom s a -> value_cmp a a = Some 0.
Proof. exact CmpProofs.cmp_refl. Qed.
Print Assumptions cmp_reflexive.

(* 7. sign(cmp(a,b)) = -sign(cmp(b,a)) (the model returns exactly -1/0/1, so even cmp(b,a) = -cmp(a,b)) *)
Theorem cmp_antisymmetric : forall s a b, dom s a -> dom s b ->
  exists c, value_cmp a b = Some c /\ value_cmp b a = Some (- c).
Proof. exact CmpProofs.cmp_antisym. Qed.
Print Assumptions cmp_antisymmetric.

(* 8. transitivity, with strictness and equality carried along *)
Theorem cmp_transitive : forall s a b c x y, dom s a -> dom s b -> dom s c ->
  value_cmp a b = Some x -> value_cmp b c = Some y -> x <= 0 -> y <= 0 ->
  exists z, value_cmp a c = Some z /\ z <= 0 /\ (x < 0 \/ y < 0 -> z < 0) /\ (x = 0 -> y = 0 -> z = 0).
Proof. exact CmpProofs.cmp_trans. Qed.
Print Assumptions cmp_transitive.

(* 9. cmp(a,b) = 0 exactly for equal values *)
Theorem cmp_zero_only_for_equal : forall s a b, dom s a -> dom s b ->
  (value_cmp a b = Some 0 <-> value_eqv a b).
Proof. exact CmpProofs.cmp_zero_iff_equal. Qed.
Print Assumptions cmp_zero_only_for_equal.

(* 10. eq, neq, lt, gt, le, ge are exactly the corresponding predicates of the order *)
Theorem predicates_derive_from_cmp : forall s a b, dom s a -> dom s b ->
  v_eq a b  = Some (match value_ord a b with Eq => true | _ => false end) /\
  v_neq a b = Some (match value_ord a b with Eq => false | _ => true end) /\
  v_lt a b  = Some (match value_ord a b with Lt => true | _ => false end) /\
  v_gt a b  = Some (match value_ord a b with Gt => true | _ => false end) /\
  v_le a b  = Some (match value_ord a b with Gt => false | _ => true end) /\
  v_ge a b  = Some (match value_ord a b with Lt => false | _ => true end).
Proof. exact CmpProofs.cmp_predicates. Qed.
Print Assumptions predicates_derive_from_cmp.

(* 10b. ... and on ANY operands (also outside the sorts) they are the tests of whatever cmp returns *)
Theorem predicates_are_tests_of_cmp : forall a b c, value_cmp a b = Some c ->
  v_eq a b = Some (c =? 0) /\ v_neq a b = Some (negb (c =? 0)) /\ v_lt a b = Some (c <? 0) /\
  v_gt a b = Some (0 <? c) /\ v_le a b = Some (negb (0 <? c)) /\ v_ge a b = Some (negb (c <? 0)).
Proof. exact CmpProofs.cmp_predicates_as_coded. Qed.
Print Assumptions predicates_are_tests_of_cmp.

(* 11. the generic lifting used for every container: element order laws => laws of the
       parallel-iteration comparison with its length tie-break *)
Theorem lex_lift_total_order : forall {A} (D : A -> Prop) (eqv : A -> A -> Prop) (c : A -> A -> comparison) xs,
  Forall (ok_at D eqv c) xs -> ok_at (Forall D) (all2 eqv) (lex_compare c) xs.
Proof. exact @CmpProofs.lex_lift. Qed.
Print Assumptions lex_lift_total_order.

(* 12. the Int_Cmp of the working tree (variant re-read from src/Num.c into Generated.v) is Z order *)
Theorem int_cmp_is_numeric_order : forall a b, int_cmp a b = z_of_cmp (a ?= b).
Proof. exact CmpProofs.int_cmp_correct. Qed.
Print Assumptions int_cmp_is_numeric_order.

(* 13. the pinned Int_Cmp `(int)(a - b)` is not an order on int64 (defect D4, repaired) *)
Theorem int_cmp_old_refuted :
  (exists a b, in_int64 a /\ in_int64 b /\ a <> b /\ int_cmp_trunc a b = 0) /\
  (exists a b, in_int64 a /\ in_int64 b /\ a > b /\ int_cmp_trunc a b < 0) /\
  (exists a b, in_int64 a /\ in_int64 b /\ a > b /\ int_cmp_trunc a b < 0 /\ b < 0).
Proof. exact CmpProofs.int_cmp_trunc_refuted. Qed.
Print Assumptions int_cmp_old_refuted.

(* 14. the comparison code of the working tree, re-read on every run: Int_Cmp, Float_Cmp and the six
       predicates are TRANSLATED (tools/cx_translate.py -> Generated.int_cmp_code, float_cmp_code,
       pred_codes) and verified on the order abstraction (three computations each, sound for all operands
       by CmpProofs.arun_sound), whatever equivalent C form they have; the container loops and the
       instance-else-memcmp dispatch of cmp are matched as shapes *)
Theorem model_shapes_match_source :
  code_is_compare false int_cmp_code /\ code_is_compare true float_cmp_code /\
  (exists l, pred_codes = Some l /\
     forall c, map (aeval false c [AOp0; AOp1]) l = map (fun i => Some (AC (b2z (pred_abs i c)))) [0; 1; 2; 3; 4; 5]%nat) /\
  seq_cmp_shape_ok = true /\ tree_cmp_shape_ok = true /\ cmp_dispatch_ok cmp_dispatch_table = true.
Proof. exact CmpProofs.source_shapes. Qed.
Print Assumptions model_shapes_match_source.

(* 15. consequence for keyed containers: every key set into a Tree keyed through the modelled cmp is
       found again (value of the last set under an order-equal key; absent keys reported absent),
       and a Table's eq-lookup gives the same answer.  `tree_of_sets`/`assoc_get` model the sorted
       walk of Tree.c, `eq_get` the eq test of Table_Get; balancing, probing and hashing are C02/C03. *)
Theorem keyed_lookups_find_keys : forall s ins, Forall (fun kv : value * value => dom s (fst kv)) ins ->
  (exists t, tree_of_sets [] ins = Some t /\ forall k, dom s k -> assoc_get t k = Some (spec_get ins k)) /\
  (forall k, dom s k -> eq_get ins k = Some (spec_get ins k)).
Proof. exact CmpProofs.keyed_lookups. Qed.
Print Assumptions keyed_lookups_find_keys.

(* 16. Tuples hold POINTERS, possibly the same one in several slots.  With the index walk of the
       working tree (Generated.tuple_cmp_self_by_index) cmp(Tuple, sequence) depends on the values in
       the slots only, for EVERY aliasing pattern: it is cmp of the value sequence, to which 1-10 apply *)
Theorem tuple_cmp_depends_on_values_only : forall (items : pitems) k ys,
  operand_cmp (OTup items) (OVal (VSeq k ys)) =
  out_of_option (value_cmp (VSeq KTuple (map snd items)) (VSeq k ys)).
Proof. exact CmpProofs.tuple_cmp_values_only. Qed.
Print Assumptions tuple_cmp_depends_on_values_only.

(* 17. as RIGHT operand a Tuple is walked with Tuple_Iter_Next (first slot holding the cursor): with
       pairwise different pointers that walk yields exactly the value sequence ... *)
Theorem alias_free_right_tuple_is_its_values : forall items, NoDup (map fst items) ->
  forall fuel s0, walk_cmp fuel s0 (SIter items (hd_error items)) = walk_cmp fuel s0 (SList (map snd items)).
Proof. exact CmpProofs.alias_free_tuple_is_its_values. Qed.
Print Assumptions alias_free_right_tuple_is_its_values.

(* 18. ... and with a repeated pointer it does not (open finding F3 `tuple-repeated-pointer` as it shows
       in cmp on the unchanged tree): [1,1,2] against tuple(one,one,two) gives 1, also for the tuple against itself *)
Theorem aliased_right_tuple_refuted :
  let one := VInt 1 in let two := VInt 2 in
  let t : pitems := [(1%N, one); (1%N, one); (2%N, two)] in
  walk_cmp 30 (SList [one; one; two]) (SIter t (hd_error t)) = WRes 1 /\
  walk_cmp 30 (SList (map snd t)) (SIter t (hd_error t)) = WRes 1.
Proof. exact CmpProofs.aliased_right_operand_refuted. Qed.
Print Assumptions aliased_right_tuple_refuted.

(* 19. walking `self` with Tuple_Iter_Next instead of the index (seeded change) is wrong on tuple(one,one,two) *)
Theorem tuple_cmp_iterator_walk_refuted :
  let one := VInt 1 in let two := VInt 2 in
  let t : pitems := [(1%N, one); (1%N, one); (2%N, two)] in
  walk_cmp 30 (SIter t (hd_error t)) (SList [one; one; two]) = WRes (-1) /\
  walk_cmp 30 (SList (map snd t)) (SList [one; one; two]) = WRes 0.
Proof. exact CmpProofs.tuple_cmp_iter_walk_refuted. Qed.
Print Assumptions tuple_cmp_iterator_walk_refuted.

(* 20. the device behind 12, 3 and 10: an expression that only compares its two operands (and, for doubles,
       tests the sign of their rounded difference strictly) evaluates, on ANY operands whose order is c, to
       what its order abstraction computes for c *)
Theorem translated_code_depends_on_order_only :
  forall (diff_ok : bool) (c : comparison) (A : calg) (x y : cT A),
  c_cmp A x y = Some c -> c_cmp A y x = Some (CompOpp c) -> c_cmp A x x = Some Eq -> c_cmp A y y = Some Eq ->
  (diff_ok = true -> forall o, strict o = true ->
    cop_test o (c_cmp A (c_sub A x y) (c_zero A)) = cop_test o (Some c) /\
    cop_test o (c_cmp A (c_sub A y x) (c_zero A)) = cop_test o (Some (CompOpp c)) /\
    cop_test o (c_cmp A (c_zero A) (c_sub A x y)) = cop_test o (Some (CompOpp c)) /\
    cop_test o (c_cmp A (c_zero A) (c_sub A y x)) = cop_test o (Some c)) ->
  forall p z, arun diff_ok c p = Some z -> crun A p x y = Some z.
Proof. exact CmpProofs.arun_sound. Qed.
Print Assumptions translated_code_depends_on_order_only.

(* ------------------------------------------------------------------ non-vacuity of `dom` *)
Example dom_inhabited_scalars :
  dom SInt (VInt 4294967296) /\ dom SInt (VInt (-9223372036854775808)) /\
  dom SFloat (VFloat (float_of_bits 0)) /\ dom SFloat (VFloat (float_of_bits 9223372036854775808)) /\      (* 0.0, -0.0 *)
  dom SFloat (VFloat (float_of_bits 1)) /\ dom SFloat (VFloat (float_of_bits 9218868437227405312)) /\       (* min denormal, +inf *)
  dom SStr (VStr [97; 255]%N) /\ dom SType (VType [73; 110; 116]%N) /\ dom (SStruct 1 3) (VStruct 1 [0; 128; 255]%N).
Proof. vm_compute. repeat split. Qed.

Example dom_inhabited_containers :
  dom (SSeq SInt) (VSeq KArray [VInt 1; VInt 4294967297]) /\ dom (SSeq SInt) (VSeq KTuple []) /\
  dom (SSeq (SSeq SStr)) (VSeq KList [VSeq KTuple [VStr [97]%N]; VSeq KArray []]) /\
  dom (STree SInt SStr) (VTree [(VInt 1, VStr [97]%N); (VInt 0, VStr []%N)]).
Proof. vm_compute. repeat split. Qed.

Example alias_free_nonvacuous : NoDup (map fst ([(1%N, VInt 1); (2%N, VInt 1); (3%N, VInt 2)] : pitems)).
Proof. repeat constructor; simpl; intuition discriminate. Qed.

(* the hypotheses of cmp_transitive are satisfiable with strict and non-strict steps *)
Example cmp_transitive_nonvacuous :
  value_cmp (VSeq KArray [VInt 1]) (VSeq KList [VInt 1]) = Some 0 /\
  value_cmp (VSeq KList [VInt 1]) (VSeq KTuple [VInt 1; VInt (-4294967296)]) = Some (-1) /\
  value_cmp (VFloat (float_of_bits 0)) (VFloat (float_of_bits 9223372036854775808)) = Some 0 /\
  value_cmp (VFloat (float_of_bits 9223372036854775809)) (VFloat (float_of_bits 1)) = Some (-1).
Proof. vm_compute. repeat split. Qed.
