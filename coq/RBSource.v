(* RBSource.v — the tiny rules of src/Tree.c that RBTree.v hard-codes, re-extracted from the working tree
   into Generated.v by tools/genx_tree.py on every run, are the ones the model uses:
   searches and Tree_Set go LEFT when cmp(stored key, key) < 0 (`Lt` in `lookup`/`descend`), a new node is
   red (`set_root`), iteration starts at the leftmost node (`iter_init`/`leftmost`), Tree_Maximum / Tree_Minimum walk
   right / left (`max_node` / `min_node`); the donor rule of Tree_Rem is NOT fixed here: it is the parameter
   `use_succ` of the model, instantiated with Generated.tree_rem_use_succ by the driver.  A changed source rule breaks this lemma. *)
From CelloV Require Import Generated.

Lemma source_rules_as_modelled :
  tree_search_left_when = Lt /\ tree_set_left_when = Lt /\ tree_new_node_red = true /\
  tree_iter_from_left = true /\ tree_donor_helpers_ok = true.
Proof. repeat split; reflexivity. Qed.
