(* Header.v — executable model for property C19: every object carries its true type and
   allocation class; stack, static and container-embedded objects are never passed to
   free/realloc.  NO proofs here (HeaderProofs.v).

   The model is finite: producers (ways of obtaining an object) x operations (deallocating or
   reallocating) x kinds of type x build configuration.  Every constant that is *data* in the C
   text is taken from Generated.v (tools/genx_hdr.py): the enum of allocation classes, the class
   and type expression written at every header_init call site, the classes dealloc refuses, the
   order of check and destructor in del_by, the guards of the String/Tuple functions that free or
   reallocate the object's buffer.

   C functions modelled (names in comments): header_init, alloc_by, alloc_stack / $, Cello(...),
   Type_Of, Type_Alloc, Array_Alloc, List_Alloc, Table_Set_Move, Tree_Alloc, copy, dealloc,
   dealloc_check, destruct (String_Del, Tuple_Del), del_by, GC_Rem_Ptr, GC_Sweep, and the
   reallocating members of String and Tuple. *)
From Coq Require Import List Arith Bool.
From CelloV Require Import Generated.
Import ListNotations.

(* ------------------------------------------------------------------ basic vocabulary *)

Inductive aclass := AStatic | AStack | AHeap | AData.

Definition aclass_eqb (a b : aclass) : bool :=
  match a, b with
  | AStatic, AStatic | AStack, AStack | AHeap, AHeap | AData, AData => true
  | _, _ => false
  end.

(* enum value of a class, from the source (enum { AllocStatic = .., .. } in Cello.h) *)
Definition code_of (a : aclass) : nat :=
  match a with
  | AStatic => hdr_code_static | AStack => hdr_code_stack
  | AHeap => hdr_code_heap | AData => hdr_code_data
  end.

Definition aclass_of_code (n : nat) : option aclass :=
  if Nat.eqb n (code_of AStatic) then Some AStatic else if Nat.eqb n (code_of AStack) then Some AStack
  else if Nat.eqb n (code_of AHeap) then Some AHeap else if Nat.eqb n (code_of AData) then Some AData else None.

(* type names: the built-in types the correspondence exercises and arbitrary user types *)
Inductive tname :=
  | TInt | TFloat | TString | TRef | TTuple | TArray | TList | TTable | TTree | TFunction
  | TType | TUser (n : nat).

(* what matters about a type for this property *)
Inductive kind :=
  | KPlain     (* no buffer whose release depends on the header *)
  | KString    (* body = char* val, released/reallocated by String_* under a header guard *)
  | KTuple     (* body = var* items, released/reallocated by Tuple_* under a header guard *)
  | KType.     (* type objects: own Alloc instance (Type_Alloc, no dealloc), no destructor, copy refused *)

Definition kind_of (t : tname) : kind :=
  match t with TString => KString | TTuple => KTuple | TType => KType | _ => KPlain end.

Inductive exc := ResourceError | ValueError | OtherError.

(* exception codes used by the generator: 0 = ResourceError, 1 = ValueError, else other *)
Definition exc_of_code (n : nat) : exc :=
  match n with 0 => ResourceError | 1 => ValueError | _ => OtherError end.

Inductive outcome :=
  | OOk                  (* returned normally *)
  | ORaise (e : exc)
  | ONa.                 (* operation not offered by this type / configuration *)

(* calls into libc's free/realloc that concern the object under test *)
Inductive ev :=
  | FreeObj                    (* the block holding the object's header *)
  | ReallocObj
  | FreeBuf (heap : bool)      (* the buffer the body points to; heap = it came from malloc *)
  | ReallocBuf (heap : bool).

Inductive bufst := BNone | BLive (heap : bool) | BFreed.
Inductive reg := RNone | RAuto | RRoot.

(* the object under test *)
Record obj := mkObj {
  o_type : option tname;     (* header word `type`; None = NULL as written by Cello(...) *)
  o_alloc : nat;             (* header word `alloc` (enum code) *)
  o_magic : bool;            (* header word `magic` = CELLO_MAGIC_NUM *)
  o_kind : kind;
  o_body : bool;             (* body bytes as produced *)
  o_buf : bufst;             (* buffer of a String/Tuple *)
  o_bufc : bool;             (* buffer contents as produced *)
  o_reg : reg                (* entry in the collector's registry *)
}.

(* ------------------------------------------------------------------ configuration *)

(* the member functions of String and Tuple that pass the object's buffer to free/realloc *)
Inductive gfn :=
  | GStringDel | GStringAssign | GStringConcat | GStringResize | GStringFormatTo
  | GTupleDel | GTupleAssign | GTuplePush | GTuplePop | GTuplePushAt | GTuplePopAt
  | GTupleConcat | GTupleResize
  | GTupleAssignIter.      (* Tuple_Assign from a source without Len+Get (filter(..), any plain iterable) *)

(* classes each of them refuses (ValueError) before touching the buffer, from the source *)
Definition guards_src (f : gfn) : list nat :=
  match f with
  | GStringDel => hdr_guard_string_del | GStringAssign => hdr_guard_string_assign
  | GStringConcat => hdr_guard_string_concat | GStringResize => hdr_guard_string_resize
  | GStringFormatTo => hdr_guard_string_format_to
  | GTupleDel => hdr_guard_tuple_del | GTupleAssign => hdr_guard_tuple_assign
  | GTuplePush => hdr_guard_tuple_push | GTuplePop => hdr_guard_tuple_pop
  | GTuplePushAt => hdr_guard_tuple_push_at | GTuplePopAt => hdr_guard_tuple_pop_at
  | GTupleConcat => hdr_guard_tuple_concat | GTupleResize => hdr_guard_tuple_resize
  | GTupleAssignIter => hdr_guard_tuple_assign_iter
  end.

Record cfg := mkCfg {
  c_ngc : bool;                          (* built with -DCELLO_NGC *)
  c_checks_first : bool;                 (* del_by refuses non-heap objects before destruct *)
  c_refuses : list (nat * nat);          (* dealloc_check: (class code, exception code) *)
  c_guards : gfn -> list nat             (* String_* / Tuple_* guards *)
}.

Definition cfg_src (ngc : bool) : cfg :=
  mkCfg ngc hdr_del_by_checks_first hdr_dealloc_refuses guards_src.

(* rules whose shape the generator only confirms *)
Definition hdr_rules_ok : bool :=
  hdr_dollar_via_alloc_stack && hdr_static_type_null && hdr_typeof_null_is_type &&
  hdr_dealloc_check_first && hdr_dealloc_custom_first && hdr_del_by_gc &&
  hdr_alloc_custom_first && hdr_copy_default_allocs && hdr_sweep_rule && hdr_rem_releases && hdr_rem_deferred_when_stopped &&
  hdr_tuple_rem_via_pop_at && hdr_dealloc_frees_block &&
  Nat.eqb hdr_sites_count 9 &&      (* every header_init call site is one of the producers below *)
  Nat.eqb hdr_guards_count 14.      (* every function that frees/reallocates a String/Tuple buffer is a gfn (+ unused String_Clear) *)

(* ------------------------------------------------------------------ producers *)

Inductive cont := CArray | CList | CTableK | CTableV | CTreeK | CTreeV.

(* what a Tuple can hold a reference to (a Tuple stores pointers, not copies) *)
Inductive inner := IStack | INewRaw | IArrayElem.

Inductive producer :=
  | PNew | PNewRaw | PNewRoot            (* new(T, ...) etc. *)
  | PAlloc | PAllocRaw | PAllocRoot      (* alloc(T): header only, body zeroed *)
  | PCopy                                (* copy(x) of an x : T *)
  | PStack                               (* $(T, ...) / $I $F $S $R / tuple(...) *)
  | PStatic                              (* a type object declared with Cello(...) *)
  | PRuntimeType                         (* new_raw(Type, name, size, ...) *)
  | PGet (c : cont)                      (* get(container, key) *)
  | PIter (c : cont)                     (* iter_init / iter_next / iter_last / iter_prev *)
  | PSlice (c : cont) | PFilter (c : cont) | PMap (c : cont)   (* item of a view over the container *)
  | PRangeStack | PRangeHeap             (* item of range(...) / of new(Range, ...) *)
  | PZipStack | PZipHeap                 (* item of zip(...) / of new(Zip, ...) *)
  | PTupleGet (i : inner) | PTupleIter (i : inner)
  | PStaticObj                           (* an object of class AllocStatic set up with header_init (custom allocators) *).

(* registration performed by alloc_by: set(current(GC), self, $I(root)) or nothing *)
Inductive amethod := MStandard | MRaw | MRoot.

Definition reg_of (c : cfg) (m : amethod) : reg :=
  if c_ngc c then RNone else
  match (match m with MStandard => hdr_alloc_by_standard | MRaw => hdr_alloc_by_raw | MRoot => hdr_alloc_by_root end) with
  | None => RNone
  | Some 0 => RAuto
  | Some _ => RRoot
  end.

(* buffer of a constructed object *)
Definition buf_constructed (k : kind) (heap : bool) : bufst :=
  match k with KString | KTuple => BLive heap | _ => BNone end.

(* alloc_by: the type's own Alloc instance first (only Type has one: Type_Alloc), else
   calloc + header_init(head, type, AllocHeap) *)
Definition m_alloc (c : cfg) (T : tname) (m : amethod) (constructed : bool) : obj :=
  let k := kind_of T in
  let '(ty, cd) := match k with
                   | KType => (TType, hdr_site_type_alloc)      (* Type_Alloc: header_init(head, Type, .) *)
                   | _ => (T, hdr_site_alloc_by)                (* alloc_by: header_init(head, type, .) *)
                   end in
  mkObj (Some ty) cd true k true (if constructed then buf_constructed k true else BNone) true (reg_of c m).

(* alloc_stack(T): header_init(compound literal, T, AllocStack); `$` then memcpy's the body *)
Definition m_stack (T : tname) : obj :=
  mkObj (Some T) hdr_site_alloc_stack true (kind_of T) true (buf_constructed (kind_of T) false) true RNone.

(* container element storage: which call site initialises it and which constructor argument
   its type expression denotes (Array_New: a->type = args[0]; Table_New: ktype, vtype = args[0], args[1] ...) *)
Definition cont_site (c : cont) : nat :=
  match c with
  | CArray => hdr_site_array_elem      (* Array_Alloc: header_init(head, a->type, .) *)
  | CList => hdr_site_list_elem        (* List_Alloc: l->type *)
  | CTableK => hdr_site_table_key      (* Table_Set_Move: t->ktype *)
  | CTableV => hdr_site_table_val      (* Table_Set_Move: t->vtype *)
  | CTreeK => hdr_site_tree_key        (* Tree_Alloc: m->ktype *)
  | CTreeV => hdr_site_tree_val        (* Tree_Alloc: m->vtype *)
  end.

Definition cont_type (c : cont) (T K V : tname) : tname :=
  match c with CArray | CList => T | CTableK | CTreeK => K | CTableV | CTreeV => V end.

Definition m_embedded (c : cont) (T K V : tname) : obj :=
  let ty := cont_type c T K V in
  mkObj (Some ty) (cont_site c) true (kind_of ty) true (buf_constructed (kind_of ty) true) true RNone.

Definition m_inner (c : cfg) (i : inner) (T : tname) : obj :=
  match i with
  | IStack => m_stack T
  | INewRaw => m_alloc c T MRaw true
  | IArrayElem => m_embedded CArray T T T
  end.

Definition m_produce (c : cfg) (p : producer) (T K V : tname) : obj :=
  match p with
  | PNew => m_alloc c T MStandard true
  | PNewRaw => m_alloc c T MRaw true
  | PNewRoot => m_alloc c T MRoot true
  | PAlloc => m_alloc c T MStandard false
  | PAllocRaw => m_alloc c T MRaw false
  | PAllocRoot => m_alloc c T MRoot false
  | PCopy => m_alloc c T MStandard true        (* copy: assign(alloc(type_of(self)), self) *)
  | PStack => m_stack T
  | PStatic => mkObj None hdr_static_code true KType true BNone true RNone   (* Cello(...): { NULL, (var)AllocStatic, magic, ... } *)
  | PRuntimeType => m_alloc c TType MRaw true
  | PGet ct | PIter ct | PSlice ct | PFilter ct | PMap ct => m_embedded ct T K V
  | PRangeStack => m_stack TInt             (* range(...) = range_stack($(Range, $I(0), 0, 0, 0), ...) *)
  | PRangeHeap => m_alloc c TInt MStandard true      (* Range_New: r->value = new(Int) *)
  | PZipStack => m_stack TTuple             (* zip(...): $(Tuple, (var[n+1]){0}) *)
  | PZipHeap => m_alloc c TTuple MStandard true      (* Zip_New: z->values = new(Tuple) *)
  | PTupleGet i | PTupleIter i => m_inner c i T
  | PStaticObj => mkObj (Some T) (code_of AStatic) true (kind_of T) true (buf_constructed (kind_of T) false) true RNone
  end.

(* which (producer, type) pairs exist at all *)
Definition valid (p : producer) (T K V : tname) : bool :=
  match p with
  | PStatic | PRuntimeType => match T with TType => true | _ => false end
  | PStack | PCopy | PStaticObj => match kind_of T with KType => false | _ => true end
  | PGet c => match c with CTableK | CTreeK => false | _ => match kind_of (cont_type c T K V) with KType => false | _ => true end end
  | PIter c | PSlice c | PFilter c | PMap c =>
      match c with CTableV | CTreeV => false | _ => match kind_of (cont_type c T K V) with KType => false | _ => true end end
  | PRangeStack | PRangeHeap => match T with TInt => true | _ => false end
  | PZipStack | PZipHeap => match T with TTuple => true | _ => false end
  | PTupleGet i | PTupleIter i => match kind_of T with KType => false | _ => true end
  | _ => true
  end.

(* type_of: Type_Of replaces the NULL of a static declaration by Type *)
Definition m_type_of (o : obj) : tname :=
  match o_type o with Some t => t | None => TType end.

(* ------------------------------------------------------------------ the property's table (specification) *)

Definition spec_type (p : producer) (T K V : tname) : tname :=
  match p with
  | PStatic | PRuntimeType => TType
  | PGet c | PIter c | PSlice c | PFilter c | PMap c => cont_type c T K V
  | PRangeStack | PRangeHeap => TInt
  | PZipStack | PZipHeap => TTuple
  | _ => T
  end.

Definition spec_class (p : producer) : aclass :=
  match p with
  | PNew | PNewRaw | PNewRoot | PAlloc | PAllocRaw | PAllocRoot | PCopy | PRuntimeType => AHeap
  | PStack | PRangeStack | PZipStack => AStack
  | PStatic | PStaticObj => AStatic
  | PGet _ | PIter _ | PSlice _ | PFilter _ | PMap _ => AData
  | PRangeHeap | PZipHeap => AHeap
  | PTupleGet i | PTupleIter i => match i with IStack => AStack | INewRaw => AHeap | IArrayElem => AData end
  end.

(* ------------------------------------------------------------------ operations *)

Inductive op :=
  | OpDel | OpDelRaw | OpDelRoot
  | OpDealloc | OpDeallocRaw | OpDeallocRoot
  | OpDestruct
  | OpAssign | OpResize | OpConcat | OpAppend | OpPrintTo      (* String and Tuple *)
  | OpAssignIter                                               (* Tuple: assign from an iterable without Len+Get *)
  | OpPush | OpPop | OpPushAt | OpPopAt | OpRem                (* Tuple *)
  | OpSweep                                                    (* a collection that finds the object unmarked *)
  | OpDelStopped.                                              (* stop(current(GC)); del(x); start(current(GC)) *)

Definition guard_refuses (c : cfg) (fn : gfn) (code : nat) : bool :=
  existsb (Nat.eqb code) (c_guards c fn).

(* Type_Of's magic-number test: every operation starts with instance(self, ...) *)
Definition magic_fails (o : obj) : bool := negb (o_magic o).

(* dealloc_check *)
Fixpoint refusal (l : list (nat * nat)) (code : nat) : option exc :=
  match l with
  | [] => None
  | (cd, e) :: r => if Nat.eqb cd code then Some (exc_of_code e) else refusal r code
  end.

Definition scribble (o : obj) : obj :=
  mkObj None 0 false (o_kind o) false (o_buf o) (o_bufc o) (o_reg o).

Definition step := (obj * outcome * list ev)%type.

(* dealloc: (no built-in type has an Alloc.dealloc) check, scribble 0xDeadCe110, free *)
Definition m_dealloc (c : cfg) (o : obj) : step :=
  if magic_fails o then (o, ORaise ValueError, []) else
  match refusal (c_refuses c) (o_alloc o) with
  | Some e => (o, ORaise e, [])
  | None => (scribble o, OOk, [FreeObj])
  end.

(* destruct: String_Del / Tuple_Del release the buffer unless the guard refuses; types
   without a guarded buffer release nothing that belongs to the object under test *)
Definition m_destruct (c : cfg) (o : obj) : step :=
  if magic_fails o then (o, ORaise ValueError, []) else
  let go fn :=
    if guard_refuses c fn (o_alloc o) then (o, ORaise ValueError, [])
    else match o_buf o with
         | BLive h => (mkObj (o_type o) (o_alloc o) (o_magic o) (o_kind o) (o_body o) BFreed (o_bufc o) (o_reg o), OOk, [FreeBuf h])
         | BFreed => (o, OOk, [FreeBuf true])
         | BNone => (o, OOk, [])
         end in
  match o_kind o with
  | KString => go GStringDel
  | KTuple => go GTupleDel
  | _ => (o, OOk, [])
  end.

(* dealloc(destruct(self)) *)
Definition m_release (c : cfg) (o : obj) : step :=
  match m_destruct c o with
  | (o1, OOk, e1) => let '(o2, out, e2) := m_dealloc c o1 in (o2, out, e1 ++ e2)
  | r => r
  end.

(* del_by, ALLOC_RAW path (and every path when the collector is compiled out) *)
Definition m_del_raw (c : cfg) (o : obj) : step :=
  if magic_fails o then (o, ORaise ValueError, []) else
  if c_checks_first c then
    match refusal (c_refuses c) (o_alloc o) with
    | Some e => (o, ORaise e, [])
    | None => m_release c o
    end
  else m_release c o.

Definition unreg (o : obj) : obj :=
  mkObj (o_type o) (o_alloc o) (o_magic o) (o_kind o) (o_body o) (o_buf o) (o_bufc o) RNone.

(* del / del_root with the collector: rem(current(GC), self) -> GC_Rem_Ptr: an entry that is
   found is removed and released; a pointer that is not registered is ignored *)
Definition m_del_gc (c : cfg) (o : obj) : step :=
  match o_reg o with
  | RNone => (o, OOk, [])
  | _ => m_release c (unreg o)
  end.

Definition m_del (c : cfg) (o : obj) : step :=
  if c_ngc c then m_del_raw c o else m_del_gc c o.

(* GC_Sweep with the object unmarked: entries that are not roots are removed and released *)
Definition m_sweep (c : cfg) (o : obj) : step :=
  if c_ngc c then (o, ONa, []) else
  match o_reg o with
  | RAuto => m_release c (unreg o)
  | _ => (o, OOk, [])
  end.

(* the member function an in-place operation reaches *)
Definition inplace_fn (k : kind) (p : op) : option gfn :=
  match k, p with
  | KString, OpAssign => Some GStringAssign
  | KString, OpResize => Some GStringResize
  | KString, OpConcat => Some GStringConcat
  | KString, OpAppend => Some GStringConcat
  | KString, OpPrintTo => Some GStringFormatTo
  | KTuple, OpAssign => Some GTupleAssign
  | KTuple, OpAssignIter => Some GTupleAssignIter
  | KTuple, OpResize => Some GTupleResize
  | KTuple, OpConcat => Some GTupleConcat
  | KTuple, OpAppend => Some GTuplePush
  | KTuple, OpPush => Some GTuplePush
  | KTuple, OpPop => Some GTuplePop
  | KTuple, OpPushAt => Some GTuplePushAt
  | KTuple, OpPopAt => Some GTuplePopAt
  | KTuple, OpRem => Some GTuplePopAt      (* Tuple_Rem locates the item and calls Tuple_Pop_At *)
  | _, _ => None
  end.

Definition m_inplace (c : cfg) (p : op) (o : obj) : step :=
  match inplace_fn (o_kind o) p with
  | None => (o, ONa, [])
  | Some fn =>
      if magic_fails o then (o, ORaise ValueError, []) else
      if guard_refuses c fn (o_alloc o) then (o, ORaise ValueError, [])
      else match o_buf o with
           | BLive h => (mkObj (o_type o) (o_alloc o) (o_magic o) (o_kind o) false (BLive h) false (o_reg o), OOk, [ReallocBuf h])
           | BFreed => (o, OOk, [ReallocBuf true])
           | BNone => (mkObj (o_type o) (o_alloc o) (o_magic o) (o_kind o) false (BLive true) false (o_reg o), OOk, [])
           end
  end.

Definition m_op (c : cfg) (p : op) (o : obj) : step :=
  match p with
  | OpDel | OpDelRoot => m_del c o
  | OpDelRaw => m_del_raw c o
  | OpDealloc | OpDeallocRaw | OpDeallocRoot => m_dealloc c o
  | OpDestruct => m_destruct c o
  | OpSweep => m_sweep c o
  (* del_by still goes through rem(current(GC), x); GC_Rem returns at once while the collector is stopped:
     nothing happens now, a registered object stays registered (the deletion is deferred to the next sweep) *)
  | OpDelStopped => if c_ngc c then (o, ONa, []) else (o, OOk, [])
  | _ => m_inplace c p o
  end.

(* a history of operations on one object: the list of steps *)
Fixpoint m_run (c : cfg) (ops : list op) (o : obj) : list step :=
  match ops with
  | [] => []
  | p :: r => let '(o', out, e) := m_op c p o in (o', out, e) :: m_run c r o'
  end.

Definition events (l : list step) : list ev := flat_map (fun s => snd s) l.

Definition is_obj_ev (e : ev) : bool := match e with FreeObj | ReallocObj => true | _ => false end.
Definition is_free_obj (e : ev) : bool := match e with FreeObj => true | _ => false end.
Definition is_nonheap_buf_ev (e : ev) : bool :=
  match e with FreeBuf false | ReallocBuf false => true | _ => false end.
Definition is_buf_ev (e : ev) : bool :=
  match e with FreeBuf _ | ReallocBuf _ => true | _ => false end.

Definition count {A} (f : A -> bool) (l : list A) : nat := length (filter f l).

(* ------------------------------------------------------------------ what the property demands of one step *)

(* an attempt to free or reallocate: the deleting/deallocating entry points on any object, and the
   destructor / in-place reallocation of an object whose buffer is not on the heap *)
Definition deleting (p : op) : bool :=
  match p with OpDel | OpDelRaw | OpDelRoot | OpDealloc | OpDeallocRaw | OpDeallocRoot => true | _ => false end.

Definition buf_nonheap (o : obj) : bool := match o_buf o with BLive false => true | _ => false end.

Definition attempt (p : op) (o : obj) : bool :=
  deleting p ||
  (buf_nonheap o && match p with
                    | OpDestruct => true
                    | OpSweep => false
                    | _ => match inplace_fn (o_kind o) p with Some _ => true | None => false end
                    end).

(* finding F7: del / del_root with the collector compiled in *)
Definition f7_cell (c : cfg) (p : op) : bool :=
  negb (c_ngc c) && match p with OpDel | OpDelRoot => true | _ => false end.

Definition raises_refusal (out : outcome) : bool :=
  match out with ORaise ResourceError | ORaise ValueError => true | _ => false end.

(* matched histories for heap objects: how many times the block must reach free() *)
Definition sweeps (ops : list op) : bool :=
  forallb (fun o => match o with OpSweep => true | _ => false end) ops.

Definition matched_total (c : cfg) (p : producer) (ops : list op) : option nat :=
  if c_ngc c then
    match p, ops with
    | (PNew | PCopy), [OpDel] | PNewRoot, [OpDelRoot] | (PNewRaw | PRuntimeType), [OpDelRaw] => Some 1
    | PAllocRaw, [OpDeallocRaw] => Some 1
    | _, _ => None
    end
  else
    match p, ops with
    | (PNew | PCopy), OpDel :: r => if sweeps r then Some 1 else None
    | (PNew | PCopy | PAlloc), OpSweep :: r => if sweeps r then Some 1 else None
    | (PNew | PCopy), OpDelStopped :: OpSweep :: r => if sweeps r then Some 1 else None   (* released once, by the following sweep *)
    | PNewRoot, OpDelRoot :: r => if sweeps r then Some 1 else None
    | (PNewRoot | PAllocRoot), OpSweep :: r => if sweeps r then Some 0 else None
    | (PNewRaw | PRuntimeType), OpDelRaw :: r => if sweeps r then Some 1 else None
    | (PNewRaw | PRuntimeType | PAllocRaw), OpSweep :: r => if sweeps r then Some 0 else None
    | PAllocRaw, OpDeallocRaw :: r => if sweeps r then Some 1 else None
    | _, _ => None
    end.

(* ------------------------------------------------------------------ the specification of a step, from the property text alone *)

Inductive demand :=
  | DAny                         (* heap object: nothing demanded of a single step *)
  | DNotFreed (bufnh : bool)     (* non-heap object: block (and non-heap buffer) never reaches free/realloc *)
  | DAttempt (bufnh : bool).     (* ... and the step must raise ResourceError/ValueError and change nothing *)

Definition spec_bufnh (p : producer) (T K V : tname) : bool :=
  match spec_class p, kind_of (spec_type p T K V) with
  | (AStack | AStatic), (KString | KTuple) => true
  | _, _ => false
  end.

Definition spec_demand (p : producer) (T K V : tname) (q : op) : demand :=
  match spec_class p with
  | AHeap => DAny
  | _ =>
      let nh := spec_bufnh p T K V in
      if deleting q then DAttempt nh
      else if nh && match q with
                    | OpDestruct => true
                    | OpSweep => false
                    | _ => match inplace_fn (kind_of (spec_type p T K V)) q with Some _ => true | None => false end
                    end
           then DAttempt nh else DNotFreed nh
  end.

(* does a step meet a demand *)
Definition released_nothing (nh : bool) (e : list ev) : bool :=
  negb (existsb is_obj_ev e) && (negb nh || negb (existsb is_buf_ev e)).

Definition meets (o0 : obj) (s : step) (d : demand) : Prop :=
  let '(o', out, e) := s in
  match d with
  | DAny => True
  | DNotFreed nh => released_nothing nh e = true
  | DAttempt nh => released_nothing nh e = true /\ raises_refusal out = true /\ o' = o0
  end.

(* finding F7: where the collector is compiled in, del / del_root of a non-heap object are silently
   ignored; for those cells only "nothing is released" is claimed *)
Definition weaken (c : cfg) (q : op) (d : demand) : demand :=
  if f7_cell c q then match d with DAttempt nh => DNotFreed nh | _ => d end else d.

(* every step of a history meets what the property demands of it *)
Fixpoint history_meets (c : cfg) (p : producer) (T K V : tname) (ops : list op) (o : obj) : Prop :=
  match ops with
  | [] => True
  | q :: r => let s := m_op c q o in
              meets o s (weaken c q (spec_demand p T K V q)) /\ history_meets c p T K V r (fst (fst s))
  end.

(* number of times the object's block reached free() over a history *)
Definition frees (l : list step) : nat := count is_free_obj (events l).

(* ------------------------------------------------------------------ storage layout: size(type) bytes are usable
   Byte offsets inside the block that holds an object.  H = sizeof(struct Header), w = sizeof(var),
   s = size(type).  The shapes of the C expressions are confirmed by the generator (the hdr_lay_ definitions). *)

Definition hdr_layout_ok : bool :=
  hdr_lay_alloc_by && hdr_lay_stack && hdr_lay_array && hdr_lay_list && hdr_lay_tree && hdr_lay_table.

Definition round_up (w s : nat) : nat := ((s + w - 1) / w) * w.      (* Array_Size_Round, Table_Size_Round *)

(* alloc_by: calloc(1, H + s), header at 0;  alloc_stack: char[H + sizeof(struct T)] with size(T) = sizeof(struct T) *)
Definition plain_block (H s : nat) : nat := H + s.
Definition plain_body (H : nat) : nat := H.

(* Array: data = nslots * step, element i: header at step * i, body at step * i + H *)
Definition array_step (H w s : nat) : nat := round_up w s + H.
Definition array_head (H w s i : nat) : nat := array_step H w s * i.
Definition array_body (H w s i : nat) : nat := array_step H w s * i + H.
Definition array_block (H w s nslots : nat) : nat := array_step H w s * nslots.

(* List: node = calloc(1, 2w + H + s): prev, next, header, body *)
Definition list_block (H w s : nat) : nat := 2 * w + H + s.
Definition list_head (w : nat) : nat := 2 * w.
Definition list_body (H w : nat) : nat := 2 * w + H.

(* Tree: node = calloc(1, 3w + H + ks + H + vs): left, right, parent|colour, key header, key, value header, value *)
Definition tree_block (H w ks vs : nat) : nat := 3 * w + H + ks + H + vs.
Definition tree_khead (w : nat) : nat := 3 * w.
Definition tree_kbody (H w : nat) : nat := 3 * w + H.
Definition tree_vhead (H w ks : nat) : nat := 3 * w + H + ks.
Definition tree_vbody (H w ks : nat) : nat := 3 * w + H + ks + H.

(* Table: slot i at step * i: hash (8 bytes), key header, key (rounded), value header, value (rounded) *)
Definition table_step (H w ks vs : nat) : nat := 8 + H + round_up w ks + H + round_up w vs.
Definition table_khead (H w ks vs i : nat) : nat := table_step H w ks vs * i + 8.
Definition table_kbody (H w ks vs i : nat) : nat := table_step H w ks vs * i + 8 + H.
Definition table_vhead (H w ks vs i : nat) : nat := table_step H w ks vs * i + 8 + H + round_up w ks.
Definition table_vbody (H w ks vs i : nat) : nat := table_step H w ks vs * i + 8 + H + round_up w ks + H.
Definition table_block (H w ks vs nslots : nat) : nat := table_step H w ks vs * nslots.

(* Tree nodes, site by site.  The key size enters the layout at four places of Tree.c - the calloc and the
   value's header_init in Tree_Alloc, the accessor Tree_Val, the node copy in Tree_Rem - and each of them uses
   either m->ksize or that size rounded up to sizeof(var); which one is read off the source per site
   (hdr_tree_*_kround).  The object is usable only if all of them mean the same offset. *)
Definition ks_at (rounded : bool) (w ks : nat) : nat := if rounded then round_up w ks else ks.

Definition tree_site_block (H w ks vs : nat) : nat := 3 * w + H + ks_at hdr_tree_alloc_block_kround w ks + H + vs.   (* calloc in Tree_Alloc *)
Definition tree_site_vhead (H w ks : nat) : nat := 3 * w + H + ks_at hdr_tree_alloc_vhead_kround w ks.              (* where Tree_Alloc puts the value's header *)
Definition tree_site_vbody (H w ks : nat) : nat := 3 * w + H + ks_at hdr_tree_val_kround w ks + H.                  (* where Tree_Val says the value is *)
Definition tree_site_copy_end (H w ks vs : nat) : nat := 3 * w + H + ks_at hdr_tree_rem_copy_kround w ks + H + vs.  (* end of the node copy in Tree_Rem *)
