(* Config.v — property C18 (build configurations agree): executable model.  MODEL ONLY (no proofs).

   1. The configuration record of the library: one flag per CELLO_<X>_CHECK switch of Cello.h
      (all derived from CELLO_NDEBUG — Generated.cfg_check_switches), the method cache (CELLO_CACHE)
      and the collector (CELLO_NGC).
   2. An abstract interpreter for API function bodies in which an error test can be *guarded by a
      switch* (`Chk`): the shape of every `#if CELLO_<X>_CHECK == 1  if (test) throw(E, …);  #endif`
      block of src/*.c (Generated.cfg_guarded_blocks lists them and classifies each as test-only).
   3. One concrete API written in that language: the bounds-checked sequence of src/Array.c
      (get / set / push / push_at / pop / pop_at / len / mem / rem) with the index normalisations and
      bounds tests re-extracted from the source (Generated.cfg_Array_..), and its configuration-free
      specification (`aspec`) that defines the contract.
   4. The audit predicates over the generated source facts (which blocks may do more than test). *)
From Coq Require Import List Arith Bool ZArith String.
From CelloV Require Import Generated.
Import ListNotations.
Local Open Scope Z_scope.

(* ------------------------------------------------------------------ 1. configurations *)

Inductive switch := SwBound | SwMagic | SwAlloc | SwNull | SwMethod | SwMemory.

Definition switch_name (s : switch) : string :=
  match s with
  | SwBound => "BOUND" | SwMagic => "MAGIC" | SwAlloc => "ALLOC"
  | SwNull => "NULL" | SwMethod => "METHOD" | SwMemory => "MEMORY"
  end%string.

Definition all_switches : list switch := [SwBound; SwMagic; SwAlloc; SwNull; SwMethod; SwMemory].

Record config := mkConfig {
  checks : switch -> bool;    (* CELLO_<X>_CHECK == 1 *)
  cache : bool;               (* CELLO_CACHE == 1 *)
  gc : bool                   (* CELLO_NGC not defined *)
}.

(* the configurations the build system can actually produce: CELLO_NDEBUG sets all six to 0 *)
Definition cfg_build (ndebug nocache ngc : bool) : config :=
  mkConfig (fun _ => negb ndebug) (negb nocache) (negb ngc).

Definition cfg_default : config := cfg_build false false false.

(* object header, in machine words: struct Header of Cello.h (Generated.cfg_header_fields) *)
Definition switch_of_name (n : string) : option switch :=
  find (fun s => String.eqb (switch_name s) n) all_switches.

Definition header_words (c : config) : nat :=
  List.length (filter (fun f : string * string =>
                    match snd f with
                    | EmptyString => true
                    | n => match switch_of_name n with Some s => checks c s | None => true end
                    end) cfg_header_fields).

(* ------------------------------------------------------------------ 2a. method cache (Type.c) *)

(* A type object: the cache slots in front (CELLO_CACHE_HEADER, filled lazily) and the instance list
   `{class, instance}` that Type_Scan walks.  A class is its number (position in the class
   declarations of Cello.h, Generated.cfg_class_names); an instance is an abstract identity. *)
Definition inst := nat.
Definition cls := nat.
Record tyobj := mkTy { tslots : list (option inst); tinsts : list (cls * inst) }.
Definition types := list tyobj.

(* Type_Scan(self, cls): first entry of the instance list for that class, NULL when absent *)
Fixpoint scan (l : list (cls * inst)) (c : cls) : option inst :=
  match l with
  | [] => None
  | (n, i) :: t => if Nat.eqb n c then Some i else scan t c
  end.

(* the Type_Cache_Entry(slot, Class) lines of Type_Instance (Generated.cfg_cache_wiring) *)
Definition slot_of (c : cls) : option nat :=
  match find (fun w : nat * nat => Nat.eqb (snd w) c) cfg_cache_wiring with
  | Some w => Some (fst w)
  | None => None
  end.

Fixpoint set_slot (l : list (option inst)) (i : nat) (v : option inst) : list (option inst) :=
  match l, i with
  | [], _ => []
  | _ :: t, O => v :: t
  | x :: t, S j => x :: set_slot t j v
  end.

(* Type_Instance(self, cls) under CELLO_CACHE == 1 / 0 *)
Definition lookup (cached : bool) (t : tyobj) (c : cls) : tyobj * option inst :=
  if cached then
    match slot_of c with
    | Some i =>
      match nth_error (tslots t) i with
      | Some (Some x) => (t, Some x)                               (* slot filled: trusted *)
      | Some None => let r := scan (tinsts t) c in                 (* inst = Type_Scan(..); slot i of self = inst *)
                     (mkTy (set_slot (tslots t) i r) (tinsts t), r)
      | None => (t, scan (tinsts t) c)
      end
    | None => (t, scan (tinsts t) c)                               (* class without a slot *)
    end
  else (t, scan (tinsts t) c).

Fixpoint set_type (T : types) (n : nat) (t : tyobj) : types :=
  match T, n with
  | [], _ => []
  | _ :: r, O => t :: r
  | x :: r, S m => x :: set_type r m t
  end.

Definition lookup_in (cached : bool) (T : types) (ty : nat) (c : cls) : types * option inst :=
  match nth_error T ty with
  | Some t => let '(t', r) := lookup cached t c in (set_type T ty t', r)
  | None => (T, None)
  end.

Definition scan_in (T : types) (ty : nat) (c : cls) : option inst :=
  match nth_error T ty with
  | Some t => scan (tinsts t) c
  | None => None
  end.

Fixpoint nodupb (l : list nat) : bool :=
  match l with
  | [] => true
  | x :: t => negb (existsb (Nat.eqb x) t) && nodupb t
  end.

(* ------------------------------------------------------------------ 2b. abstract interpreter *)

Inductive xexn := XIndexOutOfBounds | XValueError | XKeyError | XOutOfMemory | XResourceError
               | XClassError | XTypeError | XFormatError | XUser (n : nat).

Section Interp.
  Variable St : Type.       (* state the API works on *)
  Variable Val : Type.      (* values it returns *)

  Inductive outcome :=
  | ODone                      (* a void function returned *)
  | OVal (v : Val)
  | ORaise (e : xexn)          (* throw(E, …) *)
  | OCrash.                    (* the C code goes on without its check: NULL / out-of-bounds access *)

  (* body of an API function, continuation style:
       Ret o          return / unguarded throw / crash
       Get k          read the current state
       Put s k        write the state
       Chk sw b e k   #if CELLO_<sw>_CHECK == 1   if (b) { throw(e, …); }   #endif  ; k
       Disp ty cl k   inst = type_instance(ty, cl)  — through the method cache when CELLO_CACHE == 1
     `b` has been computed from what the body read before — a test only, no update. *)
  Inductive prog :=
  | Ret (o : outcome)
  | Get (k : St -> prog)
  | Put (s : St) (k : prog)
  | Chk (sw : switch) (b : bool) (e : xexn) (k : prog)
  | Disp (ty : nat) (cl : cls) (k : option inst -> prog).

  Fixpoint run (c : config) (p : prog) (s : St) (T : types) : St * types * outcome :=
    match p with
    | Ret o => (s, T, o)
    | Get k => run c (k s) s T
    | Put s' k => run c k s' T
    | Chk sw b e k => if checks c sw && b then (s, T, ORaise e) else run c k s T
    | Disp ty cl k => let '(T', r) := lookup_in (cache c) T ty cl in run c (k r) s T'
    end.

  (* does a guarded test succeed on the way (evaluated as the all-checks build runs the body;
     dispatch by plain scan — what every build computes when its cache is sound)? *)
  Fixpoint fires (p : prog) (s : St) (T : types) : bool :=
    match p with
    | Ret _ => false
    | Get k => fires (k s) s T
    | Put s' k => fires k s' T
    | Chk _ b _ k => if b then true else fires k s T
    | Disp ty cl k => fires (k (scan_in T ty cl)) s T
    end.

  Definition is_raise (o : outcome) : bool := match o with ORaise _ => true | _ => false end.
  Definition is_crash (o : outcome) : bool := match o with OCrash => true | _ => false end.

  (* histories: a list of API calls, each run to its outcome; an exception is caught by the caller
     and the history goes on, a crash ends the process *)
  Section History.
    Variable Op : Type.
    Variable body : Op -> prog.

    Fixpoint run_history (c : config) (h : list Op) (s : St) (T : types) : St * types * list outcome :=
      match h with
      | [] => (s, T, [])
      | o :: h' =>
        let '(s', T', r) := run c (body o) s T in
        if is_crash r then (s', T', [r])
        else let '(s'', T'', rs) := run_history c h' s' T' in (s'', T'', r :: rs)
      end.

    (* some guarded test succeeds somewhere along the history (all-checks build) *)
    Fixpoint history_fires (h : list Op) (s : St) (T : types) : bool :=
      match h with
      | [] => false
      | o :: h' =>
        if fires (body o) s T then true
        else let '(s', T', r) := run cfg_default (body o) s T in
             if is_crash r then false else history_fires h' s' T'
      end.

    (* the property's own wording: "no error path taken" under the default build *)
    Definition no_error_path (h : list Op) (s : St) (T : types) : bool :=
      forallb (fun r => negb (is_raise r) && negb (is_crash r)) (snd (run_history cfg_default h s T)).
  End History.
End Interp.

Arguments ODone {Val}.
Arguments OVal {Val} v.
Arguments ORaise {Val} e.
Arguments OCrash {Val}.
Arguments Ret {St Val} o.
Arguments Get {St Val} k.
Arguments Put {St Val} s k.
Arguments Chk {St Val} sw b e k.
Arguments Disp {St Val} ty cl k.

(* ------------------------------------------------------------------ 3. the sequence API of Array.c *)

Definition aseq := list Z.

Inductive aop :=
| AGet (i : Z)             (* Array_Get *)
| ASet (i v : Z)           (* Array_Set *)
| APush (v : Z)            (* Array_Push *)
| APushAt (v i : Z)        (* Array_Push_At *)
| APop                     (* Array_Pop *)
| APopAt (i : Z)           (* Array_Pop_At *)
| ALen                     (* Array_Len *)
| AMem (v : Z)             (* Array_Mem *)
| ARem (v : Z).            (* Array_Rem: unguarded ValueError when absent *)

Definition zlen (s : aseq) : Z := Z.of_nat (List.length s).

(* Array_Item(a, i) for an index the C code does not test any more: inside the array it is the
   element, outside it is an access beyond the allocation *)
Definition item (s : aseq) (i : Z) : option Z :=
  if (i <? 0) then None else nth_error s (Z.to_nat i).

Fixpoint set_nth (s : aseq) (n : nat) (v : Z) : aseq :=
  match s, n with
  | [], _ => []
  | _ :: t, O => v :: t
  | x :: t, S m => x :: set_nth t m v
  end.

Fixpoint insert_nth (s : aseq) (n : nat) (v : Z) : aseq :=
  match n, s with
  | O, _ => v :: s
  | S m, [] => [v]
  | S m, x :: t => x :: insert_nth t m v
  end.

Fixpoint remove_nth (s : aseq) (n : nat) : aseq :=
  match s, n with
  | [], _ => []
  | _ :: t, O => t
  | x :: t, S m => x :: remove_nth t m
  end.

Fixpoint index_of (s : aseq) (v : Z) (n : nat) : option nat :=
  match s with
  | [] => None
  | x :: t => if (x =? v) then Some n else index_of t v (S n)
  end.

Definition in_range (i n : Z) : bool := (0 <=? i) && (i <? n).

Definition abool (b : bool) : Z := if b then 1 else 0.

Definition abody (o : aop) : prog aseq Z :=
  match o with
  | AGet i =>
    Get (fun s => let n := zlen s in let j := cfg_Array_Get_norm i n in
      Chk SwBound (cfg_Array_Get_guard j n) XIndexOutOfBounds
        (match item s j with Some v => Ret (OVal v) | None => Ret OCrash end))
  | ASet i v =>
    Get (fun s => let n := zlen s in let j := cfg_Array_Set_norm i n in
      Chk SwBound (cfg_Array_Set_guard j n) XIndexOutOfBounds
        (if in_range j n then Put (set_nth s (Z.to_nat j) v) (Ret ODone) else Ret OCrash))
  | APush v =>
    Get (fun s => Put (s ++ [v]) (Ret ODone))
  | APushAt v i =>
    Get (fun s => let n := zlen s in let j := cfg_Array_Push_At_norm i n in
      Chk SwBound (cfg_Array_Push_At_guard j n) XIndexOutOfBounds
        (if in_range j (n + 1) then Put (insert_nth s (Z.to_nat j) v) (Ret ODone) else Ret OCrash))
  | APop =>
    Get (fun s => let n := zlen s in
      Chk SwBound (cfg_Array_Pop_guard n) XIndexOutOfBounds
        (if (0 <? n) then Put (removelast s) (Ret ODone) else Ret OCrash))
  | APopAt i =>
    Get (fun s => let n := zlen s in let j := cfg_Array_Pop_At_norm i n in
      Chk SwBound (cfg_Array_Pop_At_guard j n) XIndexOutOfBounds
        (if in_range j n then Put (remove_nth s (Z.to_nat j)) (Ret ODone) else Ret OCrash))
  | ALen => Get (fun s => Ret (OVal (zlen s)))
  | AMem v => Get (fun s => Ret (OVal (abool (match index_of s v 0 with Some _ => true | None => false end))))
  | ARem v =>
    Get (fun s => match index_of s v 0 with
                  | Some k => Put (remove_nth s k) (Ret ODone)     (* Array_Pop_At(a, $I(i)) with i < nitems *)
                  | None => Ret (ORaise XValueError)               (* not guarded by any switch *)
                  end)
  end.

(* the sequence operations dispatch nothing themselves: they run with an empty type table *)
Definition arun (c : config) (h : list aop) (s : aseq) : aseq * list (outcome Z) :=
  let '(s', _, rs) := run_history aseq Z aop abody c h s [] in (s', rs).
Definition afires (h : list aop) (s : aseq) := history_fires aseq Z aop abody h s [].

(* a second small API that does dispatch: `len`-like and `hash`-like calls on an object of type `ty`,
   each a method lookup followed by a METHOD check (Type_Method_At_Offset) *)
Inductive dop := DCall (ty : nat) (cl : cls).

Definition dbody (o : dop) : prog unit nat :=
  match o with
  | DCall ty cl =>
    Disp ty cl (fun r =>
      Chk SwMethod (match r with None => true | Some _ => false end) XClassError
        (match r with Some i => Ret (OVal i) | None => Ret OCrash end))
  end.

(* all slots empty: a type object as the C initialiser CELLO_CACHE_HEADER leaves it *)
(* class number of a class name (for reading examples; not used by the interpreter) *)
Fixpoint index_str (l : list string) (n : string) (k : nat) : option nat :=
  match l with
  | [] => None
  | x :: t => if String.eqb x n then Some k else index_str t n (S k)
  end.
Definition cls_of (n : string) : option cls := index_str cfg_class_names n 0.

Definition fresh_type (insts : list (cls * inst)) : tyobj := mkTy (repeat None cello_cache_num) insts.

(* configuration-free specification: Python-like indexing on lists; None = outside the contract *)
Definition wrap (i n : Z) : Z := if i <? 0 then n + i else i.

Definition aspec (o : aop) (s : aseq) : option (aseq * outcome Z) :=
  let n := zlen s in
  match o with
  | AGet i => if (- n <=? i) && (i <? n) then
                match nth_error s (Z.to_nat (wrap i n)) with Some v => Some (s, OVal v) | None => None end
              else None
  | ASet i v => if (- n <=? i) && (i <? n) then Some (set_nth s (Z.to_nat (wrap i n)) v, ODone) else None
  | APush v => Some (s ++ [v], ODone)
  | APushAt v i => if (- (n + 1) <=? i) && (i <? n + 1)
                   then Some (insert_nth s (Z.to_nat (wrap i (n + 1))) v, ODone) else None
  | APop => if 0 <? n then Some (removelast s, ODone) else None
  | APopAt i => if (- n <=? i) && (i <? n) then Some (remove_nth s (Z.to_nat (wrap i n)), ODone) else None
  | ALen => Some (s, OVal n)
  | AMem v => Some (s, OVal (abool (match index_of s v 0 with Some _ => true | None => false end)))
  | ARem v => match index_of s v 0 with
              | Some k => Some (remove_nth s k, ODone)
              | None => Some (s, ORaise XValueError)
              end
  end.

(* specification transcript of a history; stops at the first call outside the contract *)
Fixpoint aspec_history (h : list aop) (s : aseq) : aseq * list (option (outcome Z)) :=
  match h with
  | [] => (s, [])
  | o :: h' => match aspec o s with
               | None => (s, [None])
               | Some (s', r) => let '(s'', rs) := aspec_history h' s' in (s'', Some r :: rs)
               end
  end.

(* ------------------------------------------------------------------ 4. audit of the source facts *)

Definition str4 := (string * string * string * string)%type.
Definition blk_file (r : str4) := fst (fst (fst r)).
Definition blk_fun (r : str4) := snd (fst (fst r)).
Definition blk_switch (r : str4) := snd (fst r).
Definition blk_class (r : str4) := snd r.

(* blocks that do more than test, each looked at by hand:
   header_init stores the allocation class / magic number into the header word that exists only
   under that switch; dealloc overwrites the block it frees in the next statement *)
Definition audited_non_test : list str4 :=
  [("src/Alloc.c", "header_init", "ALLOC", "hdr");
   ("src/Alloc.c", "header_init", "MAGIC", "hdr");
   ("src/Alloc.c", "dealloc", "ALLOC", "poison")]%string.

Definition str4_eqb (a b : str4) : bool :=
  String.eqb (blk_file a) (blk_file b) && String.eqb (blk_fun a) (blk_fun b) &&
  String.eqb (blk_switch a) (blk_switch b) && String.eqb (blk_class a) (blk_class b).

(* "test": the block only tests and throws (recognised by shape or by its effects: it assigns to nothing but its own
   variables, calls only readers / verified pure or always-throwing same-file helpers, leaves only by throwing);
   "helper": a guarded file-scope block that only defines such helpers; "decl": header field / macro *)
Definition harmless_class (c : string) : bool :=
  String.eqb c "test" || String.eqb c "decl" || String.eqb c "helper".

Definition block_ok (r : str4) : bool :=
  harmless_class (blk_class r) || existsb (str4_eqb r) audited_non_test.

Definition non_test_blocks : list str4 :=
  filter (fun r => negb (harmless_class (blk_class r))) cfg_guarded_blocks.

Definition known_switch (r : str4) : bool :=
  existsb (String.eqb (blk_switch r)) (map switch_name all_switches).

Definition audited_pure_calls : list string := ["header"; "len"; "size"; "type_of"; "Tuple_Len"]%string.

(* where the collector / the method cache are compiled in or out *)
(* a site = (file, function) that contains `#ifndef CELLO_NGC` code, however many blocks *)
Definition audited_ngc_blocks : list (string * string) :=
  [("src/Alloc.c", "alloc_by"); ("src/Alloc.c", "del_by"); ("src/GC.c", "<file scope>");
   ("src/Thread.c", "Thread_Init_Run")]%string.

(* the method cache is private to the dispatch code: CELLO_CACHE / CELLO_CACHE_NUM are mentioned in Type.c only
   (which functions of Type.c mention them changes with every refactoring of the lookup and is not audited) *)
Definition audited_cache_files : list string := ["src/Type.c"]%string.

(* index normalisation and test of every CELLO_BOUND_CHECK block (Generated.cfg_bound_guards):
   wrap = `i < 0 ? n+i : i`, wrap1 = `i < 0 ? (n+1)+i : i`; oob = `i < 0 or i >= n`, oob1 = `… >= n+1`,
   empty = `n is 0`, shrink = `new size < nitems` (Table_Resize) *)
Definition audited_bound_guards : list (string * string * string) :=
  [("Array_Pop_At", "wrap", "oob"); ("Array_Push_At", "wrap1", "oob1"); ("Array_Pop", "none", "empty");
   ("Array_Get", "wrap", "oob"); ("Array_Set", "wrap", "oob");
   ("List_At", "wrap", "oob"); ("List_Pop", "none", "empty");
   ("Table_Resize", "none", "shrink");
   ("Tuple_Get", "wrap", "oob"); ("Tuple_Set", "wrap", "oob"); ("Tuple_Pop", "none", "empty");
   ("Tuple_Push_At", "wrap", "oob"); ("Tuple_Pop_At", "wrap", "oob")]%string.

Definition str3_eqb (a b : string * string * string) : bool :=
  String.eqb (fst (fst a)) (fst (fst b)) && String.eqb (snd (fst a)) (snd (fst b)) && String.eqb (snd a) (snd b).

Definition pair_eqb (a b : string * string) : bool :=
  String.eqb (fst a) (fst b) && String.eqb (snd a) (snd b).

Fixpoint list_eqb {A} (eqb : A -> A -> bool) (l1 l2 : list A) : bool :=
  match l1, l2 with
  | [], [] => true
  | a :: t1, b :: t2 => eqb a b && list_eqb eqb t1 t2
  | _, _ => false
  end.

(* ------------------------------------------------------------------ 4b. del and owning destructors *)

(* del(x) in the two kinds of build (Alloc.c del_by):
     collector compiled in   rem(current(GC), x): the object registered under x is finalised and freed; an address
                             that is not registered — NULL in particular — is not found and nothing happens
     CELLO_NGC               destruct(x); dealloc(x) at once: type_of(NULL) raises ValueError under
                             CELLO_NULL_CHECK and dereferences NULL without it
   `Some a` = an object made with new (registered when there is a collector). *)
Inductive dres := DNothing | DDestroyed (a : nat) | DRaise (e : xexn) | DCrash.

Definition del_model (c : config) (x : option nat) : dres :=
  match x with
  | Some a => DDestroyed a
  | None => if gc c then DNothing else if checks c SwNull then DRaise XValueError else DCrash
  end.

(* destructor of an owner whose content may be NULL (Box_Del): it forwards the content to del, behind a NULL
   test (guarded = true, what Generated.cfg_box_del_guarded reads off Pointer.c) or not *)
Definition owner_del (guarded : bool) (c : config) (content : option nat) : dres :=
  if guarded then match content with Some a => del_model c (Some a) | None => DNothing end
  else del_model c content.

(* the forwarded del calls of all destructors of src/*.c, as audited: each is behind a NULL test or passes a field
   that the type's constructor always fills *)
Definition audited_del_forwards : list str4 :=
  [("src/Exception.c", "Exception_Del", "del_raw(e->msg)", "constructed");
   ("src/Iter.c", "Range_Del", "del(r->value)", "constructed");
   ("src/Iter.c", "Slice_Del", "del(s->range)", "constructed");
   ("src/Iter.c", "Zip_Del", "del(z->iters)", "constructed");
   ("src/Iter.c", "Zip_Del", "del(z->values)", "constructed");
   ("src/Pointer.c", "Box_Del", "del(obj)", "guarded");
   ("src/Thread.c", "Thread_Del", "del_raw(t->args)", "guarded");
   ("src/Thread.c", "Thread_Del", "del_raw(t->tls)", "constructed")]%string.

Definition del_forward_ok (r : str4) : bool :=
  String.eqb (blk_class r) "guarded" || String.eqb (blk_class r) "constructed".

(* ------------------------------------------------------------------ 5. the collector switch (CELLO_NGC) *)

(* A program that reaches objects only through its registers (the root slots): allocate, read, write,
   re-link, copy a pointer into a register, clear a register.  With the collector compiled in, a
   collection may happen before every operation; `collect n` is what the n-th opportunity does to the
   heap.  Addresses are never reused in this model (an abstraction: identity of objects, not their
   location); the real collector is C01's subject — here it is a parameter. *)
Definition addr := nat.
Record gobj := mkObj { payload : Z; fields : list addr }.
Definition heap := list (addr * gobj).           (* newest binding of an address first *)

Fixpoint hget (h : heap) (a : addr) : option gobj :=
  match h with
  | [] => None
  | (x, o) :: t => if Nat.eqb a x then Some o else hget t a
  end.
Definition roots := list (option addr).
Definition path := (nat * list nat)%type.       (* root slot, then field indices *)

Definition upd (h : heap) (a : addr) (o : gobj) : heap := (a, o) :: h.

Fixpoint deref_from (h : heap) (a : addr) (is : list nat) : option addr :=
  match is with
  | [] => Some a
  | i :: r => match hget h a with
              | Some o => match nth_error (fields o) i with
                          | Some b => deref_from h b r
                          | None => None
                          end
              | None => None
              end
  end.

Definition deref (h : heap) (rs : roots) (p : path) : option addr :=
  match nth_error rs (fst p) with
  | Some (Some a) => deref_from h a (snd p)
  | _ => None
  end.

Fixpoint set_root (rs : roots) (n : nat) (v : option addr) : roots :=
  match rs, n with
  | [], _ => []
  | _ :: t, O => v :: t
  | x :: t, S m => x :: set_root t m v
  end.

Fixpoint set_field (l : list addr) (n : nat) (v : addr) : list addr :=
  match l, n with
  | [], _ => []
  | _ :: t, O => v :: t
  | x :: t, S m => x :: set_field t m v
  end.

Fixpoint deref_all (h : heap) (rs : roots) (ps : list path) : option (list addr) :=
  match ps with
  | [] => Some []
  | p :: r => match deref h rs p, deref_all h rs r with
              | Some a, Some l => Some (a :: l)
              | _, _ => None
              end
  end.

Inductive gop :=
| GAlloc (dst : nat) (v : Z) (fs : list path)     (* dst = new object with payload v and the given objects as fields *)
| GRead (p : path)                                (* observe the payload *)
| GWrite (p : path) (v : Z)
| GSetField (p : path) (i : nat) (q : path)
| GMove (dst : nat) (p : path)                    (* register := pointer *)
| GDrop (dst : nat).                              (* register := NULL: whatever hung only there is garbage *)

Inductive gout := GUnit | GVal (v : Z) | GBad.    (* GBad: a path that leads nowhere (same in every build) *)

Record gstate := mkG { gheap : heap; groots : roots; gnext : addr }.

Definition gstep (s : gstate) (o : gop) : gstate * gout :=
  let h := gheap s in let rs := groots s in
  match o with
  | GAlloc dst v fs =>
    match deref_all h rs fs with
    | Some l => (mkG (upd h (gnext s) (mkObj v l)) (set_root rs dst (Some (gnext s))) (S (gnext s)), GUnit)
    | None => (s, GBad)
    end
  | GRead p =>
    match deref h rs p with
    | Some a => match hget h a with Some ob => (s, GVal (payload ob)) | None => (s, GBad) end
    | None => (s, GBad)
    end
  | GWrite p v =>
    match deref h rs p with
    | Some a => match hget h a with
                | Some ob => (mkG (upd h a (mkObj v (fields ob))) rs (gnext s), GUnit)
                | None => (s, GBad)
                end
    | None => (s, GBad)
    end
  | GSetField p i q =>
    match deref h rs p, deref h rs q with
    | Some a, Some b => match hget h a with
                        | Some ob => (mkG (upd h a (mkObj (payload ob) (set_field (fields ob) i b))) rs (gnext s), GUnit)
                        | None => (s, GBad)
                        end
    | _, _ => (s, GBad)
    end
  | GMove dst p =>
    match deref h rs p with
    | Some a => (mkG h (set_root rs dst (Some a)) (gnext s), GUnit)
    | None => (s, GBad)
    end
  | GDrop dst => (mkG h (set_root rs dst None) (gnext s), GUnit)
  end.

(* a run; with the collector compiled in, a collection may happen before every operation: `collect n`
   is what the n-th opportunity does to the heap (the identity when no collection happens then) *)
Fixpoint grun (gc : bool) (collect : nat -> heap -> roots -> heap) (n : nat) (ops : list gop) (s : gstate)
  : gstate * list gout :=
  match ops with
  | [] => (s, [])
  | o :: r =>
    let s0 := if gc then mkG (collect n (gheap s) (groots s)) (groots s) (gnext s) else s in
    let '(s1, out) := gstep s0 o in
    let '(s2, outs) := grun gc collect (S n) r s1 in (s2, out :: outs)
  end.

(* a concrete (weak but real) collector: one sweep that frees every object that is neither in a register
   nor pointed to by a field of any heap entry *)
Definition is_root (rs : roots) (a : addr) : bool :=
  existsb (fun r => match r with Some x => Nat.eqb x a | None => false end) rs.
Definition pointed (h : heap) (a : addr) : bool :=
  existsb (fun e : addr * gobj => existsb (Nat.eqb a) (fields (snd e))) h.
Definition sweep_unreferenced (h : heap) (rs : roots) : heap :=
  filter (fun e : addr * gobj => is_root rs (fst e) || pointed h (fst e)) h.


Definition grun_cfg (c : config) := grun (gc c).
