(* RBIter.v — proofs about the Tree model (RBTree.v), part 3: ITERATION.
   Tree_Iter_Init/Next (leftmost, then successor by right-subtree-leftmost or climbing while
   coming from the right) enumerate exactly the keys of the in-order list; Tree_Iter_Last/Prev
   enumerate its reverse; the caller's loop needs at most nitems+1 rounds (fuel adequacy).
   Independent of colours and of the key order. *)
From Coq Require Import List Arith Bool ZArith Lia.
From CelloV Require Import RBTree RBProofs.
Import ListNotations.

Section Iter.
  Variables K V : Type.

  Notation tree := (tree K V).
  Notation path := (path K V).
  Notation inorder := (inorder K V).
  Notation pl := (pl K V).
  Notation pr := (pr K V).
  Notation kv := (K * V)%type.

  Definition keys (l : list kv) : list K := map fst l.

  Ltac norm := simpl; repeat (rewrite <- app_assoc; simpl).

  Lemma inorder_nil : forall t : tree, inorder t = [] -> t = E.
  Proof. destruct t; simpl; auto. intros H. destruct (inorder t1); discriminate. Qed.

  Lemma leftmost_spec : forall (t : tree) q, t <> E ->
    exists c k v r q', leftmost K V t q = (T c E k v r, q') /\
                       (k, v) :: inorder r ++ pr q' = inorder t ++ pr q /\ pl q' = pl q.
  Proof.
    induction t as [|c l IHl k v r IHr]; intros q Hne; [congruence|].
    destruct l as [|lc ll lk lv lr].
    - exists c, k, v, r, q. simpl. auto.
    - destruct (IHl (F K V DL c k v r :: q)) as (c' & k' & v' & r' & q' & H1 & H2 & H3); [congruence|].
      exists c', k', v', r', q'.
      change (leftmost K V (T c (T lc ll lk lv lr) k v r) q)
        with (leftmost K V (T lc ll lk lv lr) (F K V DL c k v r :: q)).
      rewrite H1, H2, H3. split; auto. split; auto. norm. reflexivity.
  Qed.

  Lemma rightmost_spec : forall (t : tree) q, t <> E ->
    exists c l k v q', rightmost K V t q = (T c l k v E, q') /\
                       pl q' ++ inorder l ++ [(k, v)] = pl q ++ inorder t /\ pr q' = pr q.
  Proof.
    induction t as [|c l IHl k v r IHr]; intros q Hne; [congruence|].
    destruct r as [|rc rl rk rv rr].
    - exists c, l, k, v, q. simpl. auto.
    - destruct (IHr (F K V DR c k v l :: q)) as (c' & l' & k' & v' & q' & H1 & H2 & H3); [congruence|].
      exists c', l', k', v', q'.
      change (rightmost K V (T c l k v (T rc rl rk rv rr)) q)
        with (rightmost K V (T rc rl rk rv rr) (F K V DR c k v l :: q)).
      rewrite H1, H2, H3. split; auto. split; auto. norm. reflexivity.
  Qed.

  Lemma climb_next_spec : forall p (t : tree),
    match climb_next K V t p with
    | None => pr p = []
    | Some (x, p') => exists c l k v r, x = T c l k v r /\ (k, v) :: inorder r ++ pr p' = pr p
    end.
  Proof.
    induction p as [|[[] c k v s] p IH]; intros t; simpl; auto.
    - exists c, t, k, v, s. auto.
    - apply IH.
  Qed.

  Lemma climb_prev_spec : forall p (t : tree),
    match climb_prev K V t p with
    | None => pl p = []
    | Some (x, p') => exists c l k v r, x = T c l k v r /\ pl p' ++ inorder l ++ [(k, v)] = pl p
    end.
  Proof.
    induction p as [|[[] c k v s] p IH]; intros t; simpl; auto.
    - apply IH.
    - exists c, s, k, v, t. auto.
  Qed.

  Lemma iter_next_spec : forall c l k v r p,
    exists nx, iter_next K V (T c l k v r, p) = Ok nx /\
      match nx with
      | None => inorder r ++ pr p = []
      | Some (x', p') => exists c' l' k' v' r', x' = T c' l' k' v' r' /\
                                                 (k', v') :: inorder r' ++ pr p' = inorder r ++ pr p
      end.
  Proof.
    intros c l k v r p. simpl. destruct r as [|rc rl rk rv rr].
    - eexists. split; [reflexivity|]. apply climb_next_spec.
    - eexists. split; [reflexivity|].
      destruct (leftmost_spec (T rc rl rk rv rr) (F K V DR c k v l :: p)) as (c' & k' & v' & r' & q' & H1 & H2 & H3);
        [congruence|].
      rewrite H1. exists c', E, k', v', r'. split; auto.
  Qed.

  Lemma iter_prev_spec : forall c l k v r p,
    exists nx, iter_prev K V (T c l k v r, p) = Ok nx /\
      match nx with
      | None => pl p ++ inorder l = []
      | Some (x', p') => exists c' l' k' v' r', x' = T c' l' k' v' r' /\
                                                 pl p' ++ inorder l' ++ [(k', v')] = pl p ++ inorder l
      end.
  Proof.
    intros c l k v r p. simpl. destruct l as [|lc ll lk lv lr].
    - eexists. split; [reflexivity|]. pose proof (climb_prev_spec p (T c E k v r)) as H.
      destruct (climb_prev K V (T c E k v r) p) as [[x p']|].
      + destruct H as (c' & l' & k' & v' & r' & -> & H). exists c', l', k', v', r'. split; auto.
        simpl. now rewrite app_nil_r.
      + simpl. now rewrite H.
    - eexists. split; [reflexivity|].
      destruct (rightmost_spec (T lc ll lk lv lr) (F K V DL c k v r :: p)) as (c' & l' & k' & v' & q' & H1 & H2 & H3);
        [congruence|].
      rewrite H1. exists c', l', k', v', E. split; auto.
  Qed.

  Lemma rev_keys_snoc : forall (A : list kv) k v, rev (keys (A ++ [(k, v)])) = k :: rev (keys A).
  Proof. intros. unfold keys. rewrite map_app. rewrite rev_app_distr. reflexivity. Qed.

  Lemma iter_loop_next : forall fuel c l k v r p,
    length (inorder r ++ pr p) < fuel ->
    iter_loop K V (iter_next K V) fuel (Some (T c l k v r, p)) = Ok (k :: keys (inorder r ++ pr p)).
  Proof.
    induction fuel as [|f IH]; intros c l k v r p Hl; [lia|].
    cbn [iter_loop]. destruct (iter_next_spec c l k v r p) as (nx & Hn & Hs). rewrite Hn. cbn [rbind].
    destruct nx as [[x' p']|].
    - destruct Hs as (c' & l' & k' & v' & r' & -> & He). rewrite <- He in *. simpl in Hl.
      rewrite IH by lia. reflexivity.
    - rewrite Hs. destruct f; reflexivity.
  Qed.

  Lemma iter_loop_prev : forall fuel c l k v r p,
    length (pl p ++ inorder l) < fuel ->
    iter_loop K V (iter_prev K V) fuel (Some (T c l k v r, p)) = Ok (k :: rev (keys (pl p ++ inorder l))).
  Proof.
    induction fuel as [|f IH]; intros c l k v r p Hl; [lia|].
    cbn [iter_loop]. destruct (iter_prev_spec c l k v r p) as (nx & Hn & Hs). rewrite Hn. cbn [rbind].
    destruct nx as [[x' p']|].
    - destruct Hs as (c' & l' & k' & v' & r' & -> & He). rewrite <- He in *.
      rewrite app_assoc in Hl. rewrite app_length in Hl. simpl in Hl.
      rewrite IH by lia. rewrite (app_assoc (pl p')). rewrite rev_keys_snoc. reflexivity.
    - rewrite Hs. destruct f; reflexivity.
  Qed.

  Lemma iter_forward_spec : forall t : rbt K V,
    nitems K V t = length (inorder (root K V t)) ->
    iter_forward K V t = Ok (keys (inorder (root K V t))).
  Proof.
    intros [rt n] Hn. simpl in Hn. unfold iter_forward, iter_init. cbn [nitems root].
    destruct n.
    - symmetry in Hn. apply length_zero_iff_nil in Hn. rewrite Hn. reflexivity.
    - destruct rt as [|c l k v r]; [discriminate|].
      destruct (leftmost_spec (T c l k v r) []) as (c' & k' & v' & r' & q' & H1 & H2 & H3); [congruence|].
      cbn [rbind]. rewrite H1. simpl pr in H2. rewrite app_nil_r in H2.
      rewrite iter_loop_next.
      + unfold keys. rewrite <- H2. reflexivity.
      + rewrite <- H2 in Hn. simpl in Hn. lia.
  Qed.

  Lemma iter_backward_spec : forall t : rbt K V,
    nitems K V t = length (inorder (root K V t)) ->
    iter_backward K V t = Ok (rev (keys (inorder (root K V t)))).
  Proof.
    intros [rt n] Hn. simpl in Hn. unfold iter_backward, iter_last. cbn [nitems root].
    destruct n.
    - symmetry in Hn. apply length_zero_iff_nil in Hn. rewrite Hn. reflexivity.
    - destruct rt as [|c l k v r]; [discriminate|].
      destruct (rightmost_spec (T c l k v r) []) as (c' & l' & k' & v' & q' & H1 & H2 & H3); [congruence|].
      cbn [rbind]. rewrite H1. change (pl [] ++ inorder (T c l k v r)) with (inorder (T c l k v r)) in H2.
      rewrite iter_loop_prev.
      + rewrite <- H2. rewrite app_assoc. rewrite rev_keys_snoc. reflexivity.
      + rewrite <- H2 in Hn. rewrite app_assoc in Hn. rewrite app_length in Hn. simpl in Hn. lia.
  Qed.
End Iter.
