(* Extraction of the round-trip model (C15) for the correspondence driver.
   ExtrOcamlBasic only; numbers stay the extracted inductive types.  The configuration is the
   data re-extracted from the C text (Generated.v); the shape booleans are referenced so that a
   pattern that no longer matches breaks this build. *)
From Coq Require Import List NArith ZArith Extraction ExtrOcamlBasic.
From CelloV Require Import Generated RoundTrip.

Definition rt_config : config :=
  {| cf_show_esc := rt_show_escapes; cf_look_esc := rt_look_escapes; cf_look_cont := rt_look_continue;
     cf_float_look_long := rt_float_look_long; cf_int_signext := rt_scan_int_signext; cf_int_signext_narrow := rt_scan_int_signext_narrow;
     cf_lit_measure := rt_scan_lit_measures; cf_pct_measure := rt_scan_pct_measures |}.

Definition rt_shape_ok : bool :=
  (rt_show_default_ok && rt_show_quotes_ok && rt_int_show_li && rt_int_look_li && rt_float_show_f
   && rt_scan_float_l_rule)%bool.

Definition rt_print := print_items rt_config.
Definition rt_print_to_string := print_to_string rt_config.
Definition rt_print_to_file := print_to_file rt_config.
Definition rt_scan_str := scan_str rt_config.
Definition rt_scan_file := scan_file rt_config.
Definition rt_ty_of := ty_of.
Definition rt_mkspec := Build_nspec.

Extraction Language OCaml.
Extraction "../ocaml/gen/RoundTrip.ml" rt_config rt_shape_ok rt_print rt_print_to_string rt_print_to_file rt_scan_str rt_scan_file rt_ty_of rt_mkspec.
