(* RobinHoodProofs.v — proofs about the raw slot array of RobinHood.v, generic in the
   entry type E, the key projection, the displacement rule and on_eq, so that Table (C02) and
   the GC registry (C17) can both use them.

   Contents
     1. cyclic arithmetic (pos / dist / nxt) — everything else uses only these + lia
     2. upd / at_ / occupied / entries
     3. the invariant:  RHL (robin-hood ordering, local form  wt (nxt i) <= S (wt i)),
        WF (stored home = hm key, home < n), UQ (no duplicate keys)
     4. find, insert, delete_at, reinsert: total under the invariant (fuel adequacy), keep the
        invariant, and change the set of held entries as a finite map would.               *)
From Coq Require Import List Arith Bool Lia PeanoNat.
From CelloV Require Import RobinHood.
Import ListNotations.

Ltac bdestr :=
  repeat match goal with
  | |- context [?a <=? ?b] => destruct (Nat.leb_spec a b)
  | |- context [?a <? ?b] => destruct (Nat.ltb_spec a b)
  | |- context [?a =? ?b] => destruct (Nat.eqb_spec a b)
  | H : context [?a <=? ?b] |- _ => destruct (Nat.leb_spec a b)
  | H : context [?a <? ?b] |- _ => destruct (Nat.ltb_spec a b)
  | H : context [?a =? ?b] |- _ => destruct (Nat.eqb_spec a b)
  end.

(* ------------------------------------------------------------------ 1. cyclic arithmetic *)

(* slot reached from home h after k steps (k <= n), written without mod *)
Definition pos (n h k : nat) : nat := if h + k <? n then h + k else h + k - n.

Lemma nxt_eq n i : i < n -> nxt n i = if S i =? n then 0 else S i.
Proof.
  intros Hi. unfold nxt. destruct (Nat.eqb_spec (S i) n) as [->|Hne].
  - apply Nat.mod_same. lia.
  - apply Nat.mod_small. lia.
Qed.

Ltac cyc :=
  unfold pos, dist in *; bdestr; try lia.

Lemma nxt_lt n i : i < n -> nxt n i < n.
Proof. intros Hi. rewrite nxt_eq by assumption. bdestr; lia. Qed.

Lemma nxt_inj n i i' : i < n -> i' < n -> nxt n i = nxt n i' -> i = i'.
Proof. intros Hi Hi'. rewrite !nxt_eq by assumption. bdestr; lia. Qed.

Lemma pos_lt n h k : h < n -> k <= n -> pos n h k < n.
Proof. intros; cyc. Qed.

Lemma pos_0 n h : h < n -> pos n h 0 = h.
Proof. intros; cyc. Qed.

Lemma nxt_pos n h k : h < n -> k < n -> nxt n (pos n h k) = pos n h (S k).
Proof. intros Hh Hk. rewrite nxt_eq by (apply pos_lt; lia). cyc. Qed.

Lemma dist_lt n i h : h < n -> i < n -> dist n i h < n.
Proof. intros; cyc. Qed.

Lemma dist_pos n h k : h < n -> k < n -> dist n (pos n h k) h = k.
Proof. intros; cyc. Qed.

Lemma pos_dist n i h : h < n -> i < n -> pos n h (dist n i h) = i.
Proof. intros; cyc. Qed.

Lemma pos_inj n h k k' : h < n -> k < n -> k' < n -> pos n h k = pos n h k' -> k = k'.
Proof. intros; cyc. Qed.

Lemma pos_pos n h a b : h < n -> a < n -> b < n -> a + b < n -> pos n (pos n h a) b = pos n h (a + b).
Proof. intros; cyc. Qed.

(* going round: a + b >= n lands on an earlier offset *)
Lemma pos_pos_wrap n h a b : h < n -> a < n -> b < n -> n <= a + b ->
  pos n (pos n h a) b = pos n h (a + b - n).
Proof. intros; cyc. Qed.

Lemma dist_self n i : dist n i i = 0.
Proof. cyc. Qed.

Lemma dist_0 n i h : h < n -> i < n -> dist n i h = 0 -> i = h.
Proof. intros; cyc. Qed.

(* one step forward increases the distance unless we arrive at home *)
Lemma dist_nxt n i h : h < n -> i < n -> S (dist n i h) < n ->
  dist n (nxt n i) h = S (dist n i h).
Proof. intros Hh Hi. rewrite nxt_eq by assumption. cyc. Qed.

Lemma dist_nxt_back n i h q : h < n -> i < n -> dist n (nxt n i) h = S q -> dist n i h = q.
Proof. intros Hh Hi. rewrite nxt_eq by assumption. cyc. Qed.

Lemma dist_pos_from n i m : i < n -> m < n -> dist n (pos n i m) i = m.
Proof. intros; cyc. Qed.

Lemma pos_S_nxt n i m : i < n -> m < n -> pos n i (S m) = pos n (nxt n i) m.
Proof. intros Hi Hm. rewrite nxt_eq by assumption. cyc. Qed.

Lemma pos_ne_self n i m : i < n -> 0 < m -> m < n -> pos n i m <> i.
Proof. intros; cyc. Qed.

(* ------------------------------------------------------------------ 2. lists of slots *)
Section RHP.
  Variables K E : Type.
  Variable keq : K -> K -> bool.
  Variable ekey : E -> K.
  Variable swap : nat -> nat -> bool.
  Variable on_eq : E -> E -> E.

  Hypothesis keq_spec : forall a b, keq a b = true <-> a = b.
  (* what the proofs need from the displacement rule; both `p <? j` and `p <=? j` satisfy it *)
  Hypothesis swap_le : forall j p, swap j p = true -> p <= j.
  Hypothesis swap_ge : forall j p, swap j p = false -> j <= p.
  (* Table: on_eq old new = new; GC: on_eq old new = old *)
  Hypothesis on_eq_key : forall e c, ekey e = ekey c -> ekey (on_eq e c) = ekey c.

  Local Notation slot := (slot E).
  Local Notation at_ := (at_ E).
  Local Notation upd := (upd E).
  Local Notation entries := (entries E).
  Local Notation occupied := (occupied E).

  Lemma upd_length i x (l : list slot) : length (upd i x l) = length l.
  Proof. revert i; induction l as [|y l IH]; intros [|i]; simpl; auto. Qed.

  Lemma at_upd_eq i x (l : list slot) : i < length l -> at_ (upd i x l) i = x.
  Proof.
    revert i; induction l as [|y l IH]; intros [|i] Hi; simpl in *; try lia; auto.
    apply IH; lia.
  Qed.

  Lemma at_upd_ne i i' x (l : list slot) : i <> i' -> at_ (upd i x l) i' = at_ l i'.
  Proof.
    revert i i'; induction l as [|y l IH]; intros [|i] [|i'] Hne; simpl; auto; try lia.
    apply IH; lia.
  Qed.

  Lemma at_upd i i' x (l : list slot) : i < length l ->
    at_ (upd i x l) i' = if i' =? i then x else at_ l i'.
  Proof.
    intros Hi. destruct (Nat.eqb_spec i' i) as [->|Hne].
    - apply at_upd_eq; assumption.
    - apply at_upd_ne; auto.
  Qed.

  Lemma at_overflow (l : list slot) i : length l <= i -> at_ l i = None.
  Proof. intros; apply nth_overflow; assumption. Qed.

  Lemma at_some_lt (l : list slot) i s : at_ l i = Some s -> i < length l.
  Proof.
    intros H. destruct (Nat.lt_ge_cases i (length l)) as [|Hge]; [assumption|].
    rewrite at_overflow in H by assumption. discriminate.
  Qed.

  Lemma at_cons s (l : list slot) i : at_ (s :: l) (S i) = at_ l i.
  Proof. reflexivity. Qed.

  Lemma at_repeat n i : at_ (repeat None n) i = None.
  Proof.
    revert i; induction n as [|n IH]; intros [|i]; simpl; auto. apply IH.
  Qed.

  Definition occ1 (s : slot) : nat := match s with Some _ => 1 | None => 0 end.

  Lemma occupied_cons s (l : list slot) : occupied (s :: l) = occ1 s + occupied l.
  Proof.
    unfold RobinHood.occupied, RobinHood.entries. simpl. rewrite app_length.
    destruct s as [[h e]|]; reflexivity.
  Qed.

  Lemma occupied_upd i x (l : list slot) : i < length l ->
    occupied (upd i x l) + occ1 (at_ l i) = occupied l + occ1 x.
  Proof.
    revert i; induction l as [|y l IH]; intros [|i] Hi; simpl in *; try lia.
    - rewrite !occupied_cons. unfold RobinHood.at_; simpl. lia.
    - rewrite !occupied_cons. rewrite at_cons. specialize (IH i ltac:(lia)). lia.
  Qed.

  Lemma occupied_repeat n : occupied (repeat None n) = 0.
  Proof. induction n as [|n IH]; [reflexivity|]. simpl repeat. rewrite occupied_cons, IH. reflexivity. Qed.

  Lemma occupied_le (l : list slot) : occupied l <= length l.
  Proof.
    induction l as [|s l IH]; [reflexivity|]. rewrite occupied_cons. simpl.
    destruct s; simpl; lia.
  Qed.

  (* a free slot exists as soon as the count says so — no pigeonhole needed *)
  Lemma empty_slot_exists (l : list slot) : occupied l < length l ->
    exists z, z < length l /\ at_ l z = None.
  Proof.
    induction l as [|s l IH]; simpl; [lia|]. rewrite occupied_cons.
    destruct s as [x|]; simpl; intros H.
    - destruct IH as [z [Hz Hn]]; [lia|]. exists (S z). split; [lia|]. exact Hn.
    - exists 0. split; [lia|reflexivity].
  Qed.

  (* held entries *)
  Definition Holds (l : list slot) (x : E) : Prop := exists i h, at_ l i = Some (h, x).

  Lemma Holds_cons_none (l : list slot) x : Holds (None :: l) x <-> Holds l x.
  Proof.
    split; intros [i [h H]].
    - destruct i as [|i]; [discriminate|]. exists i, h. exact H.
    - exists (S i), h. exact H.
  Qed.

  Lemma Holds_cons_some (l : list slot) h0 e0 x : Holds (Some (h0, e0) :: l) x <-> x = e0 \/ Holds l x.
  Proof.
    split.
    - intros [i [h H]]. destruct i as [|i].
      + left. unfold RobinHood.at_ in H; simpl in H. congruence.
      + right. exists i, h. exact H.
    - intros [->|[i [h H]]].
      + exists 0, h0. reflexivity.
      + exists (S i), h. exact H.
  Qed.

  Lemma in_entries (l : list slot) x : In x (entries l) <-> Holds l x.
  Proof.
    induction l as [|s l IH].
    - simpl. split; [tauto|]. intros [i [h H]]. destruct i; discriminate.
    - unfold RobinHood.entries in *. simpl. rewrite in_app_iff, IH.
      destruct s as [[h0 e0]|].
      + rewrite Holds_cons_some. simpl. intuition congruence.
      + rewrite Holds_cons_none. simpl. tauto.
  Qed.

  Lemma entries_cons s (l : list slot) :
    entries (s :: l) = match s with Some (_, e) => e :: entries l | None => entries l end.
  Proof. unfold RobinHood.entries. simpl. destruct s as [[h e]|]; reflexivity. Qed.

  Lemma occupied_entries (l : list slot) : occupied l = length (entries l).
  Proof. reflexivity. Qed.


  Lemma Holds_upd_some (l : list slot) i h e h' e' x : at_ l i = Some (h, e) ->
    (Holds (upd i (Some (h', e')) l) x \/ x = e <-> Holds l x \/ x = e').
  Proof.
    intros Hat. pose proof (at_some_lt _ _ _ Hat) as Hi. split.
    - intros [[a [g Ha]]| ->].
      + rewrite at_upd in Ha by assumption. destruct (Nat.eqb_spec a i) as [->|Hne].
        * right. congruence.
        * left. exists a, g. exact Ha.
      + left. exists i, h. exact Hat.
    - intros [[a [g Ha]]| ->].
      + destruct (Nat.eq_dec a i) as [->|Hne].
        * right. congruence.
        * left. exists a, g. rewrite at_upd_ne by auto. exact Ha.
      + left. exists i, h'. apply at_upd_eq. assumption.
  Qed.

  Lemma Holds_upd_none (l : list slot) i h' e' x : i < length l -> at_ l i = None ->
    (Holds (upd i (Some (h', e')) l) x <-> Holds l x \/ x = e').
  Proof.
    intros Hi Hat. split.
    - intros [a [g Ha]]. rewrite at_upd in Ha by assumption. destruct (Nat.eqb_spec a i) as [->|Hne].
      + right. congruence.
      + left. exists a, g. exact Ha.
    - intros [[a [g Ha]]| ->].
      + exists a, g. rewrite at_upd_ne; [exact Ha|]. intros ->. congruence.
      + exists i, h'. apply at_upd_eq. assumption.
  Qed.

  (* ---------------------------------------------------------------- 3. the invariant *)
  Definition wslot (n i : nat) (s : slot) : nat :=
    match s with None => 0 | Some (h, _) => S (dist n i h) end.

  (* 0 for an empty slot, 1 + probe distance otherwise (the C code's stored hash word plays
     the same double role) *)
  Definition wt (l : list slot) (i : nat) : nat := wslot (length l) i (at_ l i).

  (* robin-hood ordering, local form: walking forward the distance grows by at most one *)
  Definition RHL (l : list slot) : Prop :=
    forall i, i < length l -> wt l (nxt (length l) i) <= S (wt l i).

  Lemma wt_upd (l : list slot) i x i' : i < length l ->
    wt (upd i x l) i' = if i' =? i then wslot (length l) i x else wt l i'.
  Proof.
    intros Hi. unfold wt. rewrite upd_length, at_upd by assumption.
    destruct (Nat.eqb_spec i' i) as [->|]; reflexivity.
  Qed.

  Lemma wt_none (l : list slot) i : at_ l i = None -> wt l i = 0.
  Proof. unfold wt; intros ->; reflexivity. Qed.

  Lemma wt_some (l : list slot) i h e : at_ l i = Some (h, e) -> wt l i = S (dist (length l) i h).
  Proof. unfold wt; intros ->; reflexivity. Qed.

  Lemma wt_pos_some (l : list slot) i : 0 < wt l i -> exists h e, at_ l i = Some (h, e).
  Proof.
    unfold wt. destruct (at_ l i) as [[h e]|]; simpl; [eauto|lia].
  Qed.

  (* global form: every slot on the way from an entry's home to its position is occupied
     by an entry at least as far from its own home *)
  Lemma RHL_path (l : list slot) i h e : RHL l -> h < length l -> at_ l i = Some (h, e) ->
    forall k, k <= dist (length l) i h -> k < wt l (pos (length l) h k).
  Proof.
    intros HL Hh Hat. pose proof (at_some_lt _ _ _ Hat) as Hi.
    set (n := length l) in *. set (d := dist n i h).
    assert (Hd : d < n) by (apply dist_lt; assumption).
    intros k Hk. remember (d - k) as r eqn:Hr. revert k Hk Hr.
    induction r as [|r IH]; intros k Hk Hr.
    - assert (k = d) by lia. subst k. unfold d. rewrite pos_dist by assumption.
      rewrite (wt_some _ _ _ _ Hat). fold n. fold d. lia.
    - assert (Hs : S k < wt l (pos n h (S k))) by (apply IH; lia).
      pose proof (HL (pos n h k) ltac:(apply pos_lt; lia)) as H1. fold n in H1.
      rewrite nxt_pos in H1 by lia. lia.
  Qed.

  Lemma path_no_empty (l : list slot) i h e z m : RHL l -> h < length l ->
    at_ l i = Some (h, e) -> m < length l -> z = pos (length l) i m -> at_ l z = None ->
    dist (length l) i h + m < length l.
  Proof.
    intros HL Hh Hat Hm Hz Hnone. pose proof (at_some_lt _ _ _ Hat) as Hi.
    set (n := length l) in *. set (p := dist n i h).
    assert (Hp : p < n) by (apply dist_lt; assumption).
    destruct (Nat.lt_ge_cases (p + m) n) as [|Hge]; [assumption|exfalso].
    pose proof (RHL_path l i h e HL Hh Hat (p + m - n) ltac:(fold n; fold p; lia)) as H1.
    fold n in H1.
    assert (Hzz : pos n h (p + m - n) = z).
    { rewrite Hz. transitivity (pos n (pos n h p) m).
      - symmetry. apply pos_pos_wrap; lia.
      - unfold p. rewrite pos_dist by assumption. reflexivity. }
    rewrite Hzz, (wt_none _ _ Hnone) in H1. lia.
  Qed.

  Section Fixed.
  Variable hm : K -> nat.      (* home of a key for the current slot count *)

  Definition WF (l : list slot) : Prop :=
    forall i h e, at_ l i = Some (h, e) -> h = hm (ekey e) /\ h < length l.
  Definition UQ (l : list slot) : Prop :=
    forall i i' h h' e e', at_ l i = Some (h, e) -> at_ l i' = Some (h', e') ->
      ekey e = ekey e' -> i = i'.
  Definition core (l : list slot) : Prop := RHL l /\ WF l /\ UQ l.
  Definition Absent (l : list slot) (k : K) : Prop :=
    forall i h e, at_ l i = Some (h, e) -> ekey e <> k.

  Lemma core_repeat n : core (repeat None n).
  Proof.
    split; [|split].
    - intros i Hi. rewrite wt_none by apply at_repeat. lia.
    - intros i h e H. rewrite at_repeat in H. discriminate.
    - intros i i' h h' e e' H. rewrite at_repeat in H. discriminate.
  Qed.

  Lemma Absent_repeat n k : Absent (repeat None n) k.
  Proof. intros i h e H. rewrite at_repeat in H. discriminate. Qed.

  Lemma wt_le (l : list slot) i : WF l -> i < length l -> wt l i <= length l.
  Proof.
    intros Hwf Hi. unfold wt. destruct (at_ l i) as [[h e]|] eqn:Hat; simpl; [|lia].
    destruct (Hwf _ _ _ Hat) as [_ Hh]. pose proof (dist_lt (length l) i h Hh Hi). lia.
  Qed.

  Lemma UQ_same (l : list slot) i h e e' : UQ l -> at_ l i = Some (h, e) ->
    Holds l e' -> ekey e' = ekey e -> e' = e.
  Proof.
    intros Huq Hat [a [g Ha]] Hk. assert (a = i) by (eapply Huq; eauto). subst a. congruence.
  Qed.

  (* ---------------------------------------------------------------- 4a. lookup *)
  Lemma find_loop_S fuel (l : list slot) i j k :
    find_loop K E keq ekey (S fuel) l i j k =
      match at_ l i with
      | None => Some None
      | Some (h, e) =>
        if dist (length l) i h <? j then Some None
        else if keq (ekey e) k then Some (Some i)
        else find_loop K E keq ekey fuel l (nxt (length l) i) (S j) k
      end.
  Proof. reflexivity. Qed.

  (* the stop test is right: nothing is missed *)
  Lemma absent_by_stop (l : list slot) k j : core l -> hm k < length l -> j <= length l ->
    (forall j', j' < j -> forall h' e, at_ l (pos (length l) (hm k) j') = Some (h', e) -> ekey e <> k) ->
    wt l (pos (length l) (hm k) j) <= j ->
    Absent l k.
  Proof.
    intros [HL [Hwf Huq]] Hh Hj Hbefore Hstop i h' e Hat Hk.
    destruct (Hwf _ _ _ Hat) as [Hh' _]. rewrite Hk in Hh'. subst h'.
    pose proof (at_some_lt _ _ _ Hat) as Hi.
    set (n := length l) in *. set (d := dist n i (hm k)).
    assert (Hd : d < n) by (apply dist_lt; assumption).
    destruct (Nat.lt_ge_cases d j) as [Hlt|Hge].
    - apply (Hbefore d Hlt (hm k) e); [|exact Hk]. unfold d. rewrite pos_dist by assumption. exact Hat.
    - pose proof (RHL_path l i (hm k) e HL Hh Hat j ltac:(fold n; fold d; lia)) as H1.
      fold n in H1. lia.
  Qed.

  Lemma find_loop_spec (l : list slot) k : core l -> hm k < length l ->
    forall fuel j, j <= length l -> length l + 1 - j < fuel ->
      (forall j', j' < j -> forall h' e, at_ l (pos (length l) (hm k) j') = Some (h', e) -> ekey e <> k) ->
      exists r, find_loop K E keq ekey fuel l (pos (length l) (hm k) j) j k = Some r /\
        match r with
        | Some i => exists e, at_ l i = Some (hm k, e) /\ ekey e = k
        | None => Absent l k
        end.
  Proof.
    intros Hc Hh. pose proof Hc as [HL [Hwf Huq]]. set (n := length l) in *.
    induction fuel as [|f IH]; intros j Hj Hfuel Hbefore; [lia|].
    rewrite find_loop_S. fold n. set (i := pos n (hm k) j).
    assert (Hi : i < n) by (apply pos_lt; lia).
    destruct (at_ l i) as [[h e]|] eqn:Hat.
    - destruct (Nat.ltb_spec (dist n i h) j) as [Hlt|Hge].
      + exists None. split; [reflexivity|].
        apply (absent_by_stop l k j Hc Hh Hj Hbefore). fold n. fold i.
        rewrite (wt_some _ _ _ _ Hat). fold n. lia.
      + destruct (keq (ekey e) k) eqn:Hk.
        * apply keq_spec in Hk. exists (Some i). split; [reflexivity|]. exists e.
          destruct (Hwf _ _ _ Hat) as [Hh' _]. rewrite Hk in Hh'. subst h. auto.
        * destruct (Hwf _ _ _ Hat) as [_ Hh'].
          pose proof (dist_lt n i h Hh' Hi) as Hd.
          unfold i. rewrite nxt_pos by lia. apply IH; [lia|lia|].
          intros j' Hj' h' e' Hat' Hk'.
          destruct (Nat.eq_dec j' j) as [->|Hne].
          -- fold i in Hat'. rewrite Hat in Hat'. injection Hat' as _ <-.
             apply keq_spec in Hk'. congruence.
          -- apply (Hbefore j' ltac:(lia) h' e' Hat' Hk').
    - exists None. split; [reflexivity|].
      apply (absent_by_stop l k j Hc Hh Hj Hbefore). fold n. fold i.
      rewrite (wt_none _ _ Hat). lia.
  Qed.

  (* Table_Get / Table_Mem / the search part of Table_Rem: never out of fuel, finds the key
     iff it is held *)
  Theorem find_spec (l : list slot) k : core l -> hm k < length l ->
    exists r, find K E keq ekey l (hm k) k = Some r /\
      match r with
      | Some i => exists e, at_ l i = Some (hm k, e) /\ ekey e = k
      | None => Absent l k
      end.
  Proof.
    intros Hc Hh. unfold find.
    pose proof (find_loop_spec l k Hc Hh (length l + 2) 0 ltac:(lia) ltac:(lia)) as H.
    rewrite pos_0 in H by assumption. apply H. intros j' Hj'. lia.
  Qed.


  (* ---------------------------------------------------------------- 4b. insertion *)
  Lemma insert_loop_S fuel (l : list slot) i j ch ce :
    insert_loop K E keq ekey swap on_eq (S fuel) l i j ch ce =
      match at_ l i with
      | None => Some (upd i (Some (ch, ce)) l, true)
      | Some (h, e) =>
        if keq (ekey e) (ekey ce) then Some (upd i (Some (ch, on_eq e ce)) l, false)
        else if swap j (dist (length l) i h)
          then insert_loop K E keq ekey swap on_eq fuel (upd i (Some (ch, ce)) l)
                 (nxt (length l) i) (S (dist (length l) i h)) h e
          else insert_loop K E keq ekey swap on_eq fuel l (nxt (length l) i) (S j) ch ce
      end.
  Proof. reflexivity. Qed.

  (* replacing the entry of a slot by one with the same key and home changes nothing
     structurally *)
  Lemma core_upd_same (l : list slot) i h e e' : core l -> at_ l i = Some (h, e) ->
    ekey e' = ekey e -> core (upd i (Some (h, e')) l).
  Proof.
    intros [HL [Hwf Huq]] Hat Hk. pose proof (at_some_lt _ _ _ Hat) as Hi.
    assert (Hwt : forall a, wt (upd i (Some (h, e')) l) a = wt l a).
    { intros a. rewrite wt_upd by assumption. destruct (Nat.eqb_spec a i) as [->|]; [|reflexivity].
      rewrite (wt_some _ _ _ _ Hat). reflexivity. }
    split; [|split].
    - intros a Ha. rewrite upd_length in *. rewrite !Hwt. apply HL; assumption.
    - intros a g x Ha. rewrite upd_length. rewrite at_upd in Ha by assumption.
      destruct (Nat.eqb_spec a i) as [->|].
      + injection Ha as <- <-. rewrite Hk. eapply Hwf; eauto.
      + eapply Hwf; eauto.
    - intros a b g g' x x' Ha Hb Hxx. rewrite at_upd in Ha, Hb by assumption.
      destruct (Nat.eqb_spec a i) as [->|Hna]; destruct (Nat.eqb_spec b i) as [->|Hnb]; auto.
      + injection Ha as <- <-. eapply Huq; eauto. congruence.
      + injection Hb as <- <-. eapply Huq; eauto. congruence.
      + eapply Huq; eauto.
  Qed.

  (* placing the carried entry (home ch, offset j) into slot i = pos ch j *)
  Lemma core_place (l : list slot) i j ch ce : core l ->
    ch < length l -> j < length l -> i = pos (length l) ch j -> ch = hm (ekey ce) ->
    Absent l (ekey ce) ->
    (forall i', i' < length l -> nxt (length l) i' = i -> j <= wt l i') ->
    wt l i <= S j ->
    core (upd i (Some (ch, ce)) l).
  Proof.
    intros [HL [Hwf Huq]] Hch Hj Hi Hhm Habs Hprev Hold.
    set (n := length l) in *.
    assert (Hin : i < n) by (subst i; apply pos_lt; lia).
    assert (Hw : forall a, wt (upd i (Some (ch, ce)) l) a = if a =? i then S j else wt l a).
    { intros a. rewrite wt_upd by assumption. fold n. destruct (Nat.eqb_spec a i) as [->|]; [|reflexivity].
      simpl. subst i. rewrite dist_pos by assumption. reflexivity. }
    split; [|split].
    - intros a Ha. rewrite upd_length in *. fold n in Ha |- *. rewrite !Hw.
      pose proof (HL a Ha) as H1. fold n in H1.
      destruct (Nat.eqb_spec (nxt n a) i) as [Hna|Hna]; destruct (Nat.eqb_spec a i) as [Hai|Hai]; try lia.
      + pose proof (Hprev a Ha Hna). lia.
      + subst a. lia.
    - intros a g x Ha. rewrite upd_length. rewrite at_upd in Ha by assumption.
      destruct (Nat.eqb_spec a i) as [->|].
      + injection Ha as <- <-. auto.
      + eapply Hwf; eauto.
    - intros a b g g' x x' Ha Hb Hxx. rewrite at_upd in Ha, Hb by assumption.
      destruct (Nat.eqb_spec a i) as [->|Hna]; destruct (Nat.eqb_spec b i) as [->|Hnb]; auto.
      + injection Ha as <- <-. exfalso. eapply Habs; eauto.
      + injection Hb as <- <-. exfalso. eapply Habs; eauto.
      + eapply Huq; eauto.
  Qed.

  (* the key is not in the table: the entry (or the one it displaces, and so on) ends in the
     first free slot; works for every displacement rule between `p < j` and `p <= j` *)
  Lemma insert_loop_absent : forall fuel (l : list slot) i j ch ce z m,
    core l ->
    ch < length l -> j < length l -> i = pos (length l) ch j -> ch = hm (ekey ce) ->
    Absent l (ekey ce) ->
    (forall i', i' < length l -> nxt (length l) i' = i -> j <= wt l i') ->
    z = pos (length l) i m -> at_ l z = None -> j + m < length l -> m < fuel ->
    exists l', insert_loop K E keq ekey swap on_eq fuel l i j ch ce = Some (l', true) /\
      core l' /\ length l' = length l /\
      (forall x, Holds l' x <-> Holds l x \/ x = ce) /\
      occupied l' = S (occupied l).
  Proof.
    induction fuel as [|f IH]; intros l i j ch ce z m Hc Hch Hj Hi Hhm Habs Hprev Hz Hzn Hjm Hfuel; [lia|].
    pose proof Hc as [HL [Hwf Huq]].
    rewrite insert_loop_S. set (n := length l) in *.
    assert (Hin : i < n) by (subst i; apply pos_lt; lia).
    destruct (at_ l i) as [[h e]|] eqn:Hat.
    - assert (Hm0 : m <> 0).
      { intros ->. rewrite pos_0 in Hz by assumption. subst z. congruence. }
      destruct (keq (ekey e) (ekey ce)) eqn:Hk.
      { apply keq_spec in Hk. exfalso. eapply Habs; eauto. }
      assert (Hkne : ekey e <> ekey ce).
      { intros Heq. apply keq_spec in Heq. congruence. }
      destruct (Hwf _ _ _ Hat) as [Hhe Hh]. fold n in Hh.
      set (p := dist n i h).
      assert (Hpm : p + m < n).
      { apply (path_no_empty l i h e z m); auto. fold n. lia. }
      assert (Hwi : wt l i = S p) by (rewrite (wt_some _ _ _ _ Hat); reflexivity).
      destruct (swap j p) eqn:Hsw.
      + apply swap_le in Hsw.
        assert (Hc1 : core (upd i (Some (ch, ce)) l)).
        { apply (core_place l i j ch ce); auto. fold n. lia. }
        set (l1 := upd i (Some (ch, ce)) l) in *.
        assert (Hlen1 : length l1 = n) by apply upd_length.
        assert (Hzi : z <> i) by (intros ->; congruence).
        destruct (IH l1 (nxt n i) (S p) h e z (m - 1)) as [l' [Hr [Hc' [Hlen' [Hh' Ho']]]]]; auto.
        * rewrite Hlen1. assumption.
        * rewrite Hlen1. lia.
        * rewrite Hlen1. unfold p. rewrite <- nxt_pos by (try apply dist_lt; auto; fold p; lia).
          rewrite pos_dist by assumption. reflexivity.
        * intros a g x Ha Hx. unfold l1 in Ha. rewrite at_upd in Ha by assumption.
          destruct (Nat.eqb_spec a i) as [->|Hne].
          -- injection Ha as _ <-. congruence.
          -- assert (a = i) by (eapply Huq; eauto). contradiction.
        * rewrite Hlen1. intros a Ha Hnx. apply nxt_inj in Hnx; auto. subst a.
          unfold l1. rewrite wt_upd by assumption. rewrite Nat.eqb_refl. simpl. fold n.
          subst i. rewrite dist_pos by assumption. lia.
        * rewrite Hlen1. rewrite <- pos_S_nxt by lia. replace (S (m - 1)) with m by lia. assumption.
        * unfold l1. rewrite at_upd_ne by auto. assumption.
        * rewrite Hlen1. lia.
        * lia.
        * exists l'. split; [exact Hr|]. split; [exact Hc'|]. split; [lia|]. split.
          -- intros x. rewrite Hh'. unfold l1. apply (Holds_upd_some l i h e ch ce x Hat).
          -- rewrite Ho'. f_equal. unfold l1.
             pose proof (occupied_upd i (Some (ch, ce)) l Hin) as Hou. rewrite Hat in Hou. simpl in Hou. lia.
      + apply swap_ge in Hsw.
        destruct (IH l (nxt n i) (S j) ch ce z (m - 1)) as [l' [Hr [Hc' [Hlen' [Hh' Ho']]]]]; auto.
        * fold n. lia.
        * fold n. subst i. rewrite nxt_pos by lia. reflexivity.
        * fold n. intros a Ha Hnx. apply nxt_inj in Hnx; auto. subst a. lia.
        * fold n. rewrite <- pos_S_nxt by lia. replace (S (m - 1)) with m by lia. assumption.
        * fold n. lia.
        * lia.
        * exists l'. auto.
    - exists (upd i (Some (ch, ce)) l). split; [reflexivity|]. split.
      { apply (core_place l i j ch ce); auto. rewrite (wt_none _ _ Hat). lia. }
      split; [apply upd_length|]. split.
      + intros x. apply Holds_upd_none; assumption.
      + pose proof (occupied_upd i (Some (ch, ce)) l Hin) as Hou. rewrite Hat in Hou. simpl in Hou. lia.
  Qed.

  (* the key is already held (slot i0): under the STRICT rule nothing is displaced before
     the probe reaches it *)
  Lemma insert_loop_present (l : list slot) ch ce i0 eold : core l ->
    (forall j p, swap j p = true -> p < j) ->
    ch = hm (ekey ce) -> ch < length l ->
    at_ l i0 = Some (ch, eold) -> ekey eold = ekey ce ->
    forall fuel j, j <= dist (length l) i0 ch -> dist (length l) i0 ch - j < fuel ->
      insert_loop K E keq ekey swap on_eq fuel l (pos (length l) ch j) j ch ce
        = Some (upd i0 (Some (ch, on_eq eold ce)) l, false).
  Proof.
    intros Hc Hstrict Hhm Hch Hat0 Hk0. pose proof Hc as [HL [Hwf Huq]].
    pose proof (at_some_lt _ _ _ Hat0) as Hi0.
    set (n := length l) in *. set (d := dist n i0 ch).
    assert (Hd : d < n) by (apply dist_lt; assumption).
    induction fuel as [|f IH]; intros j Hj Hfuel; [lia|].
    rewrite insert_loop_S. fold n.
    destruct (Nat.eq_dec j d) as [->|Hne].
    - unfold d. rewrite pos_dist by assumption. rewrite Hat0.
      assert (Hkk : keq (ekey eold) (ekey ce) = true) by (apply keq_spec; assumption).
      rewrite Hkk. reflexivity.
    - pose proof (RHL_path l i0 ch eold HL Hch Hat0 j Hj) as Hp. fold n in Hp.
      set (i := pos n ch j) in *.
      destruct (wt_pos_some l i ltac:(lia)) as [h [e Hat]]. rewrite Hat.
      rewrite (wt_some _ _ _ _ Hat) in Hp. fold n in Hp.
      destruct (keq (ekey e) (ekey ce)) eqn:Hk.
      { exfalso. apply keq_spec in Hk. assert (i = i0) by (eapply Huq; eauto; congruence).
        assert (H2 : pos n ch j = pos n ch d) by (unfold d; rewrite pos_dist by assumption; exact H).
        apply pos_inj in H2; lia. }
      destruct (swap j (dist n i h)) eqn:Hsw.
      { apply Hstrict in Hsw. lia. }
      unfold i. rewrite nxt_pos by lia. apply IH; lia.
  Qed.

  (* Table_Set_Move / GC_Set_Ptr on the raw array, key absent: any admissible rule *)
  Theorem insert_absent_spec (l : list slot) ce : core l ->
    hm (ekey ce) < length l -> occupied l < length l -> Absent l (ekey ce) ->
    exists l', insert K E keq ekey swap on_eq l (hm (ekey ce)) ce = Some (l', true) /\
      core l' /\ length l' = length l /\
      (forall x, Holds l' x <-> Holds l x \/ x = ce) /\
      occupied l' = S (occupied l).
  Proof.
    intros Hc Hh Hocc Habs. destruct (empty_slot_exists l Hocc) as [z [Hz Hzn]].
    unfold insert. set (n := length l) in *.
    apply (insert_loop_absent (2 * n + 2) l (hm (ekey ce)) 0 (hm (ekey ce)) ce z (dist n z (hm (ekey ce)))); auto.
    - fold n. lia.
    - fold n. rewrite pos_0; auto.
    - intros; lia.
    - fold n. rewrite pos_dist; auto.
    - fold n. pose proof (dist_lt n z (hm (ekey ce)) Hh Hz). lia.
    - pose proof (dist_lt n z (hm (ekey ce)) Hh Hz). lia.
  Qed.

  (* key present: strict rule only (the non-strict rule duplicates the key, see
     table_nonstrict_refuted) *)
  Theorem insert_present_spec (l : list slot) ce i0 h0 eold : core l ->
    (forall j p, swap j p = true -> p < j) ->
    hm (ekey ce) < length l -> at_ l i0 = Some (h0, eold) -> ekey eold = ekey ce ->
    insert K E keq ekey swap on_eq l (hm (ekey ce)) ce
      = Some (upd i0 (Some (hm (ekey ce), on_eq eold ce)) l, false) /\ h0 = hm (ekey ce).
  Proof.
    intros Hc Hstrict Hh Hat Hk. pose proof Hc as [HL [Hwf Huq]].
    destruct (Hwf _ _ _ Hat) as [Hh0 _]. rewrite Hk in Hh0. subst h0. split; [|reflexivity].
    unfold insert. set (n := length l) in *.
    pose proof (insert_loop_present l (hm (ekey ce)) ce i0 eold Hc Hstrict eq_refl Hh Hat Hk (2 * n + 2) 0) as H.
    fold n in H. rewrite pos_0 in H by assumption. apply H; [lia|].
    pose proof (dist_lt n i0 (hm (ekey ce)) Hh (at_some_lt _ _ _ Hat)). lia.
  Qed.

  (* both cases in one statement, finite-map reading:  the result holds exactly the old
     entries with other keys plus one entry for the key *)
  Theorem insert_spec (l : list slot) ce : core l ->
    (forall j p, swap j p = true -> p < j) ->
    hm (ekey ce) < length l -> occupied l < length l ->
    exists l' fresh newe, insert K E keq ekey swap on_eq l (hm (ekey ce)) ce = Some (l', fresh) /\
      core l' /\ length l' = length l /\
      (forall x, Holds l' x <-> x = newe \/ (Holds l x /\ ekey x <> ekey ce)) /\
      ekey newe = ekey ce /\
      (fresh = true -> Absent l (ekey ce) /\ newe = ce /\ occupied l' = S (occupied l)) /\
      (fresh = false -> (exists eold, Holds l eold /\ ekey eold = ekey ce /\ newe = on_eq eold ce)
                        /\ occupied l' = occupied l).
  Proof.
    intros Hc Hstrict Hh Hocc. pose proof Hc as [HL [Hwf Huq]].
    destruct (find_spec l (ekey ce) Hc Hh) as [r [_ Hr]].
    destruct r as [i0|].
    - destruct Hr as [eold [Hat Hk]].
      destruct (insert_present_spec l ce i0 _ eold Hc Hstrict Hh Hat Hk) as [Hins _].
      pose proof (at_some_lt _ _ _ Hat) as Hi0.
      exists (upd i0 (Some (hm (ekey ce), on_eq eold ce)) l), false, (on_eq eold ce).
      split; [exact Hins|]. split; [apply core_upd_same with (e := eold); auto; rewrite on_eq_key; auto|].
      split; [apply upd_length|]. split; [|split; [auto|split; [discriminate|]]].
      + intros x. pose proof (Holds_upd_some l i0 _ eold (hm (ekey ce)) (on_eq eold ce) x Hat) as HH.
        split.
        * intros Hx. destruct (proj1 HH (or_introl Hx)) as [Hl|]; [|auto].
          destruct Hx as [a [g Ha]]. rewrite at_upd in Ha by assumption.
          destruct (Nat.eqb_spec a i0) as [->|Hne]; [left; congruence|].
          right. split; [assumption|]. intros Hkx.
          assert (a = i0) by (eapply Huq; eauto; congruence). contradiction.
        * intros [->|[Hl Hkx]].
          -- exists i0, (hm (ekey ce)). apply at_upd_eq; assumption.
          -- destruct (proj2 HH (or_introl Hl)) as [Hx| ->]; [assumption|]. congruence.
      + intros _. split.
        * exists eold. split; [exists i0, (hm (ekey ce)); exact Hat|auto].
        * pose proof (occupied_upd i0 (Some (hm (ekey ce), on_eq eold ce)) l Hi0) as Hou.
          rewrite Hat in Hou. simpl in Hou. lia.
    - destruct (insert_absent_spec l ce Hc Hh Hocc Hr) as [l' [Hins [Hc' [Hlen [Hh' Ho]]]]].
      exists l', true, ce. split; [exact Hins|]. split; [exact Hc'|]. split; [exact Hlen|].
      split; [|split; [reflexivity|split; [auto|discriminate]]].
      intros x. rewrite Hh'. split.
      + intros [Hl| ->]; [|auto]. right. split; [assumption|].
        destruct Hl as [a [g Ha]]. eapply Hr; eauto.
      + intros [->|[Hl _]]; auto.
  Qed.

  (* ---------------------------------------------------------------- 4c. deletion *)
  Lemma backshift_S fuel (l : list slot) i :
    backshift E (S fuel) l i =
      match at_ l (nxt (length l) i) with
      | Some (h, e) =>
        if 0 <? dist (length l) (nxt (length l) i) h
        then backshift E fuel (upd (nxt (length l) i) None (upd i (Some (h, e)) l)) (nxt (length l) i)
        else Some l
      | None => Some l
      end.
  Proof. reflexivity. Qed.

  (* weights with a virtual weight w at the hole i: "robin-hood modulo one hole" means
     the local ordering holds for these *)
  Definition Wh (l : list slot) (i w a : nat) : nat := if a =? i then w else wt l a.
  Definition HoleRH (l : list slot) (i w : nat) : Prop :=
    forall a, a < length l -> Wh l i w (nxt (length l) a) <= S (Wh l i w a).

  (* the hole has reached a slot whose successor is empty or at home: the ordering is whole again *)
  Lemma hole_done (l : list slot) i w : i < length l -> at_ l i = None -> HoleRH l i w ->
    wt l (nxt (length l) i) <= 1 -> RHL l.
  Proof.
    intros Hi Hat Hh Hn a Ha. pose proof (Hh a Ha) as H1. unfold Wh in H1.
    pose proof (wt_none _ _ Hat) as H0.
    destruct (Nat.eqb_spec (nxt (length l) a) i) as [Hb|Hb]; destruct (Nat.eqb_spec a i) as [Hai|Hai];
      try rewrite Hb; try subst a; lia.
  Qed.

  (* one backward shift: the entry after the hole moves into it *)
  Lemma hole_step (l : list slot) i w h e q : WF l -> UQ l -> i < length l ->
    at_ l i = None -> HoleRH l i w ->
    at_ l (nxt (length l) i) = Some (h, e) -> dist (length l) (nxt (length l) i) h = S q ->
    let ni := nxt (length l) i in
    let l1 := upd ni None (upd i (Some (h, e)) l) in
    length l1 = length l /\ WF l1 /\ UQ l1 /\ at_ l1 ni = None /\ HoleRH l1 ni (S (S q)) /\
    (forall x, Holds l1 x <-> Holds l x) /\ occupied l1 = occupied l /\
    (forall a, a <> i -> a <> ni -> at_ l1 a = at_ l a).
  Proof.
    intros Hwf Huq Hi Hat Hh Hnat Hd. cbv zeta. set (n := length l) in *.
    set (ni := nxt n i) in *. set (l1 := upd ni None (upd i (Some (h, e)) l)).
    assert (Hni : ni < n) by (apply nxt_lt; assumption).
    assert (Hne : ni <> i) by (intros Heq; rewrite Heq in Hnat; congruence).
    destruct (Hwf _ _ _ Hnat) as [Hhm Hhn]. fold n in Hhn.
    assert (Hq : dist n i h = q) by (apply (dist_nxt_back n i h q); assumption).
    assert (Hlen2 : length (upd i (Some (h, e)) l) = n) by apply upd_length.
    assert (Hlen1 : length l1 = n) by (unfold l1; rewrite upd_length; assumption).
    assert (Hat1 : forall a, at_ l1 a = if a =? ni then None else if a =? i then Some (h, e) else at_ l a).
    { intros a. unfold l1. rewrite at_upd by (rewrite Hlen2; assumption).
      destruct (Nat.eqb_spec a ni); [reflexivity|]. apply at_upd. assumption. }
    assert (Hwt1 : forall a, wt l1 a = if a =? ni then 0 else if a =? i then S q else wt l a).
    { intros a. unfold wt. rewrite Hlen1, Hat1. fold n.
      destruct (Nat.eqb_spec a ni); [reflexivity|]. destruct (Nat.eqb_spec a i) as [->|]; [|reflexivity].
      simpl. rewrite Hq. reflexivity. }
    assert (Hwni : wt l ni = S (S q)) by (rewrite (wt_some _ _ _ _ Hnat); fold n; rewrite Hd; reflexivity).
    split; [exact Hlen1|]. split; [|split; [|split; [|split; [|split; [|split]]]]].
    - intros a g x Ha. rewrite Hlen1. rewrite Hat1 in Ha.
      destruct (Nat.eqb_spec a ni); [discriminate|]. destruct (Nat.eqb_spec a i).
      + injection Ha as <- <-. auto.
      + eapply Hwf; eauto.
    - intros a b g g' x x' Ha Hb Hxx. rewrite Hat1 in Ha, Hb.
      destruct (Nat.eqb_spec a ni) as [|Hna]; [discriminate|].
      destruct (Nat.eqb_spec b ni) as [|Hnb]; [discriminate|].
      destruct (Nat.eqb_spec a i) as [->|Hai]; destruct (Nat.eqb_spec b i) as [->|Hbi]; auto.
      + injection Ha as <- <-. exfalso. apply Hnb. symmetry. eapply Huq; eauto.
      + injection Hb as <- <-. exfalso. apply Hna. eapply Huq; eauto.
      + eapply Huq; eauto.
    - rewrite Hat1, Nat.eqb_refl. reflexivity.
    - intros a Ha. rewrite Hlen1 in *. unfold Wh. rewrite !Hwt1.
      pose proof (Hh a Ha) as H1. pose proof (Hh i Hi) as H2. unfold Wh in H1, H2. fold n in H1, H2. fold ni in H1, H2.
      rewrite Nat.eqb_refl in H2. destruct (Nat.eqb_spec ni i) as [|_]; [contradiction|].
      rewrite Hwni in H2.
      destruct (Nat.eqb_spec (nxt n a) ni) as [Hb|Hb].
      + apply nxt_inj in Hb; auto. subst a. rewrite Nat.eqb_refl.
        destruct (Nat.eqb_spec i ni); [congruence|]. lia.
      + assert (Hai : a <> i) by (intros ->; apply Hb; reflexivity).
        destruct (Nat.eqb_spec a i) as [|_]; [contradiction|].
        destruct (Nat.eqb_spec (nxt n a) i) as [Hbi|Hbi]; destruct (Nat.eqb_spec a ni) as [Hani|Hani];
          try subst a; try rewrite Hwni in *; lia.
    - intros x. split; intros [a [g Ha]].
      + rewrite Hat1 in Ha. destruct (Nat.eqb_spec a ni); [discriminate|].
        destruct (Nat.eqb_spec a i).
        * injection Ha as <- <-. exists ni, h. exact Hnat.
        * exists a, g. exact Ha.
      + destruct (Nat.eq_dec a ni) as [->|Hna].
        * rewrite Hnat in Ha. injection Ha as <- <-. exists i, h. rewrite Hat1.
          destruct (Nat.eqb_spec i ni); [congruence|]. rewrite Nat.eqb_refl. reflexivity.
        * exists a, g. rewrite Hat1. destruct (Nat.eqb_spec a ni); [contradiction|].
          destruct (Nat.eqb_spec a i) as [->|]; [congruence|]. exact Ha.
    - pose proof (occupied_upd i (Some (h, e)) l Hi) as H1. rewrite Hat in H1.
      pose proof (occupied_upd ni None (upd i (Some (h, e)) l) ltac:(rewrite Hlen2; assumption)) as H2.
      rewrite at_upd_ne in H2 by auto. rewrite Hnat in H2. fold l1 in H2. simpl in H1, H2. lia.
    - intros a Hai Hani. rewrite Hat1. destruct (Nat.eqb_spec a ni); [contradiction|].
      destruct (Nat.eqb_spec a i); [contradiction|]. reflexivity.
  Qed.

  Lemma backshift_spec : forall fuel (l : list slot) i w z m,
    WF l -> UQ l -> i < length l -> at_ l i = None -> HoleRH l i w ->
    z = pos (length l) i m -> 0 < m -> m < length l -> at_ l z = None -> m < fuel ->
    exists l', backshift E fuel l i = Some l' /\ core l' /\ length l' = length l /\
      (forall x, Holds l' x <-> Holds l x) /\ occupied l' = occupied l.
  Proof.
    induction fuel as [|f IH]; intros l i w z m Hwf Huq Hi Hat Hh Hz Hm0 Hmn Hzn Hfuel; [lia|].
    rewrite backshift_S. set (n := length l) in *. set (ni := nxt n i).
    assert (Hdone : wt l ni <= 1 -> exists l', Some l = Some l' /\ core l' /\ length l' = n /\
              (forall x, Holds l' x <-> Holds l x) /\ occupied l' = occupied l).
    { intros Hw. exists l. split; [reflexivity|]. split; [|split; [reflexivity|split; [tauto|reflexivity]]].
      split; [|split; assumption]. apply (hole_done l i w); assumption. }
    destruct (at_ l ni) as [[h e]|] eqn:Hnat.
    - destruct (Nat.ltb_spec 0 (dist n ni h)) as [Hpos|Hzero].
      + destruct (dist n ni h) as [|q] eqn:Hd; [lia|].
        destruct (hole_step l i w h e q Hwf Huq Hi Hat Hh Hnat Hd)
          as [Hlen1 [Hwf1 [Huq1 [Hat1 [Hh1 [Hhold1 [Hocc1 Hsame]]]]]]].
        fold n in Hlen1, Hat1, Hh1, Hhold1, Hocc1, Hsame. fold ni in Hlen1, Hat1, Hh1, Hhold1, Hocc1, Hsame |- *.
        set (l1 := upd ni None (upd i (Some (h, e)) l)) in *.
        assert (Hni : ni < n) by (apply nxt_lt; assumption).
        assert (Hzi : z <> i) by (rewrite Hz; apply pos_ne_self; assumption).
        assert (Hzni : z <> ni) by (intros ->; congruence).
        assert (Hm1 : m <> 1).
        { intros ->. apply Hzni. rewrite Hz. rewrite pos_S_nxt by lia. apply pos_0. assumption. }
        destruct (IH l1 ni (S (S q)) z (m - 1)) as [l' [Hr [Hc' [Hlen' [Hh' Ho']]]]]; auto.
        * rewrite Hlen1. assumption.
        * rewrite Hlen1. rewrite Hz. replace m with (S (m - 1)) at 1 by lia. apply pos_S_nxt; lia.
        * lia.
        * rewrite Hlen1. lia.
        * rewrite Hsame by assumption. assumption.
        * lia.
        * exists l'. split; [exact Hr|]. split; [exact Hc'|]. split; [lia|]. split; [|lia].
          intros x. rewrite Hh'. apply Hhold1.
      + apply Hdone. rewrite (wt_some _ _ _ _ Hnat). fold n. lia.
    - apply Hdone. rewrite (wt_none _ _ Hnat). lia.
  Qed.

  (* Table_Rem / GC_Rem_Ptr on the raw array: empty slot i and shift the cluster back *)
  Theorem delete_at_spec (l : list slot) i h e : core l -> at_ l i = Some (h, e) ->
    occupied l < length l ->
    exists l', delete_at E l i = Some l' /\ core l' /\ length l' = length l /\
      (forall x, Holds l' x <-> Holds l x /\ ekey x <> ekey e) /\
      S (occupied l') = occupied l.
  Proof.
    intros [HL [Hwf Huq]] Hat Hocc. pose proof (at_some_lt _ _ _ Hat) as Hi.
    destruct (empty_slot_exists l Hocc) as [z [Hz Hzn]].
    assert (Hzi : z <> i) by (intros ->; congruence).
    unfold delete_at. set (n := length l) in *. set (l0 := upd i None l).
    assert (Hlen0 : length l0 = n) by apply upd_length.
    assert (Hat0 : forall a, at_ l0 a = if a =? i then None else at_ l a) by (intros a; apply at_upd; assumption).
    destruct (backshift_spec (n + 2) l0 i (wt l i) z (dist n z i)) as [l' [Hr [Hc' [Hlen' [Hh' Ho']]]]].
    - intros a g x Ha. rewrite Hlen0. rewrite Hat0 in Ha. destruct (Nat.eqb_spec a i); [discriminate|]. eapply Hwf; eauto.
    - intros a b g g' x x' Ha Hb. rewrite Hat0 in Ha, Hb.
      destruct (Nat.eqb_spec a i); [discriminate|]. destruct (Nat.eqb_spec b i); [discriminate|]. eapply Huq; eauto.
    - rewrite Hlen0. assumption.
    - rewrite Hat0, Nat.eqb_refl. reflexivity.
    - intros a Ha. rewrite Hlen0 in *. unfold Wh.
      assert (Hw : forall b, (if b =? i then wt l i else wt l0 b) = wt l b).
      { intros b. unfold l0. rewrite wt_upd by assumption. destruct (Nat.eqb_spec b i) as [->|]; reflexivity. }
      rewrite !Hw. apply HL. assumption.
    - rewrite Hlen0. symmetry. apply pos_dist; assumption.
    - destruct (dist n z i) eqn:Hd; [|lia]. apply dist_0 in Hd; auto. 
    - rewrite Hlen0. apply dist_lt; assumption.
    - rewrite Hat0. destruct (Nat.eqb_spec z i); [reflexivity|assumption].
    - pose proof (dist_lt n z i Hi Hz). lia.
    - exists l'. split; [exact Hr|]. split; [exact Hc'|]. split; [lia|]. split.
      + intros x. rewrite Hh'. split.
        * intros [a [g Ha]]. rewrite Hat0 in Ha. destruct (Nat.eqb_spec a i) as [|Hne]; [discriminate|].
          split; [exists a, g; exact Ha|]. intros Hk. apply Hne. eapply Huq; eauto.
        * intros [[a [g Ha]] Hk]. exists a, g. rewrite Hat0.
          destruct (Nat.eqb_spec a i) as [->|]; [|exact Ha]. exfalso. apply Hk. congruence.
      + rewrite Ho'. pose proof (occupied_upd i None l Hi) as Hou. rewrite Hat in Hou. fold l0 in Hou. simpl in Hou. lia.
  Qed.

  (* ---------------------------------------------------------------- 4d. rehash *)
  Lemma UQ_tail s (l : list slot) : UQ (s :: l) -> UQ l.
  Proof.
    intros Huq a b g g' x x' Ha Hb Hxx.
    assert (S a = S b) by (eapply Huq; [rewrite at_cons; exact Ha|rewrite at_cons; exact Hb|exact Hxx]). lia.
  Qed.

  (* no duplicate keys, list form: iteration yields every key once *)
  Lemma UQ_NoDup (l : list slot) : UQ l -> NoDup (map ekey (entries l)).
  Proof.
    induction l as [|s l IH]; intros Huq; [constructor|].
    rewrite entries_cons. pose proof (IH (UQ_tail _ _ Huq)) as Hnd.
    destruct s as [[h e]|]; [|exact Hnd]. simpl. constructor; [|exact Hnd].
    intros Hin. apply in_map_iff in Hin. destruct Hin as [x [Hk Hx]].
    apply in_entries in Hx. destruct Hx as [a [g Ha]].
    assert (0 = S a); [|lia]. eapply (Huq 0 (S a) h g e x); [reflexivity|rewrite at_cons; exact Ha|auto].
  Qed.

  Lemma NoDup_UQ (l : list slot) : NoDup (map ekey (entries l)) -> UQ l.
  Proof.
    induction l as [|s l IH]; intros Hnd.
    - intros a b g g' x x' Ha. destruct a; discriminate.
    - rewrite entries_cons in Hnd.
      assert (Hnd' : NoDup (map ekey (entries l))) by (destruct s as [[h e]|]; [inversion Hnd|]; assumption).
      specialize (IH Hnd').
      intros a b g g' x x' Ha Hb Hxx.
      destruct a as [|a]; destruct b as [|b]; auto.
      + exfalso. unfold RobinHood.at_ in Ha; simpl in Ha. subst s. rewrite at_cons in Hb.
        simpl in Hnd. inversion Hnd as [|? ? Hnin _]. apply Hnin. rewrite Hxx. apply in_map.
        apply in_entries. exists b, g'. exact Hb.
      + exfalso. unfold RobinHood.at_ in Hb; simpl in Hb. subst s. rewrite at_cons in Ha.
        simpl in Hnd. inversion Hnd as [|? ? Hnin _]. apply Hnin. rewrite <- Hxx. apply in_map.
        apply in_entries. exists a, g. exact Ha.
      + rewrite at_cons in Ha, Hb. f_equal. eapply IH; eauto.
  Qed.

  Section Rehash.
  Variable home_of : K -> nat -> nat.

  (* Table_Rehash / GC_Rehash: re-inserting entries with pairwise distinct keys that are not
     in the target array; every insertion is of an absent key, so ANY admissible displacement
     rule will do *)
  Lemma reinsert_spec : forall (old acc : list slot), core acc ->
    (forall k, home_of k (length acc) = hm k) -> (forall k, hm k < length acc) ->
    NoDup (map ekey (entries old)) ->
    (forall x, In x (entries old) -> Absent acc (ekey x)) ->
    occupied acc + occupied old <= length acc ->
    exists acc', reinsert K E keq ekey swap on_eq home_of old acc = Some acc' /\
      core acc' /\ length acc' = length acc /\
      (forall x, Holds acc' x <-> Holds acc x \/ In x (entries old)) /\
      occupied acc' = occupied acc + occupied old.
  Proof.
    induction old as [|s old IH]; intros acc Hc Hho Hhm Hnd Habs Hocc.
    - exists acc. simpl. split; [reflexivity|]. split; [assumption|]. split; [reflexivity|].
      split; [tauto|]. unfold RobinHood.occupied at 3; simpl. lia.
    - rewrite entries_cons in Hnd, Habs. rewrite occupied_cons in Hocc.
      destruct s as [[h0 e]|].
      + simpl in Hnd, Habs, Hocc. inversion Hnd as [|? ? Hnin Hnd']; subst.
        destruct (insert_absent_spec acc e Hc (Hhm _) ltac:(lia) (Habs e (or_introl eq_refl)))
          as [acc1 [Hins [Hc1 [Hlen1 [Hh1 Ho1]]]]].
        destruct (IH acc1) as [acc' [Hr [Hc' [Hlen' [Hh' Ho']]]]]; auto.
        * rewrite Hlen1. assumption.
        * rewrite Hlen1. assumption.
        * intros x Hx a g y Ha Hk.
          assert (Hy : Holds acc1 y) by (exists a, g; exact Ha).
          apply Hh1 in Hy. destruct Hy as [[a' [g' Ha']]| ->].
          -- eapply (Habs x (or_intror Hx)); eauto.
          -- apply Hnin. rewrite Hk. apply in_map. assumption.
        * rewrite Hlen1. lia.
        * exists acc'. split.
          { simpl. rewrite Hho, Hins. exact Hr. }
          split; [exact Hc'|]. split; [lia|]. split.
          -- intros x. rewrite Hh', Hh1, entries_cons. simpl. intuition auto.
          -- rewrite occupied_cons. simpl. lia.
      + simpl in Hocc. destruct (IH acc) as [acc' [Hr [Hc' [Hlen' [Hh' Ho']]]]]; auto.
        exists acc'. split; [exact Hr|]. split; [exact Hc'|]. split; [exact Hlen'|]. split.
        * intros x. rewrite Hh', entries_cons. tauto.
        * rewrite occupied_cons. simpl. lia.
  Qed.

  Theorem rehash_spec (old : list slot) n : UQ old ->
    (forall k, home_of k n = hm k) -> (forall k, hm k < n) -> occupied old <= n ->
    exists l', rehash K E keq ekey swap on_eq home_of old n = Some l' /\
      core l' /\ length l' = n /\
      (forall x, Holds l' x <-> Holds old x) /\
      occupied l' = occupied old.
  Proof.
    intros Huq Hho Hhm Hocc. unfold rehash.
    destruct (reinsert_spec old (repeat None n)) as [l' [Hr [Hc' [Hlen' [Hh' Ho']]]]].
    - apply core_repeat.
    - rewrite repeat_length. assumption.
    - rewrite repeat_length. assumption.
    - apply UQ_NoDup. assumption.
    - intros x _. apply Absent_repeat.
    - rewrite repeat_length, occupied_repeat. lia.
    - rewrite repeat_length in Hlen'. rewrite occupied_repeat in Ho'.
      exists l'. split; [exact Hr|]. split; [exact Hc'|]. split; [exact Hlen'|]. split; [|exact Ho'].
      intros x. rewrite Hh', in_entries. split; [intros [[a [g Ha]]|]; [rewrite at_repeat in Ha; discriminate|assumption]|auto].
  Qed.
  End Rehash.

  End Fixed.
End RHP.
