(* Lifecycle.v — executable model of the object life cycle of Cello (property C06):
   src/Alloc.c (alloc_by / new_with / del_by / dealloc), src/Pointer.c (Box_Del issues `del`
   on the owned object), src/GC.c (GC_Set with the threshold collection, GC_Rem / GC_Rem_Ptr
   with the pending-list scan, GC_Sweep's pending list and finaliser loop, GC_Del = teardown,
   GC_Start / GC_Stop).

   The registry itself (robin-hood slot array) is the subject of C17 and is ABSTRACT here: a
   duplicate-free list of (object, root flag).  What matters for C06 is the ORDER in which
   GC_Sweep meets the entries (= the order of the pending list `freelist`); that order is an
   argument of every collection (`order`), and so is the set of marks left by the mark phase
   (`marks`) — both universally quantified in the theorems, both observed from the real
   library in the correspondence check.

   Objects are abstract identities (never reused).  An object is plain or a Box (its
   destructor issues `del` on the object it owns).  The ledger `log` records every
   destructor call (LFin) and every release of memory (LFree).

   A destructor may also allocate (new inside a destructor): `ESpawn o cs` declares that the
   destructor of o allocates the managed plain objects cs; alloc_child is the alloc + GC_Set made
   from inside the destructor, including the collection it may trigger (slot order and marks of
   those collections are taken from the input queue `obsq`, set by `EObs`).

   Three switches re-state the repairs as found in the C text (tools/genx_life.py reads them off
   src/GC.c into Generated.v):
     rem_fix   : GC_Rem_Ptr, on finding the pointer in the pending list, NULLs the entry AND
                 finalises the object (pinned code: only NULLs it, then looks in the table)    (D18)
     sweep_fix : GC_Sweep's finaliser loop NULLs the entry BEFORE calling the destructor       (D18)
     defer_fix : GC_Set does not start a collection while a sweep is running (pinned code: the
                 nested sweep takes over the ONE pending list and leaves it empty)             (D22)
   MODEL ONLY: no proofs in this file. *)
From Coq Require Import List Arith Bool PeanoNat.
Import ListNotations.

Notation id := nat (only parsing).

Inductive kind := KManaged | KRoot | KRaw.     (* new / new_root / new_raw *)

Inductive lev := LFin (o : id) | LFree (o : id).

Definition lev_eqb (a b : lev) : bool :=
  match a, b with
  | LFin x, LFin y => x =? y
  | LFree x, LFree y => x =? y
  | _, _ => false
  end.

Definition kind_eqb (a b : kind) : bool :=
  match a, b with
  | KManaged, KManaged | KRoot, KRoot | KRaw, KRaw => true
  | _, _ => false
  end.

Record st := mkst {
  reg     : list (id * bool);      (* registry: object, root flag (gc->entries, order abstract) *)
  pend    : list (option id);      (* gc->freelist of the sweep in progress; [] outside a sweep *)
  running : bool;                  (* gc->running *)
  mitems  : nat;                   (* gc->mitems *)
  owned   : id -> option id;       (* a Box's val *)
  info    : id -> option (kind * bool);   (* allocated objects: how allocated, is it a Box *)
  ids     : list id;               (* allocated identities, newest first *)
  log     : list lev;              (* ledger, newest first *)
  bad     : bool;                  (* the history misused the interface (use after delete, …) *)
  oof     : bool;                  (* fuel exhausted (never: LifecycleProofs.fuel_adequate) *)
  torn    : bool;                  (* the collector has been torn down *)
  spawns  : id -> list id;         (* objects the destructor of an object allocates (new inside a destructor) *)
  obsq    : list (list id * list id)   (* slot order and marks of the collections that allocations made by
                                          destructors will trigger (inputs, like `order`/`marks` of the events) *)
}.

Definition init : st :=
  mkst [] [] true 0 (fun _ => None) (fun _ => None) [] [] false false false (fun _ => []) [].

Definition set_reg r s := mkst r (pend s) (running s) (mitems s) (owned s) (info s) (ids s) (log s) (bad s) (oof s) (torn s) (spawns s) (obsq s).
Definition set_pend p s := mkst (reg s) p (running s) (mitems s) (owned s) (info s) (ids s) (log s) (bad s) (oof s) (torn s) (spawns s) (obsq s).
Definition set_running b s := mkst (reg s) (pend s) b (mitems s) (owned s) (info s) (ids s) (log s) (bad s) (oof s) (torn s) (spawns s) (obsq s).
Definition set_mitems m s := mkst (reg s) (pend s) (running s) m (owned s) (info s) (ids s) (log s) (bad s) (oof s) (torn s) (spawns s) (obsq s).
Definition set_owned f s := mkst (reg s) (pend s) (running s) (mitems s) f (info s) (ids s) (log s) (bad s) (oof s) (torn s) (spawns s) (obsq s).
Definition add_log e s := mkst (reg s) (pend s) (running s) (mitems s) (owned s) (info s) (ids s) (e :: log s) (bad s) (oof s) (torn s) (spawns s) (obsq s).
Definition set_bad s := mkst (reg s) (pend s) (running s) (mitems s) (owned s) (info s) (ids s) (log s) true (oof s) (torn s) (spawns s) (obsq s).
Definition set_oof s := mkst (reg s) (pend s) (running s) (mitems s) (owned s) (info s) (ids s) (log s) (bad s) true (torn s) (spawns s) (obsq s).
Definition set_torn s := mkst (reg s) (pend s) (running s) (mitems s) (owned s) (info s) (ids s) (log s) (bad s) (oof s) true (spawns s) (obsq s).
Definition add_obj (o : id) (k : kind) (b : bool) s :=
  mkst (reg s) (pend s) (running s) (mitems s) (owned s)
       (fun x => if x =? o then Some (k, b) else info s x) (o :: ids s) (log s) (bad s) (oof s) (torn s) (spawns s) (obsq s).
Definition set_spawns f s := mkst (reg s) (pend s) (running s) (mitems s) (owned s) (info s) (ids s) (log s) (bad s) (oof s) (torn s) f (obsq s).
Definition set_obsq q s := mkst (reg s) (pend s) (running s) (mitems s) (owned s) (info s) (ids s) (log s) (bad s) (oof s) (torn s) (spawns s) q.

Definition upd_owned (f : id -> option id) (b : id) (v : option id) : id -> option id :=
  fun x => if x =? b then v else f x.

Definition count (e : lev) (l : list lev) : nat := length (filter (lev_eqb e) l).
Definition fin_count (s : st) (o : id) := count (LFin o) (log s).
Definition free_count (s : st) (o : id) := count (LFree o) (log s).
Definition freed (s : st) (o : id) : bool := existsb (lev_eqb (LFree o)) (log s).
Definition fin_started (s : st) (o : id) : bool := existsb (lev_eqb (LFin o)) (log s).

Definition in_reg (s : st) (o : id) : bool := existsb (fun e => fst e =? o) (reg s).
Definition is_root (s : st) (o : id) : bool := existsb (fun e => (fst e =? o) && snd e) (reg s).
Definition rem_reg (o : id) (r : list (id * bool)) := filter (fun e => negb (fst e =? o)) r.

Definition opt_is (o : id) (x : option id) : bool := match x with Some y => y =? o | None => false end.
Definition in_pend (s : st) (o : id) : bool := existsb (opt_is o) (pend s).
(* for (i < freenum) if (freelist[i] is ptr) freelist[i] = NULL; *)
Definition null_pend (o : id) (p : list (option id)) := map (fun x => if opt_is o x then None else x) p.

Definition nitems (s : st) : nat := length (reg s).
(* the collection threshold of the pinned tree: gc->mitems = gc->nitems + gc->nitems / 2 + 1.
   WHEN a collection runs is tuning: the machine takes the rule as a parameter (`mrule`, read off
   the source as Generated.gc_mitems_rule), and every theorem holds for every rule. *)
Definition mitems_rule (n : nat) : nat := n + n / 2 + 1.

Inductive ev :=
| ENew (k : kind) (isbox : bool) (o : id) (order marks : list id)   (* order/marks: threshold collection *)
| ELink (b : id) (o : option id)          (* the Box b now points at o *)
| EDel (k : kind) (o : id)                (* del / del_root / del_raw *)
| ECollect (order marks : list id)        (* GC_Mark; GC_Sweep *)
| EStop | EStart
| ETeardown (order : list id)             (* del_raw(gc): thread exit / Cello_Exit *)
| ESpawn (o : id) (cs : list id)          (* the destructor of o will allocate the objects cs (new inside a destructor) *)
| EObs (q : list (list id * list id)).    (* model input only: order/marks of the collections such allocations trigger *)


(* the ways a program ends *)
Inductive route := RReturn | RExit | RExitInBlock | RThrow | RExitStatus | RExitAfterThread
| RSigUncaught       (* exception_signals(); a signal exception nobody catches (raise outside any try) *)
| RSigCaughtReturn   (* a signal exception caught in a try-block, then normal return *)
| RSigCaughtThrow    (* a signal exception caught, later an ordinary uncaught throw *)
| RSigCaughtExit.    (* a signal exception caught, later exit() from a nested call *)

(* A destructor that brackets the release of its C resource with a stop/start window of its own
   ("keep the collector quiet for a critical section"):
       bool was = running(gc);  stop(gc);  <release>;  if (was) start(gc);
   GC_Stop and GC_Start only touch gc->running.  `keep` re-states that as found in the C text
   (Generated.gc_start_stop_keep_pending): a GC_Start that "forgets" a pending list it finds
   (seeded C06-r7-2) empties the list of the sweep that is calling the destructor. *)
Definition gc_stop (s : st) : st := set_running false s.
Definition gc_start (keep : bool) (s : st) : st := set_running true (if keep then s else set_pend [] s).
Definition window (keep : bool) (s : st) : st := if running s then gc_start keep (gc_stop s) else gc_stop s.
(* destructor prologue: the objects `win` open such a window before anything else their destructor does *)
Definition dwin (win : id -> bool) (keep : bool) (s : st) (o : id) : st := if win o then window keep s else s.
Notation nopro := (fun (s : st) (_ : id) => s) (only parsing).

Section Machine.
  Variable mrule : nat -> nat.           (* gc->mitems = mrule(gc->nitems) after a sweep / a removal *)
  Variables rem_fix sweep_fix defer_fix : bool.
  Variable pro : st -> id -> st.         (* destructor prologue (dwin …, or nopro) *)

  (* GC_Rem (rem(current(GC), p), i.e. del / del_root), with `fin` = dealloc(destruct(.)). *)
  Definition gc_rem (fin : st -> id -> st) (s : st) (p : id) : st :=
    if negb (running s) then s                       (* if (not gc->running) return; *)
    else
      let s1 :=
        if in_pend s p then
          let s' := set_pend (null_pend p (pend s)) s in
          if rem_fix then fin s' p                   (* repaired: dealloc(destruct(ptr)); return; *)
          else if in_reg s' p                        (* pinned: falls through to the table lookup *)
               then fin (set_reg (rem_reg p (reg s')) s') p
               else s'
        else if in_reg s p
             then fin (set_reg (rem_reg p (reg s)) s) p   (* found: remove, nitems--, finalise *)
             else s                                  (* not registered: nothing happens *)
      in set_mitems (mrule (nitems s1)) s1.    (* GC_Resize_Less; mitems rule *)

  Definition live_pend (s : st) : nat := length (filter (fun x => match x with Some _ => true | None => false end) (pend s)).

  (* the entries in the order the sweep meets them: `order` first (restricted to registered
     objects, first occurrences), then whatever `order` does not mention *)
  Definition arrange (order : list id) (s : st) : list id :=
    let o1 := filter (in_reg s) (nodup Nat.eq_dec order) in
    o1 ++ filter (fun x => negb (existsb (Nat.eqb x) o1)) (map fst (reg s)).

  (* finaliser loop of GC_Sweep: for (i < freenum) if (freelist[i]) dealloc(destruct(freelist[i])) *)
  Fixpoint sweep_loop (fin : st -> id -> st) (k i : nat) (s : st) : st :=
    match k with
    | O => s
    | S k' =>
      let s' :=
        match nth i (pend s) None with
        | None => s
        | Some o =>
          let s0 := if sweep_fix then set_pend (null_pend o (pend s)) s else s in
          fin s0 o
        end in
      sweep_loop fin k' (S i) s'
    end.

  (* GC_Sweep with the marks left by the mark phase.  There is ONE pending list: a sweep started
     from inside another one (pinned GC_Set, D22) overwrites it and leaves it empty. *)
  Definition sweep (fin : st -> id -> st) (order marks : list id) (s : st) : st :=
    let dead := filter (fun o => negb (is_root s o) && negb (existsb (Nat.eqb o) marks)) (arrange order s) in
    let r' := filter (fun e => negb (existsb (Nat.eqb (fst e)) dead)) (reg s) in
    let s1 := set_mitems (mrule (length r')) (set_pend (map Some dead) (set_reg r' s)) in
    let s2 := sweep_loop fin (length dead) 0 s1 in
    set_pend [] s2.

  (* gc->freelist isnt NULL: a sweep is running (allocations only happen inside one from its
     finaliser loop, where the pending list is non-empty) *)
  Definition in_sweep (s : st) : bool := match pend s with [] => false | _ => true end.

  (* new(T) inside a destructor: alloc + GC_Set of a managed plain object c.  The collection it
     may trigger takes its slot order and marks from the queue `obsq`. *)
  Definition alloc_child (fin : st -> id -> st) (s : st) (c : id) : st :=
    match info s c with
    | Some _ => set_bad s                             (* identity already in use *)
    | None =>
      let s1 := add_obj c KManaged false s in
      if negb (running s1) then s1 else               (* GC_Set: if (not gc->running) return; *)
      let s2 := set_reg ((c, false) :: reg s1) s1 in
      if defer_fix && in_sweep s2 then s2             (* repaired: if (gc->freelist isnt NULL) return; *)
      else if mitems s2 <? nitems s2
           then let om := hd ([], []) (obsq s2) in
                sweep fin (fst om) (c :: snd om) (set_obsq (tl (obsq s2)) s2)
           else s2
    end.

  (* dealloc(destruct(o)): destructor (ledger; its own stop/start window, if any; allocations it makes;
     a Box dels what it owns, then clears its pointer), then the memory is released. *)
  Fixpoint finalise (fuel : nat) (s : st) (o : id) : st :=
    match fuel with
    | O => set_oof s
    | S f =>
      let s1 := pro (add_log (LFin o) s) o in
      let s1a := fold_left (alloc_child (finalise f)) (spawns s1 o) s1 in
      let s2 :=
        match owned s1a o with
        | None => s1a
        | Some p =>
          let s' := gc_rem (finalise f) s1a p in
          set_owned (upd_owned (owned s') o None) s'
        end in
      add_log (LFree o) s2
    end.

  (* every nested destructor call is on an object whose destructor has not run yet; allocations
     made by a destructor are paid for by the object that makes them *)
  Definition phi (s : st) : nat :=
    list_sum (map (fun x => if fin_started s x then 0 else S (length (spawns s x))) (ids s)).
  Definition fuel_of (s : st) : nat := S (phi s).
  Definition fin_top (s : st) (o : id) : st := finalise (fuel_of s) s o.

  Definition live (s : st) (o : id) : bool :=
    match info s o with Some _ => negb (fin_started s o) | None => false end.
  Definition kind_of (s : st) (o : id) : option kind := option_map fst (info s o).
  Definition is_box (s : st) (o : id) : bool := match info s o with Some (_, b) => b | None => false end.
  Definition has_owner (s : st) (o : id) (except : id) : bool :=
    existsb (fun b => negb (b =? except) && live s b && opt_is o (owned s b)) (ids s).

  (* a Box that is still to be finalised points at released memory: its destructor would
     `del` a dangling pointer (use after delete) *)
  Definition dangling (s : st) : bool :=
    existsb (fun b => live s b && match owned s b with Some p => freed s p | None => false end) (ids s).

  Definition step1 (s : st) (e : ev) : st :=
    match e with
    | ENew k isbox o order marks =>
      match info s o with
      | Some _ => set_bad s
      | None =>
        let s1 := add_obj o k isbox s in
        match k with
        | KRaw => s1
        | _ =>
          (* GC_Set *)
          if negb (running s1) then s1 else
          let s2 := set_reg ((o, kind_eqb k KRoot) :: reg s1) s1 in
          if mitems s2 <? nitems s2 then sweep fin_top order (o :: marks) s2 else s2
        end
      end
    | ELink b None =>
      if live s b && is_box s b then set_owned (upd_owned (owned s) b None) s else set_bad s
    | ELink b (Some o) =>
      if live s b && is_box s b && live s o
         && negb (match kind_of s o with Some KRaw => true | _ => false end)
         && negb (has_owner s o b)
      then set_owned (upd_owned (owned s) b (Some o)) s else set_bad s
    | EDel k o =>
      if live s o && (match kind_of s o with Some k' => kind_eqb k k' | None => false end)
      then match k with
           | KRaw => fin_top s o              (* dealloc(destruct(self)) *)
           | _ => gc_rem fin_top s o          (* rem(current(GC), self) *)
           end
      else set_bad s
    | ECollect order marks => sweep fin_top order marks s
    | EStop => set_running false s
    | EStart => set_running true s
    | ETeardown order => set_torn (set_reg [] (sweep fin_top order [] s))   (* GC_Del: GC_Sweep; free(entries) *)
    | ESpawn o cs =>
      if live s o then set_spawns (fun x => if x =? o then cs else spawns s x) s else set_bad s
    | EObs q => set_obsq q s
    end.

  Definition step (s : st) (e : ev) : st :=
    if torn s then set_bad s else
    let s' := step1 s e in
    if dangling s' then set_bad s' else s'.

  Definition run (h : list ev) : st := fold_left step h init.

  (* Program exit.  The `main` wrapper of Cello.h creates the collector and arranges its teardown:
       reg_atexit  — atexit(Cello_Exit) is registered before Cello_Main runs (every way of ending the
                     process that runs exit handlers tears the collector down);
       call_after  — Cello_Exit() is called after Cello_Main has returned (only that route).
     tools/genx_life.py reads both off the macro text.  Every route of the model ends the process
     through exit(): returning from main, exit() from a nested call, exit() inside a with/try block,
     an uncaught throw (Exception_Error calls exit(EXIT_FAILURE)), exit with a non-zero status,
     exit after a worker thread has come and gone, and the same after a signal was turned into an
     exception (exception_signals). *)
  Definition returns (r : route) : bool :=
    match r with RReturn | RSigCaughtReturn => true | _ => false end.
  (* routes that end in Exception_Error (uncaught exception) *)
  Definition via_error (r : route) : bool :=
    match r with RThrow | RSigUncaught | RSigCaughtThrow => true | _ => false end.
  (* err_exit — Exception_Error ends in exit() on every path (no _Exit / abort / quick_exit / return
     before it): only then do the exit handlers, hence the teardown, run on those routes *)
  Definition terminate (reg_atexit call_after err_exit : bool) (r : route) (order : list id) (s : st) : st :=
    if via_error r && negb err_exit then s else
    let s1 := if call_after && returns r then step s (ETeardown order) else s in
    if reg_atexit then step s1 (ETeardown order) else s1.

  (* Hypotheses about stop windows (finding F2).  While the collector is stopped:
     alloc_ok  — no managed/root allocation (it would never be registered);
     stop_ok   — in addition no `del` reaches the collector: no del/del_root, and del_raw only
                 of objects that own nothing (a Box's destructor would issue a `del`). *)
  (* no object that is still to be finalised has a destructor that allocates *)
  Definition no_spawners (s : st) : bool :=
    forallb (fun x => match spawns s x with [] => true | _ => fin_started s x end) (ids s).
  Definition alloc_ok (s : st) (e : ev) : bool :=
    running s || match e with
                 | ENew KRaw _ _ _ _ => true
                 | ENew _ _ _ _ _ => false
                 | EDel KRaw o => match spawns s o with [] => true | _ => false end
                 | EDel _ _ => true                       (* GC_Rem returns at once *)
                 | ECollect _ _ | ETeardown _ => no_spawners s
                 | _ => true
                 end.
  Definition stop_ok (s : st) (e : ev) : bool :=
    running s || match e with
                 | ENew KRaw _ _ _ _ => true
                 | ENew _ _ _ _ _ => false
                 | EDel KRaw o => match owned s o, spawns s o with None, [] => true | _, _ => false end
                 | EDel _ _ => false
                 | ECollect _ _ | ETeardown _ => no_spawners s
                 | _ => true
                 end.
  Fixpoint all_from (c : st -> ev -> bool) (s : st) (h : list ev) : bool :=
    match h with
    | [] => true
    | e :: t => c s e && all_from c (step s e) t
    end.
  Definition no_alloc_in_stop_window (h : list ev) : bool := all_from alloc_ok init h.
  Definition no_alloc_or_del_in_stop_window (h : list ev) : bool := all_from stop_ok init h.

  (* does this event run GC_Sweep (the driver needs to know whether an observed order is consumed) *)
  Definition will_sweep (s : st) (e : ev) : bool :=
    if torn s then false else
    match e with
    | ENew k _ o _ _ =>
      match info s o, k with
      | Some _, _ => false
      | None, KRaw => false
      | None, _ => running s && (mitems s <? S (nitems s))
      end
    | ECollect _ _ => true
    | ETeardown _ => true
    | _ => false
    end.
End Machine.

(* ---------------------------------------------------------------------------------------
   Specification: what the property text demands, with no collector in it.
   `must` = objects that have to be finalised (exactly once) by now. *)
Record sp := mksp {
  s_info  : id -> option (kind * bool);
  s_ids   : list id;
  s_owned : id -> option id;
  s_must  : list id;
  s_bad   : bool;
  s_torn  : bool
}.

Definition sp_init : sp := mksp (fun _ => None) [] (fun _ => None) [] false false.

Definition s_in (l : list id) (o : id) : bool := existsb (Nat.eqb o) l.
Definition s_live (s : sp) (o : id) : bool :=
  match s_info s o with Some _ => negb (s_in (s_must s) o) | None => false end.

(* an explicit delete reaches, through owning Boxes, every object of the chain that is still
   to be finalised *)
Fixpoint chain (fuel : nat) (own : id -> option id) (must : list id) (alive : id -> bool) (o : id) : list id :=
  match fuel with
  | O => must
  | S f =>
    if s_in must o || negb (alive o) then must
    else match own o with
         | None => o :: must
         | Some p => chain f own (o :: must) alive p
         end
  end.

Definition sp_step (s : sp) (e : ev) : sp :=
  if s_torn s then mksp (s_info s) (s_ids s) (s_owned s) (s_must s) true true else
  let bad_ := mksp (s_info s) (s_ids s) (s_owned s) (s_must s) true (s_torn s) in
  match e with
  | ENew k isbox o _ _ =>
    match s_info s o with
    | Some _ => bad_
    | None => mksp (fun x => if x =? o then Some (k, isbox) else s_info s x) (o :: s_ids s)
                   (s_owned s) (s_must s) (s_bad s) (s_torn s)
    end
  | ELink b None =>
    if s_live s b && (match s_info s b with Some (_, true) => true | _ => false end)
    then mksp (s_info s) (s_ids s) (upd_owned (s_owned s) b None) (s_must s) (s_bad s) (s_torn s)
    else bad_
  | ELink b (Some o) =>
    if s_live s b && (match s_info s b with Some (_, true) => true | _ => false end) && s_live s o
       && negb (match s_info s o with Some (KRaw, _) => true | _ => false end)
    then mksp (s_info s) (s_ids s) (upd_owned (s_owned s) b (Some o)) (s_must s) (s_bad s) (s_torn s)
    else bad_
  | EDel k o =>
    if s_live s o && (match s_info s o with Some (k', _) => kind_eqb k k' | None => false end)
    then mksp (s_info s) (s_ids s) (s_owned s)
              (chain (S (length (s_ids s))) (s_owned s) (s_must s) (s_live s) o) (s_bad s) (s_torn s)
    else bad_
  | ECollect _ _ => s
  | EStop | EStart => s
  | ESpawn _ _ | EObs _ => s
  | ETeardown _ =>
    (* at the latest now: every managed object *)
    let managed := filter (fun o => match s_info s o with Some (KManaged, _) => negb (s_in (s_must s) o) | _ => false end) (s_ids s) in
    mksp (s_info s) (s_ids s) (s_owned s) (managed ++ s_must s) (s_bad s) true
  end.

Definition sp_run (h : list ev) : sp := fold_left sp_step h sp_init.

(* Roots the collector must leave alone: allocated with new_root, never handed to del/del_root/del_raw
   by the program and never made the property of a Box (whose destructor would delete them).  Only
   del_root may finalise them: no collection, no teardown (thread exit, program exit). *)
Definition keep_step (k : list id * list id) (e : ev) : list id * list id :=
  match e with
  | ENew KRoot _ o _ _ => (o :: fst k, snd k)
  | EDel _ o => (fst k, o :: snd k)
  | ELink _ (Some o) => (fst k, o :: snd k)
  | _ => k
  end.
Definition roots_kept (h : list ev) : list id :=
  let k := fold_left keep_step h ([], []) in
  filter (fun o => negb (s_in (snd k) o)) (fst k).
