(* Extraction of the life-cycle machine (C06) and its specification for the correspondence
   driver.  ExtrOcamlBasic only; numbers stay the extracted inductive types.  The two
   switches come from Generated.v, i.e. from the C text of the working tree. *)
From Coq Require Import List Arith NArith ZArith Extraction ExtrOcamlBasic.
From CelloV Require Import Generated Lifecycle.

Definition lc_init : st := init.
(* win = the objects whose destructor opens a stop/start window of its own (from the case text) *)
Definition lc_step (win : nat -> bool) : st -> ev -> st :=
  step gc_mitems_rule gc_rem_pending_finalises gc_sweep_nulls_first gc_set_defers_in_sweep (dwin win gc_start_stop_keep_pending).
Definition lc_will_sweep : st -> ev -> bool := will_sweep.
Definition lc_fin := fin_count.
Definition lc_free := free_count.
Definition lc_nitems := nitems.
Definition lc_sp_init : sp := sp_init.
Definition lc_sp_step : sp -> ev -> sp := sp_step.
Definition lc_rem_fix := gc_rem_pending_finalises.
Definition lc_sweep_fix := gc_sweep_nulls_first.
Definition lc_defer_fix := gc_set_defers_in_sweep.
Definition lc_shape := gc_life_shape.
Definition lc_rule : nat -> nat := gc_mitems_rule.
Definition lc_keep_step := keep_step.
Definition lc_s_in := s_in.
Definition lc_terminate (win : nat -> bool) : route -> list nat -> st -> st :=
  terminate gc_mitems_rule gc_rem_pending_finalises gc_sweep_nulls_first gc_set_defers_in_sweep (dwin win gc_start_stop_keep_pending) main_registers_atexit main_tears_down_after_return exception_error_exits.
Definition lc_main_atexit := main_registers_atexit.
Definition lc_main_after := main_tears_down_after_return.
Definition lc_err_exit := exception_error_exits.
Definition lc_start_keep := gc_start_stop_keep_pending.
(* ocaml/conv.ml.inc mentions the types positive, N and Z *)
Definition lc_z0 : Z := 0%Z.
Definition lc_n0 : N := 0%N.

Extraction Language OCaml.
Extraction "../ocaml/gen/Lifecycle.ml" lc_init lc_step lc_will_sweep lc_fin lc_free lc_nitems lc_sp_init lc_sp_step lc_rem_fix lc_sweep_fix lc_defer_fix lc_shape lc_rule lc_keep_step lc_s_in lc_terminate lc_main_atexit lc_main_after lc_err_exit lc_start_keep lc_z0 lc_n0.
