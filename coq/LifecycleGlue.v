(* LifecycleGlue.v — the abstract registry of the life-cycle machine (Lifecycle.v, property C06) is a
   sound abstraction of the concrete robin-hood registry of RegistryModel.v (property C17).

   Lifecycle.v keeps the registry as a duplicate-free list of (object, root flag) and takes the order
   in which a sweep meets the entries and the mark bits as INPUTS of every collection; its theorems
   quantify over all of them.  Here the two models are run side by side:

     abs_reg / abs_pend   abstraction of a C17 state: its entries in slot order with their root flags,
                          its pending list;
     Rel g s              the C17 state g and the life-cycle state s describe the same registry (same
                          registered set with the same root flags, the same pending list entry by
                          entry, same running flag, same mitems, same number of destructor calls per
                          object, same ownership for objects still to be finalised);
     glue_rem, glue_finalise, glue_compaction, glue_sweep, glue_register, …
                          every registry step of C17 (GC_Rem — also issued by a destructor while a
                          sweep is in progress —, dealloc(destruct), the compaction loop, the finaliser
                          loop, GC_Set's registration) is matched by the corresponding transition of
                          the life-cycle machine, the sweep with order := the order in which C17's
                          compaction loop hands the entries to the pending list and marks := C17's
                          mark bits;
     crun / glue_run      a history of C17 operations drives both machines; Rel holds throughout.

   Consequences (stated on C17's OWN event log, i.e. for the run whose registry is the concrete
   table): every address is finalised at most once, and after a final sweep with no marks
   (teardown) every registered non-root address has been finalised exactly once.

   Destructor behaviour: `d_owns d q` is [] or [t] (a Box owns one object), nothing is allocated by
   destructors (d_spawns d q = []); addresses are not reused.  What this leaves out is listed at the
   end of the file. *)
From Coq Require Import List Arith Bool NArith Lia PeanoNat Permutation.
From CelloV Require Import Generated RobinHood RobinHoodProofs.
From CelloV Require RegistryModel RegistryProofs.
From CelloV Require Import Lifecycle LifecycleProofs.
Import ListNotations.

Module RM := RegistryModel.
Module RP := RegistryProofs.

(* C17's model takes the collection threshold rule from the source (Generated.gc_reg_mitems_rule, used by
   RM.new_mitems); the life-cycle machine is instantiated with the same function, whatever it is — no
   lemma below looks inside it *)
Definition c17_rule (n : nat) : nat := gc_reg_mitems_rule n.
Notation finF := (finalise c17_rule true true true nopro).
Notation finT := (fin_top c17_rule true true true nopro).

Local Notation gentry := RM.gentry.
Local Notation gslot := (slot RM.gentry).
Local Notation Holds := (Holds RM.gentry).
Local Notation entries := (entries RM.gentry).
Local Notation occupied := (occupied RM.gentry).
Local Notation at_ := (at_ RM.gentry).

(* ------------------------------------------------------------------ 1. abstraction *)
Definition idn (p : N) : nat := N.to_nat p.

Lemma idn_inj p q : idn p = idn q -> p = q.
Proof. apply N2Nat.inj. Qed.

Lemma idn_of_nat x : idn (N.of_nat x) = x.
Proof. apply Nat2N.id. Qed.

Lemma idn_eqb p q : (idn p =? idn q) = N.eqb p q.
Proof.
  destruct (N.eqb_spec p q) as [->|Hne]; [apply Nat.eqb_refl|].
  apply Nat.eqb_neq. intros H. apply Hne, idn_inj, H.
Qed.

(* the registry of a C17 state as the life-cycle machine sees it: entries in slot order *)
Definition abs_entry (e : gentry) : nat * bool := (idn (RM.ptr e), RM.root e).
Definition abs_reg (g : RM.gc) : list (nat * bool) := map abs_entry (entries (RM.slots g)).
Definition abs_pend (pl : list (option N)) : list (option nat) := map (option_map idn) pl.
(* the mark bits as a set of objects *)
Definition abs_marks (l : list gslot) : list nat :=
  map (fun e => idn (RM.ptr e)) (filter RM.marked (entries l)).

Fixpoint cnt_fin (p : N) (l : list RM.event) : nat :=
  match l with
  | [] => 0
  | RM.EvFin q :: t => (if N.eqb q p then 1 else 0) + cnt_fin p t
  | _ :: t => cnt_fin p t
  end.

Lemma in_abs_reg g x r :
  In (x, r) (abs_reg g) <-> exists e, Holds (RM.slots g) e /\ idn (RM.ptr e) = x /\ RM.root e = r.
Proof.
  unfold abs_reg. rewrite in_map_iff. split.
  - intros [e [He Hin]]. inversion He; subst. exists e. split; [apply in_entries; exact Hin | auto].
  - intros [e [Hh [Hx Hr]]]. exists e. split; [unfold abs_entry; congruence | apply in_entries; exact Hh].
Qed.

Lemma in_abs_reg_Reg g p r : In (idn p, r) (abs_reg g) <-> RP.Regs (RM.slots g) p r.
Proof.
  rewrite in_abs_reg. unfold RP.Regs. split; intros [e [Hh [Hp Hr]]]; exists e; split; auto.
  - split; [apply idn_inj; exact Hp | exact Hr].
  - split; [congruence | exact Hr].
Qed.

(* pending lists *)
Lemma abs_pend_in_pend (pl : list (option N)) p :
  existsb (opt_is (idn p)) (abs_pend pl) = RM.is_pending p pl.
Proof.
  unfold abs_pend, RM.is_pending. induction pl as [|[q|] pl IH]; simpl; auto.
  rewrite IH. f_equal. rewrite <- idn_eqb. reflexivity.
Qed.

Lemma abs_pend_null (pl : list (option N)) p :
  null_pend (idn p) (abs_pend pl) = abs_pend (RM.null_out p pl).
Proof.
  unfold abs_pend, null_pend, RM.null_out. rewrite !map_map. apply map_ext.
  intros [q|]; simpl; [|reflexivity]. rewrite idn_eqb. destruct (N.eqb q p); reflexivity.
Qed.

Lemma abs_pend_nth (pl : list (option N)) k :
  nth k (abs_pend pl) None = option_map idn (nth k pl None).
Proof. unfold abs_pend. change None with (option_map idn None) at 1. apply map_nth. Qed.

Lemma abs_pend_length pl : length (abs_pend pl) = length pl.
Proof. apply map_length. Qed.


(* clearing slot k of a pending list *)
Fixpoint upd_none (k : nat) (l : list (option nat)) : list (option nat) :=
  match l, k with
  | [], _ => []
  | _ :: t, O => None :: t
  | x :: t, S k' => x :: upd_none k' t
  end.

Lemma abs_pend_upd k pl : abs_pend (RM.upd_opt k pl) = upd_none k (abs_pend pl).
Proof. revert k. induction pl as [|x pl IH]; intros [|k]; simpl; auto. rewrite IH. reflexivity. Qed.

Lemma null_pend_notin o l : ~ In o (somes l) -> null_pend o l = l.
Proof.
  unfold null_pend. induction l as [|[y|] l IH]; simpl; intros H; auto.
  - destruct (Nat.eqb_spec y o) as [->|Hne]; [exfalso; apply H; left; reflexivity|].
    rewrite IH; [reflexivity | intros Hin; apply H; right; exact Hin].
  - rewrite IH; [reflexivity | exact H].
Qed.

(* with no duplicates in the pending list, NULL-ing "every entry equal to o" is clearing the slot *)
Lemma null_pend_upd l : forall k o, NoDup (somes l) -> nth k l None = Some o -> null_pend o l = upd_none k l.
Proof.
  induction l as [|[y|] l IH]; intros [|k] o Hnd Hn; simpl in *; try discriminate.
  - inversion Hn; subst y. inversion Hnd; subst. rewrite Nat.eqb_refl.
    fold (null_pend o l). rewrite null_pend_notin; [reflexivity | assumption].
  - inversion Hnd; subst. destruct (Nat.eqb_spec y o) as [->|Hne].
    + exfalso. apply H1. eapply nth_in_somes. exact Hn.
    + fold (null_pend o l). rewrite (IH k o H2 Hn). reflexivity.
  - fold (null_pend o l). rewrite (IH k o Hnd Hn). reflexivity.
Qed.


(* small list facts for the compaction *)
Lemma filter_all {A} (f : A -> bool) l : (forall x, In x l -> f x = true) -> filter f l = l.
Proof. induction l as [|a l IH]; simpl; intros H; auto. rewrite (H a (or_introl eq_refl)), IH; auto. Qed.

Lemma filter_none {A} (f : A -> bool) l : (forall x, In x l -> f x = false) -> filter f l = [].
Proof. induction l as [|a l IH]; simpl; intros H; auto. rewrite (H a (or_introl eq_refl)), IH; auto. Qed.

Lemma filter_split_length {A} (f : A -> bool) l :
  length (filter f l) + length (filter (fun x => negb (f x)) l) = length l.
Proof. induction l as [|a l IH]; simpl; auto. destruct (f a); simpl; lia. Qed.

Lemma NoDup_map_on {A B} (f : A -> B) l :
  (forall x y, In x l -> In y l -> f x = f y -> x = y) -> NoDup l -> NoDup (map f l).
Proof.
  induction l as [|a l IH]; simpl; intros Hinj Hnd; [constructor|].
  inversion Hnd; subst. constructor.
  - intros Hin. apply in_map_iff in Hin. destruct Hin as [y [Hy Hiny]].
    assert (y = a) by (apply Hinj; auto). subst y. contradiction.
  - apply IH; auto.
Qed.

Lemma cnt_fin_reclaim p ps t : cnt_fin p (map RM.EvReclaim ps ++ t) = cnt_fin p t.
Proof. induction ps; simpl; auto. Qed.

Lemma somes_abs_pend_of (rm : list gentry) :
  somes (abs_pend (RP.pend_of rm)) = map (fun e => idn (RM.ptr e)) rm.
Proof. unfold abs_pend, RP.pend_of, somes. induction rm; simpl; auto. rewrite IHrm. reflexivity. Qed.

Lemma abs_pend_of (rm : list gentry) :
  abs_pend (RP.pend_of rm) = map Some (map (fun e => idn (RM.ptr e)) rm).
Proof. unfold abs_pend, RP.pend_of. rewrite !map_map. reflexivity. Qed.


(* when no destructor allocates, nothing is allocated behind the program's back (structural) *)
Definition NS (s : st) : Prop := forall x, spawns s x = [].
Definition Keep (s s' : st) : Prop := info s' = info s /\ spawns s' = spawns s /\ ids s' = ids s.

Lemma Keep_refl s : Keep s s. Proof. repeat split. Qed.
Lemma Keep_trans a b c : Keep a b -> Keep b c -> Keep a c.
Proof. intros [A1 [A2 A3]] [B1 [B2 B3]]. repeat split; congruence. Qed.
Lemma Keep_NS s s' : Keep s s' -> NS s -> NS s'.
Proof. intros [_ [H _]] N x. rewrite H. apply N. Qed.

Lemma keep_gc_rem r fin s p :
  (forall s o, NS s -> Keep s (fin s o)) -> NS s -> Keep s (gc_rem c17_rule r fin s p).
Proof.
  intros Hf N. unfold gc_rem. destruct (negb (running s)); [apply Keep_refl|].
  assert (Hm : forall t, Keep s t -> Keep s (set_mitems (c17_rule (nitems t)) t)) by (intros t K; exact K).
  apply Hm.
  destruct (in_pend s p).
  - destruct r.
    + apply (Keep_trans s (set_pend (null_pend p (pend s)) s)); [repeat split | apply Hf; exact N].
    + match goal with |- context [if ?c then _ else _] => destruct c end; [|repeat split].
      match goal with |- Keep s (fin ?t p) => apply (Keep_trans s t); [repeat split | apply Hf; exact N] end.
  - destruct (in_reg s p); [|apply Keep_refl].
    apply (Keep_trans s (set_reg (rem_reg p (reg s)) s)); [repeat split | apply Hf; exact N].
Qed.

Lemma keep_finalise r w dd f : forall s o, NS s -> Keep s (finalise c17_rule r w dd nopro f s o).
Proof.
  induction f as [|f IH]; intros s o N; cbn [finalise]; [repeat split|].
  change (spawns (add_log (LFin o) s) o) with (spawns s o). rewrite (N o). simpl fold_left.
  destruct (owned (add_log (LFin o) s) o) as [p|]; [|repeat split].
  assert (K : Keep s (gc_rem c17_rule r (finalise c17_rule r w dd nopro f) (add_log (LFin o) s) p)).
  { apply (Keep_trans s (add_log (LFin o) s)); [repeat split|]. apply keep_gc_rem; [exact IH | exact N]. }
  exact K.
Qed.

Lemma keep_sweep_loop w fin k : (forall s o, NS s -> Keep s (fin s o)) ->
  forall i s, NS s -> Keep s (sweep_loop w fin k i s).
Proof.
  intros Hf. induction k as [|k IH]; intros i s N; cbn [sweep_loop]; [apply Keep_refl|].
  destruct (nth i (pend s) None) as [o|]; [|apply IH; exact N].
  set (s0 := if w then set_pend (null_pend o (pend s)) s else s).
  assert (K0 : Keep s s0) by (unfold s0; destruct w; repeat split).
  assert (K1 : Keep s (fin s0 o)) by (apply (Keep_trans s s0); [exact K0 | apply Hf; apply (Keep_NS s); assumption]).
  apply (Keep_trans s (fin s0 o)); [exact K1|]. apply IH. apply (Keep_NS s); assumption.
Qed.

Lemma keep_sweep w fin order marks s : (forall s o, NS s -> Keep s (fin s o)) -> NS s -> Keep s (sweep c17_rule w fin order marks s).
Proof.
  intros Hf N. unfold sweep.
  match goal with |- Keep s (set_pend [] (sweep_loop w fin ?k 0 ?s1)) =>
    assert (K : Keep s (sweep_loop w fin k 0 s1)) by (apply (Keep_trans s s1); [repeat split | apply keep_sweep_loop; [exact Hf | exact N]]) end.
  exact K.
Qed.

Lemma keep_fin_top s o : NS s -> Keep s (fin_top c17_rule true true true nopro s o).
Proof. intros N. unfold fin_top. apply keep_finalise. exact N. Qed.


(* has this address ever been registered or finalised, according to C17's log *)
Definition ever (p : N) (l : list RM.event) : bool :=
  existsb (fun e => match e with
                    | RM.EvAlloc q _ | RM.EvSpawn q _ | RM.EvFin q => N.eqb q p
                    | _ => false end) l.

Lemma led_ever l q r : RM.led l q r -> ever q l = true.
Proof.
  induction l as [|e l IH]; simpl; [tauto|].
  destruct e; simpl; intros H.
  - destruct H as [[-> _]|H]; [rewrite N.eqb_refl; reflexivity | rewrite (IH H); apply orb_true_r].
  - apply IH. tauto.
  - apply IH. tauto.
  - rewrite (IH H). apply orb_true_r.
  - destruct H as [[-> _]|H]; [rewrite N.eqb_refl; reflexivity | rewrite (IH H); apply orb_true_r].
  - apply IH. exact H.
Qed.

(* C17's log only grows *)
Definition Mono (g g' : RM.gc) : Prop := forall p, ever p (RM.evs g) = true -> ever p (RM.evs g') = true.
Lemma Mono_refl g : Mono g g. Proof. intros p H; exact H. Qed.
Lemma Mono_trans a b c : Mono a b -> Mono b c -> Mono a c.
Proof. intros H1 H2 p H. apply H2, H1, H. Qed.
Lemma Mono_same g g' : RM.evs g' = RM.evs g -> Mono g g'.
Proof. intros He p H. rewrite He. exact H. Qed.
Lemma Mono_cons g g' e : RM.evs g' = e :: RM.evs g -> Mono g g'.
Proof. intros He p H. rewrite He. simpl. rewrite H. apply orb_true_r. Qed.
Lemma Mono_app g g' l : RM.evs g' = l ++ RM.evs g -> Mono g g'.
Proof. intros He p H. rewrite He. unfold ever. rewrite existsb_app. fold (ever p (RM.evs g)). rewrite H. apply orb_true_r. Qed.

Lemma ever_cnt_fin p l : ever p l = false -> cnt_fin p l = 0.
Proof.
  induction l as [|e l IH]; simpl; auto. intros H. apply orb_false_iff in H. destruct H as [H1 H2].
  destruct e; auto. rewrite H1. simpl. auto.
Qed.

(* ------------------------------------------------------------------ 2. the relation *)
Section Glue.
  Variable hashf : N -> N.
  Variable d : RP.dtors.
  (* a destructor deletes at most one object (a Box deletes what it owns) and allocates nothing *)
  Hypothesis boxlike : forall q, RP.d_owns d q = [] \/ exists t, RP.d_owns d q = [t].
  Hypothesis nospawn : forall q, RP.d_spawns d q = [].

  Definition own0 (x : nat) : option nat :=
    match RP.d_owns d (N.of_nat x) with [t] => Some (idn t) | _ => None end.

  Lemma own0_idn q : own0 (idn q) = match RP.d_owns d q with [t] => Some (idn t) | _ => None end.
  Proof. unfold own0, idn. rewrite N2Nat.id. reflexivity. Qed.

  (* the table part of C17's invariant (no ledger, no bounds) *)
  Record Tab (g : RM.gc) : Prop := {
    t_core : RP.Core hashf (RM.slots g);
    t_count : RM.nitems g = occupied (RM.slots g);
    t_room : RM.nslots g = 0 \/ RM.nitems g < RM.nslots g;
    t_clear : RP.Clear (RM.slots g);
    t_empty : RM.nslots g = 0 -> RM.pending g = []
  }.

  Record Rel (g : RM.gc) (s : st) : Prop := {
    rel_reg : forall x r, In (x, r) (reg s) <-> In (x, r) (abs_reg g);
    rel_pend : pend s = abs_pend (RM.pending g);
    rel_run : running s = RM.running g;
    rel_mit : mitems s = RM.mitems g;
    rel_fin : forall p, fin_count s (idn p) = cnt_fin p (RM.evs g);
    rel_own : forall x, fin_count s x = 0 -> owned s x = own0 x;
    rel_spawn : forall x, spawns s x = []
  }.

  Lemma Inv_Tab g : RP.Inv hashf g -> (RM.nslots g = 0 -> RM.pending g = []) -> Tab g.
  Proof.
    intros [H Hcl] He. constructor; auto; apply H.
  Qed.

  Lemma core_nodup_ids g : Tab g -> NoDup (map fst (abs_reg g)).
  Proof.
    intros T. destruct (t_core g T) as [_ [_ Huq]].
    pose proof (UQ_NoDup N gentry RM.ptr _ Huq) as Hnd.
    unfold abs_reg. rewrite map_map. simpl.
    change (fun x : gentry => idn (RM.ptr x)) with (fun x : gentry => idn (RM.ptr x)).
    rewrite <- (map_map RM.ptr idn). apply FinFun.Injective_map_NoDup; [|exact Hnd].
    intros a b. apply idn_inj.
  Qed.

  Lemma NoDup_map_fst {A B} (l : list (A * B)) : NoDup (map fst l) -> NoDup l.
  Proof.
    induction l as [|[a b] l IH]; simpl; intros H; [constructor|].
    inversion H; subst. constructor; [|apply IH; assumption].
    intros Hin. apply H2. apply in_map_iff. exists (a, b). auto.
  Qed.

  (* same registered set, no duplicates on either side: same count *)
  Lemma rel_len g s : Tab g -> Rel g s -> NoDup (regids s) -> length (reg s) = RM.nitems g.
  Proof.
    intros T R Hnd. rewrite (t_count g T). unfold RobinHood.occupied.
    change (length (reg s) = length (RobinHood.entries gentry (RM.slots g))).
    rewrite <- (map_length abs_entry (entries (RM.slots g))). fold (abs_reg g).
    apply Permutation_length. apply NoDup_Permutation.
    - apply NoDup_map_fst. exact Hnd.
    - apply NoDup_map_fst. apply core_nodup_ids. exact T.
    - intros [x r]. apply (rel_reg g s R).
  Qed.

  Lemma rel_in_reg g s p : Rel g s -> in_reg s (idn p) = true <-> exists r, RP.Regs (RM.slots g) p r.
  Proof.
    intros R. rewrite in_reg_spec. unfold regids. rewrite in_map_iff. split.
    - intros [[x r] [Hx Hin]]. simpl in Hx. subst x. exists r. apply in_abs_reg_Reg. apply (rel_reg g s R). exact Hin.
    - intros [r Hr]. exists (idn p, r). split; [reflexivity|]. apply (rel_reg g s R). apply in_abs_reg_Reg. exact Hr.
  Qed.

  Lemma rel_in_pend g s p : Rel g s -> in_pend s (idn p) = RM.is_pending p (RM.pending g).
  Proof. intros R. unfold in_pend. rewrite (rel_pend g s R). apply abs_pend_in_pend. Qed.
  (* ---------------------------------------------------------------- 3. GC_Rem and dealloc(destruct) *)
  Local Notation Crem := (RM.gc_rem hashf gc_swap gc_primes gc_load_num gc_load_den (RP.d_owns d) (RP.d_spawns d) true).
  Local Notation Cfinw := (RM.finalise_with hashf gc_swap gc_primes gc_load_num gc_load_den (RP.d_owns d) (RP.d_spawns d)).
  Local Notation Cless := (RM.resize_less hashf gc_swap gc_primes gc_load_num gc_load_den).

  (* with Box-like destructors, dealloc(destruct(q)) of C17 is: log, then at most one GC_Rem *)
  Lemma cfinw_eq rem g q :
    Cfinw rem g q = match RP.d_owns d q with
                    | [] => Some (RM.log g (RM.EvFin q))
                    | t :: _ => rem (RM.log g (RM.EvFin q)) t
                    end.
  Proof.
    unfold RM.finalise_with. rewrite nospawn. simpl.
    destruct (boxlike q) as [-> | [t ->]]; reflexivity.
  Qed.

  Lemma tab_fields g g' :
    RM.slots g' = RM.slots g -> RM.nitems g' = RM.nitems g ->
    (RM.pending g = [] -> RM.pending g' = []) -> Tab g -> Tab g'.
  Proof.
    intros Hs Hn Hp T. constructor; unfold RM.nslots in *; rewrite ?Hs, ?Hn; try apply T.
    intros Hz. apply Hp. apply (t_empty g T). exact Hz.
  Qed.

  Lemma rel_fields g g' s :
    (forall x, Holds (RM.slots g') x <-> Holds (RM.slots g) x) -> RM.pending g' = RM.pending g ->
    RM.running g' = RM.running g -> RM.mitems g' = RM.mitems g ->
    (forall p, cnt_fin p (RM.evs g') = cnt_fin p (RM.evs g)) -> Rel g s -> Rel g' s.
  Proof.
    intros Hh Hp Hr Hm He R. constructor; try apply R.
    - intros x r. rewrite (rel_reg g s R), !in_abs_reg. split; intros [e [H1 H2]]; exists e; split; auto; apply Hh; exact H1.
    - rewrite Hp. apply R.
    - rewrite Hr. apply R.
    - rewrite Hm. apply R.
    - intros p. rewrite He. apply R.
  Qed.

  Lemma tab_resize_less g : Tab g ->
    exists l', Cless g = Some (RM.set_slots g l') /\ Tab (RM.set_slots g l') /\
               (forall x, Holds l' x <-> Holds (RM.slots g) x).
  Proof.
    intros T. unfold RM.resize_less.
    (* whatever the shrink condition read off the source is (Generated.gc_shrink_wanted): both outcomes are handled *)
    cbv zeta. match goal with |- context [if ?c then _ else _] => destruct c end.
    - pose proof (RP.gc_ideal_gt (RM.nitems g)) as Hid.
      destruct (RP.g_rehash_ok hashf gc_swap RP.gc_swap_le RP.gc_swap_ge g
                  (RM.ideal gc_primes gc_load_num gc_load_den (RM.nitems g))) as [l' [Hr [Hc' [Hlen [Hh Ho]]]]].
      + apply T.
      + apply T.
      + rewrite <- (t_count g T). unfold RM.ideal. lia.
      + unfold RM.ideal. lia.
      + exists l'. split; [exact Hr|]. split; [|exact Hh].
        constructor; simpl.
        * exact Hc'.
        * rewrite Ho. apply T.
        * right. unfold RM.nslots. simpl. rewrite Hlen. exact Hid.
        * intros e He. apply (t_clear g T). apply Hh. exact He.
        * unfold RM.nslots. simpl. rewrite Hlen. unfold RM.ideal. lia.
    - exists (RM.slots g). destruct g; simpl. split; [reflexivity|]. split; [exact T | tauto].
  Qed.

  (* a finaliser of the life-cycle machine that is good (FinOK) and matches C17's
     dealloc(destruct(.)) whose nested removals have fuel f *)
  Definition FinSim (fin : st -> nat -> st) (n f : nat) : Prop :=
    FinOK fin n /\
    forall A g s q g', Tab g -> Rel g s -> GInv A s ->
      ~ In (idn q) (regids s) -> ~ In (idn q) (pids s) -> fin_count s (idn q) = 0 -> info s (idn q) <> None ->
      measure s < n ->
      Cfinw (Crem f) g q = Some g' -> Tab g' /\ Rel g' (fin s (idn q)) /\ Mono g g'.

  Lemma cnt_fin_log_other g e p : (forall q, e <> RM.EvFin q) -> cnt_fin p (RM.evs (RM.log g e)) = cnt_fin p (RM.evs g).
  Proof. intros H. simpl. destruct e; try reflexivity. exfalso. apply (H p0). reflexivity. Qed.

  (* the tail of GC_Rem: GC_Resize_Less and the mitems rule *)
  Lemma sim_rem_tail A g1 s1 g' :
    Tab g1 -> Rel g1 s1 -> GInv A s1 ->
    match Cless g1 with None => None | Some g2 => Some (RM.new_mitems g2) end = Some g' ->
    Tab g' /\ Rel g' (set_mitems (c17_rule (nitems s1)) s1) /\ Mono g1 g'.
  Proof.
    intros T R G H. destruct (tab_resize_less g1 T) as [l' [Hr [T2 Hh]]]. rewrite Hr in H.
    inversion H; subst g'. clear H. split; [|split; [|apply Mono_same; reflexivity]].
    - apply (tab_fields (RM.set_slots g1 l')); auto.
    - pose proof (rel_len g1 s1 T R (g_reg_nodup _ _ G)) as Hlen.
      assert (R2 : Rel (RM.set_slots g1 l') s1) by (apply (rel_fields g1); auto).
      constructor; try apply R2. simpl. unfold c17_rule, nitems. rewrite Hlen. reflexivity.
  Qed.

  Lemma sim_rem_step fin n f : FinSim fin n f -> forall A g s p g',
    Tab g -> Rel g s -> GInv A s -> measure s < n ->
    Crem (S f) g p = Some g' -> Tab g' /\ Rel g' (gc_rem c17_rule true fin s (idn p)) /\ Mono g g'.
  Proof.
    intros [HF HS] A g s p g' T R G Hm H.
    cbn [RM.gc_rem] in H.
    destruct (RM.running g) eqn:Hrun; simpl negb in H; cbv iota in H.
    2:{ inversion H; subst. unfold gc_rem. rewrite (rel_run g' s R), Hrun. simpl. split; [auto|]. split; [auto | apply Mono_refl]. }
    set (gl := RM.log g (RM.EvRem p)) in *.
    assert (Tl : Tab gl) by (apply (tab_fields g); auto).
    assert (Rl : Rel gl s).
    { apply (rel_fields g); try reflexivity; auto; intros x; tauto. }
    match type of H with match ?x with _ => _ end = _ => destruct x as [g1|] eqn:Hap; [|discriminate] end.
    cut (exists s1, Tab g1 /\ Rel g1 s1 /\ GInv A s1 /\ Mono gl g1 /\
           gc_rem c17_rule true fin s (idn p) = set_mitems (c17_rule (nitems s1)) s1).
    { intros [s1 [T1 [R1 [G1 [M1 Heq]]]]]. rewrite Heq.
      destruct (sim_rem_tail A g1 s1 g' T1 R1 G1 H) as (Ta & Ra & Ma).
      split; [exact Ta|]. split; [exact Ra|].
      apply (Mono_trans g gl); [apply (Mono_cons g gl (RM.EvRem p)); reflexivity|]. apply (Mono_trans gl g1); assumption. }
    unfold gc_rem. rewrite (rel_run g s R), Hrun. simpl negb. cbv iota.
    change (RM.nslots gl) with (RM.nslots g) in Hap. change (RM.pending gl) with (RM.pending g) in Hap.
    destruct (Nat.eqb_spec (RM.nslots g) 0) as [Hz|Hnz].
    - (* nothing was ever registered *)
      inversion Hap; subst g1. exists s. split; [exact Tl|]. split; [exact Rl|]. split; [exact G|]. split; [apply Mono_refl|].
      assert (Hpe : RM.pending g = []) by (apply (t_empty g T); exact Hz).
      assert (Hnr : in_reg s (idn p) = false).
      { destruct (in_reg s (idn p)) eqn:E; [|reflexivity]. apply (rel_in_reg g s p R) in E.
        destruct E as [r [e [[i [h Hat]] _]]]. pose proof (at_some_lt _ _ _ _ Hat). unfold RM.nslots in Hz. lia. }
      rewrite (rel_in_pend g s p R), Hpe, Hnr. reflexivity.
    - rewrite (rel_in_pend g s p R).
      set (g0 := RM.set_pending gl (RM.null_out p (RM.pending g))) in *.
      destruct (RM.is_pending p (RM.pending g)) eqn:Hhit; simpl andb in Hap; cbv iota in Hap.
      + (* found in the pending list of the running sweep: finalised from there *)
        assert (Hin : In (idn p) (pids s)) by (apply in_pend_spec; rewrite (rel_in_pend g s p R); exact Hhit).
        destruct (null_pend_ok c17_rule A s (idn p) G Hin) as (G1 & N1 & N2 & F0 & M1 & R1 & I1 & D1 & T1 & B1 & O1 & L1 & Rg1 & P1 & K1).
        set (s' := set_pend (null_pend (idn p) (pend s)) s) in *.
        assert (T0 : Tab g0).
        { apply (tab_fields gl); auto. intros Hpe. simpl in Hpe. simpl. change (RM.pending gl) with (RM.pending g) in Hpe. rewrite Hpe. reflexivity. }
        assert (R0 : Rel g0 s').
        { constructor; try apply Rl.
          - unfold s'. simpl. rewrite (rel_pend g s R). apply abs_pend_null. }
        assert (Hinf : info s' (idn p) <> None) by (rewrite I1; apply (g_info _ _ G); right; exact Hin).
        destruct (HS A g0 s' p g1 T0 R0 G1 N1 N2 F0 Hinf ltac:(unfold measure in *; lia) Hap) as (Tg1 & Rg1' & Mg1).
        destruct (HF A s' (idn p) G1 N1 N2 F0 Hinf ltac:(unfold measure in *; lia)) as (G2 & _).
        exists (fin s' (idn p)). split; [exact Tg1|]. split; [exact Rg1'|]. split; [exact G2|].
        split; [apply (Mono_trans gl g0); [apply Mono_same; reflexivity | exact Mg1] | reflexivity].
      + (* table lookup *)
        change (RM.slots g0) with (RM.slots g) in Hap. change (RM.nslots g0) with (RM.nslots g) in Hap.
        change (RM.nitems g0) with (RM.nitems g) in Hap.
        assert (T0 : Tab g0).
        { apply (tab_fields gl); auto. intros Hpe. simpl. change (RM.pending gl) with (RM.pending g) in Hpe. rewrite Hpe. reflexivity. }
        assert (Hnull : RM.null_out p (RM.pending g) = RM.pending g).
        { clear -Hhit. unfold RM.is_pending in Hhit. unfold RM.null_out.
          induction (RM.pending g) as [|[q|] pl IH]; simpl in *; auto.
          - apply orb_false_iff in Hhit. destruct Hhit as [H1 H2]. rewrite H1, (IH H2). reflexivity.
          - rewrite (IH Hhit). reflexivity. }
        assert (R0 : Rel g0 s).
        { apply (rel_fields gl); try reflexivity; auto; try (intros x; tauto). }
        destruct (find_spec N gentry N.eqb RM.ptr N.eqb_eq (fun q => RM.home hashf q (length (RM.slots g))) (RM.slots g) p (t_core g T))
          as [r [Hr Hres]].
        { apply RP.home_lt. unfold RM.nslots in Hnz. lia. }
        unfold RM.rh_find, RM.nslots in Hap. rewrite Hr in Hap. destruct r as [i|].
        * destruct Hres as [e [Hat Hpe]].
          assert (Hocc : occupied (RM.slots g) < length (RM.slots g)).
          { pose proof (t_room g T) as Hroom. pose proof (t_count g T). unfold RM.nslots in *. lia. }
          destruct (delete_at_spec N gentry RM.ptr _ (RM.slots g) i _ e (t_core g T) Hat Hocc)
            as [l1 [Hd [Hc1 [Hlen1 [Hh1 Ho1]]]]].
          unfold RM.rh_delete in Hap. rewrite Hd in Hap.
          set (gd := RM.set_nitems (RM.set_slots g0 l1) (pred (RM.nitems g))) in *.
          assert (Hreg : In (idn p) (regids s)).
          { apply in_reg_spec. apply (rel_in_reg g s p R). exists (RM.root e), e. split; [exists i, (RM.home hashf p (length (RM.slots g))); exact Hat | auto]. }
          assert (Hir : in_reg s (idn p) = true) by (apply in_reg_spec; exact Hreg).
          rewrite Hir.
          destruct (rem_reg_ok c17_rule A s (idn p) G Hreg) as (G1 & N1 & N2 & F0 & M1 & R1 & I1 & D1 & T1 & B1 & O1 & L1 & Pd1 & Rg1 & K1).
          set (s' := set_reg (rem_reg (idn p) (reg s)) s) in *.
          assert (Td : Tab gd).
          { constructor; simpl.
            - unfold RP.Core. rewrite Hlen1. exact Hc1.
            - pose proof (t_count g T). lia.
            - unfold RM.nslots. simpl. rewrite Hlen1. pose proof (t_count g T). right. lia.
            - intros x Hx. apply (t_clear g T). apply Hh1 in Hx. tauto.
            - unfold RM.nslots. simpl. rewrite Hlen1. intros Hz. unfold RM.nslots in Hnz. contradiction. }
          assert (Rd : Rel gd s').
          { constructor; try apply R0.
            - intros x r. unfold s'. simpl reg. unfold rem_reg. rewrite filter_In. simpl fst.
              rewrite (rel_reg g s R), !in_abs_reg. split.
              + intros [[x0 [Hx0 [Hi0 Hr0]]] Hne]. exists x0. split; [|auto]. apply Hh1. split; [exact Hx0|].
                rewrite Hpe. intros Hp'. apply negb_true_iff, Nat.eqb_neq in Hne. apply Hne. rewrite <- Hi0, Hp'. reflexivity.
              + intros [x0 [Hx0 [Hi0 Hr0]]]. apply Hh1 in Hx0. destruct Hx0 as [Hx0 Hne]. split; [exists x0; auto|].
                apply negb_true_iff, Nat.eqb_neq. rewrite <- Hi0. intros Hp'. apply Hne. rewrite Hpe. apply idn_inj. exact Hp'. }
          assert (Hinf : info s' (idn p) <> None) by (rewrite I1; apply (g_info _ _ G); left; exact Hreg).
          destruct (HS A gd s' p g1 Td Rd G1 N1 N2 F0 Hinf ltac:(unfold measure in *; lia) Hap) as (Tg1 & Rg1' & Mg1).
          destruct (HF A s' (idn p) G1 N1 N2 F0 Hinf ltac:(unfold measure in *; lia)) as (G2 & _).
          exists (fin s' (idn p)). split; [exact Tg1|]. split; [exact Rg1'|]. split; [exact G2|].
          split; [apply (Mono_trans gl gd); [apply Mono_same; reflexivity | exact Mg1] | reflexivity].
        * inversion Hap; subst g1.
          assert (Hir : in_reg s (idn p) = false).
          { destruct (in_reg s (idn p)) eqn:E; [|reflexivity]. apply (rel_in_reg g s p R) in E.
            destruct E as [r [e [[i [h Hat]] [Hp' _]]]]. exfalso. apply (Hres i h e Hat). exact Hp'. }
          rewrite Hir. exists s. split; [exact T0|]. split; [exact R0|]. split; [exact G|]. split; [apply Mono_same; reflexivity | reflexivity].
  Qed.

  Lemma cnt_fin_log_fin g q p : cnt_fin p (RM.evs (RM.log g (RM.EvFin q))) = (if N.eqb q p then 1 else 0) + cnt_fin p (RM.evs g).
  Proof. reflexivity. Qed.

  Lemma rel_add_fin g s q : Rel g s -> Rel (RM.log g (RM.EvFin q)) (add_log (LFin (idn q)) s).
  Proof.
    intros R. constructor.
    - apply R. - apply R. - apply R. - apply R.
    - intros p. rewrite fin_add_fin, idn_eqb, N.eqb_sym, cnt_fin_log_fin, (rel_fin g s R p). reflexivity.
    - intros x Hx. rewrite fin_add_fin in Hx. change (owned (add_log (LFin (idn q)) s) x) with (owned s x).
      apply (rel_own g s R x). lia.
    - apply R.
  Qed.

  Lemma rel_add_free g s x : Rel g s -> Rel g (add_log (LFree x) s).
  Proof.
    intros R. constructor.
    - apply R. - apply R. - apply R. - apply R.
    - intros p. rewrite fin_add_free. apply R.
    - intros y Hy. rewrite fin_add_free in Hy. apply (rel_own g s R y Hy).
    - apply R.
  Qed.

  Lemma rel_finish g s x : Rel g s -> 0 < fin_count s x ->
    Rel g (add_log (LFree x) (set_owned (upd_owned (owned s) x None) s)).
  Proof.
    intros R Hpos. apply rel_add_free. constructor.
    - apply R. - apply R. - apply R. - apply R. - apply R.
    - intros y Hy. change (fin_count s y = 0) in Hy. cbn [owned set_owned]. unfold upd_owned.
      destruct (Nat.eqb_spec y x) as [->|Hne]; [lia | apply (rel_own g s R y Hy)].
    - apply R.
  Qed.

  (* dealloc(destruct(q)): the destructor of the life-cycle machine matches C17's, at every pair
     of fuels (C17's nesting fuel f, the life-cycle machine's fuel fm) *)
  Lemma sim_fin : forall f fm, FinSim (finF fm) fm f.
  Proof.
    induction f as [|f IH]; intros fm; (split; [apply (finalise_ok c17_rule)|]);
      intros A g s q g' T R G Hr Hp Hf Hinfo Hm H; (destruct fm as [|fm']; [lia|]);
      rewrite cfinw_eq in H; cbn [finalise].
    all: destruct (add_fin_ok A s (idn q) G Hr Hp Hf Hinfo) as (G1 & E1 & M1).
    all: pose proof (rel_add_fin g s q R) as Rl.
    all: set (s1 := add_log (LFin (idn q)) s) in *.
    all: change (spawns s1 (idn q)) with (spawns s (idn q)); rewrite (rel_spawn g s R (idn q)) in *; simpl fold_left.
    all: change (owned s1 (idn q)) with (owned s (idn q)); rewrite (rel_own g s R (idn q) Hf), own0_idn.
    all: set (gl := RM.log g (RM.EvFin q)) in *.
    all: assert (Tl : Tab gl) by (apply (tab_fields g); auto).
    - (* C17 fuel 0: only a destructor that deletes nothing can succeed *)
      destruct (RP.d_owns d q) as [|t ts]; [|discriminate].
      inversion H; subst g'. split; [exact Tl |]. split; [apply rel_add_free; exact Rl | apply (Mono_cons g gl (RM.EvFin q)); reflexivity].
    - destruct (RP.d_owns d q) as [|t ts] eqn:Hown.
      + inversion H; subst g'. split; [exact Tl |]. split; [apply rel_add_free; exact Rl | apply (Mono_cons g gl (RM.EvFin q)); reflexivity].
      + assert (ts = []) by (destruct (boxlike q) as [Hb|[t' Hb]]; rewrite Hown in Hb; [discriminate | inversion Hb; reflexivity]).
        subst ts.
        assert (Hm1 : measure s1 < fm') by (simpl in M1; lia).
        destruct (sim_rem_step (finF fm') fm' f (IH fm') (idn q :: A) gl s1 t g' Tl Rl G1 Hm1 H) as (T2 & R2 & M2).
        split; [exact T2|]. split; [|apply (Mono_trans g gl); [apply (Mono_cons g gl (RM.EvFin q)); reflexivity | exact M2]].
        apply rel_finish; [exact R2|].
        destruct (LifecycleProofs.gc_rem_ok c17_rule _ _ (finalise_ok c17_rule fm') (idn q :: A) s1 (idn t) G1 Hm1) as (G2 & _).
        destruct (g_prog _ _ G2 (idn q) (or_introl eq_refl)). lia.
  Qed.

  (* the finaliser the events of the life-cycle machine use (fuel computed from the state) *)
  Lemma finsim_top n f : FinSim finT n f.
  Proof.
    split; [apply (fin_top_ok c17_rule)|].
    intros A g s q g' T R G Hr Hp Hf Hinfo _ H. unfold fin_top.
    destruct (sim_fin f (fuel_of s)) as [_ HS].
    apply (HS A g s q g' T R G Hr Hp Hf Hinfo); [unfold fuel_of, measure; lia | exact H].
  Qed.

  (* GC_Rem — del, del_root, and the `del` a destructor issues, also while a sweep is in progress
     (pending list not empty) — on the concrete table is GC_Rem of the life-cycle machine *)
  Theorem glue_rem : forall f A g s p g',
    Tab g -> Rel g s -> GInv A s ->
    Crem f g p = Some g' -> Tab g' /\ Rel g' (gc_rem c17_rule true finT s (idn p)) /\ Mono g g'.
  Proof.
    intros [|f] A g s p g' T R G H; [discriminate|].
    apply (sim_rem_step finT (S (measure s)) f (finsim_top _ f) A g s p g' T R G); [lia | exact H].
  Qed.

  (* dealloc(destruct(q)) of an object that is neither registered nor pending (del_raw) *)
  Theorem glue_finalise : forall f A g s q g',
    Tab g -> Rel g s -> GInv A s ->
    ~ In (idn q) (regids s) -> ~ In (idn q) (pids s) -> fin_count s (idn q) = 0 -> info s (idn q) <> None ->
    Cfinw (Crem f) g q = Some g' -> Tab g' /\ Rel g' (finT s (idn q)) /\ Mono g g'.
  Proof.
    intros f A g s q g' T R G Hr Hp Hf Hi H.
    destruct (finsim_top (S (measure s)) f) as [_ HS].
    apply (HS A g s q g' T R G Hr Hp Hf Hi); [lia | exact H].
  Qed.

  (* ---------------------------------------------------------------- 4. the sweep *)
  Local Notation Cfinloop := (RM.fin_loop hashf gc_swap gc_primes gc_load_num gc_load_den (RP.d_owns d) (RP.d_spawns d) true true).

  (* the finaliser loop of GC_Sweep, destructor-issued removals included *)
  Lemma sim_fin_loop fin n f : FinSim fin n f -> forall c k A g s g',
    Tab g -> Rel g s -> GInv A s -> measure s < n ->
    Cfinloop c k f g = Some g' -> Tab g' /\ Rel g' (sweep_loop true fin c k s) /\ Mono g g'.
  Proof.
    intros [HF HS]. induction c as [|c IH]; intros k A g s g' T R G Hm H; cbn [RM.fin_loop sweep_loop] in *.
    - inversion H; subst. split; [auto|]. split; [auto | apply Mono_refl].
    - rewrite (rel_pend g s R), abs_pend_nth.
      destruct (nth k (RM.pending g) None) as [q|] eqn:Hn; simpl option_map; cbv iota.
      + assert (Hn' : nth k (pend s) None = Some (idn q)) by (rewrite (rel_pend g s R), abs_pend_nth, Hn; reflexivity).
        assert (Hin : In (idn q) (pids s)) by (eapply nth_in_somes; exact Hn').
        destruct (null_pend_ok c17_rule A s (idn q) G Hin) as (G1 & N1 & N2 & F0 & M1 & R1 & I1 & D1 & T1 & B1 & O1 & L1 & Rg1 & P1 & K1).
        rewrite <- (rel_pend g s R).
        set (s0 := set_pend (null_pend (idn q) (pend s)) s) in *.
        set (g1 := RM.set_pending g (RM.upd_opt k (RM.pending g))) in *.
        assert (T1' : Tab g1).
        { apply (tab_fields g); auto. intros Hpe. rewrite Hpe in Hn. destruct k; discriminate. }
        assert (R1' : Rel g1 s0).
        { constructor; try apply R. unfold s0, g1. simpl.
          rewrite (null_pend_upd (pend s) k (idn q) (g_pend_nodup _ _ G) Hn'), (rel_pend g s R). symmetry. apply abs_pend_upd. }
        assert (Hinf : info s0 (idn q) <> None) by (rewrite I1; apply (g_info _ _ G); right; exact Hin).
        unfold RM.finalise in H.
        destruct (Cfinw (Crem f) g1 q) as [g2|] eqn:Hfin; [|discriminate].
        destruct (HS A g1 s0 q g2 T1' R1' G1 N1 N2 F0 Hinf ltac:(unfold measure in *; lia) Hfin) as (T2 & R2 & Mo2).
        destruct (HF A s0 (idn q) G1 N1 N2 F0 Hinf ltac:(unfold measure in *; lia)) as (G2 & _ & _ & _ & M2).
        destruct (IH (S k) A g2 (fin s0 (idn q)) g' T2 R2 G2 ltac:(unfold measure in *; lia) H) as (T3 & R3 & Mo3).
        split; [exact T3|]. split; [exact R3|].
        apply (Mono_trans g g1); [apply Mono_same; reflexivity|]. apply (Mono_trans g1 g2); assumption.
      + apply (IH (S k) A g s g' T R G Hm H).
  Qed.

  Local Notation Csweep := (RM.gc_sweep hashf gc_swap gc_primes gc_load_num gc_load_den (RP.d_owns d) (RP.d_spawns d) true true).

  (* the order in which C17's compaction loop hands the reclaimed entries to the pending list, and
     the mark bits of the table, as inputs of the life-cycle machine's sweep *)
  Definition c_order (g : RM.gc) : list nat :=
    match RM.sweep_loop (RM.nslots g + occupied (RM.slots g) + 1) (RM.slots g) 0 (RM.nitems g) [] (RM.evs g) with
    | Some (_, _, pl, _) => somes (abs_pend pl)
    | None => []
    end.
  Definition c_marks (g : RM.gc) : list nat := abs_marks (RM.slots g).

  (* the table part of the invariant between GC_Mark and the end of the compaction loop *)
  Record TabM (g : RM.gc) : Prop := {
    tm_core : RP.Core hashf (RM.slots g);
    tm_count : RM.nitems g = occupied (RM.slots g);
    tm_room : RM.nslots g = 0 \/ RM.nitems g < RM.nslots g
  }.

  Lemma rel_unique_entry g e1 e2 : RP.Core hashf (RM.slots g) ->
    Holds (RM.slots g) e1 -> Holds (RM.slots g) e2 -> idn (RM.ptr e1) = idn (RM.ptr e2) -> e1 = e2.
  Proof. intros Hc H1 H2 Hp. apply (RP.Core_UQ_same hashf _ _ _ Hc H1 H2). apply idn_inj. exact Hp. Qed.

  (* GC_Sweep on the concrete table = the sweep of the life-cycle machine with
     order := c_order g, marks := c_marks g *)
  Theorem glue_sweep : forall A g s g',
    TabM g -> RM.pending g = [] -> Rel g s -> GInv A s ->
    Csweep g = Some g' ->
    Tab g' /\ Rel g' (sweep c17_rule true finT (c_order g) (c_marks g) s) /\ RM.pending g' = [] /\ Mono g g'.
  Proof.
    intros A g s g' TM Hq R G H.
    pose proof (tm_core g TM) as Hc.
    assert (Hroom : length (RM.slots g) = 0 \/ occupied (RM.slots g) < length (RM.slots g)).
    { destruct (tm_room g TM) as [Hz|Hlt]; [left; exact Hz | right; rewrite <- (tm_count g TM); exact Hlt]. }
    destruct (RP.sweep_loop_exact_thm hashf (RM.slots g) (RM.nitems g) [] (RM.evs g) Hc Hroom)
      as [l' [rm [Hsl [Hc' [Hlen' [Hh' [Hrm Hocc]]]]]]].
    unfold RM.gc_sweep in H. unfold c_order. unfold RM.nslots in H |- *. rewrite Hsl in H |- *. simpl app in H |- *.
    set (order := map (fun e => idn (RM.ptr e)) rm).
    rewrite somes_abs_pend_of. fold order.
    set (marks := c_marks g).
    assert (Hpe : pend s = []) by (rewrite (rel_pend g s R), Hq; reflexivity).
    (* the reclaimed entries are pairwise distinct *)
    set (E := entries (RM.slots g)).
    assert (HndE : NoDup E).
    { destruct Hc as [_ [_ Huq]]. apply (NoDup_map_inv RM.ptr). apply (UQ_NoDup N gentry RM.ptr _ Huq). }
    assert (Hnd_rm : NoDup rm).
    { apply NoDup_incl_NoDup with (l := filter (fun x => negb (RP.keeper x)) E).
      - apply NoDup_filter. exact HndE.
      - pose proof (filter_split_length RP.keeper E) as Hsp.
        assert (Hk : length (entries l') = length (filter RP.keeper E)).
        { apply Permutation_length. apply NoDup_Permutation.
          - destruct Hc' as [_ [_ Huq']]. apply (NoDup_map_inv RM.ptr). apply (UQ_NoDup N gentry RM.ptr _ Huq').
          - apply NoDup_filter. exact HndE.
          - intros x. rewrite in_entries, Hh', filter_In. unfold E. rewrite in_entries. tauto. }
        unfold RobinHood.occupied in Hocc. fold E in Hocc. unfold E in Hsp. fold E in Hsp. lia.
      - intros x Hx. apply filter_In in Hx. destruct Hx as [Hx Hk]. apply Hrm. unfold E in Hx. rewrite in_entries in Hx.
        split; [exact Hx | apply negb_true_iff; exact Hk]. }
    assert (Hnd_order : NoDup order).
    { apply NoDup_map_on; [|exact Hnd_rm]. intros x y Hx Hy Hp.
      apply (rel_unique_entry g x y Hc); [apply Hrm; exact Hx | apply Hrm; exact Hy | exact Hp]. }
    (* registered objects and table entries *)
    assert (Hreg_of : forall y, In y (regids s) -> exists e, Holds (RM.slots g) e /\ idn (RM.ptr e) = y /\ In (y, RM.root e) (reg s)).
    { intros y Hy. unfold regids in Hy. apply in_map_iff in Hy. destruct Hy as [[y' r] [Hy Hin]]. simpl in Hy. subst y'.
      pose proof Hin as Hin'. apply (rel_reg g s R) in Hin. apply in_abs_reg in Hin. destruct Hin as [e [He [Hpe' Hre]]].
      exists e. split; [exact He|]. split; [exact Hpe'|]. rewrite Hre. exact Hin'. }
    assert (Hin_reg : forall x, Holds (RM.slots g) x -> In (idn (RM.ptr x), RM.root x) (reg s)).
    { intros x Hx. apply (rel_reg g s R). apply in_abs_reg. exists x. auto. }
    assert (Hroot_f : forall x, Holds (RM.slots g) x -> is_root s (idn (RM.ptr x)) = RM.root x).
    { intros x Hx. destruct (RM.root x) eqn:Hr.
      - unfold is_root. apply existsb_exists. exists (idn (RM.ptr x), true). split; [rewrite <- Hr; apply Hin_reg; exact Hx|].
        simpl. rewrite Nat.eqb_refl. reflexivity.
      - unfold is_root. apply not_true_is_false. intros Hex. apply existsb_exists in Hex.
        destruct Hex as [[y r] [Hin Hb]]. simpl in Hb. apply andb_true_iff in Hb. destruct Hb as [Hy Hr'].
        apply Nat.eqb_eq in Hy. subst y r.
        apply (rel_reg g s R) in Hin. apply in_abs_reg in Hin. destruct Hin as [e [He [Hp Hre]]].
        assert (e = x) by (apply (rel_unique_entry g e x Hc He Hx Hp)). subst e. congruence. }
    assert (Hmark_f : forall x, Holds (RM.slots g) x -> (existsb (Nat.eqb (idn (RM.ptr x))) marks = RM.marked x)).
    { intros x Hx. destruct (RM.marked x) eqn:Hm.
      - apply existsb_eqb_in. unfold marks, c_marks, abs_marks. apply in_map_iff. exists x. split; [reflexivity|].
        apply filter_In. split; [apply in_entries; exact Hx | exact Hm].
      - apply not_true_is_false. intros Hex. apply existsb_eqb_in in Hex. unfold marks, c_marks, abs_marks in Hex.
        apply in_map_iff in Hex. destruct Hex as [e [Hp He]]. apply filter_In in He. destruct He as [He Hme].
        apply in_entries in He. assert (e = x) by (apply (rel_unique_entry g e x Hc He Hx Hp)). subst e. congruence. }
    (* the pending list of the life-cycle machine is the concrete one *)
    assert (Hdead : dead_of order marks s = order).
    { unfold dead_of, arrange. rewrite (nodup_fixed_point Nat.eq_dec Hnd_order).
      assert (Ho1 : filter (in_reg s) order = order).
      { apply filter_all. intros y Hy. unfold order in Hy. apply in_map_iff in Hy. destruct Hy as [x [<- Hx]].
        apply Hrm in Hx. destruct Hx as [Hx _]. apply in_reg_spec. unfold regids. apply in_map_iff.
        exists (idn (RM.ptr x), RM.root x). split; [reflexivity | apply Hin_reg; exact Hx]. }
      rewrite Ho1, filter_app.
      rewrite filter_all, filter_none; [apply app_nil_r | |].
      - intros y Hy. apply filter_In in Hy. destruct Hy as [Hy Hno]. fold (regids s) in Hy.
        destruct (Hreg_of y Hy) as [e [He [Hpe' _]]]. subst y.
        rewrite (Hroot_f e He), (Hmark_f e He).
        assert (Hk : RP.keeper e = true).
        { destruct (RP.keeper e) eqn:Hk; [reflexivity|]. exfalso.
          assert (Hin : In e rm) by (apply Hrm; auto).
          apply negb_true_iff in Hno. apply not_true_iff_false in Hno. apply Hno. apply existsb_eqb_in.
          unfold order. apply in_map_iff. exists e. auto. }
        unfold RP.keeper in Hk. destruct (RM.marked e), (RM.root e); simpl in *; try reflexivity; discriminate.
      - intros y Hy. unfold order in Hy. apply in_map_iff in Hy. destruct Hy as [x [<- Hx]].
        apply Hrm in Hx. destruct Hx as [Hx Hk]. rewrite (Hroot_f x Hx), (Hmark_f x Hx).
        unfold RP.keeper in Hk. apply orb_false_iff in Hk. destruct Hk as [-> ->]. reflexivity. }
    unfold sweep. fold (dead_of order marks s). rewrite Hdead.
    set (r' := filter (fun e => negb (existsb (Nat.eqb (fst e)) order)) (reg s)).
    set (g1 := RM.mkGC (RM.clear_marks l') (RM.nitems g - length rm) (RM.mitems g) (RM.minptr g) (RM.maxptr g) (RM.running g) (RP.pend_of rm) (RP.reclaim_evs rm ++ RM.evs g)) in *.
    set (s1 := set_pend (map Some order) (set_reg r' s)).
    (* the state after the compaction *)
    assert (T1 : Tab g1).
    { pose proof (RP.PW_clear_marks l') as Hpw. constructor; simpl.
      - apply (RP.Core_PW hashf l'); assumption.
      - rewrite (RP.PW_occupied _ _ Hpw). pose proof (tm_count g TM). lia.
      - unfold RM.nslots. simpl. rewrite (RP.PW_length _ _ Hpw), Hlen'.
        destruct Hroom as [Hz|Hlt]; [left; exact Hz | right]. pose proof (tm_count g TM). lia.
      - apply RP.Clear_clear_marks.
      - unfold RM.nslots. simpl. rewrite (RP.PW_length _ _ Hpw), Hlen'. intros Hz.
        destruct rm as [|x rm']; [reflexivity|]. exfalso.
        assert (Hx : Holds (RM.slots g) x) by (apply Hrm; left; reflexivity).
        destruct Hx as [i [h Hat]]. pose proof (at_some_lt _ _ _ _ Hat). lia. }
    assert (Hholds1 : forall x, Holds (RM.slots g1) x <-> exists e, Holds (RM.slots g) e /\ RP.keeper e = true /\ x = RM.unmark e).
    { intros x. simpl. rewrite RP.clear_marks_smap, RP.Holds_smap. split.
      - intros [e [He Hx]]. apply Hh' in He. exists e. tauto.
      - intros [e [He [Hk Hx]]]. exists e. split; [apply Hh'; auto | exact Hx]. }
    assert (R1 : Rel g1 s1).
    { constructor; try apply R.
      - intros x r. unfold s1, r'. simpl reg. rewrite filter_In. simpl fst. rewrite (rel_reg g s R), !in_abs_reg. split.
        + intros [[e [He [Hpe' Hre]]] Hno]. exists (RM.unmark e). split; [|simpl; auto].
          apply Hholds1. exists e. split; [exact He|]. split; [|reflexivity].
          destruct (RP.keeper e) eqn:Hk; [reflexivity|]. exfalso.
          apply negb_true_iff, not_true_iff_false in Hno. apply Hno. apply existsb_eqb_in. unfold order.
          apply in_map_iff. exists e. split; [exact Hpe' | apply Hrm; auto].
        + intros [x0 [Hx0 [Hpe' Hre]]]. apply Hholds1 in Hx0. destruct Hx0 as [e [He [Hk ->]]]. simpl in Hpe', Hre.
          split; [exists e; auto|]. apply negb_true_iff, not_true_iff_false. intros Hin. apply existsb_eqb_in in Hin.
          unfold order in Hin. apply in_map_iff in Hin. destruct Hin as [y [Hy Hyin]]. apply Hrm in Hyin. destruct Hyin as [Hyh Hyk].
          assert (y = e) by (apply (rel_unique_entry g y e Hc Hyh He); congruence). subst y. congruence.
      - unfold s1. simpl. symmetry. apply abs_pend_of.
      - intros p. unfold s1. change (fin_count (set_pend (map Some order) (set_reg r' s)) (idn p)) with (fin_count s (idn p)).
        rewrite (rel_fin g s R p). simpl. unfold RP.reclaim_evs. rewrite cnt_fin_reclaim. reflexivity. }
    assert (G1 : GInv A s1).
    { constructor.
      - unfold s1, r', regids. simpl. rewrite (map_fst_filter (fun x => negb (existsb (Nat.eqb x) order))). apply NoDup_filter, G.
      - unfold s1, pids. simpl. rewrite somes_map_Some. exact Hnd_order.
      - intros x Hx. unfold s1, pids. simpl. rewrite somes_map_Some. unfold s1, r', regids in Hx. simpl in Hx.
        rewrite (map_fst_filter (fun x => negb (existsb (Nat.eqb x) order))), filter_In in Hx. destruct Hx as [_ Hx].
        intros Hin. apply existsb_eqb_in in Hin. rewrite Hin in Hx. discriminate.
      - intros x Hx. change (fin_count s1 x) with (fin_count s x). apply (g_fresh _ _ G). left.
        destruct Hx as [Hx|Hx].
        + unfold s1, r', regids in Hx. simpl in Hx. rewrite (map_fst_filter (fun x => negb (existsb (Nat.eqb x) order))), filter_In in Hx. tauto.
        + unfold s1, pids in Hx. simpl in Hx. rewrite somes_map_Some in Hx. unfold order in Hx. apply in_map_iff in Hx.
          destruct Hx as [e [<- He]]. apply Hrm in He. unfold regids. apply in_map_iff. exists (idn (RM.ptr e), RM.root e).
          split; [reflexivity | apply Hin_reg; tauto].
      - apply G.
      - apply G.
      - intros x Hx. change (info s1 x) with (info s x). apply (g_info _ _ G). left.
        destruct Hx as [Hx|Hx].
        + unfold s1, r', regids in Hx. simpl in Hx. rewrite (map_fst_filter (fun x => negb (existsb (Nat.eqb x) order))), filter_In in Hx. tauto.
        + unfold s1, pids in Hx. simpl in Hx. rewrite somes_map_Some in Hx. unfold order in Hx. apply in_map_iff in Hx.
          destruct Hx as [e [<- He]]. apply Hrm in He. unfold regids. apply in_map_iff. exists (idn (RM.ptr e), RM.root e).
          split; [reflexivity | apply Hin_reg; tauto].
      - apply G. - apply G. - apply G. - apply G. }
    (* GC_Resize_Less, mitems, finaliser loop *)
    destruct (tab_resize_less g1 T1) as [l2 [Hr2 [T2 Hh2]]]. rewrite Hr2 in H.
    set (g2 := RM.new_mitems (RM.set_slots g1 l2)) in *.
    assert (T2' : Tab g2) by (apply (tab_fields (RM.set_slots g1 l2)); auto).
    assert (R2 : Rel g2 (set_mitems (c17_rule (length r')) s1)).
    { assert (R2a : Rel (RM.set_slots g1 l2) s1) by (apply (rel_fields g1); auto).
      pose proof (rel_len (RM.set_slots g1 l2) s1 T2 R2a (g_reg_nodup _ _ G1)) as Hl.
      constructor; try apply R2a. simpl. unfold c17_rule. change (reg s1) with r' in Hl. rewrite Hl. reflexivity. }
    assert (G2 : GInv A (set_mitems (c17_rule (length r')) s1)) by (constructor; apply G1).
    destruct (Cfinloop (length (RP.pend_of rm)) 0 (RM.depth g) g2) as [g3|] eqn:Hfl; [|discriminate].
    inversion H; subst g'. clear H.
    assert (Hlp : length (RP.pend_of rm) = length order) by (unfold RP.pend_of, order; rewrite !map_length; reflexivity).
    rewrite Hlp in Hfl.
    set (s1m := set_mitems (c17_rule (length r')) s1) in *.
    destruct (sim_fin_loop finT (S (measure s1m)) (RM.depth g) (finsim_top _ _) (length order) 0 A g2 s1m g3 T2' R2 G2 ltac:(lia) Hfl)
      as (T3 & R3 & Mo3).
    split; [|split; [|split; [reflexivity|]]].
    - apply (tab_fields g3); auto.
    - constructor; try apply R3. reflexivity.
    - apply (Mono_trans g g1); [apply (Mono_app g g1 (RP.reclaim_evs rm)); reflexivity|].
      apply (Mono_trans g1 g2); [apply Mono_same; reflexivity|].
      apply (Mono_trans g2 g3); [exact Mo3 | apply Mono_same; reflexivity].
  Qed.

  (* ---------------------------------------------------------------- 5. histories *)
  Local Notation Cstep := (RP.Gstep hashf d true true).
  Local Notation Creg := (RM.gc_register hashf gc_swap gc_primes gc_load_num gc_load_den).
  Local Notation Ccollect := (RM.collect hashf gc_swap gc_primes gc_load_num gc_load_den (RP.d_owns d) (RP.d_spawns d) true true).

  (* mark phase on the concrete table, then the life-cycle machine's sweep with what it left *)
  Definition csweep_after_mark (g : RM.gc) (ws : list N) (s : st) : st :=
    match RM.gc_mark hashf g ws with
    | Some (Some gm) => sweep c17_rule true finT (c_order gm) (c_marks gm) s
    | _ => s
    end.

  (* the transitions of the life-cycle machine, driven by an operation of C17 issued in state g:
     the registry inputs (sweep order, marks) are read off the concrete table *)
  Definition cstep (g : RM.gc) (s : st) (o : RM.op) : st :=
    match o with
    | RM.OAlloc p r ws =>
      if negb (RM.running g) then s else
      let s1 := add_obj (idn p) (if r then KRoot else KManaged) false s in
      let s2 := set_reg ((idn p, r) :: reg s1) s1 in
      if mitems s2 <? nitems s2
      then csweep_after_mark (fst (Creg g p r (RM.EvAlloc p r))) ws s2
      else s2
    | RM.ORem p => gc_rem c17_rule true finT s (idn p)
    | RM.OFinRaw p => finT (add_obj (idn p) KRaw false s) (idn p)
    | RM.OCollect ws => csweep_after_mark g ws s
    | RM.OSweep => sweep c17_rule true finT (c_order g) (c_marks g) s
    | RM.OStop => set_running false s
    | RM.OStart => set_running true s
    | RM.OMem _ => s
    end.

  Fixpoint crun (ops : list RM.op) (g : RM.gc) (s : st) : RM.gc * st :=
    match ops with
    | [] => (g, s)
    | o :: r => crun r (fst (Cstep g o)) (cstep g s o)
    end.

  (* start: the ownership map of the life-cycle machine is the (static) one of C17's destructors *)
  Definition cinit : st := set_owned own0 init.

  (* besides C17's allocator contract: addresses are not reused (the life-cycle machine's
     identities are never reused), and del_raw is applied to fresh addresses only *)
  Definition gadm (g : RM.gc) (o : RM.op) : Prop :=
    match o with
    | RM.OAlloc p _ _ => RM.running g = true -> ever p (RM.evs g) = false
    | RM.OFinRaw p => ever p (RM.evs g) = false
    | _ => True
    end.
  Fixpoint gadm_run (ops : list RM.op) (g : RM.gc) : Prop :=
    match ops with
    | [] => True
    | o :: r => gadm g o /\ gadm_run r (fst (Cstep g o))
    end.

  Record GL (g : RM.gc) (s : st) : Prop := {
    gl_inv : RP.Inv hashf g;
    gl_quiet : RP.Quiet g;
    gl_rel : Rel g s;
    gl_ginv : GInv [] s;
    gl_known : forall x, info s x <> None -> exists p, x = idn p /\ ever p (RM.evs g) = true
  }.

  Lemma GL_Tab g s : GL g s -> Tab g.
  Proof. intros L. apply Inv_Tab; [apply L|]. intros _. apply L. Qed.

  Lemma rel_ns g s : Rel g s -> NS s.
  Proof. intros R x. apply R. Qed.

  Lemma GL_init : GL RM.gc_init cinit.
  Proof.
    destruct (RP.Inv_init hashf) as [Hi Hq]. constructor; auto.
    - constructor.
      + intros x r. simpl. tauto.
      + reflexivity.
      + reflexivity.
      + reflexivity.
      + intros p. reflexivity.
      + intros x _. reflexivity.
      + intros x. reflexivity.
    - destruct SInv_init as [S _]. destruct (si_g _ S). constructor; assumption.
    - intros x H. exfalso. apply H. reflexivity.
  Qed.

  Lemma ever_mono e l p : ever p l = true -> ever p (e :: l) = true.
  Proof. intros H. simpl. rewrite H. apply orb_true_r. Qed.

  (* registration frame: GC_Set up to the threshold test touches neither mitems nor the past log *)
  Lemma register_frame g p r ev g3 o :
    Creg g p r ev = (g3, o) -> o = RM.OOk -> RM.mitems g3 = RM.mitems g /\ RM.evs g3 = ev :: RM.evs g.
  Proof.
    unfold RM.gc_register. set (g1 := RM.set_bounds _ _ _).
    assert (Hrm : forall g2, RM.resize_more hashf gc_swap gc_primes gc_load_num gc_load_den g1 = Some g2 ->
              RM.mitems g2 = RM.mitems g /\ RM.evs g2 = RM.evs g).
    { intros g2. unfold RM.resize_more. destruct (_ <? _).
      - unfold RM.g_rehash. destruct (RM.rh_rehash _ _ _ _); [|discriminate]. intros H; inversion H; subst. auto.
      - intros H; inversion H; subst. auto. }
    destruct (RM.resize_more hashf gc_swap gc_primes gc_load_num gc_load_den g1) as [g2|]; [|intros H ->; inversion H].
    destruct (Hrm g2 eq_refl) as [Hm He].
    destruct (RM.nslots g2 =? 0); [intros H ->; inversion H|].
    destruct (RM.rh_insert _ _ _ _) as [[sl b]|]; [|intros H ->; inversion H].
    intros H _. inversion H; subst. simpl. rewrite Hm, He. auto.
  Qed.

  (* the mark phase only sets mark bits *)
  Lemma rel_mark g gm s : RP.PW (RM.slots g) (RM.slots gm) -> RP.same_rest g gm -> Rel g s -> Rel gm s.
  Proof.
    intros Hpw (Hn & Hm & _ & _ & Hr & Hp & He) R. constructor; try apply R.
    - intros x r. rewrite (rel_reg g s R), !in_abs_reg. split.
      + intros [e [He' [Hx Hr']]]. destruct (RP.PW_holds_rev _ _ _ Hpw He') as [e' [H1 [H2 H3]]].
        exists e'. split; [exact H1|]. split; congruence.
      + intros [e [He' [Hx Hr']]]. destruct (RP.PW_holds _ _ _ Hpw He') as [e' [H1 [H2 H3]]].
        exists e'. split; [exact H1|]. split; congruence.
    - rewrite Hp. apply R.
    - rewrite Hr. apply R.
    - rewrite Hm. apply R.
    - intros p. rewrite He. apply R.
  Qed.

  Lemma tabm_mark g gm : Tab g -> RP.PW (RM.slots g) (RM.slots gm) -> RP.same_rest g gm -> TabM gm.
  Proof.
    intros T Hpw (Hn & _). constructor.
    - apply (RP.Core_PW hashf _ _ Hpw). apply T.
    - rewrite Hn, (RP.PW_occupied _ _ Hpw). apply T.
    - unfold RM.nslots. rewrite Hn, (RP.PW_length _ _ Hpw). apply T.
  Qed.

  (* GC_Mark; GC_Sweep on the concrete table *)
  Lemma glue_collect g s ws g' o :
    RP.Inv hashf g -> RP.Quiet g -> Rel g s -> GInv [] s ->
    Ccollect g ws = (g', o) -> o = RM.OOk ->
    Rel g' (csweep_after_mark g ws s) /\ GInv [] (csweep_after_mark g ws s) /\ Keep s (csweep_after_mark g ws s) /\ Mono g g'.
  Proof.
    intros Hi Hq R G H Ho. pose proof (Inv_Tab g Hi (fun _ => Hq)) as T.
    unfold RM.collect in H. unfold csweep_after_mark.
    destruct (RP.gc_mark_ok hashf 0%N (fun _ => []) (fun _ => []) g ws (t_core g T)) as [gm [Hmk [Hpw Hsr]]].
    { intros Hn Hz. destruct (t_room g T) as [Hz'|Hlt]; [|lia]. pose proof (t_count g T) as Hc.
      unfold RM.nslots in Hz. rewrite Hc in Hn. apply Hn. unfold RobinHood.occupied.
      destruct (entries (RM.slots g)) as [|e es] eqn:He; [reflexivity|]. exfalso.
      assert (Hh : Holds (RM.slots g) e) by (apply in_entries; rewrite He; left; reflexivity).
      destruct Hh as [i [h Hat]]. pose proof (at_some_lt _ _ _ _ Hat). lia. }
    rewrite Hmk in H |- *.
    destruct (Csweep gm) as [g2|] eqn:Hsw; [|inversion H; subst; discriminate].
    inversion H; subst g' o. clear H.
    pose proof (rel_mark g gm s Hpw Hsr R) as Rm.
    pose proof (tabm_mark g gm T Hpw Hsr) as TMm.
    assert (Hqm : RM.pending gm = []) by (destruct Hsr as (_ & _ & _ & _ & _ & Hp & _); rewrite Hp; exact Hq).
    destruct (glue_sweep [] gm s g2 TMm Hqm Rm G Hsw) as (_ & R2 & _ & Mo2).
    split; [exact R2|]. split; [|split; [|apply (Mono_trans g gm); [apply Mono_same; apply Hsr | exact Mo2]]].
    - assert (Hpe : pend s = []) by (rewrite (rel_pend g s R), Hq; reflexivity).
      destruct (LifecycleProofs.sweep_ok c17_rule finT (S (measure s)) (fin_top_ok c17_rule _) (c_order gm) (c_marks gm) [] s G Hpe ltac:(lia)) as (G' & _).
      exact G'.
    - apply keep_sweep; [intros; apply keep_fin_top; assumption | apply (rel_ns g); exact R].
  Qed.

  Hypothesis dok : RP.dtors_ok d.

  Lemma known_fresh g s p : GL g s -> ever p (RM.evs g) = false -> info s (idn p) = None.
  Proof.
    intros L He. destruct (info s (idn p)) eqn:Hi; [|reflexivity]. exfalso.
    destruct (gl_known g s L (idn p)) as [p' [Hp Hev]]; [congruence|].
    apply idn_inj in Hp. subst p'. congruence.
  Qed.

  Lemma collect_out g ws g' o : Ccollect g ws = (g', o) -> o <> RM.OFuel -> o <> RM.OCrash -> o = RM.OOk.
  Proof.
    unfold RM.collect. destruct (RM.gc_mark hashf g ws) as [[gm|]|]; [|intros H; inversion H; subst; congruence..].
    destruct (Csweep gm); intros H; inversion H; subst; congruence.
  Qed.

  (* one operation: both machines move, the relation is kept *)
  Theorem glue_step g s o :
    GL g s -> RP.admissible g o -> gadm g o -> GL (fst (Cstep g o)) (cstep g s o).
  Proof.
    intros L Ha Hga.
    pose proof (gl_inv g s L) as Hi. pose proof (gl_quiet g s L) as Hq. pose proof (gl_rel g s L) as R.
    pose proof (gl_ginv g s L) as G. pose proof (GL_Tab g s L) as T.
    destruct (RP.registry_step_thm hashf d true true g o dok Hi Hq Ha) as [g' [out [Hs [Hnf [Hnc [Hi' [Hq' _]]]]]]].
    rewrite Hs. cbn [fst].
    assert (Hpe : pend s = []) by (rewrite (rel_pend g s R), Hq; reflexivity).
    assert (Hns : NS s) by (apply (rel_ns g); exact R).
    assert (Known_keep : forall s', Keep s s' -> Mono g g' ->
              forall x, info s' x <> None -> exists p, x = idn p /\ ever p (RM.evs g') = true).
    { intros s' [K1 _] Mo x Hx. rewrite K1 in Hx. destruct (gl_known g s L x Hx) as [p [Hp He]]. exists p. split; [exact Hp | apply Mo; exact He]. }
    unfold RP.Gstep in Hs.
    destruct o as [p r ws|p|p|ws| | | |p]; cbn [RM.gc_step cstep] in *.
    - (* OAlloc *)
      unfold RM.gc_set in Hs.
      destruct (RM.running g) eqn:Hrun; simpl negb in *; cbv iota in *.
      2:{ inversion Hs; subst. exact L. }
      specialize (Ha Hrun). specialize (Hga Hrun).
      destruct (RP.gc_register_ok hashf gc_swap gc_primes gc_load_num gc_load_den RP.gc_swap_le RP.gc_swap_ge RP.gc_ideal_gt
                  g p r (RM.EvAlloc p r) Hi Ha) as [g3 [Hreg [Hi3 [Hp3 [Hr3 [Hn3 Hh3]]]]]].
      { rewrite Hq. intros []. }
      { left. reflexivity. }
      destruct (register_frame g p r _ g3 RM.OOk Hreg eq_refl) as [Hm3 He3].
      rewrite Hreg in Hs |- *. cbn [fst].
      pose proof (known_fresh g s p L Hga) as Hinone.
      set (s1 := add_obj (idn p) (if r then KRoot else KManaged) false s) in *.
      pose proof (add_obj_ginv [] s (idn p) (if r then KRoot else KManaged) false G Hinone) as G1. fold s1 in G1.
      assert (Hnr : ~ In (idn p) (regids s1)) by (intros Hin; apply (g_info _ _ G (idn p) (or_introl Hin)); exact Hinone).
      assert (Hnp : ~ In (idn p) (pids s1)) by (unfold pids; change (pend s1) with (pend s); rewrite Hpe; intros []).
      assert (Hf0 : fin_count s1 (idn p) = 0) by (apply (g_alloc _ _ G); exact Hinone).
      assert (Hi1 : info s1 (idn p) <> None) by (unfold s1; simpl; rewrite Nat.eqb_refl; discriminate).
      pose proof (register_ginv [] s1 (idn p) r G1 Hnr Hnp Hf0 Hi1) as G2.
      set (s2 := set_reg ((idn p, r) :: reg s1) s1) in *.
      assert (R3 : Rel g3 s2).
      { constructor; try apply R.
        - intros x r'. unfold s2. simpl reg. rewrite in_abs_reg. split.
          + intros [Heq|Hin].
            * inversion Heq; subst. exists (RM.mkE p r' false). split; [apply Hh3; right; reflexivity | auto].
            * apply (rel_reg g s R) in Hin. apply in_abs_reg in Hin. destruct Hin as [e [He [H1 H2]]].
              exists e. split; [apply Hh3; left; exact He | auto].
          + intros [e [He [H1 H2]]]. apply Hh3 in He. destruct He as [He | ->].
            * right. apply (rel_reg g s R). apply in_abs_reg. exists e. auto.
            * left. simpl in H1, H2. congruence.
        - change (pend s2) with (pend s). rewrite Hp3. apply R.
        - change (running s2) with (running s). rewrite Hr3. apply R.
        - change (mitems s2) with (mitems s). rewrite Hm3. apply R.
        - intros q. change (fin_count s2 (idn q)) with (fin_count s (idn q)). rewrite He3. simpl. apply R. }
      assert (K2 : Keep s1 s2) by (repeat split).
      assert (Known2 : forall gx, Mono g3 gx -> forall s', Keep s2 s' ->
                forall x, info s' x <> None -> exists q, x = idn q /\ ever q (RM.evs gx) = true).
      { intros gx Mo s' [K1 _] x Hx. rewrite K1 in Hx. change (info s2 x) with (info s1 x) in Hx. unfold s1 in Hx. simpl in Hx.
        revert Hx. destruct (Nat.eqb_spec x (idn p)) as [Hxp|Hne]; intros Hx.
        - exists p. split; [exact Hxp|]. apply Mo. rewrite He3. simpl. rewrite N.eqb_refl. reflexivity.
        - destruct (gl_known g s L x Hx) as [q [Hxq Hev]]. exists q. split; [exact Hxq|]. apply Mo. rewrite He3. apply ever_mono. exact Hev. }
      assert (Hthr : (mitems s2 <? nitems s2) = (RM.mitems g3 <? RM.nitems g3)).
      { change (mitems s2) with (mitems s). rewrite (rel_mit g s R), Hm3. unfold nitems, s2. simpl length.
        change (reg s1) with (reg s). rewrite (rel_len g s T R (g_reg_nodup _ _ G)), Hn3. reflexivity. }
      rewrite Hthr. destruct (RM.mitems g3 <? RM.nitems g3).
      + pose proof (collect_out g3 ws g' out Hs Hnf Hnc) as Hout.
        destruct (glue_collect g3 s2 ws g' out Hi3 ltac:(unfold RP.Quiet; rewrite Hp3; exact Hq) R3 G2 Hs Hout) as (R' & G' & K' & Mo').
        constructor; auto. apply (Known2 g' Mo' _ K').
      + inversion Hs; subst g' out. constructor; auto. apply (Known2 g3 (Mono_refl g3) s2 (Keep_refl s2)).
    - (* ORem *)
      destruct (Crem (RM.depth g) g p) as [g1|] eqn:Hrem; [|inversion Hs; subst; congruence].
      inversion Hs; subst g' out.
      destruct (glue_rem (RM.depth g) [] g s p g1 T R G Hrem) as (_ & R' & Mo').
      destruct (LifecycleProofs.gc_rem_ok c17_rule finT (S (measure s)) (fin_top_ok c17_rule _) [] s (idn p) G ltac:(lia)) as (G' & _).
      constructor; auto. apply Known_keep; [|exact Mo'].
      apply keep_gc_rem; [intros; apply keep_fin_top; assumption | exact Hns].
    - (* OFinRaw *)
      unfold RM.finalise in Hs.
      destruct (Cfinw (Crem (RM.depth g)) g p) as [g1|] eqn:Hfin; [|inversion Hs; subst; congruence].
      inversion Hs; subst g' out.
      pose proof (known_fresh g s p L Hga) as Hinone.
      set (s1 := add_obj (idn p) KRaw false s) in *.
      pose proof (add_obj_ginv [] s (idn p) KRaw false G Hinone) as G1. fold s1 in G1.
      assert (R1 : Rel g s1) by (constructor; apply R).
      assert (Hnr : ~ In (idn p) (regids s1)) by (intros Hin; apply (g_info _ _ G (idn p) (or_introl Hin)); exact Hinone).
      assert (Hnp : ~ In (idn p) (pids s1)) by (unfold pids; change (pend s1) with (pend s); rewrite Hpe; intros []).
      assert (Hf0 : fin_count s1 (idn p) = 0) by (apply (g_alloc _ _ G); exact Hinone).
      assert (Hi1 : info s1 (idn p) <> None) by (unfold s1; simpl; rewrite Nat.eqb_refl; discriminate).
      destruct (glue_finalise (RM.depth g) [] g s1 p g1 T R1 G1 Hnr Hnp Hf0 Hi1 Hfin) as (_ & R' & Mo').
      destruct (fin_top_ok c17_rule (S (measure s1)) [] s1 (idn p) G1 Hnr Hnp Hf0 Hi1 ltac:(lia)) as (G' & _).
      constructor; auto.
      intros x Hx. destruct (keep_fin_top s1 (idn p) (rel_ns g s1 R1)) as [K1 _]. rewrite K1 in Hx. unfold s1 in Hx. simpl in Hx.
      revert Hx. destruct (Nat.eqb_spec x (idn p)) as [Hxp|Hne]; intros Hx.
      + exists p. split; [exact Hxp|].
        (* EvFin p has been logged *)
        rewrite cfinw_eq in Hfin.
        assert (Hl : ever p (RM.evs (RM.log g (RM.EvFin p))) = true) by (simpl; rewrite N.eqb_refl; reflexivity).
        destruct (RP.d_owns d p) as [|t ts].
        * inversion Hfin; subst. exact Hl.
        * destruct (RM.depth g) as [|f]; [discriminate|].
          assert (Tl : Tab (RM.log g (RM.EvFin p))) by (apply (tab_fields g); auto).
          destruct (glue_rem (S f) (idn p :: []) (RM.log g (RM.EvFin p)) (add_log (LFin (idn p)) s1) t g1 Tl (rel_add_fin g s1 p R1)) as (_ & _ & Mo2).
          -- destruct (add_fin_ok [] s1 (idn p) G1 Hnr Hnp Hf0 Hi1) as (Ga & _). exact Ga.
          -- exact Hfin.
          -- apply Mo2. exact Hl.
      + destruct (gl_known g s L x Hx) as [q [Hq'' Hev]]. exists q. split; [exact Hq'' | apply Mo'; exact Hev].
    - (* OCollect *)
      pose proof (collect_out g ws g' out Hs Hnf Hnc) as Hout.
      destruct (glue_collect g s ws g' out Hi Hq R G Hs Hout) as (R' & G' & K' & Mo').
      constructor; auto. apply Known_keep; assumption.
    - (* OSweep *)
      destruct (Csweep g) as [g1|] eqn:Hsw; [|inversion Hs; subst; congruence].
      inversion Hs; subst g' out.
      assert (TM : TabM g) by (constructor; apply T).
      destruct (glue_sweep [] g s g1 TM Hq R G Hsw) as (_ & R' & _ & Mo').
      destruct (LifecycleProofs.sweep_ok c17_rule finT (S (measure s)) (fin_top_ok c17_rule _) (c_order g) (c_marks g) [] s G Hpe ltac:(lia)) as (G' & _).
      constructor; auto. apply Known_keep; [|exact Mo'].
      apply keep_sweep; [intros; apply keep_fin_top; assumption | exact Hns].
    - (* OStop *)
      inversion Hs; subst g' out. constructor; auto.
      + constructor; try apply R. reflexivity.
      + constructor; apply G.
      + apply (gl_known g s L).
    - (* OStart *)
      inversion Hs; subst g' out. constructor; auto.
      + constructor; try apply R. reflexivity.
      + constructor; apply G.
      + apply (gl_known g s L).
    - (* OMem *)
      destruct (RM.gc_mem hashf g p); inversion Hs; subst; exact L.
  Qed.

  Local Notation Crun := (RP.Grun hashf d true true).
  Local Notation Cadm := (RP.Gadm hashf d true true).

  Lemma crun_fst : forall ops g s, fst (crun ops g s) = Crun ops g.
  Proof.
    induction ops as [|o ops IH]; intros g s; [reflexivity|].
    cbn [crun]. rewrite IH. reflexivity.
  Qed.

  Lemma crun_app : forall a b g s, crun (a ++ b) g s = crun b (fst (crun a g s)) (snd (crun a g s)).
  Proof. induction a as [|o a IH]; intros b g s; [reflexivity|]. cbn [crun app]. apply IH. Qed.

  (* every history: the two machines stay related *)
  Theorem glue_run : forall ops g s,
    GL g s -> Cadm ops g -> gadm_run ops g -> GL (fst (crun ops g s)) (snd (crun ops g s)).
  Proof.
    induction ops as [|o ops IH]; intros g s L Ha Hg; [exact L|].
    destruct Ha as [Ha Har]. destruct Hg as [Hg Hgr]. cbn [crun].
    apply IH; [apply glue_step; assumption | exact Har | exact Hgr].
  Qed.

  Lemma Cadm_app : forall a b g, Cadm (a ++ b) g -> Cadm a g /\ Cadm b (Crun a g).
  Proof.
    induction a as [|o a IH]; intros b g H; [split; [exact I | exact H]|].
    destruct H as [H1 H2]. destruct (IH b _ H2) as [H3 H4]. split; [split; assumption | exact H4].
  Qed.

  Lemma gadm_app : forall a b g, gadm_run (a ++ b) g -> gadm_run a g /\ gadm_run b (Crun a g).
  Proof.
    induction a as [|o a IH]; intros b g H; [split; [exact I | exact H]|].
    destruct H as [H1 H2]. destruct (IH b _ H2) as [H3 H4]. split; [split; assumption | exact H4].
  Qed.

  (* ---------------------------------------------------------------- 6. C06 on the concrete registry *)
  (* (a) on the run whose registry is the concrete robin-hood table, no address is finalised twice *)
  Theorem concrete_finalised_at_most_once : forall ops p,
    Cadm ops RM.gc_init -> gadm_run ops RM.gc_init ->
    cnt_fin p (RM.evs (Crun ops RM.gc_init)) <= 1.
  Proof.
    intros ops p Ha Hg. pose proof (glue_run ops RM.gc_init cinit GL_init Ha Hg) as L.
    rewrite crun_fst in L. set (s := snd (crun ops RM.gc_init cinit)) in *.
    rewrite <- (rel_fin _ _ (gl_rel _ _ L) p).
    destruct (g_rest _ _ (gl_ginv _ _ L) (idn p) (fun f => f)) as [_ H]. exact H.
  Qed.

  Lemma reg_not_root g s p : Tab g -> Rel g s -> RP.Regs (RM.slots g) p false -> is_root s (idn p) = false.
  Proof.
    intros T R [e [He [Hp Hr]]]. unfold is_root. apply not_true_is_false. intros Hex.
    apply existsb_exists in Hex. destruct Hex as [[y r] [Hin Hb]]. simpl in Hb.
    apply andb_true_iff in Hb. destruct Hb as [Hy Hr']. apply Nat.eqb_eq in Hy. subst y r.
    apply (rel_reg g s R) in Hin. apply in_abs_reg in Hin. destruct Hin as [e' [He' [Hp' Hre']]].
    assert (e' = e) by (apply (rel_unique_entry g e' e (t_core g T) He' He); congruence). subst e'. congruence.
  Qed.

  Lemma clear_no_marks g : RP.Clear (RM.slots g) -> c_marks g = [].
  Proof.
    intros Hc. unfold c_marks, abs_marks.
    rewrite (filter_none RM.marked (entries (RM.slots g))); [reflexivity|].
    intros x Hx. apply Hc. apply in_entries. exact Hx.
  Qed.

  (* (b) teardown — GC_Del's sweep, no mark phase — on the concrete table: every non-root address
     registered at that moment has been finalised exactly once afterwards *)
  Theorem concrete_teardown_complete : forall ops p,
    Cadm (ops ++ [RM.OSweep]) RM.gc_init -> gadm_run (ops ++ [RM.OSweep]) RM.gc_init ->
    RP.Regs (RM.slots (Crun ops RM.gc_init)) p false ->
    cnt_fin p (RM.evs (Crun (ops ++ [RM.OSweep]) RM.gc_init)) = 1.
  Proof.
    intros ops p Ha Hg Hreg.
    destruct (Cadm_app ops [RM.OSweep] _ Ha) as [Ha1 Ha2]. destruct (gadm_app ops [RM.OSweep] _ Hg) as [Hg1 Hg2].
    pose proof (glue_run ops RM.gc_init cinit GL_init Ha1 Hg1) as L. rewrite crun_fst in L.
    set (g := Crun ops RM.gc_init) in *. set (s := snd (crun ops RM.gc_init cinit)) in *.
    pose proof (glue_step g s RM.OSweep L (proj1 Ha2) (proj1 Hg2)) as L'.
    assert (Hrun : Crun (ops ++ [RM.OSweep]) RM.gc_init = fst (RP.Gstep hashf d true true g RM.OSweep)).
    { unfold RP.Grun, RM.gc_run. rewrite fold_left_app. reflexivity. }
    rewrite Hrun. rewrite <- (rel_fin _ _ (gl_rel _ _ L') p).
    cbn [cstep]. pose proof (GL_Tab g s L) as T. pose proof (gl_rel g s L) as R. pose proof (gl_ginv g s L) as G.
    assert (Hpe : pend s = []) by (rewrite (rel_pend g s R), (gl_quiet g s L); reflexivity).
    destruct (LifecycleProofs.sweep_ok c17_rule finT (S (measure s)) (fin_top_ok c17_rule _) (c_order g) (c_marks g) [] s G Hpe ltac:(lia))
      as (_ & _ & _ & Hdead & _).
    destruct (Hdead (idn p)) as [Hd _]; [| |rewrite (clear_no_marks g (t_clear g T)); intros [] | exact Hd].
    - apply in_reg_spec. apply (rel_in_reg g s p R). exists false. exact Hreg.
    - apply (reg_not_root g s p T R Hreg).
  Qed.

  (* (c) del / del_root with the collector running, on the concrete table: the address is finalised
     exactly once, at once *)
  Theorem concrete_delete_finalises : forall ops p r,
    Cadm (ops ++ [RM.ORem p]) RM.gc_init -> gadm_run (ops ++ [RM.ORem p]) RM.gc_init ->
    RM.running (Crun ops RM.gc_init) = true -> RP.Regs (RM.slots (Crun ops RM.gc_init)) p r ->
    cnt_fin p (RM.evs (Crun (ops ++ [RM.ORem p]) RM.gc_init)) = 1.
  Proof.
    intros ops p r Ha Hg Hrun Hreg.
    destruct (Cadm_app ops [RM.ORem p] _ Ha) as [Ha1 Ha2]. destruct (gadm_app ops [RM.ORem p] _ Hg) as [Hg1 Hg2].
    pose proof (glue_run ops RM.gc_init cinit GL_init Ha1 Hg1) as L. rewrite crun_fst in L.
    set (g := Crun ops RM.gc_init) in *. set (s := snd (crun ops RM.gc_init cinit)) in *.
    pose proof (glue_step g s (RM.ORem p) L (proj1 Ha2) (proj1 Hg2)) as L'.
    assert (Hr : Crun (ops ++ [RM.ORem p]) RM.gc_init = fst (RP.Gstep hashf d true true g (RM.ORem p))).
    { unfold RP.Grun, RM.gc_run. rewrite fold_left_app. reflexivity. }
    rewrite Hr. rewrite <- (rel_fin _ _ (gl_rel _ _ L') p). cbn [cstep].
    pose proof (gl_rel g s L) as R. pose proof (gl_ginv g s L) as G.
    destruct (LifecycleProofs.gc_rem_ok c17_rule finT (S (measure s)) (fin_top_ok c17_rule _) [] s (idn p) G ltac:(lia)) as (_ & _ & Hd & _).
    destruct Hd as [Hd _]; [rewrite (rel_run g s R); exact Hrun | | exact Hd].
    left. apply in_reg_spec. apply (rel_in_reg g s p R). exists r. exact Hreg.
  Qed.

End Glue.

(* ------------------------------------------------------------------ 7. closed statements, non-vacuity *)
(* Box-like destructors that allocate nothing *)
Definition boxlike (d : RP.dtors) : Prop :=
  (forall q, RP.d_owns d q = [] \/ exists t, RP.d_owns d q = [t]) /\ (forall q, RP.d_spawns d q = []).

(* boolean form of the extra admissibility (no address reuse), for examples *)
Fixpoint gadm_runb (hashf : N -> N) (d : RP.dtors) (ops : list RM.op) (g : RM.gc) : bool :=
  match ops with
  | [] => true
  | o :: r =>
    (match o with
     | RM.OAlloc p _ _ => negb (RM.running g) || negb (ever p (RM.evs g))
     | RM.OFinRaw p => negb (ever p (RM.evs g))
     | _ => true
     end) && gadm_runb hashf d r (fst (RP.Gstep hashf d true true g o))
  end.

Lemma gadm_runb_ok hashf d : forall ops g, gadm_runb hashf d ops g = true -> gadm_run hashf d ops g.
Proof.
  induction ops as [|o ops IH]; intros g H; [exact I|].
  simpl in H. apply andb_true_iff in H. destruct H as [H1 H2]. split; [|apply IH; exact H2].
  destruct o; simpl; auto.
  - intros Hr. rewrite Hr in H1. simpl in H1. apply negb_true_iff in H1. exact H1.
  - apply negb_true_iff in H1. exact H1.
Qed.

Theorem glue_sweep_thm : forall hashf d, boxlike d -> forall A g s g',
  TabM hashf g -> RM.pending g = [] -> Rel d g s -> GInv A s ->
  RP.Gsweep hashf d true true g = Some g' ->
  Tab hashf g' /\ Rel d g' (sweep c17_rule true (fin_top c17_rule true true true nopro) (c_order g) (c_marks g) s) /\
  RM.pending g' = [] /\ Mono g g'.
Proof. intros hashf d [B N]. exact (glue_sweep hashf d B N). Qed.

Theorem glue_rem_thm : forall hashf d, boxlike d -> forall f A g s p g',
  Tab hashf g -> Rel d g s -> GInv A s ->
  RP.Grem hashf d true f g p = Some g' ->
  Tab hashf g' /\ Rel d g' (gc_rem c17_rule true (fin_top c17_rule true true true nopro) s (idn p)) /\ Mono g g'.
Proof. intros hashf d [B N]. exact (glue_rem hashf d B N). Qed.

Theorem glue_history_thm : forall hashf d, boxlike d -> RP.dtors_ok d -> forall ops,
  RP.Gadm hashf d true true ops RM.gc_init -> gadm_run hashf d ops RM.gc_init ->
  let gs := crun hashf d ops RM.gc_init (cinit d) in
  fst gs = RP.Grun hashf d true true ops RM.gc_init /\ GL hashf d (fst gs) (snd gs).
Proof.
  intros hashf d [B N] Hd ops Ha Hg. split; [apply crun_fst|].
  apply (glue_run hashf d B N Hd); [apply GL_init | exact Ha | exact Hg].
Qed.

(* C06 over the concrete registry (fragment: Box-like destructors that allocate nothing, no address
   reuse).  FULL STATEMENT still open: the same with destructors that allocate (C17's d_spawns,
   `allocation_during_sweep`), i.e. for every dtors_ok d whose d_owns is Box-like and whose d_spawns
   yields non-root objects; what is missing is the simulation of C17's spawn_set by alloc_child
   (C17 runs the deletions of a destructor before its allocations and only flags a threshold crossing
   outside a sweep, the life-cycle machine allocates first and runs that collection), and identities
   for re-used addresses. *)
Theorem over_concrete_registry_partial : forall hashf d, boxlike d -> RP.dtors_ok d -> forall ops,
  RP.Gadm hashf d true true ops RM.gc_init -> gadm_run hashf d ops RM.gc_init ->
  (* no address is finalised twice *)
  (forall p, cnt_fin p (RM.evs (RP.Grun hashf d true true ops RM.gc_init)) <= 1) /\
  (* if the history ends with teardown (GC_Del's sweep), every non-root address registered just
     before it has been finalised exactly once *)
  (forall ops' p, ops = ops' ++ [RM.OSweep] ->
     RP.Regs (RM.slots (RP.Grun hashf d true true ops' RM.gc_init)) p false ->
     cnt_fin p (RM.evs (RP.Grun hashf d true true ops RM.gc_init)) = 1) /\
  (* if it ends with del / del_root of a registered address while the collector runs, that address
     has been finalised exactly once *)
  (forall ops' p r, ops = ops' ++ [RM.ORem p] ->
     RM.running (RP.Grun hashf d true true ops' RM.gc_init) = true ->
     RP.Regs (RM.slots (RP.Grun hashf d true true ops' RM.gc_init)) p r ->
     cnt_fin p (RM.evs (RP.Grun hashf d true true ops RM.gc_init)) = 1).
Proof.
  intros hashf d [B N] Hd ops Ha Hg. split; [|split].
  - intros p. apply (concrete_finalised_at_most_once hashf d B N Hd); assumption.
  - intros ops' p -> Hreg. apply (concrete_teardown_complete hashf d B N Hd); assumption.
  - intros ops' p r -> Hrun Hreg. apply (concrete_delete_finalises hashf d B N Hd ops' p r); assumption.
Qed.

(* non-vacuity: Box 8 owns 16 (both managed), 24 is a root, 32 a plain managed object; addresses
   collide modulo small table sizes; a collection with an empty stack reclaims 8, 16 and 32 (the Box
   and its object in the same sweep: the D18 scenario on the concrete table), then teardown *)
Definition gx_hash (p : N) : N := N.shiftr p 3.
Definition gx_d : RP.dtors := RP.mkD (fun p => if N.eqb p 8 then [16%N] else []) (fun _ => []) [16%N].
Definition gx_ops : list RM.op :=
  [RM.OAlloc 16 false [16%N]; RM.OAlloc 8 false [8%N; 16%N]; RM.OAlloc 24 true [8%N; 16%N; 24%N];
   RM.OAlloc 32 false [8%N; 16%N; 24%N; 32%N]; RM.OAlloc 40 false [8%N; 16%N; 24%N; 32%N; 40%N];
   RM.ORem 32; RM.OCollect [40%N]; RM.OSweep].

Lemma gx_boxlike : boxlike gx_d.
Proof.
  split; [|reflexivity]. intros q. simpl. destruct (N.eqb q 8); [right; exists 16%N; reflexivity | left; reflexivity].
Qed.

Lemma gx_dok : RP.dtors_ok gx_d.
Proof.
  split; [|split].
  - simpl. constructor; [intros [] | constructor].
  - intros q t. simpl. destruct (N.eqb q 8); simpl; [tauto | intros []].
  - intros q p r [].
Qed.

Example gx_admissible :
  RP.Gadm gx_hash gx_d true true gx_ops RM.gc_init /\ gadm_run gx_hash gx_d gx_ops RM.gc_init.
Proof. split; [apply RP.adm_runb_ok | apply gadm_runb_ok]; vm_compute; reflexivity. Qed.

Example gx_not_trivial :
  let g := RP.Grun gx_hash gx_d true true gx_ops RM.gc_init in
  cnt_fin 8 (RM.evs g) = 1 /\ cnt_fin 16 (RM.evs g) = 1 /\ cnt_fin 32 (RM.evs g) = 1 /\
  cnt_fin 40 (RM.evs g) = 1 /\ cnt_fin 24 (RM.evs g) = 0 /\
  In (RM.EvReclaim 8) (RM.evs g) /\ In (RM.EvReclaim 16) (RM.evs g) /\ In (RM.EvRem 16) (RM.evs g).
Proof. vm_compute. repeat split; tauto. Qed.

Definition gx_owned : N := 16%N.
Example gx_owned_once : cnt_fin gx_owned (RM.evs (RP.Grun gx_hash gx_d true true gx_ops RM.gc_init)) = 1.
Proof. exact (proj1 (proj2 gx_not_trivial)). Qed.
