(* LifecycleGlue.v — the abstract registry of the life-cycle machine (Lifecycle.v, property C06) is a
   sound abstraction of the concrete robin-hood registry of RegistryModel.v (property C17).

   Lifecycle.v keeps the registry as a duplicate-free list of (object, root flag) and takes the order
   in which a sweep meets the entries and the mark bits as INPUTS of every collection; its theorems
   quantify over all of them.  Here the two models are run side by side:

     abs_reg / abs_pend   abstraction of a C17 state: its entries in slot order with their root flags,
                          its pending list;
     Rel g s              the C17 state g and the life-cycle state s describe the same registry (same
                          registered set with the same root flags, the same pending list entry by
                          entry, same running flag, same mitems, same number of destructor calls per
                          object, same ownership for objects still to be finalised);
     glue_rem, glue_finalise, glue_compaction, glue_sweep, glue_register, …
                          every registry step of C17 (GC_Rem — also issued by a destructor while a
                          sweep is in progress —, dealloc(destruct), the compaction loop, the finaliser
                          loop, GC_Set's registration) is matched by the corresponding transition of
                          the life-cycle machine, the sweep with order := the order in which C17's
                          compaction loop hands the entries to the pending list and marks := C17's
                          mark bits;
     crun / glue_run      a history of C17 operations drives both machines; Rel holds throughout.

   Consequences (stated on C17's OWN event log, i.e. for the run whose registry is the concrete
   table): every address is finalised at most once, and after a final sweep with no marks
   (teardown) every registered non-root address has been finalised exactly once.

   Destructor behaviour: `d_owns d q` is [] or [t] (a Box owns one object), nothing is allocated by
   destructors (d_spawns d q = []); addresses are not reused.  What this leaves out is listed at the
   end of the file. *)
From Coq Require Import List Arith Bool NArith Lia PeanoNat Permutation.
From CelloV Require Import Generated RobinHood RobinHoodProofs.
From CelloV Require RegistryModel RegistryProofs.
From CelloV Require Import Lifecycle LifecycleProofs.
Import ListNotations.

Module RM := RegistryModel.
Module RP := RegistryProofs.

Local Notation gentry := RM.gentry.
Local Notation gslot := (slot RM.gentry).
Local Notation Holds := (Holds RM.gentry).
Local Notation entries := (entries RM.gentry).
Local Notation occupied := (occupied RM.gentry).
Local Notation at_ := (at_ RM.gentry).

(* ------------------------------------------------------------------ 1. abstraction *)
Definition idn (p : N) : nat := N.to_nat p.

Lemma idn_inj p q : idn p = idn q -> p = q.
Proof. apply N2Nat.inj. Qed.

Lemma idn_of_nat x : idn (N.of_nat x) = x.
Proof. apply Nat2N.id. Qed.

Lemma idn_eqb p q : (idn p =? idn q) = N.eqb p q.
Proof.
  destruct (N.eqb_spec p q) as [->|Hne]; [apply Nat.eqb_refl|].
  apply Nat.eqb_neq. intros H. apply Hne, idn_inj, H.
Qed.

(* the registry of a C17 state as the life-cycle machine sees it: entries in slot order *)
Definition abs_entry (e : gentry) : nat * bool := (idn (RM.ptr e), RM.root e).
Definition abs_reg (g : RM.gc) : list (nat * bool) := map abs_entry (entries (RM.slots g)).
Definition abs_pend (pl : list (option N)) : list (option nat) := map (option_map idn) pl.
(* the mark bits as a set of objects *)
Definition abs_marks (l : list gslot) : list nat :=
  map (fun e => idn (RM.ptr e)) (filter RM.marked (entries l)).

Fixpoint cnt_fin (p : N) (l : list RM.event) : nat :=
  match l with
  | [] => 0
  | RM.EvFin q :: t => (if N.eqb q p then 1 else 0) + cnt_fin p t
  | _ :: t => cnt_fin p t
  end.

Lemma in_abs_reg g x r :
  In (x, r) (abs_reg g) <-> exists e, Holds (RM.slots g) e /\ idn (RM.ptr e) = x /\ RM.root e = r.
Proof.
  unfold abs_reg. rewrite in_map_iff. split.
  - intros [e [He Hin]]. inversion He; subst. exists e. split; [apply in_entries; exact Hin | auto].
  - intros [e [Hh [Hx Hr]]]. exists e. split; [unfold abs_entry; congruence | apply in_entries; exact Hh].
Qed.

Lemma in_abs_reg_Reg g p r : In (idn p, r) (abs_reg g) <-> RP.Regs (RM.slots g) p r.
Proof.
  rewrite in_abs_reg. unfold RP.Regs. split; intros [e [Hh [Hp Hr]]]; exists e; split; auto.
  - split; [apply idn_inj; exact Hp | exact Hr].
  - split; [congruence | exact Hr].
Qed.

(* pending lists *)
Lemma abs_pend_in_pend (pl : list (option N)) p :
  existsb (opt_is (idn p)) (abs_pend pl) = RM.is_pending p pl.
Proof.
  unfold abs_pend, RM.is_pending. induction pl as [|[q|] pl IH]; simpl; auto.
  rewrite IH. f_equal. rewrite <- idn_eqb. reflexivity.
Qed.

Lemma abs_pend_null (pl : list (option N)) p :
  null_pend (idn p) (abs_pend pl) = abs_pend (RM.null_out p pl).
Proof.
  unfold abs_pend, null_pend, RM.null_out. rewrite !map_map. apply map_ext.
  intros [q|]; simpl; [|reflexivity]. rewrite idn_eqb. destruct (N.eqb q p); reflexivity.
Qed.

Lemma abs_pend_nth (pl : list (option N)) k :
  nth k (abs_pend pl) None = option_map idn (nth k pl None).
Proof. unfold abs_pend. change None with (option_map idn None) at 1. apply map_nth. Qed.

Lemma abs_pend_length pl : length (abs_pend pl) = length pl.
Proof. apply map_length. Qed.

(* ------------------------------------------------------------------ 2. the relation *)
Section Glue.
  Variable hashf : N -> N.
  Variable d : RP.dtors.
  (* a destructor deletes at most one object (a Box deletes what it owns) and allocates nothing *)
  Hypothesis boxlike : forall q, RP.d_owns d q = [] \/ exists t, RP.d_owns d q = [t].
  Hypothesis nospawn : forall q, RP.d_spawns d q = [].

  Definition own0 (x : nat) : option nat :=
    match RP.d_owns d (N.of_nat x) with [t] => Some (idn t) | _ => None end.

  Lemma own0_idn q : own0 (idn q) = match RP.d_owns d q with [t] => Some (idn t) | _ => None end.
  Proof. unfold own0, idn. rewrite N2Nat.id. reflexivity. Qed.

  (* the table part of C17's invariant (no ledger, no bounds) *)
  Record Tab (g : RM.gc) : Prop := {
    t_core : RP.Core hashf (RM.slots g);
    t_count : RM.nitems g = occupied (RM.slots g);
    t_room : RM.nslots g = 0 \/ RM.nitems g < RM.nslots g;
    t_clear : RP.Clear (RM.slots g);
    t_empty : RM.nslots g = 0 -> RM.pending g = []
  }.

  Record Rel (g : RM.gc) (s : st) : Prop := {
    rel_reg : forall x r, In (x, r) (reg s) <-> In (x, r) (abs_reg g);
    rel_pend : pend s = abs_pend (RM.pending g);
    rel_run : running s = RM.running g;
    rel_mit : mitems s = RM.mitems g;
    rel_fin : forall p, fin_count s (idn p) = cnt_fin p (RM.evs g);
    rel_own : forall x, fin_count s x = 0 -> owned s x = own0 x;
    rel_spawn : forall x, spawns s x = []
  }.

  Lemma Inv_Tab g : RP.Inv hashf g -> (RM.nslots g = 0 -> RM.pending g = []) -> Tab g.
  Proof.
    intros [H Hcl] He. constructor; auto; apply H.
  Qed.

  Lemma core_nodup_ids g : Tab g -> NoDup (map fst (abs_reg g)).
  Proof.
    intros T. destruct (t_core g T) as [_ [_ Huq]].
    pose proof (UQ_NoDup N gentry RM.ptr _ Huq) as Hnd.
    unfold abs_reg. rewrite map_map. simpl.
    change (fun x : gentry => idn (RM.ptr x)) with (fun x : gentry => idn (RM.ptr x)).
    rewrite <- (map_map RM.ptr idn). apply FinFun.Injective_map_NoDup; [|exact Hnd].
    intros a b. apply idn_inj.
  Qed.

  Lemma NoDup_map_fst {A B} (l : list (A * B)) : NoDup (map fst l) -> NoDup l.
  Proof.
    induction l as [|[a b] l IH]; simpl; intros H; [constructor|].
    inversion H; subst. constructor; [|apply IH; assumption].
    intros Hin. apply H2. apply in_map_iff. exists (a, b). auto.
  Qed.

  (* same registered set, no duplicates on either side: same count *)
  Lemma rel_len g s : Tab g -> Rel g s -> NoDup (regids s) -> length (reg s) = RM.nitems g.
  Proof.
    intros T R Hnd. rewrite (t_count g T). unfold RobinHood.occupied.
    change (length (reg s) = length (RobinHood.entries gentry (RM.slots g))).
    rewrite <- (map_length abs_entry (entries (RM.slots g))). fold (abs_reg g).
    apply Permutation_length. apply NoDup_Permutation.
    - apply NoDup_map_fst. exact Hnd.
    - apply NoDup_map_fst. apply core_nodup_ids. exact T.
    - intros [x r]. apply (rel_reg g s R).
  Qed.

  Lemma rel_in_reg g s p : Rel g s -> in_reg s (idn p) = true <-> exists r, RP.Regs (RM.slots g) p r.
  Proof.
    intros R. rewrite in_reg_spec. unfold regids. rewrite in_map_iff. split.
    - intros [[x r] [Hx Hin]]. simpl in Hx. subst x. exists r. apply in_abs_reg_Reg. apply (rel_reg g s R). exact Hin.
    - intros [r Hr]. exists (idn p, r). split; [reflexivity|]. apply (rel_reg g s R). apply in_abs_reg_Reg. exact Hr.
  Qed.

  Lemma rel_in_pend g s p : Rel g s -> in_pend s (idn p) = RM.is_pending p (RM.pending g).
  Proof. intros R. unfold in_pend. rewrite (rel_pend g s R). apply abs_pend_in_pend. Qed.
End Glue.
