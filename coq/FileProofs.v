(* FileProofs.v — proofs about FileModel.v (property C20).
   Everything is for an arbitrary byte type, arbitrary character classes, arbitrary sets of
   creatable paths and of paths whose fclose fails; the File_Close modelled is the repaired one
   (fixed_close = fixed_clear = true) except in the `_refuted` lemmas at the end. *)
From Coq Require Import List Arith Bool ZArith Lia.
From CelloV Require Import FileModel.
Import ListNotations.

Section Proofs.
  Variable B : Type.
  Variable zero : B.
  Variables is_ws is_digit is_sign : B -> bool.
  Variable creatable : nat -> bool.
  Variable close_fails : nat -> bool.

  Notation stepF := (step B zero is_ws is_digit is_sign creatable close_fails true true).
  Notation runF := (run B zero is_ws is_digit is_sign creatable close_fails true true).
  Notation closeF := (file_close B close_fails true true).
  Notation openF := (file_open B creatable close_fails true true).
  Notation sstep := (spec_step B zero is_ws is_digit is_sign creatable close_fails).
  Notation srun := (spec_run B zero is_ws is_digit is_sign creatable close_fails).
  Notation world := (world B).
  Notation out := (out B).

  (* ------------------------------------------------------------------ closed Files *)
  (* the operations that use the stream of File i (everything except creation, open, del, with) *)
  Definition uses (o : op B) (i : nat) : Prop :=
    match o with
    | OClose _ j | ORead _ j _ | OWrite _ j _ | OSeek _ j _ _ | OTell _ j | OEof _ j | OFlush _ j
    | OPrint _ j _ | OScan _ j => j = i
    | _ => False
    end.

  Lemma closed_op_raises : forall (w : world) o i,
    w_objs B w i = FObj None -> uses o i -> stepF w o = (w, ORaise B FIOError).
  Proof.
    intros w o i Hc Hu.
    destruct o; simpl in Hu; try contradiction; subst; unfold step, on_open, file_close; rewrite Hc; reflexivity.
  Qed.

  (* ------------------------------------------------------------------ the ledger invariant *)
  Definition holds (w : world) (i h : nat) : Prop := w_objs B w i = FObj (Some h).
  Definition closes (w : world) (h : nat) : nat := f_closes (w_files B w h).

  Fixpoint count_close (h : nat) (t : list event) : nat :=
    match t with
    | [] => 0
    | EvClose h' :: r => (if Nat.eqb h' h then 1 else 0) + count_close h r
    | _ :: r => count_close h r
    end.
  Fixpoint count_open (h : nat) (t : list event) : nat :=
    match t with
    | [] => 0
    | EvOpen h' :: r => (if Nat.eqb h' h then 1 else 0) + count_open h r
    | _ :: r => count_open h r
    end.
  Definition is_ub (e : event) : bool :=
    match e with EvCloseNull | EvStale _ => true | _ => false end.

  Record inv (w : world) : Prop := mkInv {
    inv_live : forall i h, holds w i h -> h < w_nfiles B w /\ closes w h = 0;
    inv_inj : forall i j h, holds w i h -> holds w j h -> i = j;
    inv_noleak : forall h, h < w_nfiles B w -> closes w h = 0 -> exists i, holds w i h;
    inv_once : forall h, closes w h <= 1;
    inv_fresh : forall h, w_nfiles B w <= h -> closes w h = 0;
    inv_tr_close : forall h, count_close h (w_trace B w) = closes w h;
    inv_tr_open : forall h, count_open h (w_trace B w) = if h <? w_nfiles B w then 1 else 0;
    inv_tr_ub : forallb (fun e => negb (is_ub e)) (w_trace B w) = true
  }.

  Ltac eqb_cases :=
    repeat match goal with
    | H : context [Nat.eqb ?a ?b] |- _ => destruct (Nat.eqb_spec a b); subst
    | |- context [Nat.eqb ?a ?b] => destruct (Nat.eqb_spec a b); subst
    end.

  Lemma inv_init : forall fs objs,
    (forall i h, objs i <> FObj (Some h)) -> inv (w_init B fs objs).
  Proof.
    intros fs objs Hn. constructor; unfold holds, closes, w_init; simpl; intros; try lia; auto.
    - exfalso; eapply Hn; eauto.
    - exfalso; eapply Hn; eauto.
  Qed.

  (* changes that do not concern handles *)
  Lemma inv_set_stream : forall w h s, inv w -> inv (set_stream B w h s).
  Proof.
    intros w h s [L I N O F TC TO TU].
    constructor; unfold holds, closes, set_stream, set_file, upd in *; simpl in *; intros.
    - specialize (L _ _ H). eqb_cases; simpl; auto.
    - eauto.
    - apply N; auto. eqb_cases; simpl in *; auto.
    - specialize (O h0). eqb_cases; simpl; auto.
    - specialize (F h0 H). eqb_cases; simpl; auto.
    - rewrite TC. eqb_cases; simpl; auto.
    - auto.
    - auto.
  Qed.

  Lemma inv_set_fs : forall w fs, inv w -> inv (set_fs B w fs).
  Proof. intros w fs [L I N O F TC TO TU]. constructor; auto. Qed.

  Lemma inv_set_stack : forall w s, inv w -> inv (set_stack B w s).
  Proof. intros w s [L I N O F TC TO TU]. constructor; auto. Qed.

  (* an object that holds no handle may be replaced by another one that holds none *)
  Definition handle_free (o : fobj) : Prop := forall h, o <> FObj (Some h).

  Lemma inv_set_obj_free : forall w i o,
    inv w -> handle_free (w_objs B w i) -> handle_free o -> inv (set_obj B w i o).
  Proof.
    intros w i o [L I N O F TC TO TU] Hf Ho.
    constructor; unfold holds, closes, set_obj, upd in *; simpl in *; intros.
    - eqb_cases. + exfalso; eapply Ho; eauto. + eauto.
    - eqb_cases; try (exfalso; eapply Ho; eauto; fail); eauto.
    - destruct (N _ H H0) as [j Hj]. exists j. eqb_cases; auto. exfalso; eapply Hf; eauto.
    - auto.
    - auto.
    - auto.
    - auto.
    - auto.
  Qed.

  Lemma free_dead : handle_free FDead. Proof. intros h H; discriminate. Qed.
  Lemma free_none : handle_free (FObj None). Proof. intros h H; discriminate. Qed.
  Hint Resolve free_dead free_none : core.

  (* File_Close on an open File: the stream is closed once, the File ends closed *)
  Lemma close_some : forall w i h,
    inv w -> holds w i h ->
    let (w1, o1) := closeF w i (Some h) in
    inv w1 /\ w_objs B w1 i = FObj None /\ (o1 = OkUnit B \/ o1 = ORaise B FIOError) /\
    (forall j, j <> i -> w_objs B w1 j = w_objs B w j) /\
    w_stack B w1 = w_stack B w /\ w_fs B w1 = w_fs B w /\
    w_trace B w1 = EvClose h :: w_trace B w /\
    (forall h', h' <> h -> w_files B w1 h' = w_files B w h').
  Proof.
    intros w i h Hinv Hh.
    destruct (inv_live _ Hinv _ _ Hh) as [Hlt Hc].
    unfold file_close, live. unfold closes in Hc. rewrite Hc. simpl Nat.eqb. cbv iota.
    assert (Hinv1 : inv (set_obj B (log B (set_file B w h (mkF (f_st (w_files B w h)) 1)) (EvClose h)) i (FObj None))).
    { destruct Hinv as [L I N O F TC TO TU].
      constructor; unfold holds, closes, set_obj, log, set_file, upd in *; simpl in *; intros.
      - eqb_cases; try discriminate; destruct (L _ _ H); simpl; auto.
        exfalso. apply n. eapply I; eauto.
      - eqb_cases; try discriminate. eauto.
      - eqb_cases; simpl in *; try discriminate.
        destruct (N _ H H0) as [j Hj]. exists j. eqb_cases; auto.
        exfalso. rewrite Hh in Hj. inversion Hj. auto.
      - eqb_cases; simpl; auto.
      - eqb_cases; simpl; auto. lia.
      - rewrite TC. eqb_cases; simpl; auto; try lia.
      - auto.
      - auto. }
    set (cond := close_fails (s_path (f_st (w_files B w h))) && (0 <? s_pos (f_st (w_files B w h)))).
    assert (Hrest : forall o1 : out, (o1 = OkUnit B \/ o1 = ORaise B FIOError) ->
       let w1 := set_obj B (log B (set_file B w h (mkF (f_st (w_files B w h)) 1)) (EvClose h)) i (FObj None) in
       inv w1 /\ w_objs B w1 i = FObj None /\ (o1 = OkUnit B \/ o1 = ORaise B FIOError) /\
       (forall j, j <> i -> w_objs B w1 j = w_objs B w j) /\
       w_stack B w1 = w_stack B w /\ w_fs B w1 = w_fs B w /\
       w_trace B w1 = EvClose h :: w_trace B w /\
       (forall h', h' <> h -> w_files B w1 h' = w_files B w h')).
    { intros o1 Ho1. simpl.
      split; [exact Hinv1|]. split; [unfold upd; rewrite Nat.eqb_refl; reflexivity|].
      split; [exact Ho1|]. split; [intros j Hj; unfold upd; destruct (Nat.eqb_spec j i); congruence|].
      split; [reflexivity|]. split; [reflexivity|]. split; [reflexivity|].
      intros h' Hh'. unfold upd. destruct (Nat.eqb_spec h' h); congruence. }
    destruct cond; apply Hrest; auto.
  Qed.

  Ltac ltb_cases :=
    repeat match goal with
    | H : context [Nat.ltb ?a ?b] |- _ => destruct (Nat.ltb_spec a b)
    | |- context [Nat.ltb ?a ?b] => destruct (Nat.ltb_spec a b)
    end.

  (* a successful fopen: a fresh handle goes into a File that holds none *)
  Lemma inv_alloc : forall w i fs' st,
    inv w -> handle_free (w_objs B w i) ->
    inv (mkW B fs' (upd (w_objs B w) i (FObj (Some (w_nfiles B w)))) (S (w_nfiles B w))
             (upd (w_files B w) (w_nfiles B w) (mkF st 0)) (w_stack B w)
             (EvOpen (w_nfiles B w) :: w_trace B w)).
  Proof.
    intros w i fs' st [L I N O F TC TO TU] Hf.
    constructor; unfold holds, closes, upd in *; simpl in *; intros.
    - eqb_cases; simpl; try (inversion H; subst; clear H); try (split; [lia|reflexivity]).
      1: { split; [lia|apply F; lia]. }
      destruct (L _ _ H1). split; [lia|auto].
    - eqb_cases; auto; try (inversion H; subst; clear H); try (inversion H0; subst; clear H0).
      all: try (match goal with H : w_objs B _ _ = FObj (Some _) |- _ => destruct (L _ _ H) end; lia).
      all: eauto.
    - eqb_cases; simpl in *.
      + exists i. rewrite Nat.eqb_refl. auto.
      + assert (Hlt : h < w_nfiles B w) by lia.
        destruct (N _ Hlt H0) as [j Hj]. exists j. eqb_cases; auto. exfalso; eapply Hf; eauto.
    - eqb_cases; simpl; auto.
    - eqb_cases; simpl; auto; try lia. apply F; lia.
    - rewrite TC. eqb_cases; simpl; auto.
    - rewrite TO. eqb_cases; ltb_cases; simpl; try lia.
    - auto.
  Qed.

  Definition not_crash (o : out) : Prop := o <> OCrash B.

  (* File_Open ends either open on a fresh stream, or closed with IOError *)
  Definition open_result (w1 : world) (i : nat) (o1 : out) : Prop :=
    (o1 = OkUnit B /\ exists h, w_objs B w1 i = FObj (Some h)) \/
    (o1 = ORaise B FIOError /\ w_objs B w1 i = FObj None).

  Lemma open_inv : forall w i ho p m,
    inv w -> w_objs B w i = FObj ho ->
    let (w1, o1) := openF w i ho p m in
    inv w1 /\ open_result w1 i o1 /\
    (forall j, j <> i -> w_objs B w1 j = w_objs B w j) /\ w_stack B w1 = w_stack B w.
  Proof.
    intros w i ho p m Hinv Hi.
    assert (Hnone : forall w0 : world, inv w0 -> w_objs B w0 i = FObj None ->
      (forall j, j <> i -> w_objs B w0 j = w_objs B w j) -> w_stack B w0 = w_stack B w ->
      let (w1, o1) := match fopen B creatable (w_fs B w0) p m with
        | None => (set_obj B w0 i (FObj None), ORaise B FIOError)
        | Some (fs', st) =>
            (mkW B fs' (upd (w_objs B w0) i (FObj (Some (w_nfiles B w0)))) (S (w_nfiles B w0))
                 (upd (w_files B w0) (w_nfiles B w0) (mkF st 0)) (w_stack B w0)
                 (EvOpen (w_nfiles B w0) :: w_trace B w0), OkUnit B)
        end in
      inv w1 /\ open_result w1 i o1 /\
      (forall j, j <> i -> w_objs B w1 j = w_objs B w j) /\ w_stack B w1 = w_stack B w).
    { intros w0 Hinv0 Hi0 Hoth Hst.
      destruct (fopen B creatable (w_fs B w0) p m) as [[fs' st]|].
      - split; [apply inv_alloc; auto; rewrite Hi0; auto|].
        unfold open_result. simpl. unfold upd.
        split; [left; rewrite Nat.eqb_refl; eauto|].
        split; [|auto]. intros j Hj. destruct (Nat.eqb_spec j i); [congruence|auto].
      - split; [apply inv_set_obj_free; auto; rewrite Hi0; auto|].
        unfold open_result. simpl. unfold upd.
        split; [right; rewrite Nat.eqb_refl; eauto|].
        split; [|auto]. intros j Hj. destruct (Nat.eqb_spec j i); [congruence|auto]. }
    unfold file_open. destruct ho as [h|].
    - pose proof (close_some w i h Hinv Hi) as Hc.
      destruct (closeF w i (Some h)) as [w1 o1].
      destruct Hc as (Hinv1 & Hi1 & Ho1 & Hoth & Hst & _).
      destruct Ho1 as [-> | ->].
      + apply Hnone; auto.
      + split; [auto|]. split; [right; auto|]. split; auto.
    - apply Hnone; auto.
  Qed.

  Ltac nc := unfold not_crash; discriminate.

  Lemma on_open_inv : forall w i (k : nat -> stream -> world * out),
    inv w ->
    (forall h, holds w i h -> let (w1, o1) := k h (f_st (w_files B w h)) in inv w1 /\ not_crash o1) ->
    let (w1, o1) := on_open B w i k in inv w1 /\ not_crash o1.
  Proof.
    intros w i k Hinv Hk. unfold on_open.
    destruct (w_objs B w i) as [|[h|]] eqn:Hi.
    - split; [auto|nc].
    - destruct (inv_live _ Hinv _ _ Hi) as [_ Hc]. unfold live. unfold closes in Hc. rewrite Hc. simpl.
      apply Hk. exact Hi.
    - split; [auto|nc].
  Qed.

  Lemma step_inv : forall w o, inv w -> let (w1, o1) := stepF w o in inv w1 /\ not_crash o1.
  Proof.
    intros w o Hinv. destruct o; cbn [step].
    - (* ONew *)
      destruct (w_objs B w i) eqn:Hi; (split; [|nc]); auto.
      apply inv_set_obj_free; auto. rewrite Hi; auto.
    - (* ONewOpen *)
      destruct (w_objs B w i) eqn:Hi; [|split; [auto|nc]].
      assert (Hinv' : inv (set_obj B w i (FObj None))) by (apply inv_set_obj_free; auto; rewrite Hi; auto).
      assert (Hi' : w_objs B (set_obj B w i (FObj None)) i = FObj None) by (simpl; unfold upd; rewrite Nat.eqb_refl; auto).
      pose proof (open_inv _ i None p m Hinv' Hi') as Ho.
      destruct (openF (set_obj B w i (FObj None)) i None p m) as [w1 o1].
      destruct Ho as (Hinv1 & [[-> _] | [-> Hn]] & _).
      + split; [auto|nc].
      + split; [|nc]. apply inv_set_obj_free; auto. rewrite Hn; auto.
    - (* OOpen *)
      destruct (w_objs B w i) as [|ho] eqn:Hi; [split; [auto|nc]|].
      pose proof (open_inv _ i ho p m Hinv Hi) as Ho.
      destruct (openF w i ho p m) as [w1 o1].
      destruct Ho as (Hinv1 & [[-> _] | [-> Hn]] & _); split; auto; nc.
    - (* OClose *)
      destruct (w_objs B w i) as [|[h|]] eqn:Hi; try (split; [auto|nc]).
      pose proof (close_some w i h Hinv Hi) as Hc.
      destruct (closeF w i (Some h)) as [w1 o1].
      destruct Hc as (Hinv1 & _ & [-> | ->] & _); split; auto; nc.
    - (* ODel *)
      destruct (existsb (Nat.eqb i) (w_stack B w)); [split; [auto|nc]|].
      destruct (w_objs B w i) as [|[h|]] eqn:Hi; try (split; [auto|nc]).
      + pose proof (close_some w i h Hinv Hi) as Hc.
        destruct (closeF w i (Some h)) as [w1 o1].
        destruct Hc as (Hinv1 & Hn & [-> | ->] & _); (split; [|nc]); auto.
        apply inv_set_obj_free; auto. rewrite Hn; auto.
      + apply inv_set_obj_free; auto. rewrite Hi; auto.
    - (* OWith *)
      destruct (w_objs B w i); (split; [|nc]); auto. apply inv_set_stack; auto.
    - (* OExit *)
      destruct (w_stack B w) as [|i r]; [split; [auto|nc]|].
      assert (Hinv' : inv (set_stack B w r)) by (apply inv_set_stack; auto).
      change (w_objs B (set_stack B w r) i) with (w_objs B w i).
      destruct (w_objs B w i) as [|[h|]] eqn:Hi; try (split; [auto|nc]).
      pose proof (close_some (set_stack B w r) i h Hinv' Hi) as Hc.
      destruct (closeF (set_stack B w r) i (Some h)) as [w1 o1].
      destruct Hc as (Hinv1 & _ & [-> | ->] & _); split; auto; nc.
    - (* ORead *)
      apply on_open_inv; auto. intros h Hh.
      destruct (fread B (w_fs B w) (f_st (w_files B w h)) n) as [[num data] s'].
      destruct (negb (num =? 1) && negb (n =? 0) && negb (s_eof s'));
        (split; [apply inv_set_stream; auto|nc]).
    - (* OWrite *)
      apply on_open_inv; auto. intros h Hh.
      destruct (fwrite B zero (w_fs B w) (f_st (w_files B w h)) d) as [[num fs'] s'].
      destruct (negb (num =? 1) && negb (length d =? 0));
        (split; [apply inv_set_fs; apply inv_set_stream; auto|nc]).
    - (* OSeek *)
      apply on_open_inv; auto. intros h Hh.
      destruct (fseek B (w_fs B w) (f_st (w_files B w h)) off o) as [s'|];
        (split; [|nc]); auto. apply inv_set_stream; auto.
    - apply on_open_inv; auto. intros h Hh. split; [auto|nc].
    - apply on_open_inv; auto. intros h Hh. split; [auto|nc].
    - apply on_open_inv; auto. intros h Hh. split; [auto|nc].
    - (* OPrint *)
      apply on_open_inv; auto. intros h Hh.
      destruct (negb (m_write (s_mode (f_st (w_files B w h))))); [split; [auto|nc]|].
      destruct (fwrite B zero (w_fs B w) (f_st (w_files B w h)) text) as [[num fs'] s'].
      split; [apply inv_set_fs; apply inv_set_stream; auto|nc].
    - (* OScan *)
      apply on_open_inv; auto. intros h Hh.
      destruct (negb (m_read (s_mode (f_st (w_files B w h))))); [split; [auto|nc]|].
      destruct (scan_rec B is_ws is_digit is_sign _) as [[res used] eof].
      destruct res as [[num word]|]; (split; [apply inv_set_stream; auto|nc]).
  Qed.

  Lemma run_inv : forall ops w, inv w ->
    inv (fst (runF w ops)) /\ Forall not_crash (snd (runF w ops)).
  Proof.
    induction ops as [|o r IH]; intros w Hinv; simpl.
    - split; auto.
    - pose proof (step_inv w o Hinv) as Hs. destruct (stepF w o) as [w1 o1]. destruct Hs as [Hinv1 Hnc].
      specialize (IH w1 Hinv1). destruct (runF w1 r) as [w2 xs]. simpl in *. destruct IH; split; auto.
  Qed.

  (* the statement about the ledger, free of the invariant's vocabulary *)
  Definition ledger_ok (w : world) : Prop :=
    (* nothing undefined ever reached stdio *)
    (forall e, In e (w_trace B w) -> e <> EvCloseNull /\ forall h, e <> EvStale h) /\
    (* every handle below w_nfiles came from exactly one fopen, no other handle exists *)
    (forall h, count_open h (w_trace B w) = if h <? w_nfiles B w then 1 else 0) /\
    (* fclose at most once per stream, and only on streams that were opened *)
    (forall h, count_close h (w_trace B w) <= count_open h (w_trace B w)) /\
    (* a stream has not been closed yet iff a File holds it; then exactly one File does *)
    (forall h, h < w_nfiles B w ->
       (count_close h (w_trace B w) = 0 <-> exists i, w_objs B w i = FObj (Some h))) /\
    (forall i j h, w_objs B w i = FObj (Some h) -> w_objs B w j = FObj (Some h) -> i = j).

  Lemma inv_ledger_ok : forall w, inv w -> ledger_ok w.
  Proof.
    intros w [L I N O F TC TO TU]. unfold ledger_ok, holds, closes in *.
    split; [|split; [|split; [|split]]].
    - intros e He. rewrite forallb_forall in TU. specialize (TU e He).
      destruct e; simpl in TU; try discriminate; split; try discriminate; intros; discriminate.
    - exact TO.
    - intros h. rewrite TC, TO. destruct (Nat.ltb_spec h (w_nfiles B w)).
      + apply O.
      + rewrite F; auto.
    - intros h Hh. rewrite TC. split.
      + intros Hc. apply N; auto.
      + intros [i Hi]. destruct (L _ _ Hi); auto.
    - exact I.
  Qed.

  Theorem ledger_all_histories : forall fs objs ops,
    (forall i h, objs i <> FObj (Some h)) ->
    ledger_ok (fst (runF (w_init B fs objs) ops)) /\
    Forall not_crash (snd (runF (w_init B fs objs) ops)).
  Proof.
    intros fs objs ops Hn.
    destruct (run_inv ops (w_init B fs objs) (inv_init fs objs Hn)) as [Hi Hc].
    split; [apply inv_ledger_ok; auto|auto].
  Qed.

  (* quiescence: when no File is open any more, every stream ever opened has been closed exactly once *)
  Corollary all_closed_exactly_once : forall fs objs ops,
    (forall i h, objs i <> FObj (Some h)) ->
    let w := fst (runF (w_init B fs objs) ops) in
    (forall i h, w_objs B w i <> FObj (Some h)) ->
    forall h, h < w_nfiles B w -> count_open h (w_trace B w) = 1 /\ count_close h (w_trace B w) = 1.
  Proof.
    intros fs objs ops Hn w Hq h Hh.
    destruct (ledger_all_histories fs objs ops Hn) as [(_ & HO & HC & HL & _) _]. fold w in HO, HC, HL.
    specialize (HO h). specialize (HC h). specialize (HL h Hh).
    destruct (Nat.ltb_spec h (w_nfiles B w)); [|lia].
    split; auto.
    destruct (count_close h (w_trace B w)) as [|[|k]] eqn:E; try lia.
    exfalso. destruct HL as [HL _]. destruct (HL eq_refl) as [i Hi]. eapply Hq; eauto.
  Qed.
End Proofs.
