(* FileProofs.v — proofs about FileModel.v (property C20).
   Everything is for an arbitrary byte type, arbitrary character classes, arbitrary sets of
   creatable paths and of paths whose fclose fails; the File_Close modelled is the repaired one
   (fixed_close = fixed_clear = true) except in the `_refuted` lemmas at the end. *)
From Coq Require Import List Arith Bool ZArith Lia.
From CelloV Require Import FileModel.
Import ListNotations.

Section Proofs.
  Variable B : Type.
  Variable zero : B.
  Variables is_ws is_digit is_sign : B -> bool.
  Variable creatable : nat -> bool.
  Variable close_fails : nat -> bool.

  Notation stepF := (step B zero is_ws is_digit is_sign creatable close_fails true true).
  Notation runF := (run B zero is_ws is_digit is_sign creatable close_fails true true).
  Notation closeF := (file_close B close_fails true true).
  Notation openF := (file_open B creatable close_fails true true).
  Notation sstep := (spec_step B zero is_ws is_digit is_sign creatable close_fails).
  Notation srun := (spec_run B zero is_ws is_digit is_sign creatable close_fails).
  Notation world := (world B).
  Notation out := (out B).

  (* ------------------------------------------------------------------ closed Files *)
  (* the operations that use the stream of File i (everything except creation, open, del, with) *)
  Definition uses (o : op B) (i : nat) : Prop :=
    match o with
    | OClose _ j | ORead _ j _ | OWrite _ j _ | OSeek _ j _ _ | OTell _ j | OEof _ j | OFlush _ j
    | OPrint _ j _ | OScan _ j => j = i
    | _ => False
    end.

  Lemma closed_op_raises : forall (w : world) o i,
    w_objs B w i = FObj None -> uses o i -> stepF w o = (w, ORaise B FIOError).
  Proof.
    intros w o i Hc Hu.
    destruct o; simpl in Hu; try contradiction; subst; unfold step, on_open, file_close; rewrite Hc; reflexivity.
  Qed.

  (* ------------------------------------------------------------------ the ledger invariant *)
  Definition holds (w : world) (i h : nat) : Prop := w_objs B w i = FObj (Some h).
  Definition closes (w : world) (h : nat) : nat := f_closes (w_files B w h).

  Fixpoint count_close (h : nat) (t : list event) : nat :=
    match t with
    | [] => 0
    | EvClose h' :: r => (if Nat.eqb h' h then 1 else 0) + count_close h r
    | _ :: r => count_close h r
    end.
  Fixpoint count_open (h : nat) (t : list event) : nat :=
    match t with
    | [] => 0
    | EvOpen h' :: r => (if Nat.eqb h' h then 1 else 0) + count_open h r
    | _ :: r => count_open h r
    end.
  Definition is_ub (e : event) : bool :=
    match e with EvCloseNull | EvStale _ => true | _ => false end.

  Record inv (w : world) : Prop := mkInv {
    inv_live : forall i h, holds w i h -> h < w_nfiles B w /\ closes w h = 0;
    inv_inj : forall i j h, holds w i h -> holds w j h -> i = j;
    inv_noleak : forall h, h < w_nfiles B w -> closes w h = 0 -> exists i, holds w i h;
    inv_once : forall h, closes w h <= 1;
    inv_fresh : forall h, w_nfiles B w <= h -> closes w h = 0;
    inv_tr_close : forall h, count_close h (w_trace B w) = closes w h;
    inv_tr_open : forall h, count_open h (w_trace B w) = if h <? w_nfiles B w then 1 else 0;
    inv_tr_ub : forallb (fun e => negb (is_ub e)) (w_trace B w) = true
  }.

  Ltac eqb_cases :=
    repeat match goal with
    | H : context [Nat.eqb ?a ?b] |- _ => destruct (Nat.eqb_spec a b); subst
    | |- context [Nat.eqb ?a ?b] => destruct (Nat.eqb_spec a b); subst
    end.

  Lemma inv_init : forall fs objs,
    (forall i h, objs i <> FObj (Some h)) -> inv (w_init B fs objs).
  Proof.
    intros fs objs Hn. constructor; unfold holds, closes, w_init; simpl; intros; try lia; auto.
    - exfalso; eapply Hn; eauto.
    - exfalso; eapply Hn; eauto.
  Qed.

  (* changes that do not concern handles *)
  Lemma inv_set_stream : forall w h s, inv w -> inv (set_stream B w h s).
  Proof.
    intros w h s [L I N O F TC TO TU].
    constructor; unfold holds, closes, set_stream, set_file, upd in *; simpl in *; intros.
    - specialize (L _ _ H). eqb_cases; simpl; auto.
    - eauto.
    - apply N; auto. eqb_cases; simpl in *; auto.
    - specialize (O h0). eqb_cases; simpl; auto.
    - specialize (F h0 H). eqb_cases; simpl; auto.
    - rewrite TC. eqb_cases; simpl; auto.
    - auto.
    - auto.
  Qed.

  Lemma inv_set_fs : forall w fs, inv w -> inv (set_fs B w fs).
  Proof. intros w fs [L I N O F TC TO TU]. constructor; auto. Qed.

  Lemma inv_set_stack : forall w s, inv w -> inv (set_stack B w s).
  Proof. intros w s [L I N O F TC TO TU]. constructor; auto. Qed.

  (* an object that holds no handle may be replaced by another one that holds none *)
  Definition handle_free (o : fobj) : Prop := forall h, o <> FObj (Some h).

  Lemma inv_set_obj_free : forall w i o,
    inv w -> handle_free (w_objs B w i) -> handle_free o -> inv (set_obj B w i o).
  Proof.
    intros w i o [L I N O F TC TO TU] Hf Ho.
    constructor; unfold holds, closes, set_obj, upd in *; simpl in *; intros.
    - eqb_cases. + exfalso; eapply Ho; eauto. + eauto.
    - eqb_cases; try (exfalso; eapply Ho; eauto; fail); eauto.
    - destruct (N _ H H0) as [j Hj]. exists j. eqb_cases; auto. exfalso; eapply Hf; eauto.
    - auto.
    - auto.
    - auto.
    - auto.
    - auto.
  Qed.

  Lemma free_dead : handle_free FDead. Proof. intros h H; discriminate. Qed.
  Lemma free_none : handle_free (FObj None). Proof. intros h H; discriminate. Qed.
  Hint Resolve free_dead free_none : core.

  (* File_Close on an open File: the stream is closed once, the File ends closed *)
  Lemma close_some : forall w i h,
    inv w -> holds w i h ->
    let (w1, o1) := closeF w i (Some h) in
    inv w1 /\ w_objs B w1 i = FObj None /\ (o1 = OkUnit B \/ o1 = ORaise B FIOError) /\
    (forall j, j <> i -> w_objs B w1 j = w_objs B w j) /\
    w_stack B w1 = w_stack B w /\ w_fs B w1 = w_fs B w /\
    w_trace B w1 = EvClose h :: w_trace B w /\
    (forall h', h' <> h -> w_files B w1 h' = w_files B w h').
  Proof.
    intros w i h Hinv Hh.
    destruct (inv_live _ Hinv _ _ Hh) as [Hlt Hc].
    unfold file_close, live. unfold closes in Hc. rewrite Hc. simpl Nat.eqb. cbv iota.
    assert (Hinv1 : inv (set_obj B (log B (set_file B w h (mkF (f_st (w_files B w h)) 1)) (EvClose h)) i (FObj None))).
    { destruct Hinv as [L I N O F TC TO TU].
      constructor; unfold holds, closes, set_obj, log, set_file, upd in *; simpl in *; intros.
      - eqb_cases; try discriminate; destruct (L _ _ H); simpl; auto.
        exfalso. apply n. eapply I; eauto.
      - eqb_cases; try discriminate. eauto.
      - eqb_cases; simpl in *; try discriminate.
        destruct (N _ H H0) as [j Hj]. exists j. eqb_cases; auto.
        exfalso. rewrite Hh in Hj. inversion Hj. auto.
      - eqb_cases; simpl; auto.
      - eqb_cases; simpl; auto. lia.
      - rewrite TC. eqb_cases; simpl; auto; try lia.
      - auto.
      - auto. }
    set (cond := close_fails (s_path (f_st (w_files B w h))) && (0 <? s_pos (f_st (w_files B w h)))).
    assert (Hrest : forall o1 : out, (o1 = OkUnit B \/ o1 = ORaise B FIOError) ->
       let w1 := set_obj B (log B (set_file B w h (mkF (f_st (w_files B w h)) 1)) (EvClose h)) i (FObj None) in
       inv w1 /\ w_objs B w1 i = FObj None /\ (o1 = OkUnit B \/ o1 = ORaise B FIOError) /\
       (forall j, j <> i -> w_objs B w1 j = w_objs B w j) /\
       w_stack B w1 = w_stack B w /\ w_fs B w1 = w_fs B w /\
       w_trace B w1 = EvClose h :: w_trace B w /\
       (forall h', h' <> h -> w_files B w1 h' = w_files B w h')).
    { intros o1 Ho1. simpl.
      split; [exact Hinv1|]. split; [unfold upd; rewrite Nat.eqb_refl; reflexivity|].
      split; [exact Ho1|]. split; [intros j Hj; unfold upd; destruct (Nat.eqb_spec j i); congruence|].
      split; [reflexivity|]. split; [reflexivity|]. split; [reflexivity|].
      intros h' Hh'. unfold upd. destruct (Nat.eqb_spec h' h); congruence. }
    destruct cond; apply Hrest; auto.
  Qed.

  Ltac ltb_cases :=
    repeat match goal with
    | H : context [Nat.ltb ?a ?b] |- _ => destruct (Nat.ltb_spec a b)
    | |- context [Nat.ltb ?a ?b] => destruct (Nat.ltb_spec a b)
    end.

  (* a successful fopen: a fresh handle goes into a File that holds none *)
  Lemma inv_alloc : forall w i fs' st,
    inv w -> handle_free (w_objs B w i) ->
    inv (mkW B fs' (upd (w_objs B w) i (FObj (Some (w_nfiles B w)))) (S (w_nfiles B w))
             (upd (w_files B w) (w_nfiles B w) (mkF st 0)) (w_stack B w)
             (EvOpen (w_nfiles B w) :: w_trace B w)).
  Proof.
    intros w i fs' st [L I N O F TC TO TU] Hf.
    constructor; unfold holds, closes, upd in *; simpl in *; intros.
    - eqb_cases; simpl; try (inversion H; subst; clear H); try (split; [lia|reflexivity]).
      1: { split; [lia|apply F; lia]. }
      destruct (L _ _ H1). split; [lia|auto].
    - eqb_cases; auto; try (inversion H; subst; clear H); try (inversion H0; subst; clear H0).
      all: try (match goal with H : w_objs B _ _ = FObj (Some _) |- _ => destruct (L _ _ H) end; lia).
      all: eauto.
    - eqb_cases; simpl in *.
      + exists i. rewrite Nat.eqb_refl. auto.
      + assert (Hlt : h < w_nfiles B w) by lia.
        destruct (N _ Hlt H0) as [j Hj]. exists j. eqb_cases; auto. exfalso; eapply Hf; eauto.
    - eqb_cases; simpl; auto.
    - eqb_cases; simpl; auto; try lia. apply F; lia.
    - rewrite TC. eqb_cases; simpl; auto.
    - rewrite TO. eqb_cases; ltb_cases; simpl; try lia.
    - auto.
  Qed.

  Definition not_crash (o : out) : Prop := o <> OCrash B.

  (* File_Open ends either open on a fresh stream, or closed with IOError *)
  Definition open_result (w1 : world) (i : nat) (o1 : out) : Prop :=
    (o1 = OkUnit B /\ exists h, w_objs B w1 i = FObj (Some h)) \/
    (o1 = ORaise B FIOError /\ w_objs B w1 i = FObj None).

  Lemma open_inv : forall w i ho p m,
    inv w -> w_objs B w i = FObj ho ->
    let (w1, o1) := openF w i ho p m in
    inv w1 /\ open_result w1 i o1 /\
    (forall j, j <> i -> w_objs B w1 j = w_objs B w j) /\ w_stack B w1 = w_stack B w.
  Proof.
    intros w i ho p m Hinv Hi.
    assert (Hnone : forall w0 : world, inv w0 -> w_objs B w0 i = FObj None ->
      (forall j, j <> i -> w_objs B w0 j = w_objs B w j) -> w_stack B w0 = w_stack B w ->
      let (w1, o1) := match fopen B creatable (w_fs B w0) p m with
        | None => (set_obj B w0 i (FObj None), ORaise B FIOError)
        | Some (fs', st) =>
            (mkW B fs' (upd (w_objs B w0) i (FObj (Some (w_nfiles B w0)))) (S (w_nfiles B w0))
                 (upd (w_files B w0) (w_nfiles B w0) (mkF st 0)) (w_stack B w0)
                 (EvOpen (w_nfiles B w0) :: w_trace B w0), OkUnit B)
        end in
      inv w1 /\ open_result w1 i o1 /\
      (forall j, j <> i -> w_objs B w1 j = w_objs B w j) /\ w_stack B w1 = w_stack B w).
    { intros w0 Hinv0 Hi0 Hoth Hst.
      destruct (fopen B creatable (w_fs B w0) p m) as [[fs' st]|].
      - split; [apply inv_alloc; auto; rewrite Hi0; auto|].
        unfold open_result. simpl. unfold upd.
        split; [left; rewrite Nat.eqb_refl; eauto|].
        split; [|auto]. intros j Hj. destruct (Nat.eqb_spec j i); [congruence|auto].
      - split; [apply inv_set_obj_free; auto; rewrite Hi0; auto|].
        unfold open_result. simpl. unfold upd.
        split; [right; rewrite Nat.eqb_refl; eauto|].
        split; [|auto]. intros j Hj. destruct (Nat.eqb_spec j i); [congruence|auto]. }
    unfold file_open. destruct ho as [h|].
    - pose proof (close_some w i h Hinv Hi) as Hc.
      destruct (closeF w i (Some h)) as [w1 o1].
      destruct Hc as (Hinv1 & Hi1 & Ho1 & Hoth & Hst & _).
      destruct Ho1 as [-> | ->].
      + apply Hnone; auto.
      + split; [auto|]. split; [right; auto|]. split; auto.
    - apply Hnone; auto.
  Qed.

  Ltac nc := unfold not_crash; discriminate.

  Lemma on_open_inv : forall w i (k : nat -> stream -> world * out),
    inv w ->
    (forall h, holds w i h -> let (w1, o1) := k h (f_st (w_files B w h)) in inv w1 /\ not_crash o1) ->
    let (w1, o1) := on_open B w i k in inv w1 /\ not_crash o1.
  Proof.
    intros w i k Hinv Hk. unfold on_open.
    destruct (w_objs B w i) as [|[h|]] eqn:Hi.
    - split; [auto|nc].
    - destruct (inv_live _ Hinv _ _ Hi) as [_ Hc]. unfold live. unfold closes in Hc. rewrite Hc. simpl.
      apply Hk. exact Hi.
    - split; [auto|nc].
  Qed.

  Lemma step_inv : forall w o, inv w -> let (w1, o1) := stepF w o in inv w1 /\ not_crash o1.
  Proof.
    intros w o Hinv. destruct o; cbn [step].
    - (* ONew *)
      destruct (w_objs B w i) eqn:Hi; (split; [|nc]); auto.
      apply inv_set_obj_free; auto. rewrite Hi; auto.
    - (* ONewOpen *)
      destruct (w_objs B w i) eqn:Hi; [|split; [auto|nc]].
      assert (Hinv' : inv (set_obj B w i (FObj None))) by (apply inv_set_obj_free; auto; rewrite Hi; auto).
      assert (Hi' : w_objs B (set_obj B w i (FObj None)) i = FObj None) by (simpl; unfold upd; rewrite Nat.eqb_refl; auto).
      pose proof (open_inv _ i None p m Hinv' Hi') as Ho.
      destruct (openF (set_obj B w i (FObj None)) i None p m) as [w1 o1].
      destruct Ho as (Hinv1 & [[-> _] | [-> Hn]] & _).
      + split; [auto|nc].
      + split; [|nc]. apply inv_set_obj_free; auto. rewrite Hn; auto.
    - (* OOpen *)
      destruct (w_objs B w i) as [|ho] eqn:Hi; [split; [auto|nc]|].
      pose proof (open_inv _ i ho p m Hinv Hi) as Ho.
      destruct (openF w i ho p m) as [w1 o1].
      destruct Ho as (Hinv1 & [[-> _] | [-> Hn]] & _); split; auto; nc.
    - (* OClose *)
      destruct (w_objs B w i) as [|[h|]] eqn:Hi; try (split; [auto|nc]).
      pose proof (close_some w i h Hinv Hi) as Hc.
      destruct (closeF w i (Some h)) as [w1 o1].
      destruct Hc as (Hinv1 & _ & [-> | ->] & _); split; auto; nc.
    - (* ODel *)
      destruct (existsb (Nat.eqb i) (w_stack B w)); [split; [auto|nc]|].
      destruct (w_objs B w i) as [|[h|]] eqn:Hi; try (split; [auto|nc]).
      + pose proof (close_some w i h Hinv Hi) as Hc.
        destruct (closeF w i (Some h)) as [w1 o1].
        destruct Hc as (Hinv1 & Hn & [-> | ->] & _); (split; [|nc]); auto.
        apply inv_set_obj_free; auto. rewrite Hn; auto.
      + apply inv_set_obj_free; auto. rewrite Hi; auto.
    - (* OWith *)
      destruct (w_objs B w i); (split; [|nc]); auto. apply inv_set_stack; auto.
    - (* OExit *)
      destruct (w_stack B w) as [|i r]; [split; [auto|nc]|].
      assert (Hinv' : inv (set_stack B w r)) by (apply inv_set_stack; auto).
      change (w_objs B (set_stack B w r) i) with (w_objs B w i).
      destruct (w_objs B w i) as [|[h|]] eqn:Hi; try (split; [auto|nc]).
      pose proof (close_some (set_stack B w r) i h Hinv' Hi) as Hc.
      destruct (closeF (set_stack B w r) i (Some h)) as [w1 o1].
      destruct Hc as (Hinv1 & _ & [-> | ->] & _); split; auto; nc.
    - (* ORead *)
      apply on_open_inv; auto. intros h Hh.
      destruct (fread B (w_fs B w) (f_st (w_files B w h)) n) as [[num data] s'].
      destruct (negb (num =? 1) && negb (n =? 0) && negb (s_eof s'));
        (split; [apply inv_set_stream; auto|nc]).
    - (* OWrite *)
      apply on_open_inv; auto. intros h Hh.
      destruct (fwrite B zero (w_fs B w) (f_st (w_files B w h)) d) as [[num fs'] s'].
      destruct (negb (num =? 1) && negb (length d =? 0));
        (split; [apply inv_set_fs; apply inv_set_stream; auto|nc]).
    - (* OSeek *)
      apply on_open_inv; auto. intros h Hh.
      destruct (fseek B (w_fs B w) (f_st (w_files B w h)) off o) as [s'|];
        (split; [|nc]); auto. apply inv_set_stream; auto.
    - apply on_open_inv; auto. intros h Hh. split; [auto|nc].
    - apply on_open_inv; auto. intros h Hh. split; [auto|nc].
    - apply on_open_inv; auto. intros h Hh. split; [auto|nc].
    - (* OPrint *)
      apply on_open_inv; auto. intros h Hh.
      destruct (negb (m_write (s_mode (f_st (w_files B w h))))); [split; [auto|nc]|].
      destruct (fwrite B zero (w_fs B w) (f_st (w_files B w h)) text) as [[num fs'] s'].
      split; [apply inv_set_fs; apply inv_set_stream; auto|nc].
    - (* OScan *)
      apply on_open_inv; auto. intros h Hh.
      destruct (negb (m_read (s_mode (f_st (w_files B w h))))); [split; [auto|nc]|].
      destruct (scan_rec B is_ws is_digit is_sign _) as [[res used] eof].
      destruct res as [[num word]|]; (split; [apply inv_set_stream; auto|nc]).
  Qed.

  Lemma run_inv : forall ops w, inv w ->
    inv (fst (runF w ops)) /\ Forall not_crash (snd (runF w ops)).
  Proof.
    induction ops as [|o r IH]; intros w Hinv; simpl.
    - split; auto.
    - pose proof (step_inv w o Hinv) as Hs. destruct (stepF w o) as [w1 o1]. destruct Hs as [Hinv1 Hnc].
      specialize (IH w1 Hinv1). destruct (runF w1 r) as [w2 xs]. simpl in *. destruct IH; split; auto.
  Qed.

  (* the statement about the ledger, free of the invariant's vocabulary *)
  Definition ledger_ok (w : world) : Prop :=
    (* nothing undefined ever reached stdio *)
    (forall e, In e (w_trace B w) -> e <> EvCloseNull /\ forall h, e <> EvStale h) /\
    (* every handle below w_nfiles came from exactly one fopen, no other handle exists *)
    (forall h, count_open h (w_trace B w) = if h <? w_nfiles B w then 1 else 0) /\
    (* fclose at most once per stream, and only on streams that were opened *)
    (forall h, count_close h (w_trace B w) <= count_open h (w_trace B w)) /\
    (* a stream has not been closed yet iff a File holds it; then exactly one File does *)
    (forall h, h < w_nfiles B w ->
       (count_close h (w_trace B w) = 0 <-> exists i, w_objs B w i = FObj (Some h))) /\
    (forall i j h, w_objs B w i = FObj (Some h) -> w_objs B w j = FObj (Some h) -> i = j).

  Lemma inv_ledger_ok : forall w, inv w -> ledger_ok w.
  Proof.
    intros w [L I N O F TC TO TU]. unfold ledger_ok, holds, closes in *.
    split; [|split; [|split; [|split]]].
    - intros e He. rewrite forallb_forall in TU. specialize (TU e He).
      destruct e; simpl in TU; try discriminate; split; try discriminate; intros; discriminate.
    - exact TO.
    - intros h. rewrite TC, TO. destruct (Nat.ltb_spec h (w_nfiles B w)).
      + apply O.
      + rewrite F; auto.
    - intros h Hh. rewrite TC. split.
      + intros Hc. apply N; auto.
      + intros [i Hi]. destruct (L _ _ Hi); auto.
    - exact I.
  Qed.

  Theorem ledger_all_histories : forall fs objs ops,
    (forall i h, objs i <> FObj (Some h)) ->
    ledger_ok (fst (runF (w_init B fs objs) ops)) /\
    Forall not_crash (snd (runF (w_init B fs objs) ops)).
  Proof.
    intros fs objs ops Hn.
    destruct (run_inv ops (w_init B fs objs) (inv_init fs objs Hn)) as [Hi Hc].
    split; [apply inv_ledger_ok; auto|auto].
  Qed.

  (* quiescence: when no File is open any more, every stream ever opened has been closed exactly once *)
  Corollary all_closed_exactly_once : forall fs objs ops,
    (forall i h, objs i <> FObj (Some h)) ->
    let w := fst (runF (w_init B fs objs) ops) in
    (forall i h, w_objs B w i <> FObj (Some h)) ->
    forall h, h < w_nfiles B w -> count_open h (w_trace B w) = 1 /\ count_close h (w_trace B w) = 1.
  Proof.
    intros fs objs ops Hn w Hq h Hh.
    destruct (ledger_all_histories fs objs ops Hn) as [(_ & HO & HC & HL & _) _]. fold w in HO, HC, HL.
    specialize (HO h). specialize (HC h). specialize (HL h Hh).
    destruct (Nat.ltb_spec h (w_nfiles B w)); [|lia].
    split; auto.
    destruct (count_close h (w_trace B w)) as [|[|k]] eqn:E; try lia.
    exfalso. destruct HL as [HL _]. destruct (HL eq_refl) as [i Hi]. eapply Hq; eauto.
  Qed.

  (* ------------------------------------------------------------------ refinement of the specification *)
  Notation sworld := (sworld B).
  Notation absW := (abs B).
  Definition sw_equiv (a b : sworld) : Prop :=
    sw_fs B a = sw_fs B b /\ (forall i, sw_objs B a i = sw_objs B b i) /\ sw_stack B a = sw_stack B b.

  (* one File changes; the streams of the other Files are untouched *)
  Lemma abs_frame : forall (w w1 : world) (a : sworld) i so fs1 st1,
    sw_equiv a (absW w) ->
    (forall j, j <> i -> w_objs B w1 j = w_objs B w j) ->
    (forall j h', j <> i -> holds w j h' -> w_files B w1 h' = w_files B w h') ->
    abs_obj B w1 (w_objs B w1 i) = so ->
    w_fs B w1 = fs1 -> w_stack B w1 = st1 ->
    sw_equiv (mkSW B fs1 (upd (sw_objs B a) i so) st1) (absW w1).
  Proof.
    intros w w1 a i so fs1 st1 (Hfs & Hob & Hst) Hoth Hfiles Hi Hf Hs.
    unfold sw_equiv, abs; simpl. split; [auto|]. split; [|auto].
    intros j. unfold upd. destruct (Nat.eqb_spec j i) as [->|Hne]; [auto|].
    rewrite Hob. simpl. rewrite (Hoth j Hne).
    destruct (w_objs B w j) as [|[h'|]] eqn:Ej; simpl; auto.
    rewrite (Hfiles j h' Hne Ej). auto.
  Qed.

  Lemma equiv_obj : forall (a : sworld) (w : world) i,
    sw_equiv a (absW w) -> sw_objs B a i = abs_obj B w (w_objs B w i).
  Proof. intros a w i (_ & H & _). rewrite H. reflexivity. Qed.
  Lemma equiv_fs : forall (a : sworld) (w : world), sw_equiv a (absW w) -> sw_fs B a = w_fs B w.
  Proof. intros a w (H & _ & _). rewrite H. reflexivity. Qed.
  Lemma equiv_stack : forall (a : sworld) (w : world), sw_equiv a (absW w) -> sw_stack B a = w_stack B w.
  Proof. intros a w (_ & _ & H). rewrite H. reflexivity. Qed.

  (* File_Close of an open File against the specification's close *)
  Lemma close_refines : forall (w : world) (a : sworld) i h,
    inv w -> sw_equiv a (absW w) -> holds w i h ->
    let (w1, o1) := closeF w i (Some h) in
    let (a1, o1') := s_close B close_fails a i (SOpen (f_st (w_files B w h))) in
    o1' = o1 /\ sw_equiv a1 (absW w1).
  Proof.
    intros w a i h Hinv Heq Hh.
    pose proof (close_some w i h Hinv Hh) as Hc.
    destruct (inv_live _ Hinv _ _ Hh) as [Hlt Hcl].
    unfold file_close, live in *. unfold closes in Hcl. rewrite Hcl in *. simpl Nat.eqb in *. cbv iota in *.
    unfold s_close.
    destruct (close_fails (s_path (f_st (w_files B w h))) && (0 <? s_pos (f_st (w_files B w h))));
      destruct Hc as (_ & Hn & _ & Hoth & Hst & Hfs & _ & Hfl); (split; [reflexivity|]);
      unfold s_set; rewrite <- (equiv_fs _ _ Heq) in Hfs; rewrite <- (equiv_stack _ _ Heq) in Hst;
      (eapply abs_frame; eauto; [intros j h' Hj Hh'; apply Hfl; intros ->; apply Hj; eapply inv_inj; eauto
                                | rewrite Hn; reflexivity]).
  Qed.

  Lemma open_none_refines : forall (w : world) (a : sworld) i p m,
    inv w -> sw_equiv a (absW w) -> w_objs B w i = FObj None ->
    let (w1, o1) := openF w i None p m in
    let (a1, o1') := s_open B creatable a i p m in
    o1' = o1 /\ sw_equiv a1 (absW w1).
  Proof.
    intros w a i p m Hinv Heq Hi. unfold file_open, s_open. rewrite (equiv_fs _ _ Heq).
    destruct (fopen B creatable (w_fs B w) p m) as [[fs' st]|].
    - split; [reflexivity|]. rewrite (equiv_stack _ _ Heq).
      eapply abs_frame; eauto; simpl.
      + intros j Hj. unfold upd. destruct (Nat.eqb_spec j i); [contradiction|auto].
      + intros j h' Hj Hh'. unfold upd. destruct (Nat.eqb_spec h' (w_nfiles B w)); [|auto].
        destruct (inv_live _ Hinv _ _ Hh'). lia.
      + unfold upd. rewrite Nat.eqb_refl. simpl. rewrite Nat.eqb_refl. reflexivity.
    - split; [reflexivity|]. unfold s_set. rewrite (equiv_stack _ _ Heq).
      eapply abs_frame; eauto; simpl.
      + intros j Hj. unfold upd. destruct (Nat.eqb_spec j i); [contradiction|auto].
      + unfold upd. rewrite Nat.eqb_refl. reflexivity.
      + symmetry. apply equiv_fs; auto.
  Qed.

  Lemma open_refines : forall (w : world) (a : sworld) i ho p m,
    inv w -> sw_equiv a (absW w) -> w_objs B w i = FObj ho ->
    let (w1, o1) := openF w i ho p m in
    let (a1, o1') := s_reopen B creatable close_fails a i p m in
    o1' = o1 /\ sw_equiv a1 (absW w1).
  Proof.
    intros w a i ho p m Hinv Heq Hi. unfold s_reopen. rewrite (equiv_obj _ _ i Heq), Hi.
    destruct ho as [h|]; simpl abs_obj; cbv iota.
    - pose proof (close_refines w a i h Hinv Heq Hi) as Hr.
      pose proof (close_some w i h Hinv Hi) as Hc.
      unfold file_open.
      destruct (closeF w i (Some h)) as [w1 o1].
      destruct (s_close B close_fails a i (SOpen (f_st (w_files B w h)))) as [a1 o1'].
      destruct Hr as [-> Heq1]. destruct Hc as (Hinv1 & Hn & [-> | ->] & _).
      + pose proof (open_none_refines w1 a1 i p m Hinv1 Heq1 Hn) as Ho.
        unfold file_open in Ho. exact Ho.
      + split; auto.
    - apply open_none_refines; auto.
  Qed.

  Lemma on_open_refines : forall (w : world) (a : sworld) i
      (k : nat -> stream -> world * out) (ks : stream -> sworld * out),
    inv w -> sw_equiv a (absW w) ->
    (forall h, holds w i h ->
       let (w1, o1) := k h (f_st (w_files B w h)) in
       let (a1, o1') := ks (f_st (w_files B w h)) in o1' = o1 /\ sw_equiv a1 (absW w1)) ->
    let (w1, o1) := on_open B w i k in
    let (a1, o1') := s_on_open B a i ks in o1' = o1 /\ sw_equiv a1 (absW w1).
  Proof.
    intros w a i k ks Hinv Heq Hk. unfold on_open, s_on_open. rewrite (equiv_obj _ _ i Heq).
    destruct (w_objs B w i) as [|[h|]] eqn:Hi; simpl abs_obj; cbv iota.
    - split; auto.
    - destruct (inv_live _ Hinv _ _ Hi) as [_ Hc]. unfold live. unfold closes in Hc. rewrite Hc. simpl.
      apply Hk. exact Hi.
    - split; auto.
  Qed.

  (* the stream of File i moves on (and perhaps its file changes) *)
  Lemma stream_refines : forall (w : world) (a : sworld) i h s' fs1,
    inv w -> sw_equiv a (absW w) -> holds w i h ->
    sw_equiv (mkSW B fs1 (upd (sw_objs B a) i (SOpen s')) (sw_stack B a))
             (absW (set_fs B (set_stream B w h s') fs1)).
  Proof.
    intros w a i h s' fs1 Hinv Heq Hh.
    eapply abs_frame; eauto; simpl.
    - intros j h' Hj Hh'. unfold upd. destruct (Nat.eqb_spec h' h) as [->|]; [|auto].
      exfalso. apply Hj. eapply inv_inj; eauto.
    - unfold holds in Hh. rewrite Hh. simpl. unfold upd. rewrite Nat.eqb_refl. reflexivity.
    - symmetry. apply equiv_stack; auto.
  Qed.

  Lemma stream_refines' : forall (w : world) (a : sworld) i h s',
    inv w -> sw_equiv a (absW w) -> holds w i h ->
    sw_equiv (s_set B a i (SOpen s')) (absW (set_stream B w h s')).
  Proof.
    intros w a i h s' Hinv Heq Hh. unfold s_set.
    pose proof (stream_refines w a i h s' (sw_fs B a) Hinv Heq Hh) as H.
    destruct H as (H1 & H2 & H3). split; [|split]; auto.
    simpl. apply equiv_fs; auto.
  Qed.

  Lemma equiv_set_obj : forall (w : world) (a : sworld) i o so,
    sw_equiv a (absW w) -> handle_free o -> abs_obj B w o = so ->
    sw_equiv (s_set B a i so) (absW (set_obj B w i o)).
  Proof.
    intros w a i o so Heq Hf Ho. unfold s_set.
    eapply abs_frame; eauto; simpl.
    - intros j Hj. unfold upd. destruct (Nat.eqb_spec j i); [contradiction|auto].
    - unfold upd. rewrite Nat.eqb_refl. destruct o as [|[h|]]; simpl in *; auto.
    - symmetry; apply equiv_fs; auto.
    - symmetry; apply equiv_stack; auto.
  Qed.

  Lemma step_refines : forall (w : world) (a : sworld) o,
    inv w -> sw_equiv a (absW w) ->
    let (w1, o1) := stepF w o in
    let (a1, o1') := sstep a o in o1' = o1 /\ sw_equiv a1 (absW w1).
  Proof.
    intros w a o Hinv Heq. destruct o; cbn [step spec_step].
    - (* ONew *)
      rewrite (equiv_obj _ _ i Heq).
      destruct (w_objs B w i) as [|[h|]] eqn:Hi; simpl abs_obj; cbv iota; (split; [reflexivity|]); auto.
      apply equiv_set_obj; auto.
    - (* ONewOpen *)
      rewrite (equiv_obj _ _ i Heq).
      destruct (w_objs B w i) as [|[h|]] eqn:Hi; simpl abs_obj; cbv iota; try (split; [reflexivity|auto]).
      assert (Hinv' : inv (set_obj B w i (FObj None))) by (apply inv_set_obj_free; auto; rewrite Hi; auto).
      assert (Heq' : sw_equiv (s_set B a i SClosed) (absW (set_obj B w i (FObj None)))) by (apply equiv_set_obj; auto).
      assert (Hi' : w_objs B (set_obj B w i (FObj None)) i = FObj None) by (simpl; unfold upd; rewrite Nat.eqb_refl; auto).
      pose proof (open_none_refines _ _ i p m Hinv' Heq' Hi') as Hr.
      pose proof (open_inv _ i None p m Hinv' Hi') as Ho.
      destruct (openF (set_obj B w i (FObj None)) i None p m) as [w1 o1].
      destruct (s_open B creatable (s_set B a i SClosed) i p m) as [a1 o1'].
      destruct Hr as [-> Heq1]. destruct Ho as (Hinv1 & [[-> _] | [-> Hn]] & _).
      + split; auto.
      + split; auto. apply equiv_set_obj; auto.
    - (* OOpen *)
      destruct (w_objs B w i) as [|ho] eqn:Hi.
      + unfold s_reopen. rewrite (equiv_obj _ _ i Heq), Hi. simpl. split; auto.
      + apply open_refines; auto.
    - (* OClose *)
      rewrite (equiv_obj _ _ i Heq).
      destruct (w_objs B w i) as [|[h|]] eqn:Hi; simpl abs_obj.
      + simpl. split; auto.
      + apply close_refines; auto.
      + simpl. split; auto.
    - (* ODel *)
      rewrite (equiv_stack _ _ Heq).
      destruct (existsb (Nat.eqb i) (w_stack B w)); [split; auto|].
      rewrite (equiv_obj _ _ i Heq).
      destruct (w_objs B w i) as [|[h|]] eqn:Hi; simpl abs_obj; cbv iota.
      + split; auto.
      + pose proof (close_refines w a i h Hinv Heq Hi) as Hr.
        pose proof (close_some w i h Hinv Hi) as Hc.
        destruct (closeF w i (Some h)) as [w1 o1].
        destruct (s_close B close_fails a i (SOpen (f_st (w_files B w h)))) as [a1 o1'].
        destruct Hr as [-> Heq1]. destruct Hc as (Hinv1 & Hn & [-> | ->] & _).
        * split; auto. apply equiv_set_obj; auto.
        * split; auto.
      + split; auto. apply equiv_set_obj; auto.
    - (* OWith *)
      rewrite (equiv_obj _ _ i Heq).
      destruct (w_objs B w i) as [|[h|]] eqn:Hi; simpl abs_obj; cbv iota; (split; [reflexivity|]); auto.
      all: destruct Heq as (H1 & H2 & H3); split; [|split]; simpl; auto; f_equal; auto.
    - (* OExit *)
      rewrite (equiv_stack _ _ Heq).
      destruct (w_stack B w) as [|i r] eqn:Hs; [split; auto|].
      assert (Hinv' : inv (set_stack B w r)) by (apply inv_set_stack; auto).
      assert (Heq' : sw_equiv (mkSW B (sw_fs B a) (sw_objs B a) r) (absW (set_stack B w r))).
      { destruct Heq as (H1 & H2 & H3); split; [|split]; simpl; auto. }
      change (w_objs B (set_stack B w r) i) with (w_objs B w i).
      change (sw_objs B (mkSW B (sw_fs B a) (sw_objs B a) r) i) with (sw_objs B a i).
      rewrite (equiv_obj _ _ i Heq).
      destruct (w_objs B w i) as [|[h|]] eqn:Hi; simpl abs_obj.
      + simpl. split; auto.
      + apply (close_refines (set_stack B w r) _ i h Hinv' Heq' Hi).
      + simpl. split; auto.
    - (* ORead *)
      apply on_open_refines; auto. intros h Hh. rewrite (equiv_fs _ _ Heq).
      destruct (fread B (w_fs B w) (f_st (w_files B w h)) n) as [[num data] s'].
      destruct (negb (num =? 1) && negb (n =? 0) && negb (s_eof s')); (split; [reflexivity|]);
        apply stream_refines'; auto.
    - (* OWrite *)
      apply on_open_refines; auto. intros h Hh. rewrite (equiv_fs _ _ Heq).
      destruct (fwrite B zero (w_fs B w) (f_st (w_files B w h)) d) as [[num fs'] s'].
      destruct (negb (num =? 1) && negb (length d =? 0)); (split; [reflexivity|]);
        apply stream_refines; auto.
    - (* OSeek *)
      apply on_open_refines; auto. intros h Hh. rewrite (equiv_fs _ _ Heq).
      destruct (fseek B (w_fs B w) (f_st (w_files B w h)) off o) as [s'|]; (split; [reflexivity|]); auto.
      apply stream_refines'; auto.
    - apply on_open_refines; auto; intros h Hh; split; auto.
    - apply on_open_refines; auto; intros h Hh; split; auto.
    - apply on_open_refines; auto; intros h Hh; split; auto.
    - (* OPrint *)
      apply on_open_refines; auto. intros h Hh. rewrite (equiv_fs _ _ Heq).
      destruct (negb (m_write (s_mode (f_st (w_files B w h))))); [split; auto|].
      destruct (fwrite B zero (w_fs B w) (f_st (w_files B w h)) text) as [[num fs'] s'].
      split; [reflexivity|]. apply stream_refines; auto.
    - (* OScan *)
      apply on_open_refines; auto. intros h Hh. rewrite (equiv_fs _ _ Heq).
      destruct (negb (m_read (s_mode (f_st (w_files B w h))))); [split; auto|].
      destruct (scan_rec B is_ws is_digit is_sign _) as [[res used] eof].
      destruct res as [[num word]|]; (split; [reflexivity|]); apply stream_refines'; auto.
  Qed.

  Theorem run_refines : forall ops (w : world) (a : sworld),
    inv w -> sw_equiv a (absW w) ->
    snd (srun a ops) = snd (runF w ops) /\ sw_equiv (fst (srun a ops)) (absW (fst (runF w ops))).
  Proof.
    induction ops as [|o r IH]; intros w a Hinv Heq; simpl.
    - split; auto.
    - pose proof (step_refines w a o Hinv Heq) as Hs.
      pose proof (step_inv w o Hinv) as Hi.
      destruct (stepF w o) as [w1 o1]. destruct (sstep a o) as [a1 o1'].
      destruct Hs as [-> Heq1]. destruct Hi as [Hinv1 _].
      specialize (IH w1 a1 Hinv1 Heq1).
      destruct (runF w1 r) as [w2 xs]. destruct (srun a1 r) as [a2 xs']. simpl in *.
      destruct IH as [-> Heq2]. split; auto.
  Qed.

  Lemma equiv_refl : forall w : world, sw_equiv (absW w) (absW w).
  Proof. intros w. split; [|split]; auto. Qed.

  (* ------------------------------------------------------------------ frame: other Files are untouched *)
  Definition target (stack : list nat) (o : op B) : option nat :=
    match o with
    | ONew _ i | ONewOpen _ i _ _ | OOpen _ i _ _ | OClose _ i | ODel _ i | OWith _ i
    | ORead _ i _ | OWrite _ i _ | OSeek _ i _ _ | OTell _ i | OEof _ i | OFlush _ i
    | OPrint _ i _ | OScan _ i => Some i
    | OExit _ => match stack with [] => None | i :: _ => Some i end
    end.

  Ltac frame_crush :=
    repeat (simpl in *; unfold s_set, upd in *;
            match goal with
            | H : Some _ = Some _ |- _ => inversion H; subst; clear H
            | H : ?a <> ?a |- _ => contradiction
            | H : Some ?a <> Some ?b |- context [Nat.eqb ?b ?a] => destruct (Nat.eqb_spec b a); [subst; contradiction|]
            | |- context [Nat.eqb ?a ?b] => destruct (Nat.eqb_spec a b); subst
            | |- context [match ?x with _ => _ end] => destruct x eqn:?
            | _ => congruence
            end).

  Lemma s_close_frame : forall (a : sworld) i so j,
    j <> i -> sw_objs B (fst (s_close B close_fails a i so)) j = sw_objs B a j.
  Proof. intros a i so j Hj. unfold s_close. frame_crush. Qed.

  Lemma s_open_frame : forall (a : sworld) i p m j,
    j <> i -> sw_objs B (fst (s_open B creatable a i p m)) j = sw_objs B a j.
  Proof. intros a i p m j Hj. unfold s_open. frame_crush. Qed.

  Lemma s_reopen_frame : forall (a : sworld) i p m j,
    j <> i -> sw_objs B (fst (s_reopen B creatable close_fails a i p m)) j = sw_objs B a j.
  Proof.
    intros a i p m j Hj. unfold s_reopen.
    destruct (sw_objs B a i) as [| |s0] eqn:E.
    - reflexivity.
    - apply s_open_frame; auto.
    - pose proof (s_close_frame a i (SOpen s0) j Hj) as Hc.
      destruct (s_close B close_fails a i (SOpen s0)) as [a1 o1]. simpl in Hc.
      destruct o1; simpl; auto.
      rewrite <- Hc. apply s_open_frame; auto.
  Qed.

  Lemma s_on_open_frame : forall (a : sworld) i k j,
    (forall s, sw_objs B (fst (k s)) j = sw_objs B a j) ->
    sw_objs B (fst (s_on_open B a i k)) j = sw_objs B a j.
  Proof. intros a i k j Hk. unfold s_on_open. destruct (sw_objs B a i); simpl; auto. Qed.

  Lemma spec_frame : forall (a : sworld) o j,
    target (sw_stack B a) o <> Some j -> sw_objs B (fst (sstep a o)) j = sw_objs B a j.
  Proof.
    intros a o j Ht.
    destruct o; unfold target in Ht; cbn [spec_step];
      try (assert (Hj : j <> i) by congruence).
    - frame_crush.
    - destruct (sw_objs B a i) eqn:E; simpl; auto.
      pose proof (s_open_frame (s_set B a i SClosed) i p m j Hj) as Ho.
      destruct (s_open B creatable (s_set B a i SClosed) i p m) as [a1 o1]. simpl in Ho.
      assert (Hs : sw_objs B (s_set B a i SClosed) j = sw_objs B a j)
        by (simpl; unfold upd; destruct (Nat.eqb_spec j i); congruence).
      destruct o1; simpl; try (rewrite Ho; exact Hs).
      all: unfold upd; destruct (Nat.eqb_spec j i); try congruence; rewrite Ho; exact Hs.
    - apply s_reopen_frame; auto.
    - apply s_close_frame; auto.
    - destruct (existsb (Nat.eqb i) (sw_stack B a)); [reflexivity|].
      destruct (sw_objs B a i) as [| |s0] eqn:E.
      + reflexivity.
      + simpl. unfold upd. destruct (Nat.eqb_spec j i); congruence.
      + pose proof (s_close_frame a i (SOpen s0) j Hj) as Hc.
        destruct (s_close B close_fails a i (SOpen s0)) as [a1 o1]. simpl in Hc.
        destruct o1; simpl; auto. unfold upd. destruct (Nat.eqb_spec j i); congruence.
    - frame_crush.
    - destruct (sw_stack B a) as [|i r] eqn:E; simpl; auto.
      assert (Hj : j <> i) by congruence.
      apply (s_close_frame (mkSW B (sw_fs B a) (sw_objs B a) r) i _ j Hj).
    - apply s_on_open_frame. intros s. frame_crush.
    - apply s_on_open_frame. intros s. frame_crush.
    - apply s_on_open_frame. intros s. frame_crush.
    - apply s_on_open_frame. intros s. frame_crush.
    - apply s_on_open_frame. intros s. frame_crush.
    - apply s_on_open_frame. intros s. frame_crush.
    - apply s_on_open_frame. intros s. frame_crush.
    - apply s_on_open_frame. intros s. frame_crush.
  Qed.

  Theorem step_frame : forall (w : world) o j,
    inv w -> target (w_stack B w) o <> Some j ->
    abs_obj B (fst (stepF w o)) (w_objs B (fst (stepF w o)) j) = abs_obj B w (w_objs B w j).
  Proof.
    intros w o j Hinv Ht.
    pose proof (step_refines w (absW w) o Hinv (equiv_refl w)) as Hr.
    pose proof (spec_frame (absW w) o j Ht) as Hf.
    destruct (stepF w o) as [w1 o1]. destruct (sstep (absW w) o) as [a1 o1'].
    destruct Hr as [_ (_ & Hob & _)]. simpl in *.
    rewrite <- (Hob j). exact Hf.
  Qed.

  Theorem reachable_inv : forall fs objs ops,
    (forall i h, objs i <> FObj (Some h)) -> inv (fst (runF (w_init B fs objs) ops)).
  Proof. intros fs objs ops Hn. apply run_inv. apply inv_init. exact Hn. Qed.
End Proofs.
