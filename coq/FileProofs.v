(* FileProofs.v — proofs about FileModel.v (property C20). *)
From Coq Require Import List Arith Bool ZArith Lia.
From CelloV Require Import FileModel.
Import ListNotations.

Section Proofs.
  Variable B : Type.
  Variable zero : B.
  Variables is_ws is_digit is_sign : B -> bool.
  Variable creatable : nat -> bool.
  Variable close_fails : nat -> bool.

  Notation stepF := (step B zero is_ws is_digit is_sign creatable close_fails true true).
  Notation world := (world B).

  (* the operations that use the stream of File i (everything except creation, open, del, with) *)
  Definition uses (o : op B) (i : nat) : Prop :=
    match o with
    | OClose _ j | ORead _ j _ | OWrite _ j _ | OSeek _ j _ _ | OTell _ j | OEof _ j | OFlush _ j
    | OPrint _ j _ | OScan _ j => j = i
    | _ => False
    end.

  Lemma closed_op_raises : forall (w : world) o i,
    w_objs B w i = FObj None -> uses o i -> stepF w o = (w, ORaise B FIOError).
  Proof.
    intros w o i Hc Hu.
    destruct o; simpl in Hu; try contradiction; subst; cbn [step on_open]; rewrite Hc; reflexivity.
  Qed.
End Proofs.
