(* Properties_C07.v — property C07: try / catch / throw follow block structure.
   Only statements closed by `exact`, each followed by Print Assumptions.
   mach = mrun exc_max_depth clear_active_on_catch throw_records_obj_after_format try_keeps_obj: the
   machine (struct Exception + the C functions of src/Exception.c + the expansion of the try/catch/
   throw macros) with all four parameters re-read from the working tree; ref_run d c = structured big-step semantics of the same program tree at
   nesting level d, started with message c in the record (the message register is threaded because
   a throw with the empty format keeps the previous message); objects are identities, kind_of o is
   the eq-class exception_catch matches by. *)
From CelloV Require Import Generated Exn ExnProofs ExnTie.
From Coq Require Import List.
Import ListNotations.

(* For every program tree and every machine state whose depth leaves room for the tree's nesting:
   same observations (statements executed, handlers entered with the bound object and message,
   depth at each), depth and jump-buffer stack restored; normal end leaves [active] clear; a raise
   leaves the thrown object/message in the record and goes to the innermost enclosing buffer, or
   kills the program (Exception_Error) when there is none. *)
Theorem exn_machine_refines_structured : forall p ret brk st,
  exits_ok ret brk p = true ->
  depth st + nesting p <= exc_max_depth ->
  let '(tr, r, st') := mach p st in
  let '(tr0, r0, c') := ref_run (depth st) (msg st) p in
  tr = tr0 /\ depth st' = depth st /\ bufs st' = bufs st /\ msg st' = c' /\
  match r0 with
  | RNormal => r = MNormal /\ (active st = false -> active st' = false)
  | RRaised k m =>
      obj st' = Some k /\ msg st' = m /\
      match bufs st with
      | [] => r = MDied (Some k) m
      | t :: _ => r = MJump t
      end
  | RExit k => r = MExit k /\ (active st = false -> active st' = false)
  end.
Proof. exact ExnProofs.machine_refines_structured. Qed.
Print Assumptions exn_machine_refines_structured.

Example exn_machine_refines_structured_nonvacuous :
  depth st_init + nesting (PTry (PSeq (PTry (PThrow 1 0 PSkip) [10] (PTick 1)) (PTick 2)) [0] (PThrow 20 3 PSkip)) <= exc_max_depth
  /\ depth (MS None 0 [1; 0] true) + nesting (nest (exc_max_depth - 2) (PThrow 0 1 PSkip)) <= exc_max_depth.
Proof. split; apply PeanoNat.Nat.leb_le; vm_compute; reflexivity. Qed.

(* A whole program on a thread's fresh record: it ends normally at depth 0 exactly when the
   structured semantics does, and otherwise dies with failure status and the diagnostic for the
   object/message the structured semantics leaves unhandled. *)
Theorem exn_whole_program : forall p, exits_ok true false p = true -> nesting p <= exc_max_depth ->
  let '(tr, r, st') := mach p st_init in
  let '(tr0, r0, c') := ref_run 0 0 p in
  tr = tr0 /\ depth st' = 0 /\
  r = match r0 with RNormal => MNormal | RRaised k m => MDied (Some k) m | RExit k => MExit k end.
Proof. exact ExnProofs.whole_program. Qed.
Print Assumptions exn_whole_program.

Example exn_whole_program_nonvacuous :
  nesting (nest exc_max_depth (PThrow 0 1 PSkip)) <= exc_max_depth
  /\ snd (fst (ref_run 0 0 (PTry (PThrow 0 1 PSkip) [10] PSkip))) = RRaised 0 1.
Proof. split; [apply PeanoNat.Nat.leb_le; vm_compute; reflexivity | reflexivity]. Qed.

(* A handled exception never fires again in an enclosing block: a try whose body ends normally
   (every exception raised in it was handled by a block inside it) never enters its handler. *)
Theorem exn_handled_not_seen_outside : forall B fs h st,
  exits_ok false false B = true ->
  depth st + S (nesting B) <= exc_max_depth ->
  snd (fst (ref_run (S (depth st)) (msg st) B)) = RNormal ->
  let '(tr, r, st') := mach (PTry B fs h) st in
  tr = fst (fst (ref_run (S (depth st)) (msg st) B)) /\ r = MNormal /\ depth st' = depth st /\ active st' = false.
Proof. exact ExnProofs.handled_not_seen_outside. Qed.
Print Assumptions exn_handled_not_seen_outside.

Example exn_handled_not_seen_outside_nonvacuous :
  depth st_init + S (nesting (PTry (PThrow 0 5 PSkip) [0] (PTick 1))) <= exc_max_depth
  /\ snd (fst (ref_run (S (depth st_init)) (msg st_init) (PTry (PThrow 0 5 PSkip) [0] (PTick 1)))) = RNormal.
Proof. split; [apply PeanoNat.Nat.leb_le; vm_compute; reflexivity | reflexivity]. Qed.

(* The structured semantics [ref_run] the theorems above compare with is the relation [eval]
   (Exn.v: one rule per way a construct can end). *)
Theorem exn_reference_is_eval : forall d c p t r c', eval d c p t r c' <-> ref_run d c p = (t, r, c').
Proof. exact ExnProofs.eval_iff_ref_run. Qed.
Print Assumptions exn_reference_is_eval.

Theorem exn_machine_follows_eval : forall p ret brk st t r0 c',
  exits_ok ret brk p = true ->
  depth st + nesting p <= exc_max_depth ->
  eval (depth st) (msg st) p t r0 c' ->
  let '(tr, r, st') := mach p st in
  tr = t /\ depth st' = depth st /\ msg st' = c' /\
  match r0 with
  | RNormal => r = MNormal
  | RRaised k m => obj st' = Some k /\ msg st' = m /\
                   match bufs st with [] => r = MDied (Some k) m | b :: _ => r = MJump b end
  | RExit k => r = MExit k
  end.
Proof. exact ExnProofs.machine_follows_eval. Qed.
Print Assumptions exn_machine_follows_eval.

Example exn_machine_follows_eval_nonvacuous :
  depth st_init + nesting (PTry (PTry (PThrow 2 5 PSkip) [10] (PTick 1)) [0; 20] (PTick 2)) <= exc_max_depth /\
  eval (depth st_init) (msg st_init) (PTry (PTry (PThrow 2 5 PSkip) [10] (PTick 1)) [0; 20] (PTick 2)) [EHandler 2 5 0; ETick 2 0] RNormal 5.
Proof. split; [apply PeanoNat.Nat.leb_le; vm_compute; reflexivity | apply ExnProofs.eval_iff_ref_run; reflexivity]. Qed.

(* "A handler runs if and only if an exception raised in its own try body was not already handled
   by an inner block and matches its filter (an empty filter matches everything)"; accepts fs o =
   the filter is empty or one of its entries is `eq` to o (same kind); when it runs it
   is entered once, with the escaped exception bound, and the block ends as the handler ends. *)
Theorem exn_handler_runs_iff : forall d c b fs h t r c',
  eval d c (PTry b fs h) t r c' ->
  forall t1 r1 c1, eval (S d) c b t1 r1 c1 ->
  ((exists k m, r1 = RRaised k m /\ accepts fs k) <->
   (exists k m t2, t = t1 ++ EHandler k m d :: t2)) /\
  (forall k m t2, t = t1 ++ EHandler k m d :: t2 ->
     r1 = RRaised k m /\ exists r2, eval d c1 h t2 r2 c' /\ r = rhandler_end r2).
Proof. exact ExnProofs.handler_runs_iff. Qed.
Print Assumptions exn_handler_runs_iff.

Example exn_handler_runs_iff_nonvacuous :
  eval 0 4 (PTry (PThrow 11 0 PSkip) [0; 10] (PTick 3)) [EHandler 11 4 0; ETick 3 0] RNormal 4 /\
  eval 1 4 (PThrow 11 0 PSkip) [] (RRaised 11 4) 4.
Proof. split; apply ExnProofs.eval_iff_ref_run; reflexivity. Qed.

(* "A non-matching exception continues to the nearest enclosing matching handler": p raises k inside
   blocks pre (innermost first) none of which accepts k, inside a block that does, inside anything:
   none of the skipped handlers runs, the accepting one is entered with k at its own depth. *)
Theorem exn_nearest_matching_handler : forall pre fs h p ret brk st t1 k m c1,
  exits_ok ret brk (chain (pre ++ [(fs, h)]) p) = true ->
  depth st + nesting (chain (pre ++ [(fs, h)]) p) <= exc_max_depth ->
  ref_run (S (length pre + depth st)) (msg st) p = (t1, RRaised k m, c1) ->
  Forall (fun lv => rejects (fst lv) k) pre ->
  accepts fs k ->
  let '(tr, r, st') := mach (chain (pre ++ [(fs, h)]) p) st in
  let '(t2, r2, c2) := ref_run (depth st) c1 h in
  tr = t1 ++ EHandler k m (depth st) :: t2 /\ depth st' = depth st /\
  (r2 = RNormal -> r = MNormal).
Proof. exact ExnProofs.machine_nearest_matching_handler. Qed.
Print Assumptions exn_nearest_matching_handler.

Example exn_nearest_matching_handler_nonvacuous :
  depth st_init + nesting (chain ([([10], PTick 1); ([20; 31], PTick 2)] ++ [([1], PTick 3)]) (PThrow 0 9 PSkip)) <= exc_max_depth /\
  ref_run (S (length [([10], PTick 1); ([20; 31], PTick 2)] + depth st_init)) (msg st_init) (PThrow 0 9 PSkip) = ([], RRaised 0 9, 9) /\
  Forall (fun lv : list nat * prog => rejects (fst lv) 0) [([10], PTick 1); ([20; 31], PTick 2)].
Proof.
  split; [apply PeanoNat.Nat.leb_le; vm_compute; reflexivity|]. split; [reflexivity|].
  repeat constructor; cbn; try discriminate; intros f Hf; intuition (subst; discriminate).
Qed.

(* "... and one that nobody handles terminates the program with a failure status and a diagnostic" *)
Theorem exn_nobody_matches_dies : forall pre p t1 k m c1,
  exits_ok true false (chain pre p) = true ->
  nesting (chain pre p) <= exc_max_depth ->
  ref_run (length pre) 0 p = (t1, RRaised k m, c1) ->
  Forall (fun lv => rejects (fst lv) k) pre ->
  let '(tr, r, st') := mach (chain pre p) st_init in
  tr = t1 /\ r = MDied (Some k) m /\ depth st' = 0.
Proof. exact ExnProofs.machine_nobody_matches. Qed.
Print Assumptions exn_nobody_matches_dies.

Example exn_nobody_matches_dies_nonvacuous :
  nesting (chain [([10], PTick 1); ([20; 31], PTick 2)] (PSeq (PTick 5) (PThrow 0 9 PSkip))) <= exc_max_depth /\
  ref_run (length [([10], PTick 1); ([20; 31], PTick 2)]) 0 (PSeq (PTick 5) (PThrow 0 9 PSkip)) = ([ETick 5 2], RRaised 0 9, 9).
Proof. split; [apply PeanoNat.Nat.leb_le; vm_compute; reflexivity | reflexivity]. Qed.

(* "The object bound in the handler is the one that was thrown" — by IDENTITY: also when an object
   that is `eq` to it (o1, same kind as o2 for instance) was thrown and handled just before and is
   still held in the record, with any formats (message 0 = the empty format, which leaves the
   record's message as it is: set_msg). *)
Theorem exn_bound_object_is_thrown_identity : forall o1 o2 m1 m2 fs,
  accepts fs o2 ->
  fst (mach (PSeq (PTry (PThrow o1 m1 PSkip) [] PSkip) (PTry (PThrow o2 m2 PSkip) fs PSkip)) st_init)
  = ([EHandler o1 (set_msg m1 0) 0; EHandler o2 (set_msg m2 (set_msg m1 0)) 0], MNormal).
Proof. exact ExnProofs.bound_object_is_thrown_identity. Qed.
Print Assumptions exn_bound_object_is_thrown_identity.

Example exn_bound_object_is_thrown_identity_nonvacuous :
  accepts [0] 1 /\ 0 <> 1 /\ kind_of 0 = kind_of 1.
Proof. split; [right; exists 0; split; [now left | reflexivity] | split; [discriminate | reflexivity]]. Qed.

(* ... also when the handler that handled it is LEFT EARLY, by break, by continue, or by return from the
   function the inner block stands in (early k o m): the enclosing handler stays out, the flag is clear.
   exits_ok says where break / continue / return may stand: never so as to leave a try BODY (that skips
   exception_try_end — the misuse the library's documentation warns of). *)
Theorem exn_early_exit_not_seen_outside : forall k o m fs' h' st,
  depth st + 2 <= exc_max_depth ->
  let '(tr, r, st') := mach (PTry (PSeq (early k o m) (PTick 2)) fs' h') st in
  tr = [EHandler o (set_msg m (msg st)) (S (depth st)); ETick 1 (S (depth st)); ETick 2 (S (depth st))]
  /\ r = MNormal /\ depth st' = depth st /\ active st' = false.
Proof. exact ExnProofs.early_exit_not_seen_outside. Qed.
Print Assumptions exn_early_exit_not_seen_outside.

Example exn_early_exit_not_seen_outside_nonvacuous : depth st_init + 2 <= exc_max_depth.
Proof. apply PeanoNat.Nat.leb_le; vm_compute; reflexivity. Qed.

(* The nesting bound of the theorems is the real one: one more try aborts. *)
Theorem exn_overflow_aborts : forall b fs h st,
  depth st = exc_max_depth -> mach (PTry b fs h) st = ([], MAbort, st).
Proof. exact ExnProofs.overflow_aborts. Qed.
Print Assumptions exn_overflow_aborts.

(* D3: the pinned code (exception_catch never clears [active]) does not follow block structure. *)
Theorem exn_unrepaired_refuted :
  exists p, nesting p <= exc_max_depth /\
    fst (fst (mrun exc_max_depth false true true p st_init)) <> fst (fst (ref_run 0 0 p)).
Proof. exact ExnProofs.unrepaired_refuted. Qed.
Print Assumptions exn_unrepaired_refuted.

Theorem exn_unrepaired_refuted_dies :
  exists p, nesting p <= exc_max_depth /\ snd (fst (ref_run 0 0 p)) = RNormal /\
    snd (fst (mrun exc_max_depth false true true p st_init)) = MDied (Some 0) 5.
Proof. exact ExnProofs.unrepaired_refuted_dies. Qed.
Print Assumptions exn_unrepaired_refuted_dies.

(* Third repaired defect: a throw whose message arguments are shown by Show methods that run try/catch
   blocks (PThrow o m f: f runs while the message is formatted).  The pinned exception_throw stored the
   object before formatting: an exception thrown and handled inside f replaced it ... *)
Theorem exn_obj_before_format_refuted :
  nesting fmt_witness <= exc_max_depth /\
  ref_run 0 0 fmt_witness = ([EHandler 10 7 1; EHandler 0 5 0; ETick 1 0], RNormal, 5) /\
  fst (mrun exc_max_depth true false true fmt_witness st_init) = ([EHandler 10 7 1], MDied (Some 10) 5).
Proof. exact ExnProofs.obj_before_format_refuted. Qed.
Print Assumptions exn_obj_before_format_refuted.

(* ... and, with that order, an exception_try that clears e->obj (seeded change) loses the object as
   soon as f enters a try block; with the repaired order it does not matter (the theorems above hold
   for mach whatever Generated.try_keeps_obj is: the refinement is proved for both values). *)
Theorem exn_try_clearing_obj_refuted_for_old_order :
  ref_run 0 0 fmt_witness_quiet = ([EHandler 0 5 0; ETick 1 0], RNormal, 5) /\
  fst (mrun exc_max_depth true false false fmt_witness_quiet st_init) = ([], MNormal) /\
  fst (mrun exc_max_depth true true false fmt_witness_quiet st_init) = ([EHandler 0 5 0; ETick 1 0], MNormal).
Proof. exact ExnProofs.try_clearing_obj_refuted_for_old_order. Qed.
Print Assumptions exn_try_clearing_obj_refuted_for_old_order.

(* Second repaired defect: the pinned exception_catch walked the filter with foreach, whose cursor
   is the current element.  On filter SETS that walk decides exactly [matches] (so the repair changes
   nothing there); on a filter naming an object twice it never finishes. *)
Theorem exn_foreach_walk_agrees_on_sets : forall fs k fuel,
  NoDup fs -> fs <> [] -> length fs + 1 <= fuel ->
  foreach_matches fuel fs (hd_error fs) k = Some (matches fs k).
Proof. exact ExnProofs.foreach_agrees_on_sets. Qed.
Print Assumptions exn_foreach_walk_agrees_on_sets.

Example exn_foreach_walk_agrees_on_sets_nonvacuous :
  NoDup [2; 0; 3] /\ [2; 0; 3] <> [] /\ length [2; 0; 3] + 1 <= 4.
Proof. split; [repeat constructor; cbn; intuition discriminate | split; [discriminate | apply le_n]]. Qed.

Theorem exn_foreach_walk_refuted : forall fuel,
  foreach_matches fuel [0; 0] (hd_error [0; 0]) 10 = None.
Proof. exact ExnProofs.foreach_diverges_on_duplicate. Qed.
Print Assumptions exn_foreach_walk_refuted.

(* Ties to the source text (Generated.v is rewritten from the working tree on every check). *)
Theorem exn_repair_in_source : clear_active_on_catch = true.
Proof. exact ExnProofs.clear_active_generated. Qed.
Print Assumptions exn_repair_in_source.

Theorem exn_obj_stored_after_format_in_source : throw_records_obj_after_format = true.
Proof. exact ExnProofs.obj_after_format_generated. Qed.
Print Assumptions exn_obj_stored_after_format_in_source.

(* Every exception kind the library defines is a Type object named like its own variable, and no
   two kinds share a name: kinds are pairwise distinct under eq (Type objects compare by name), so a
   filter naming one kind never accepts another. *)
Theorem exn_kinds_named_and_distinct :
  Forall (fun p => fst p = snd p) exn_kind_defs /\ NoDup (map snd exn_kind_defs).
Proof. exact (ExnProofs.kinds_ok_dec exn_kind_defs). Qed.
Print Assumptions exn_kinds_named_and_distinct.

Theorem exn_macro_shapes :
  Forall (fun p => fst p = snd p)
    [(exn_macro_try, expected_macro_try); (exn_macro_catch, expected_macro_catch);
     (exn_macro_catch_in, expected_macro_catch_in); (exn_macro_throw, expected_macro_throw)].
Proof. exact (ExnProofs.strings_equal_dec
    [(exn_macro_try, expected_macro_try); (exn_macro_catch, expected_macro_catch);
     (exn_macro_catch_in, expected_macro_catch_in); (exn_macro_throw, expected_macro_throw)]). Qed.
Print Assumptions exn_macro_shapes.

(* The five state-changing C functions (exception_try, exception_try_end, exception_try_fail,
   exception_throw, exception_catch; Exception_Len and Exception_Buffer inlined) are TRANSLATED by
   tools/exn_symex.py into state transformers over the C view of the record (Generated.ExnTr); each
   simulates the machine's function through abs (stack = buffers[depth-1] .. buffers[0]), on every C
   state that satisfies the record's invariant minv.  Statement order, temporaries, helper functions
   and index arithmetic of the C text are free; its effect is not.  The flags of the machine
   (clear_active_on_catch, throw_records_obj_after_format, try_keeps_obj) are read off the translation
   on probe states; these theorems check them on all states. *)
Theorem exn_tie_try : forall env s,
  minv exc_max_depth (abs s) ->
  sim (ExnTr.tr_exception_try env s) (m_try exc_max_depth try_keeps_obj env (abs s)).
Proof. exact ExnTie.tie_try. Qed.
Print Assumptions exn_tie_try.

Theorem exn_tie_try_end : forall s,
  minv exc_max_depth (abs s) -> sim (ExnTr.tr_exception_try_end s) (m_try_end (abs s)).
Proof. exact ExnTie.tie_try_end. Qed.
Print Assumptions exn_tie_try_end.

Theorem exn_tie_try_fail : forall s,
  minv exc_max_depth (abs s) -> 1 <= ExnTr.c_depth s ->
  sim (ExnTr.tr_exception_try_fail s) (m_try_fail (abs s)).
Proof. exact ExnTie.tie_try_fail. Qed.
Print Assumptions exn_tie_try_fail.

Theorem exn_tie_catch : forall istuple fs s,
  minv exc_max_depth (abs s) ->
  sim (ExnTr.tr_exception_catch (fun f o => Nat.eqb (kind_of f) (kind_of o)) istuple fs s)
      (m_catch clear_active_on_catch fs (abs s)).
Proof. exact ExnTie.tie_catch. Qed.
Print Assumptions exn_tie_catch.

Theorem exn_tie_throw : forall o m s,
  minv exc_max_depth (abs s) ->
  sim (ExnTr.tr_exception_throw (set_msg m) o s) (m_throw throw_records_obj_after_format o m (abs s)).
Proof. exact ExnTie.tie_throw. Qed.
Print Assumptions exn_tie_throw.

(* The hypotheses of the tie theorems hold wherever the machine applies a function: every state it
   produces satisfies the record's invariant minv (depth within the array, live slots not NULL), and
   a jump in flight carries the state it started from, so exception_try_fail — reached only when a
   jump lands — runs with a buffer on the stack. *)
Theorem exn_machine_stays_in_domain : forall max clr oaf tko p st tr r st',
  minv max st -> mrun max clr oaf tko p st = (tr, r, st') -> minv max st'.
Proof. exact ExnTie.mrun_inv. Qed.
Print Assumptions exn_machine_stays_in_domain.

Theorem exn_jump_carries_its_buffer : forall max clr oaf tko p st tr t s,
  mrun max clr oaf tko p st = (tr, MJump t, s) -> exists b, bufs s = t :: b.
Proof. exact ExnTie.mjump_state. Qed.
Print Assumptions exn_jump_carries_its_buffer.

Example exn_tie_domain_nonvacuous : minv exc_max_depth st_init /\ minv exc_max_depth (MS (Some 3) 1 [2; 1] true).
Proof. split; (split; [apply PeanoNat.Nat.leb_le; vm_compute; reflexivity | repeat constructor; discriminate]). Qed.

(* Exception_Error (the model's MDied): output calls that report "Uncaught <obj>" and the message on
   stderr, then exit(EXIT_FAILURE) — checked by tools/genx_exn.py on the parsed statements *)
Theorem exn_error_reports_and_exits_in_source : exn_error_reports_and_exits = true.
Proof. exact (eq_refl true). Qed.
Print Assumptions exn_error_reports_and_exits_in_source.

(* the signal table (Exception_Signal: which signal throws which kind with which text) stays tied by text *)
Theorem exn_source_shapes :
  Forall (fun p => fst p = snd p) [(exn_src_signal, expected_src_signal)].
Proof. exact (ExnProofs.strings_equal_dec [(exn_src_signal, expected_src_signal)]). Qed.
Print Assumptions exn_source_shapes.
