(* Properties_C07.v — property C07: try / catch / throw follow block structure.
   Only statements closed by `exact`, each followed by Print Assumptions. *)
From CelloV Require Import Generated Exn ExnProofs.

Theorem exn_macro_shapes :
  exn_macro_try = expected_macro_try /\ exn_macro_catch = expected_macro_catch /\
  exn_macro_catch_in = expected_macro_catch_in /\ exn_macro_throw = expected_macro_throw.
Proof. exact ExnProofs.macro_shapes. Qed.
Print Assumptions exn_macro_shapes.
