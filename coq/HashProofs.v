(* HashProofs.v — proofs about the hashing / equality model (property C10). *)
From Coq Require Export List NArith ZArith Bool.
From Coq Require Import Lia.
From CelloV Require Import HashModel.
Import ListNotations.

(* D5: with the pinned Float_Hash (raw bit pattern) eq does not imply equal hashes *)
Lemma float_hash_raw_refuted :
  exists a b, v_wf (VFloat a) = true /\ v_wf (VFloat b) = true /\
              float_cmp a b = 0%Z /\ float_hash false a <> float_hash false b.
Proof.
  exists 0%N, 9223372036854775808%N. vm_compute. repeat split; discriminate.
Qed.
