(* HashProofs.v — proofs about the hashing / equality model (property C10).
   Main results (restated in Properties_C10.v):
     v_eq_hash        eq(a,b) implies hash(a) = hash(b) for all well-formed values, any nesting, across kinds
     v_cmp_refl       cmp(a,a) = 0 (Float: also inf - inf = NaN; Table: every key finds itself)
     copy_eq_hash     copy(a) is eq to a and hashes the same
     assign_eq_hash   assign(dst, src) is eq to src (or, Ref vs Box, not comparable) and hashes the same
     map_perm_eq      Table equality and hash do not depend on the order of the bindings (slot order)
     table_copy_perm  at slot level (TableModel): Table_Assign yields the same bindings in some order
   and the refutations of the pinned variants (float_hash_raw_refuted, table_walk_refuted). *)
From Coq Require Export List NArith ZArith Bool.
From Coq Require Import Lia Permutation Arith.
From CelloV Require Import HashModel HashFloat.
Import ListNotations.

Arguments hash_data : simpl never.
Arguments float_cmp : simpl never.
Arguments float_hash : simpl never.
Arguments le_split : simpl never.

Lemma some_inj (A : Type) (x y : A) : Some x = Some y -> x = y.
Proof. intros E. injection E as E. exact E. Qed.

(* ------------------------------------------------------------------ induction on nested values *)
Section ValueInd.
  Variable P : value -> Prop.
  Hypothesis Hint : forall z, P (VInt z).
  Hypothesis Hflt : forall b, P (VFloat b).
  Hypothesis Hstr : forall s, P (VStr s).
  Hypothesis Htyp : forall s, P (VType s).
  Hypothesis Href : forall p, P (VRef p).
  Hypothesis Hbox : forall p, P (VBox p).
  Hypothesis Hblob : forall bs, P (VBlob bs).
  Hypothesis Hseq : forall k l, Forall P l -> P (VSeq k l).
  Hypothesis Hmap : forall k mp, Forall (fun kv => P (fst kv) /\ P (snd kv)) mp -> P (VMap k mp).

  Fixpoint value_ind' (a : value) : P a :=
    match a with
    | VInt z => Hint z | VFloat b => Hflt b | VStr s => Hstr s | VType s => Htyp s
    | VRef p => Href p | VBox p => Hbox p | VBlob bs => Hblob bs
    | VSeq k l => Hseq k l ((fix go (l : list value) : Forall P l :=
                               match l with
                               | [] => Forall_nil _
                               | x :: t => Forall_cons x (value_ind' x) (go t)
                               end) l)
    | VMap k mp => Hmap k mp ((fix go (l : list (value * value)) : Forall (fun kv => P (fst kv) /\ P (snd kv)) l :=
                                 match l with
                                 | [] => Forall_nil _
                                 | kv :: t => Forall_cons kv (conj (value_ind' (fst kv)) (value_ind' (snd kv))) (go t)
                                 end) mp)
    end.
End ValueInd.

(* ------------------------------------------------------------------ scalars *)
Lemma bytes_cmp_eq a : forall b, bytes_cmp a b = 0%Z -> a = b.
Proof.
  induction a as [|x a IH]; intros [|y b] H; simpl in H; try discriminate; try reflexivity.
  destruct (x <? y)%N eqn:E1; [discriminate|]. destruct (y <? x)%N eqn:E2; [discriminate|].
  apply N.ltb_ge in E1, E2. f_equal; [lia|auto].
Qed.

Lemma bytes_cmp_refl a : bytes_cmp a a = 0%Z.
Proof. induction a as [|x a IH]; simpl; [reflexivity|]. rewrite N.ltb_irrefl. exact IH. Qed.

Lemma int_cmp_eq a b : int_cmp a b = 0%Z -> a = b.
Proof.
  unfold int_cmp. destruct (a <? b)%Z eqn:E1; [discriminate|]. destruct (b <? a)%Z eqn:E2; [discriminate|].
  intros _. apply Z.ltb_ge in E1, E2. lia.
Qed.

Lemma int_cmp_refl a : int_cmp a a = 0%Z.
Proof. unfold int_cmp. rewrite Z.ltb_irrefl. reflexivity. Qed.

Section Main.
  Variable hd : list N -> N.          (* the byte hash: any function of the bytes *)
  Variable tl : bool.
  Variable fs : nat.                   (* shape of Float_Hash *)
  Hypothesis Hfs : fh_normalising fs = true.
  Notation H := (v_hash hd fs).
  Notation C := (v_cmp tl).

  Lemma v_cmp_scalar a b : scalar a = true -> C a b = s_cmp a b.
  Proof. destruct a; intros E; try discriminate; reflexivity. Qed.

  Lemma wf_float b : v_wf (VFloat b) = true -> (b < M64)%N /\ f_is_nan b = false.
  Proof.
    cbn [v_wf]. intros E. apply andb_true_iff in E. destruct E as [E1 E2].
    apply N.ltb_lt in E1. apply negb_true_iff in E2. auto.
  Qed.

  (* eq implies equal hash on values that are not containers *)
  Lemma s_cmp_hash a b : v_wf a = true -> v_wf b = true -> s_cmp a b = Some 0%Z -> H a = H b.
  Proof.
    intros Wa Wb E.
    destruct a, b; cbn [s_cmp] in E; try discriminate; cbn [v_hash].
    - apply some_inj in E. apply int_cmp_eq in E. subst. reflexivity.
    - apply some_inj in E. apply wf_float in Wa, Wb. apply float_eq_hash; tauto.
    - apply some_inj in E. apply bytes_cmp_eq in E. subst. reflexivity.
    - apply some_inj in E. apply bytes_cmp_eq in E. subst. reflexivity.
    - apply some_inj in E. apply bytes_cmp_eq in E. subst. reflexivity.
    - apply some_inj in E. apply bytes_cmp_eq in E. rewrite E. reflexivity.
    - apply some_inj in E. apply bytes_cmp_eq in E. rewrite E. reflexivity.
    - destruct (length bytes =? length bytes0); [|discriminate].
      apply some_inj in E. apply bytes_cmp_eq in E. subst. reflexivity.
  Qed.

  Lemma s_cmp_refl a : scalar a = true -> v_wf a = true -> s_cmp a a = Some 0%Z.
  Proof.
    destruct a; intros Sa Wa; try discriminate; cbn [s_cmp].
    - rewrite int_cmp_refl. reflexivity.
    - apply wf_float in Wa. rewrite float_cmp_refl by tauto. reflexivity.
    - rewrite bytes_cmp_refl. reflexivity.
    - rewrite bytes_cmp_refl. reflexivity.
    - rewrite bytes_cmp_refl. reflexivity.
    - rewrite bytes_cmp_refl. reflexivity.
    - rewrite Nat.eqb_refl, bytes_cmp_refl. reflexivity.
  Qed.

  (* ---------------------------------------------------------------- the parallel walk *)
  Lemma walk_zero A B (c : A -> B -> option Z) : forall l1 l2,
    walk A B c l1 l2 = Some 0%Z -> Forall2 (fun x y => c x y = Some 0%Z) l1 l2.
  Proof.
    induction l1 as [|x l1 IH]; intros [|y l2] E; simpl in E; try discriminate; [constructor|].
    destruct (c x y) as [d|] eqn:Ec; [|discriminate].
    destruct (d <? 0)%Z eqn:E1; [discriminate|]. destruct (0 <? d)%Z eqn:E2; [discriminate|].
    apply Z.ltb_ge in E1, E2. assert (d = 0%Z) by lia. subst d.
    constructor; auto.
  Qed.

  Lemma walk_refl A (c : A -> A -> option Z) l :
    Forall (fun x => c x x = Some 0%Z) l -> walk A A c l l = Some 0%Z.
  Proof. induction 1 as [|x l Hx _ IH]; simpl; [reflexivity|]. rewrite Hx. simpl. exact IH. Qed.

  Lemma pair_c_zero (c : value -> value -> option Z) x y :
    pair_c c x y = Some 0%Z -> c (fst x) (fst y) = Some 0%Z /\ c (snd x) (snd y) = Some 0%Z.
  Proof.
    unfold pair_c. destruct (c (fst x) (fst y)) as [d|]; [|discriminate].
    destruct (d <? 0)%Z eqn:E1; [discriminate|]. destruct (0 <? d)%Z eqn:E2; [discriminate|].
    apply Z.ltb_ge in E1, E2. assert (d = 0%Z) by lia. subst d. auto.
  Qed.

  (* ---------------------------------------------------------------- XOR folds *)
  Definition sh (l : list value) : N := fold_right (fun x acc => N.lxor acc (H x)) 0%N l.
  Definition eh (kv : value * value) : N := N.lxor (H (fst kv)) (H (snd kv)).
  Definition mh (mp : list (value * value)) : N :=
    fold_right (fun kv acc => N.lxor (N.lxor acc (H (fst kv))) (H (snd kv))) 0%N mp.

  Lemma hash_seq k l : H (VSeq k l) = sh l.
  Proof. reflexivity. Qed.
  Lemma hash_map k mp : H (VMap k mp) = mh mp.
  Proof. reflexivity. Qed.

  Lemma mh_cons kv l : mh (kv :: l) = N.lxor (mh l) (eh kv).
  Proof. unfold mh, eh. simpl. rewrite N.lxor_assoc. reflexivity. Qed.

  Lemma mh_app l1 l2 : mh (l1 ++ l2) = N.lxor (mh l1) (mh l2).
  Proof.
    induction l1 as [|a l1 IH]; [simpl; try rewrite N.lxor_0_l; reflexivity|].
    rewrite <- app_comm_cons, !mh_cons, IH.
    rewrite !N.lxor_assoc. f_equal. apply N.lxor_comm.
  Qed.

  (* ---------------------------------------------------------------- keys of maps *)
  (* eq on scalar keys is equality up to the sign of a zero (Float) and up to String / Type of a name *)
  Definition knorm (k : value) : value :=
    match k with
    | VFloat b => VFloat (if f_is_zero b then 0%N else b)
    | VType n => VStr n
    | _ => k
    end.

  Lemma hash_knorm k : v_wf k = true -> H (knorm k) = H k.
  Proof.
    destruct k; try reflexivity. intros W. apply wf_float in W. destruct W as [W _]. cbn [knorm v_hash].
    rewrite (float_hash_norm fs bits Hfs W).
    destruct (f_is_zero bits) eqn:Z.
    - rewrite (float_hash_norm fs 0 Hfs eq_refl). reflexivity.
    - rewrite (float_hash_norm fs bits Hfs W), Z. reflexivity.
  Qed.

  Lemma le_word_split : forall n p, le_word (le_split n p) = (p mod 256 ^ N.of_nat n)%N.
  Proof.
    induction n as [|n IH]; intros p.
    - simpl. rewrite N.mod_1_r. reflexivity.
    - change (le_split (S n) p) with ((p mod 256)%N :: le_split n (p / 256)%N).
      cbn [le_word]. rewrite IH. rewrite Nat2N.inj_succ, N.pow_succ_r'.
      rewrite N.mod_mul_r by (try apply N.pow_nonzero; discriminate). reflexivity.
  Qed.

  Lemma le_split_inj p q : (p < M64)%N -> (q < M64)%N -> le_split 8 p = le_split 8 q -> p = q.
  Proof.
    intros Hp Hq E. apply (f_equal le_word) in E. rewrite !le_word_split in E.
    change (256 ^ N.of_nat 8)%N with M64 in E. rewrite !N.mod_small in E by assumption. exact E.
  Qed.

  Lemma wf_ptr p : (p <? M64)%N = true -> (p < M64)%N.
  Proof. apply N.ltb_lt. Qed.

  Lemma key_norm k' k : v_wf k' = true -> v_wf k = true -> s_cmp k' k = Some 0%Z -> knorm k' = knorm k.
  Proof.
    intros W' W E. destruct k', k; cbn [s_cmp] in E; try discriminate; cbn [knorm].
    - apply some_inj in E. apply int_cmp_eq in E. subst. reflexivity.
    - apply some_inj in E. apply wf_float in W', W.
      destruct (float_cmp_zero bits bits0) as [->|[Z1 Z2]]; try tauto. rewrite Z1, Z2. reflexivity.
    - apply some_inj in E. apply bytes_cmp_eq in E. subst. reflexivity.
    - apply some_inj in E. apply bytes_cmp_eq in E. subst. reflexivity.
    - apply some_inj in E. apply bytes_cmp_eq in E. subst. reflexivity.
    - apply some_inj in E. apply bytes_cmp_eq in E. cbn [v_wf] in W', W.
      f_equal. apply le_split_inj; auto using wf_ptr.
    - apply some_inj in E. apply bytes_cmp_eq in E. cbn [v_wf] in W', W.
      f_equal. apply le_split_inj; auto using wf_ptr.
    - destruct (length bytes =? length bytes0); [|discriminate].
      apply some_inj in E. apply bytes_cmp_eq in E. subst. reflexivity.
  Qed.

  Lemma f_is_zero_0 : f_is_zero 0 = true.
  Proof. vm_compute. reflexivity. Qed.

  Lemma key_norm_conv k' k : scalar k' = true -> kclass k' = kclass k -> v_wf k' = true -> v_wf k = true ->
    knorm k' = knorm k -> s_cmp k' k = Some 0%Z.
  Proof.
    intros S Cl W' W E. destruct k', k; try discriminate; cbn [knorm] in E; cbn [s_cmp].
    - injection E as ->. rewrite int_cmp_refl. reflexivity.
    - injection E as E. apply wf_float in W', W. f_equal.
      destruct (f_is_zero bits) eqn:Z1, (f_is_zero bits0) eqn:Z2.
      + apply float_cmp_zeros; assumption.
      + subst bits0. rewrite f_is_zero_0 in Z2. discriminate.
      + subst bits. rewrite f_is_zero_0 in Z1. discriminate.
      + subst. apply float_cmp_refl. tauto.
    - injection E as ->. rewrite bytes_cmp_refl. reflexivity.
    - injection E as ->. rewrite bytes_cmp_refl. reflexivity.
    - injection E as ->. rewrite bytes_cmp_refl. reflexivity.
    - injection E as ->. rewrite bytes_cmp_refl. reflexivity.
    - injection E as ->. rewrite Nat.eqb_refl, bytes_cmp_refl. reflexivity.
  Qed.

  Definition nkeys (mp : list (value * value)) := map (fun kv => knorm (fst kv)) mp.
  Definition kwf (mp : list (value * value)) :=
    Forall (fun kv => scalar (fst kv) = true /\ v_wf (fst kv) = true) mp.
  Definition kcl (c : nat * nat) (mp : list (value * value)) := Forall (fun kv => kclass (fst kv) = c) mp.

  Lemma kwf_in mp kv : kwf mp -> In kv mp -> scalar (fst kv) = true /\ v_wf (fst kv) = true.
  Proof. unfold kwf. rewrite Forall_forall. auto. Qed.
  Lemma kcl_in c mp kv : kcl c mp -> In kv mp -> kclass (fst kv) = c.
  Proof. unfold kcl. rewrite Forall_forall. auto. Qed.

  Lemma m_get_some mp k v : kwf mp -> v_wf k = true -> m_get mp k = Some v ->
    exists k', In (k', v) mp /\ knorm k' = knorm k.
  Proof.
    intros Hk Wk. induction Hk as [|[k1 v1] mp [S1 W1] _ IH]; simpl; [discriminate|].
    simpl in S1, W1. destruct (s_cmp k1 k) as [d|] eqn:E; [destruct d as [|p|p]|];
      try (intros G; destruct (IH G) as [k' [I N]]; exists k'; auto).
    intros G. injection G as <-. exists k1. split; [auto|]. apply key_norm; assumption.
  Qed.

  Lemma m_get_in mp k k' v c : kwf mp -> kcl c mp -> v_wf k = true -> kclass k = c -> NoDup (nkeys mp) ->
    In (k', v) mp -> knorm k' = knorm k -> m_get mp k = Some v.
  Proof.
    intros Hk Hc Wk Ck. revert Hc. induction Hk as [|[k1 v1] mp [S1 W1] Hk IH]; intros Hc ND I N; [destruct I|].
    simpl in S1, W1. pose proof (Forall_inv Hc) as C1. pose proof (Forall_inv_tail Hc) as Hc'. simpl in C1.
    simpl in ND. apply NoDup_cons_iff in ND. destruct ND as [Nin ND']. simpl.
    destruct I as [E|I].
    - injection E as -> ->.
      assert (Ek : s_cmp k' k = Some 0%Z) by (apply key_norm_conv; try assumption; congruence).
      rewrite Ek. reflexivity.
    - destruct (s_cmp k1 k) as [d|] eqn:E; [destruct d as [|p|p]|]; auto.
      exfalso. apply key_norm in E; auto. apply Nin. simpl in E. rewrite E, <- N.
      apply (in_map (fun kv => knorm (fst kv))) in I. exact I.
  Qed.

  Lemma keys_distinct_nodup mp c : kwf mp -> kcl c mp -> keys_distinct mp = true -> NoDup (nkeys mp).
  Proof.
    intros Hk. induction Hk as [|[k v] mp [S1 W1] Hk IH]; intros Hc; simpl; [constructor|].
    simpl in S1, W1. pose proof (Forall_inv Hc) as C1. pose proof (Forall_inv_tail Hc) as Hc'. simpl in C1.
    destruct (m_get mp k) eqn:E; [discriminate|]. intros D.
    constructor; auto. intros I. unfold nkeys in I. apply in_map_iff in I. destruct I as [[k2 v2] [N I]].
    simpl in N. assert (G : m_get mp k = Some v2) by (apply (m_get_in mp k k2 v2 c); auto).
    rewrite G in E. discriminate.
  Qed.

  Lemma nodup_keys_distinct mp : kwf mp -> NoDup (nkeys mp) -> keys_distinct mp = true.
  Proof.
    intros Hk. induction Hk as [|[k v] mp [S1 W1] Hk IH]; simpl; [reflexivity|].
    simpl in S1, W1. intros ND. inversion ND as [|? ? Nin ND']; subst.
    destruct (m_get mp k) as [v'|] eqn:E; [|auto].
    exfalso. apply m_get_some in E; auto. destruct E as [k' [I N]]. apply Nin. simpl. rewrite <- N.
    apply (in_map (fun kv => knorm (fst kv))) in I. exact I.
  Qed.

  (* two association lists with matching keys and hash-equal values have the same XOR *)
  Lemma match_hash : forall mp mp', kwf mp -> kwf mp' ->
    NoDup (nkeys mp) -> NoDup (nkeys mp') -> length mp = length mp' ->
    (forall k v, In (k, v) mp -> exists k' v', In (k', v') mp' /\ knorm k' = knorm k /\ H v = H v') ->
    mh mp = mh mp'.
  Proof.
    induction mp as [|[k v] rest IH]; intros mp' Kw Kw' ND ND' L M.
    - destruct mp'; [reflexivity|discriminate].
    - destruct (M k v (or_introl eq_refl)) as [k' [v' [I [Nk Hv]]]].
      destruct (kwf_in _ _ Kw (or_introl eq_refl)) as [_ Wk]. destruct (kwf_in _ _ Kw' I) as [_ Wk']. simpl in Wk, Wk'.
      destruct (in_split _ _ I) as [l1 [l2 ->]].
      simpl in ND. inversion ND as [|? ? Nin NDr]; subst.
      unfold nkeys in ND'. rewrite map_app in ND'. simpl in ND'.
      pose proof (NoDup_remove_1 _ _ _ ND') as ND''. pose proof (NoDup_remove_2 _ _ _ ND') as Nk'.
      rewrite <- map_app in ND'', Nk'.
      assert (E : mh rest = mh (l1 ++ l2)).
      { apply IH; auto.
        - apply (Forall_inv_tail Kw).
        - unfold kwf in *. rewrite Forall_app in *. destruct Kw' as [K1 K2]. split; [exact K1|apply (Forall_inv_tail K2)].
        - rewrite app_length in *. simpl in L. lia.
        - intros k2 v2 I2. destruct (M k2 v2 (or_intror I2)) as [k2' [v2' [I2' [N2 Hv2]]]].
          exists k2', v2'. split; [|auto].
          apply in_app_or in I2'. apply in_or_app. destruct I2' as [|[E|]]; auto.
          injection E as -> ->. exfalso. apply Nin. rewrite <- Nk, N2.
          apply (in_map (fun kv => knorm (fst kv))) in I2. exact I2. }
      rewrite mh_cons, E, !mh_app, mh_cons. unfold eh. simpl.
      rewrite Hv, <- (hash_knorm k Wk), <- Nk, (hash_knorm k' Wk').
      rewrite !N.lxor_assoc. reflexivity.
  Qed.

  Lemma class_eqb_eq c d : class_eqb c d = true <-> c = d.
  Proof.
    destruct c as [c1 c2], d as [d1 d2]. unfold class_eqb. simpl. rewrite andb_true_iff, !Nat.eqb_eq.
    split; [intros [-> ->]; reflexivity|intros E; injection E; auto].
  Qed.

  Lemma same_class_kcl mp : same_class mp = true -> exists c, kcl c mp.
  Proof.
    destruct mp as [|[k0 v0] mp]; [exists (0, 0); constructor|].
    unfold same_class. intros E. exists (kclass k0). apply Forall_forall. intros kv I.
    rewrite forallb_forall in E. apply E in I. apply class_eqb_eq in I. auto.
  Qed.

  Lemma kcl_same_class c mp : kcl c mp -> same_class mp = true.
  Proof.
    intros Hc. destruct mp as [|[k0 v0] mp]; [reflexivity|]. unfold same_class.
    apply forallb_forall. intros kv I. apply class_eqb_eq.
    rewrite (kcl_in _ _ _ Hc I). apply (kcl_in _ _ (k0, v0) Hc). left. reflexivity.
  Qed.

  (* ---------------------------------------------------------------- well-formedness, unpacked *)
  Lemma wf_seq k l : v_wf (VSeq k l) = true -> Forall (fun x => v_wf x = true) l.
  Proof. cbn [v_wf]. intros E. apply Forall_forall. rewrite forallb_forall in E. exact E. Qed.

  Lemma wf_map k mp : v_wf (VMap k mp) = true ->
    kwf mp /\ (exists c, kcl c mp) /\
    Forall (fun kv => v_wf (fst kv) = true /\ v_wf (snd kv) = true) mp /\ NoDup (nkeys mp).
  Proof.
    cbn [v_wf]. intros E. apply andb_true_iff in E. destruct E as [E E3].
    apply andb_true_iff in E. destruct E as [E1 E2].
    rewrite forallb_forall in E1.
    assert (A : forall kv, In kv mp -> scalar (fst kv) = true /\ v_wf (fst kv) = true /\ v_wf (snd kv) = true).
    { intros kv I. apply E1 in I. apply andb_true_iff in I. destruct I as [I I2].
      apply andb_true_iff in I. unfold key_ok in I. tauto. }
    assert (K : kwf mp) by (apply Forall_forall; intros kv I; destruct (A kv I) as [? [? ?]]; auto).
    destruct (same_class_kcl _ E2) as [c Hc].
    split; [exact K|]. split; [exists c; exact Hc|]. split.
    - apply Forall_forall. intros kv I. destruct (A kv I) as [? [? ?]]; auto.
    - apply (keys_distinct_nodup mp c); auto.
  Qed.

  Lemma all_in_spec (c : value -> value -> option Z) m2 : forall m1, all_in c m2 m1 = true ->
    forall k v, In (k, v) m1 -> exists v', m_get m2 k = Some v' /\ c v v' = Some 0%Z.
  Proof.
    induction m1 as [|[k1 v1] m1 IH]; simpl; [tauto|].
    destruct (m_get m2 k1) as [v'|] eqn:G; [|discriminate].
    destruct (c v1 v') as [d|] eqn:Ec; [|discriminate]. destruct d; try discriminate.
    intros A k v [E|I]; [injection E as <- <-; eauto|auto].
  Qed.

  Lemma all_in_intro (c : value -> value -> option Z) m2 : forall m1,
    (forall k v, In (k, v) m1 -> exists v', m_get m2 k = Some v' /\ c v v' = Some 0%Z) -> all_in c m2 m1 = true.
  Proof.
    induction m1 as [|[k1 v1] m1 IH]; simpl; [reflexivity|]. intros A.
    destruct (A k1 v1 (or_introl eq_refl)) as [v' [G Ec]]. rewrite G, Ec. apply IH. intros; apply A; auto.
  Qed.

  (* ---------------------------------------------------------------- eq implies equal hash *)
  Theorem v_eq_hash : forall a b, v_wf a = true -> v_wf b = true -> C a b = Some 0%Z -> H a = H b.
  Proof.
    induction a as [z|bts|s|s|p|p|bs|k l IH|k mp IH] using value_ind'; intros b Wa Wb E;
      try (rewrite v_cmp_scalar in E by reflexivity; apply s_cmp_hash; assumption).
    - (* sequences: the walk reached both ends with every pair eq *)
      destruct b as [| | | | | | |k' l'|]; try discriminate.
      change (C (VSeq k l) (VSeq k' l')) with (walk value value (fun x y => C x y) l l') in E.
      apply walk_zero in E. rewrite !hash_seq.
      apply wf_seq in Wa, Wb.
      revert IH Wa Wb. induction E as [|x y l l' Exy _ IHE]; intros IH Wa Wb; [reflexivity|].
      inversion IH; inversion Wa; inversion Wb; subst. simpl. f_equal; auto.
    - (* maps *)
      destruct b as [| | | | | | | |k' mp']; try discriminate.
      rewrite !hash_map.
      destruct (wf_map _ _ Wa) as [Ka [_ [Wma NDa]]]. destruct (wf_map _ _ Wb) as [Kb [_ [Wmb NDb]]].
      assert (Walk : walk _ _ (pair_c (fun x y => C x y)) mp mp' = Some 0%Z -> mh mp = mh mp').
      { intros Ew. apply walk_zero in Ew. clear E NDa NDb Ka Kb Wa Wb.
        revert IH Wma Wmb. induction Ew as [|x y l l' Exy _ IHE]; intros IH Wma Wmb; [reflexivity|].
        inversion IH as [|? ? [IHk IHv] IHr]; inversion Wma as [|? ? [Wk Wv] Wr];
          inversion Wmb as [|? ? [Wk' Wv'] Wr']; subst.
        apply pair_c_zero in Exy. destruct Exy as [Ek Ev].
        rewrite !mh_cons. unfold eh. rewrite (IHk _ Wk Wk' Ek), (IHv _ Wv Wv' Ev). f_equal. apply IHE; assumption. }
      assert (Look : length mp = length mp' -> all_in (fun x y => C x y) mp' mp = true -> mh mp = mh mp').
      { intros L A. apply match_hash; auto. intros kk v I.
        destruct (all_in_spec _ _ _ A kk v I) as [v' [G Ec]].
        destruct (kwf_in _ _ Ka I) as [_ Wkk]. simpl in Wkk.
        apply m_get_some in G; auto. destruct G as [k2 [I' Nk]]. exists k2, v'. split; [exact I'|]. split; [exact Nk|].
        rewrite Forall_forall in IH, Wma, Wmb.
        apply (proj2 (IH _ I)); [apply (Wma _ I) | apply (Wmb _ I') | exact Ec]. }
      destruct k.
      + change (C (VMap KTable mp) (VMap k' mp')) with
          (if tl && (length mp =? length mp') && all_in (fun x y => C x y) mp' mp then Some 0%Z
           else walk _ _ (pair_c (fun x y => C x y)) mp mp') in E.
        destruct (tl && (length mp =? length mp') && all_in (fun x y => C x y) mp' mp) eqn:Cd; [|auto].
        apply andb_true_iff in Cd. destruct Cd as [Cd A]. apply andb_true_iff in Cd. destruct Cd as [_ L].
        apply Nat.eqb_eq in L. auto.
      + apply Walk. exact E.
  Qed.

  (* ---------------------------------------------------------------- reflexivity *)
  Lemma map_self_zero k k' mp :
    Forall (fun kv => C (fst kv) (fst kv) = Some 0%Z /\ C (snd kv) (snd kv) = Some 0%Z) mp ->
    C (VMap k mp) (VMap k' mp) = Some 0%Z.
  Proof.
    intros R.
    assert (W : walk _ _ (pair_c (fun x y => C x y)) mp mp = Some 0%Z).
    { apply walk_refl. eapply Forall_impl; [|exact R]. intros kv [R1 R2]. unfold pair_c. rewrite R1. simpl. exact R2. }
    destruct k; [|exact W].
    change (C (VMap KTable mp) (VMap k' mp)) with
      (if tl && (length mp =? length mp) && all_in (fun x y => C x y) mp mp then Some 0%Z
       else walk _ _ (pair_c (fun x y => C x y)) mp mp).
    destruct (tl && (length mp =? length mp) && all_in (fun x y => C x y) mp mp); [reflexivity|exact W].
  Qed.

  Theorem v_cmp_refl : forall a, v_wf a = true -> C a a = Some 0%Z.
  Proof.
    induction a as [z|bts|s|s|p|p|bs|k l IH|k mp IH] using value_ind'; intros Wa;
      try (rewrite v_cmp_scalar by reflexivity; apply s_cmp_refl; [reflexivity|assumption]).
    - change (C (VSeq k l) (VSeq k l)) with (walk value value (fun x y => C x y) l l).
      apply walk_refl. apply wf_seq in Wa. rewrite Forall_forall in *. auto.
    - destruct (wf_map _ _ Wa) as [Ka [_ [Wm ND]]]. apply map_self_zero.
      rewrite Forall_forall in *. intros kv I. destruct (IH _ I), (Wm _ I). auto.
  Qed.

  Lemma seq_kind_irrelevant k k' l l' : C (VSeq k l) (VSeq k' l') = C (VSeq KArray l) (VSeq KArray l').
  Proof. reflexivity. Qed.

  (* ---------------------------------------------------------------- copy *)
  Lemma copy_list_id (l : list value) :
    Forall (fun x => forall c, v_copy x = Some c -> c = x) l ->
    forall l', fold_right (fun x acc => match v_copy x, acc with Some y, Some t => Some (y :: t) | _, _ => None end)
                          (Some []) l = Some l' -> l' = l.
  Proof.
    induction 1 as [|x l Hx _ IH]; simpl; intros l' E; [injection E as <-; reflexivity|].
    destruct (v_copy x) as [y|] eqn:Ey; [|discriminate].
    destruct (fold_right _ _ l) as [t|] eqn:Et; [|discriminate].
    injection E as <-. f_equal; auto.
  Qed.

  Lemma copy_map_id (mp : list (value * value)) :
    Forall (fun kv => (forall c, v_copy (fst kv) = Some c -> c = fst kv) /\
                      (forall c, v_copy (snd kv) = Some c -> c = snd kv)) mp ->
    forall mp', fold_right (fun kv acc => match v_copy (fst kv), v_copy (snd kv), acc with
                                          | Some k', Some v', Some t => Some ((k', v') :: t) | _, _, _ => None end)
                           (Some []) mp = Some mp' -> mp' = mp.
  Proof.
    induction 1 as [|[k v] mp [Hk Hv] _ IH]; simpl; intros mp' E; [injection E as <-; reflexivity|].
    simpl in *.
    destruct (v_copy k) as [k'|] eqn:Ek; [|discriminate].
    destruct (v_copy v) as [v'|] eqn:Ev; [|discriminate].
    destruct (fold_right _ _ mp) as [t|] eqn:Et; [|discriminate].
    injection E as <-. rewrite (Hk _ eq_refl), (Hv _ eq_refl), (IH _ eq_refl). reflexivity.
  Qed.

  (* in a functional model the copy IS the value; what the theorem says is that the copy exists
     (everything but Type objects) and that cmp finds a value equal to itself *)
  Lemma v_copy_id : forall a c, v_copy a = Some c -> c = a.
  Proof.
    induction a as [z|bts|s|s|p|p|bs|k l IH|k mp IH] using value_ind'; intros c E;
      try (injection E as <-; reflexivity); try discriminate.
    - destruct k; cbn [v_copy] in E;
        try (destruct (fold_right _ _ l) as [l'|] eqn:El; [|discriminate]; injection E as <-;
             f_equal; eapply copy_list_id; eauto).
      injection E as <-. reflexivity.
    - cbn [v_copy] in E. destruct (fold_right _ _ mp) as [mp'|] eqn:El; [|discriminate]. injection E as <-.
      f_equal. eapply copy_map_id; eauto.
  Qed.

  Theorem copy_eq_hash a c : v_wf a = true -> v_copy a = Some c ->
    C c a = Some 0%Z /\ C a c = Some 0%Z /\ H c = H a.
  Proof. intros W E. apply v_copy_id in E. subst. repeat split; auto using v_cmp_refl. Qed.

  (* ---------------------------------------------------------------- assign *)
  Lemma assign_seq k l0 k' l y : v_assign (VSeq k l0) (VSeq k' l) = Some y -> y = VSeq k l.
  Proof.
    intros E. destruct k, k'; cbn [v_assign] in E; try discriminate;
      try (injection E as <-; reflexivity);
      (destruct (v_copy _) as [v|] eqn:Ec; [|discriminate]; injection E as <-; apply v_copy_id in Ec; exact Ec).
  Qed.

  Theorem assign_eq_hash dst src y : v_wf src = true -> v_assign dst src = Some y ->
    H y = H src /\
    (C y src = Some 0%Z \/ exists p, (y = VBox p /\ src = VRef p) \/ (y = VRef p /\ src = VBox p)).
  Proof.
    intros W E. pose proof (v_cmp_refl src W) as R.
    destruct dst as [z|bts|s|s|p|p|bs|k l0|k mp0], src as [z'|bts'|s'|s'|p'|p'|bs'|k' l|k' mp];
      try (cbn [v_assign] in E; discriminate); try (destruct k; cbn [v_assign] in E; discriminate);
      try (cbn [v_assign] in E; injection E as <-; split; [reflexivity|left; exact R]).
    - cbn [v_assign] in E. injection E as <-. split; [reflexivity|]. right. eauto.
    - cbn [v_assign] in E. injection E as <-. split; [reflexivity|]. right. eauto.
    - cbn [v_assign] in E. destruct (length bs =? length bs'); [|discriminate]. injection E as <-. split; [reflexivity|left; exact R].
    - (* sequences: the result has dst's kind and src's elements *)
      apply assign_seq in E. subst. split; [reflexivity|left; exact R].
    - (* maps *)
      apply v_copy_id in E. subst. split; [reflexivity|left].
      destruct (wf_map _ _ W) as [Ka [_ [Wm ND]]]. apply map_self_zero.
      rewrite Forall_forall in *. intros kv I. destruct (Wm _ I). auto using v_cmp_refl.
  Qed.

  Theorem swap_exchanges a b a' b' : v_swap a b = Some (a', b') -> a' = b /\ b' = a.
  Proof. unfold v_swap. destruct (same_type a b); [|discriminate]. intros E. injection E as <- <-. auto. Qed.

  (* ---------------------------------------------------------------- Table equality is order independent *)
  Theorem map_perm_eq k k' mp mp' : tl = true -> v_wf (VMap KTable mp) = true -> Permutation mp mp' ->
    v_wf (VMap k' mp') = true /\ C (VMap KTable mp) (VMap k' mp') = Some 0%Z /\ H (VMap k mp) = H (VMap k' mp').
  Proof.
    intros Htl W P. destruct (wf_map _ _ W) as [Ka [[c Hc] [Wm ND]]].
    assert (Kb : kwf mp') by (unfold kwf; rewrite <- P; exact Ka).
    assert (Hcb : kcl c mp') by (unfold kcl; rewrite <- P; exact Hc).
    assert (NDb : NoDup (nkeys mp')) by (unfold nkeys; rewrite <- P; exact ND).
    assert (Wb : v_wf (VMap k' mp') = true).
    { cbn [v_wf]. apply andb_true_iff. split; [|apply nodup_keys_distinct; auto].
      apply andb_true_iff. split; [|apply (kcl_same_class c); exact Hcb].
      apply forallb_forall. intros kv I. apply (Permutation_in _ (Permutation_sym P)) in I.
      rewrite Forall_forall in Wm. destruct (Wm _ I) as [W1 W2]. destruct (kwf_in _ _ Ka I) as [S1 _].
      unfold key_ok. rewrite S1, W1, W2. reflexivity. }
    assert (Cz : C (VMap KTable mp) (VMap k' mp') = Some 0%Z).
    { change (C (VMap KTable mp) (VMap k' mp')) with
        (if tl && (length mp =? length mp') && all_in (fun x y => C x y) mp' mp then Some 0%Z
         else walk _ _ (pair_c (fun x y => C x y)) mp mp').
      replace (tl && (length mp =? length mp') && all_in (fun x y => C x y) mp' mp) with true; [reflexivity|].
      symmetry. apply andb_true_iff. split;
        [apply andb_true_iff; split; [exact Htl|rewrite (Permutation_length P); apply Nat.eqb_refl]|].
      apply all_in_intro. intros kk v I. exists v.
      rewrite Forall_forall in Wm. split.
      - apply (m_get_in mp' kk kk v c); auto.
        + apply (Wm _ I).
        + apply (kcl_in _ _ _ Hc I).
        + apply (Permutation_in _ P I).
      - apply v_cmp_refl. apply (Wm _ I). }
    split; [exact Wb|]. split; [exact Cz|].
    rewrite !hash_map. rewrite <- (hash_map KTable mp), <- (hash_map k' mp').
    apply v_eq_hash; auto.
  Qed.
End Main.

(* ------------------------------------------------------------------ refutations of the pinned variants *)
(* D5: with the pinned Float_Hash (raw bit pattern) eq does not imply equal hashes *)
Lemma float_hash_raw_refuted :
  exists a b, v_wf (VFloat a) = true /\ v_wf (VFloat b) = true /\
              float_cmp a b = 0%Z /\ float_hash 0 a <> float_hash 0 b.
Proof.
  exists 0%N, 9223372036854775808%N. vm_compute. repeat split; discriminate.
Qed.

(* F5: the pinned Table_Cmp (slot-order walk only) separates two orders of the same bindings *)
Lemma table_walk_refuted :
  exists mp mp', v_wf (VMap KTable mp) = true /\ Permutation mp mp' /\
                 v_cmp false (VMap KTable mp) (VMap KTable mp') <> Some 0%Z.
Proof.
  exists [(VInt 7, VInt 1); (VInt 3, VInt 2)], [(VInt 3, VInt 2); (VInt 7, VInt 1)].
  split; [reflexivity|]. split; [apply perm_swap|]. vm_compute. discriminate.
Qed.

(* ------------------------------------------------------------------ non-vacuity examples *)
(* an Array and a List, different floats (-0.0 / +0.0) inside, well-formed, eq: the hypothesis of
   v_eq_hash is satisfiable by values that are not identical *)
Definition ex_a : value := VSeq KArray [VFloat 9223372036854775808; VFloat 4607182418800017408; VStr [72; 105]]%N.
Definition ex_b : value := VSeq KList [VFloat 0; VFloat 4607182418800017408; VStr [72; 105]]%N.
Lemma ex_eq_hash_nonvacuous : forall tl,
  ex_a <> ex_b /\ v_wf ex_a = true /\ v_wf ex_b = true /\ v_cmp tl ex_a ex_b = Some 0%Z.
Proof. intros tl. split; [discriminate|]. destruct tl; vm_compute; auto. Qed.

(* a Table of three bindings (a nested List as one value) and the same bindings in another order *)
Definition ex_m : list (value * value) :=
  [(VInt 5, VSeq KList [VInt 1; VInt 2]); (VInt 10, VSeq KList []); (VInt 0, VSeq KList [VInt 3])].
Definition ex_m' : list (value * value) :=
  [(VInt 0, VSeq KList [VInt 3]); (VInt 5, VSeq KList [VInt 1; VInt 2]); (VInt 10, VSeq KList [])].
Lemma ex_map_perm_nonvacuous : v_wf (VMap KTable ex_m) = true /\ Permutation ex_m ex_m' /\ ex_m <> ex_m'.
Proof.
  split; [vm_compute; reflexivity|]. split; [|discriminate].
  unfold ex_m, ex_m'. apply Permutation_sym. eapply perm_trans; [apply perm_swap|]. apply perm_skip. apply perm_swap.
Qed.

Lemma ex_copy_nonvacuous : v_wf (VMap KTable ex_m) = true /\ v_copy (VMap KTable ex_m) = Some (VMap KTable ex_m).
Proof. split; vm_compute; reflexivity. Qed.

Lemma ex_assign_nonvacuous :
  v_wf ex_b = true /\ v_assign (VSeq KArray [VInt 1]) ex_b = Some (VSeq KArray [VFloat 0; VFloat 4607182418800017408; VStr [72; 105]]%N).
Proof. split; vm_compute; reflexivity. Qed.

Lemma ex_swap_nonvacuous : v_swap ex_a (VSeq KArray []) = Some (VSeq KArray [], ex_a).
Proof. reflexivity. Qed.

Lemma ex_float_nonvacuous :
  (0 < M64)%N /\ f_is_nan 0 = false /\ f_is_nan 9223372036854775808 = false /\ float_cmp 0 9223372036854775808 = 0%Z.
Proof. vm_compute. auto. Qed.

(* maps keyed by Float: -0.0 and +0.0 are the same key *)
Definition ex_fa : value := VMap KTable [(VFloat 9223372036854775808, VInt 1); (VFloat 4607182418800017408, VInt 2)]%N.
Definition ex_fb : value := VMap KTable [(VFloat 4607182418800017408, VInt 2); (VFloat 0, VInt 1)]%N.
Lemma ex_float_keys_nonvacuous :
  ex_fa <> ex_fb /\ v_wf ex_fa = true /\ v_wf ex_fb = true /\ v_cmp true ex_fa ex_fb = Some 0%Z.
Proof. split; [discriminate|]. vm_compute. auto. Qed.

(* ------------------------------------------------------------------ memswap exchanges two byte images *)
Lemma memswap_loop_spec : forall fuel (pre a b a' b' : list N),
  length a = fuel -> length b = fuel -> length a' = length pre -> length b' = length pre ->
  memswap_loop fuel (length pre) (b' ++ a) (a' ++ b) = (b' ++ b, a' ++ a).
Proof.
  induction fuel as [|f IH]; intros pre a b a' b' La Lb La' Lb'.
  - destruct a, b; try discriminate. reflexivity.
  - destruct a as [|x a]; [discriminate|]. destruct b as [|y b]; [discriminate|].
    cbn [memswap_loop].
    assert (N1 : nth (length pre) (b' ++ x :: a) 0%N = x) by (rewrite app_nth2, Lb', Nat.sub_diag by lia; reflexivity).
    assert (N2 : nth (length pre) (a' ++ y :: b) 0%N = y) by (rewrite app_nth2, La', Nat.sub_diag by lia; reflexivity).
    rewrite N1, N2.
    assert (S1 : forall l z w t, length l = length pre -> set_nth (length pre) z (l ++ w :: t) = l ++ z :: t).
    { clear. intros l. generalize (length pre). induction l as [|h l IHl]; intros n z w t E; simpl in E; subst; simpl; [reflexivity|].
      f_equal. apply IHl. reflexivity. }
    rewrite !S1 by assumption.
    specialize (IH (pre ++ [0%N]) a b (a' ++ [x]) (b' ++ [y])).
    rewrite !app_length in IH. simpl in IH. rewrite !Nat.add_1_r in IH.
    rewrite <- !app_assoc in IH. simpl in IH. apply IH; simpl in *; lia.
Qed.

Theorem memswap_exchanges a b : length a = length b -> memswap a b (length a) = (b, a).
Proof.
  intros L. unfold memswap. apply (memswap_loop_spec (length a) [] a b [] []); auto.
Qed.

(* ------------------------------------------------------------------ the model's hashes are 64-bit words *)
Lemma lxor_lt_M64 a b : (a < M64)%N -> (b < M64)%N -> (N.lxor a b < M64)%N.
Proof.
  intros Ha Hb. destruct (N.eq_dec (N.lxor a b) 0) as [->|Nz]; [reflexivity|].
  change M64 with (2 ^ 64)%N in *.
  apply N.log2_lt_pow2; [lia|].
  pose proof (N.log2_lxor a b) as L.
  assert (La : (N.log2 a < 64)%N).
  { destruct (N.eq_dec a 0) as [->|]; [reflexivity|]. apply N.log2_lt_pow2; lia. }
  assert (Lb : (N.log2 b < 64)%N).
  { destruct (N.eq_dec b 0) as [->|]; [reflexivity|]. apply N.log2_lt_pow2; lia. }
  lia.
Qed.

Lemma w64_lt x : (w64 x < M64)%N.
Proof. unfold w64. apply N.mod_lt. discriminate. Qed.

Lemma shiftr_lt_M64 a n : (a < M64)%N -> (N.shiftr a n < M64)%N.
Proof.
  intros Ha. rewrite N.shiftr_div_pow2.
  eapply N.le_lt_trans; [|exact Ha]. apply N.div_le_upper_bound; [apply N.pow_nonzero; discriminate|].
  assert (1 <= 2 ^ n)%N by (apply N.lt_pred_le; simpl; apply N.neq_0_lt_0, N.pow_nonzero; discriminate).
  nia.
Qed.

Theorem hash_data_lt m r seed ts d : (hash_data m r seed ts d < M64)%N.
Proof.
  unfold hash_data. destruct (blocks m r _ _) as [h t]. unfold finish.
  apply lxor_lt_M64; [|apply shiftr_lt_M64]; apply w64_lt.
Qed.

Theorem v_hash_lt hd fs : (forall d, (hd d < M64)%N) -> fh_normalising fs = true ->
  forall a, v_wf a = true -> (v_hash hd fs a < M64)%N.
Proof.
  intros Hd Hfs.
  induction a as [z|bts|s|s|p|p|bs|k l IH|k mp IH] using value_ind'; intros W; cbn [v_hash];
    try apply Hd.
  - unfold int_hash. change (Z.of_N M64) with 18446744073709551616%Z.
    pose proof (Z.mod_pos_bound z 18446744073709551616 eq_refl). unfold M64. lia.
  - apply wf_float in W. destruct W as [W _]. rewrite (float_hash_norm fs bts Hfs W). destruct (f_is_zero bts); [reflexivity|exact W].
  - apply wf_seq in W. induction l as [|x l IHl]; simpl; [reflexivity|].
    inversion IH; inversion W; subst. apply lxor_lt_M64; auto.
  - destruct (wf_map _ _ W) as [_ [_ [Wm _]]]. clear W.
    induction mp as [|[kk v] mp IHm]; simpl; [reflexivity|].
    inversion IH as [|? ? [I1 I2] I3]; inversion Wm as [|? ? [W1 W2] W3]; subst. simpl in *.
    repeat apply lxor_lt_M64; auto.
Qed.

(* ------------------------------------------------------------------ swap plans read from memswap's text *)
Lemma memswap_loop_fold : forall fuel i a b,
  memswap_loop fuel i a b = fold_left swap_at (seq i fuel) (a, b).
Proof. induction fuel as [|f IH]; intros i a b; simpl; [reflexivity|]. rewrite IH. reflexivity. Qed.

(* guarded, advancing steps that end in a byte loop exchange bytes i, i+1, ..., s-1 in this order *)
Lemma tail_ok_spec : forall plan, tail_ok plan = true ->
  forall s i, i <= s -> plan_indices s plan i = seq i (s - i).
Proof.
  induction plan as [|[tag w] r IH]; intros Ok s i Hi; [discriminate|].
  destruct tag as [|[|tag]]; [| |discriminate].
  - (* while (i + w <= s) *)
    cbn [plan_indices step_indices].
    destruct r as [|st r'].
    + cbn [tail_ok] in Ok. apply Nat.eqb_eq in Ok. subst w.
      rewrite Nat.div_1_r, Nat.mul_1_r. cbn [plan_indices]. apply app_nil_r.
    + change (tail_ok ((0, w) :: st :: r')) with ((0 <? w) && tail_ok (st :: r')) in Ok.
      apply andb_true_iff in Ok. destruct Ok as [Hw Ok]. apply Nat.ltb_lt in Hw.
      set (n := (s - i) / w).
      assert (Hn : n * w <= s - i) by (unfold n; rewrite Nat.mul_comm; apply Nat.mul_div_le; lia).
      rewrite (IH Ok s (i + n * w)) by lia.
      transitivity (seq i (n * w + (s - (i + n * w)))); [rewrite seq_app; reflexivity | f_equal; lia].
  - (* if (i + w <= s) { ...; i += w } *)
    cbn [plan_indices step_indices]. cbn [tail_ok] in Ok.
    destruct (i + w <=? s) eqn:G.
    + apply Nat.leb_le in G. rewrite (IH Ok s (i + w)) by lia.
      transitivity (seq i (w + (s - (i + w)))); [rewrite seq_app; reflexivity | f_equal; lia].
    + rewrite (IH Ok s i Hi). reflexivity.
Qed.

(* coverage: every byte index below s is exchanged exactly once, in increasing order *)
Theorem plan_covers plan : plan_ok plan = true -> forall s, plan_indices s plan 0 = seq 0 s.
Proof.
  intros Ok s.
  assert (T : tail_ok plan = true -> plan_indices s plan 0 = seq 0 s).
  { intros Ht. rewrite (tail_ok_spec plan Ht s 0) by lia. rewrite Nat.sub_0_r. reflexivity. }
  destruct plan as [|[t1 w1] [|[t2 w2] [|st3 r]]]; try (apply T; exact Ok).
  cbn [plan_ok] in Ok. destruct ((t1 =? 3) && (t2 =? 4)) eqn:E34; [|apply T; exact Ok].
  apply andb_true_iff in E34. destruct E34 as [E3 E4]. apply Nat.eqb_eq in E3, E4. subst t1 t2.
  (* (3, w); (4, w'): s / w words, then s % w bytes *)
  apply andb_true_iff in Ok. destruct Ok as [Hw E].
  apply Nat.ltb_lt in Hw. apply Nat.eqb_eq in E. subst w2.
  cbn [plan_indices step_indices]. rewrite app_nil_r. simpl plus.
  rewrite <- seq_app. f_equal.
  rewrite Nat.mul_comm. symmetry. apply Nat.div_mod. lia.
Qed.

Theorem plan_exchanges plan : plan_ok plan = true ->
  forall a b : list N, length a = length b -> run_plan plan (length a) a b = (b, a).
Proof.
  intros Ok a b L. unfold run_plan. rewrite (plan_covers plan Ok).
  rewrite <- memswap_loop_fold. apply (memswap_exchanges a b L).
Qed.

(* the broken sibling (seeded C04-r5-1: a 4-byte step that does not advance the cursor, so the byte
   loop exchanges those bytes back) is not accepted and does not exchange *)
Lemma plan_no_advance_refuted :
  plan_ok [(0, 8); (2, 4); (0, 1)] = false /\
  run_plan [(0, 8); (2, 4); (0, 1)] 4 [1; 2; 3; 4]%N [5; 6; 7; 8]%N <> ([5; 6; 7; 8]%N, [1; 2; 3; 4]%N).
Proof. split; [reflexivity|]. vm_compute. discriminate. Qed.

(* ------------------------------------------------------------------ hash over histories of one object *)
(* What a Hash instance written in C can see when it is called: the object's current value, the
   address of its buffer, and whatever static state the instance keeps between calls.  A history is
   the sequence of calls: (address, value at that moment), with arbitrary mutations (and frees /
   reallocations, other objects) in between. *)
Record hcall := mk_hcall { hc_addr : N; hc_val : value }.
Definition hinst (S : Type) := S -> hcall -> N * S.

Fixpoint run_hist (S : Type) (f : hinst S) (st : S) (calls : list hcall) : list N :=
  match calls with
  | [] => []
  | c :: r => let '(h, st') := f st c in h :: run_hist S f st' r
  end.

(* the instances of the source (Generated.hash_instances_stateless): no static state, the value only *)
Definition stateless_inst (hd : list N -> N) (fs : nat) : hinst unit :=
  fun _ c => (v_hash hd fs (hc_val c), tt).

(* seeded C16-r6-2: the last hash memoised by buffer address, never invalidated *)
Definition memo_inst (hd : list N -> N) (fs : nat) : hinst (option (N * N)) :=
  fun st c =>
    match st with
    | Some (a, h) => if (a =? hc_addr c)%N then (h, st)
                     else let h' := v_hash hd fs (hc_val c) in (h', Some (hc_addr c, h'))
    | None => let h' := v_hash hd fs (hc_val c) in (h', Some (hc_addr c, h'))
    end.

(* every call returns the hash of the value the object has AT THAT CALL: nothing else — not the
   address, not earlier values, not which other objects were hashed in between — matters *)
Theorem stateless_history hd fs : forall calls,
  run_hist unit (stateless_inst hd fs) tt calls = map (fun c => v_hash hd fs (hc_val c)) calls.
Proof. induction calls as [|c r IH]; simpl; [reflexivity|]. rewrite IH. reflexivity. Qed.

(* so two calls, anywhere in any two histories, on eq values return the same hash *)
Theorem history_eq_hash hd tl fs : fh_normalising fs = true ->
  forall calls1 calls2 i j c1 c2,
  nth_error calls1 i = Some c1 -> nth_error calls2 j = Some c2 ->
  v_wf (hc_val c1) = true -> v_wf (hc_val c2) = true -> v_cmp tl (hc_val c1) (hc_val c2) = Some 0%Z ->
  nth_error (run_hist unit (stateless_inst hd fs) tt calls1) i =
  nth_error (run_hist unit (stateless_inst hd fs) tt calls2) j.
Proof.
  intros Hfs calls1 calls2 i j c1 c2 E1 E2 W1 W2 C.
  rewrite !stateless_history.
  rewrite (map_nth_error _ _ _ E1), (map_nth_error _ _ _ E2).
  f_equal. apply (v_eq_hash hd tl fs Hfs); assumption.
Qed.

(* the memoising instance violates it: same address, value changed in place *)
Lemma memo_history_refuted :
  exists calls, run_hist _ (memo_inst (fun d => N.of_nat (length d)) 1) None calls
                <> map (fun c => v_hash (fun d => N.of_nat (length d)) 1 (hc_val c)) calls.
Proof.
  exists [mk_hcall 4096 (VStr [72; 105]%N); mk_hcall 4096 (VStr [72]%N)]. vm_compute. discriminate.
Qed.
