(* ExnProofs.v — proofs about the exception machine of Exn.v (property C07). *)
From Coq Require Import String List Arith Bool Lia.
From CelloV Require Import Generated Exn.
Import ListNotations.

(* ------------------------------------------------------------------ ties to the source *)

(* Token strings found in the source against the shapes the machine encodes: decided by
   computation.  The lemma is generic so that the comparison itself sits in Properties_C07.v: a
   changed macro or function body breaks that one obligation and nothing else. *)
Lemma strings_equal_dec : forall l : list (string * string),
  if forallb (fun p => String.eqb (fst p) (snd p)) l
  then Forall (fun p => fst p = snd p) l else True.
Proof.
  intros l. destruct (forallb _ l) eqn:H; [|exact I].
  rewrite forallb_forall in H. apply Forall_forall.
  intros p Hin. apply String.eqb_eq. now apply H.
Qed.

(* The library's exception kinds (`var NAME = CelloEmpty(ARG);`): exception_catch matches by eq and
   Type objects compare by their name, which is ARG; so every kind must carry its own variable's
   name and the names must be pairwise distinct.  Decided by computation, like the shapes. *)
Fixpoint nodupb (l : list string) : bool :=
  match l with
  | [] => true
  | x :: r => negb (existsb (String.eqb x) r) && nodupb r
  end.

Lemma nodupb_NoDup : forall l, nodupb l = true -> NoDup l.
Proof.
  induction l as [|x r IH]; intros H; [constructor|].
  cbn in H. apply andb_true_iff in H. destruct H as (Hx & Hr). constructor; [|now apply IH].
  intros Hin. apply negb_true_iff in Hx.
  assert (existsb (String.eqb x) r = true) by (apply existsb_exists; exists x; split; [exact Hin | apply String.eqb_refl]).
  congruence.
Qed.

Lemma kinds_ok_dec : forall l : list (string * string),
  if forallb (fun p => String.eqb (fst p) (snd p)) l && nodupb (map snd l)
  then Forall (fun p => fst p = snd p) l /\ NoDup (map snd l) else True.
Proof.
  intros l. destruct (forallb _ l && nodupb (map snd l)) eqn:H; [|exact I].
  apply andb_true_iff in H. destruct H as (H1 & H2). split; [|now apply nodupb_NoDup].
  rewrite forallb_forall in H1. apply Forall_forall. intros q Hin. apply String.eqb_eq. now apply H1.
Qed.

Lemma clear_active_generated : clear_active_on_catch = true.
Proof. reflexivity. Qed.

(* ------------------------------------------------------------------ small facts *)

Lemma depth_bufs : forall s t, bufs s = bufs t -> depth s = depth t.
Proof. unfold depth; intros s t H; now rewrite H. Qed.

Lemma jump_or_die_not_normal : forall st, jump_or_die st <> MNormal.
Proof. intros st; unfold jump_or_die; destruct (bufs st); discriminate. Qed.

(* ------------------------------------------------------------------ the refinement *)

Section Refinement.
Variable max : nat.
Variable tko : bool.      (* whether exception_try keeps e->obj does not matter once the object is
                             stored after the message has been formatted *)
Notation run := (mrun max true true tko).

(* What the machine does on [p] from [st], against the structured semantics at the level
   [depth st].  No hypothesis on [active st]: the flag is only read by exception_catch, and
   exception_try has reset it by then. *)
Definition refines (p : prog) (st : mstate) : Prop :=
  forall tr r st', run p st = (tr, r, st') ->
  forall tr0 r0 c', ref_run (depth st) (msg st) p = (tr0, r0, c') ->
  tr = tr0 /\ bufs st' = bufs st /\ msg st' = c' /\
  match r0 with
  | RNormal => r = MNormal /\ (active st = false -> active st' = false)
  | RRaised k m => obj st' = Some k /\ msg st' = m /\ r = jump_or_die st'
  | RExit k => r = MExit k /\ (active st = false -> active st' = false)
  end.

(* break / continue / return only leave what [exits_ok] lets them leave *)
Lemma no_exit : forall p ret brk d c t k c',
  exits_ok ret brk p = true -> ref_run d c p = (t, RExit k, c') ->
  match k with XReturn => ret = true | _ => brk = true end.
Proof.
  induction p as [ | n | p IHp q IHq | o m f IHf | b IHb fs h IHh | k0 | p IHp ];
    intros ret brk d c t k c' Hok H; cbn [ref_run exits_ok] in H, Hok.
  - discriminate.
  - discriminate.
  - apply andb_true_iff in Hok. destruct Hok as (Hp & Hq).
    destruct (ref_run d c p) as [[t1 r1] c1] eqn:R1. destruct r1 as [|k1 m1|k1].
    + destruct (ref_run d c1 q) as [[t2 r2] c2] eqn:R2. inversion H; subst. eapply IHq; eassumption.
    + discriminate.
    + inversion H; subst. eapply IHp; eassumption.
  - destruct (ref_run d c f) as [[t1 r1] c1] eqn:R1.
    destruct r1 as [|k1 m1|[]]; cbn in H; try discriminate; inversion H; subst.
    + specialize (IHf _ _ _ _ _ _ _ Hok R1). cbn in IHf. discriminate.
    + specialize (IHf _ _ _ _ _ _ _ Hok R1). cbn in IHf. discriminate.
  - apply andb_true_iff in Hok. destruct Hok as (Hb & Hh).
    destruct (ref_run (S d) c b) as [[t1 r1] c1] eqn:R1. destruct r1 as [|k1 m1|k1].
    + discriminate.
    + destruct (matches fs k1); [|discriminate].
      destruct (ref_run d c1 h) as [[t2 r2] c2] eqn:R2.
      destruct r2 as [|k2 m2|[]]; cbn in H; try discriminate; inversion H; subst.
      specialize (IHh _ _ _ _ _ _ _ Hh R2). exact IHh.
    + inversion H; subst. specialize (IHb _ _ _ _ _ _ _ Hb R1). destruct k; discriminate.
  - inversion H; subst. destruct k; exact Hok.
  - destruct (ref_run d c p) as [[t1 r1] c1] eqn:R1.
    destruct r1 as [|k1 m1|[]]; cbn in H; try discriminate; inversion H; subst.
    + specialize (IHp _ _ _ _ _ _ _ Hok R1). cbn in IHp. discriminate.
    + specialize (IHp _ _ _ _ _ _ _ Hok R1). cbn in IHp. discriminate.
Qed.

Lemma refine : forall p ret brk st,
  exits_ok ret brk p = true -> depth st + nesting p <= max -> refines p st.
Proof.
  induction p as [ | n | p IHp q IHq | k m f IHf | b IHb fs h IHh | k0 | p IHp ];
    intros ret brk st Hok Hbound tr r st' Hrun tr0 r0 c' Href; cbn [nesting] in Hbound; cbn [exits_ok] in Hok.
  - (* PSkip *)
    cbn in Hrun, Href. inversion Hrun; inversion Href; subst. repeat split; auto.
  - (* PTick *)
    cbn in Hrun, Href. inversion Hrun; inversion Href; subst. repeat split; auto.
  - (* PSeq *)
    apply andb_true_iff in Hok. destruct Hok as (Hokp & Hokq).
    cbn [mrun ref_run] in Hrun, Href.
    destruct (run p st) as [[t1 r1] s1] eqn:E1.
    destruct (ref_run (depth st) (msg st) p) as [[t01 r01] c1] eqn:R1.
    assert (Hp : depth st + nesting p <= max) by lia.
    destruct (IHp _ _ st Hokp Hp _ _ _ E1 _ _ _ R1) as (-> & Hb1 & Hm1 & Hres1).
    destruct r01 as [ | k m | k].
    + destruct Hres1 as (-> & Hact1).
      destruct (run q s1) as [[t2 r2] s2] eqn:E2.
      rewrite <- (depth_bufs _ _ Hb1), <- Hm1 in Href.
      destruct (ref_run (depth s1) (msg s1) q) as [[t02 r02] c2] eqn:R2.
      assert (Hq : depth s1 + nesting q <= max) by (rewrite (depth_bufs _ _ Hb1); lia).
      destruct (IHq _ _ s1 Hokq Hq _ _ _ E2 _ _ _ R2) as (-> & Hb2 & Hm2 & Hres2).
      inversion Hrun; inversion Href; subst.
      split; [reflexivity|]. split; [congruence|]. split; [reflexivity|].
      destruct r0; [| exact Hres2 |].
      * destruct Hres2 as (-> & Hact2). split; [reflexivity|]. auto.
      * destruct Hres2 as (-> & Hact2). split; [reflexivity|]. auto.
    + destruct Hres1 as (Ho & Hm & Hr1).
      assert (Hrun' : (t01, r1, s1) = (tr, r, st')).
      { rewrite Hr1 in *. unfold jump_or_die in *. destruct (bufs s1); exact Hrun. }
      inversion Hrun'; inversion Href; subst. repeat split; auto.
    + destruct Hres1 as (-> & Hact1).
      inversion Hrun; inversion Href; subst. repeat split; auto.
  - (* PThrow: the arguments are shown (program f), then the object is stored and raised *)
    cbn [mrun ref_run] in Hrun, Href. unfold throw_pre, throw_post in Hrun.
    destruct (run f st) as [[t1 r1] s1] eqn:E1.
    destruct (ref_run (depth st) (msg st) f) as [[t01 r01] c1] eqn:R1.
    destruct (IHf _ _ st Hok Hbound _ _ _ E1 _ _ _ R1) as (-> & Hb1 & Hm1 & Hres1).
    destruct r01 as [ | k' m' | k'].
    + destruct Hres1 as (-> & _). cbn [fn_end rfn_end] in Hrun, Href.
      inversion Hrun; inversion Href; subst. cbn. repeat split; auto.
    + destruct Hres1 as (Ho & Hm & Hr1). cbn [rfn_end] in Href.
      assert (Hrun' : (t01, r1, s1) = (tr, r, st')).
      { rewrite Hr1 in *. unfold jump_or_die in *. destruct (bufs s1); exact Hrun. }
      inversion Hrun'; inversion Href; subst. repeat split; auto.
    + destruct Hres1 as (-> & Hact1).
      pose proof (no_exit _ _ _ _ _ _ _ _ Hok R1) as Hk.
      destruct k'; try discriminate. cbn [fn_end rfn_end] in Hrun, Href.
      inversion Hrun; inversion Href; subst. cbn. repeat split; auto.
  - (* PTry *)
    apply andb_true_iff in Hok. destruct Hok as (Hokb & Hokh).
    cbn [mrun ref_run] in Hrun, Href.
    unfold exception_try in Hrun.
    assert (Hne : (depth st =? max) = false) by (apply Nat.eqb_neq; lia).
    rewrite Hne in Hrun.
    set (s0 := MS (if tko then obj st else None) (msg st) (S (depth st) :: bufs st) false) in *.
    assert (Hd0 : depth s0 = S (depth st)) by reflexivity.
    assert (Hm0 : msg s0 = msg st) by reflexivity.
    destruct (run b s0) as [[t1 r1] s1] eqn:E1.
    rewrite <- Hd0, <- Hm0 in Href.
    destruct (ref_run (depth s0) (msg s0) b) as [[t01 r01] c1] eqn:R1.
    assert (Hb : depth s0 + nesting b <= max) by (rewrite Hd0; lia).
    destruct (IHb _ _ s0 Hokb Hb _ _ _ E1 _ _ _ R1) as (-> & Hb1 & Hm1 & Hres1).
    destruct r01 as [ | k m | k].
    + (* body ended normally: pop, catch sees active = false *)
      destruct Hres1 as (-> & Hact1). specialize (Hact1 eq_refl).
      unfold exception_try_end in Hrun. rewrite Hb1 in Hrun. cbn [bufs s0] in Hrun.
      unfold exception_catch in Hrun. cbn [active] in Hrun. rewrite Hact1 in Hrun. cbn in Hrun.
      inversion Hrun; inversion Href; subst. cbn. repeat split; auto.
    + (* body raised: the jump names our buffer; fail, pop, catch *)
      destruct Hres1 as (Ho & Hm & Hr1).
      unfold jump_or_die in Hr1. rewrite Hb1 in Hr1. cbn [bufs s0] in Hr1. subst r1.
      rewrite Nat.eqb_refl in Hrun.
      unfold exception_try_end, exception_try_fail in Hrun. cbn [bufs] in Hrun.
      rewrite Hb1 in Hrun. cbn [bufs s0] in Hrun.
      unfold exception_catch in Hrun. cbn [active obj negb] in Hrun. rewrite Ho in Hrun.
      destruct (matches fs k) eqn:Hmatch.
      * (* handled here *)
        unfold clear_active in Hrun. cbn [obj msg bufs active] in Hrun.
        set (s4 := MS (Some k) (msg s1) (bufs st) false) in *.
        assert (Hd4 : depth s4 = depth st) by reflexivity.
        assert (Hm4 : msg s4 = c1) by exact Hm1.
        destruct (run h s4) as [[t2 r2] s5] eqn:E2.
        rewrite <- Hd4, <- Hm4 in Href.
        destruct (ref_run (depth s4) (msg s4) h) as [[t02 r02] c2] eqn:R2.
        assert (Hh : depth s4 + nesting h <= max) by (rewrite Hd4; lia).
        destruct (IHh _ _ s4 Hokh Hh _ _ _ E2 _ _ _ R2) as (-> & Hb2 & Hm2 & Hres2).
        inversion Hrun; inversion Href; subst.
        split; [now rewrite Hd4|]. split; [exact Hb2|]. split; [reflexivity|].
        destruct r02 as [ | k2 m2 | k2 ].
        -- destruct Hres2 as (-> & Hact2). cbn. split; [reflexivity|]. intros _. exact (Hact2 eq_refl).
        -- destruct Hres2 as (Ho2 & Hm2' & ->). cbn [rhandler_end].
           split; [exact Ho2|]. split; [exact Hm2'|].
           unfold jump_or_die. destruct (bufs st'); reflexivity.
        -- destruct Hres2 as (-> & Hact2).
           destruct k2; cbn; (split; [reflexivity|]); intros _; exact (Hact2 eq_refl).
      * (* not for us: outwards *)
        inversion Hrun; inversion Href; subst. cbn. repeat split; auto.
    + (* the body cannot be left by break / continue / return *)
      pose proof (no_exit _ _ _ _ _ _ _ _ Hokb R1) as Hk. destruct k; discriminate.
  - (* PExit *)
    cbn in Hrun, Href. inversion Hrun; inversion Href; subst. repeat split; auto.
  - (* PCall *)
    cbn [mrun ref_run] in Hrun, Href.
    destruct (run p st) as [[t1 r1] s1] eqn:E1.
    destruct (ref_run (depth st) (msg st) p) as [[t01 r01] c1] eqn:R1.
    destruct (IHp _ _ st Hok Hbound _ _ _ E1 _ _ _ R1) as (-> & Hb1 & Hm1 & Hres1).
    inversion Hrun; inversion Href; subst.
    split; [reflexivity|]. split; [exact Hb1|]. split; [reflexivity|].
    destruct r01 as [ | k m | k ].
    + destruct Hres1 as (-> & Hact). cbn. auto.
    + destruct Hres1 as (Ho & Hm & ->). cbn [rfn_end]. repeat split; auto.
      unfold jump_or_die. destruct (bufs st'); reflexivity.
    + destruct Hres1 as (-> & Hact). destruct k; cbn; auto.
Qed.

End Refinement.

(* ------------------------------------------------------------------ the statements of Properties_C07.v *)

Lemma obj_after_format_generated : throw_records_obj_after_format = true.
Proof. reflexivity. Qed.

Definition mach := mrun exc_max_depth clear_active_on_catch throw_records_obj_after_format try_keeps_obj.

Lemma machine_refines_structured : forall p ret brk st,
  exits_ok ret brk p = true ->
  depth st + nesting p <= exc_max_depth ->
  let '(tr, r, st') := mach p st in
  let '(tr0, r0, c') := ref_run (depth st) (msg st) p in
  tr = tr0 /\ depth st' = depth st /\ bufs st' = bufs st /\ msg st' = c' /\
  match r0 with
  | RNormal => r = MNormal /\ (active st = false -> active st' = false)
  | RRaised k m =>
      obj st' = Some k /\ msg st' = m /\
      match bufs st with
      | [] => r = MDied (Some k) m
      | t :: _ => r = MJump t
      end
  | RExit k => r = MExit k /\ (active st = false -> active st' = false)
  end.
Proof.
  intros p ret brk st Hok Hb. unfold mach. rewrite clear_active_generated, obj_after_format_generated.
  destruct (mrun exc_max_depth true true try_keeps_obj p st) as [[tr r] st'] eqn:E.
  destruct (ref_run (depth st) (msg st) p) as [[tr0 r0] c'] eqn:R.
  destruct (refine exc_max_depth try_keeps_obj p ret brk st Hok Hb _ _ _ E _ _ _ R) as (-> & Hbufs & Hmsg & Hres).
  split; [reflexivity|]. split; [exact (depth_bufs _ _ Hbufs)|]. split; [exact Hbufs|]. split; [exact Hmsg|].
  destruct r0 as [|k m|k]; [exact Hres| |exact Hres].
  destruct Hres as (Ho & Hm & ->). split; [exact Ho|]. split; [exact Hm|].
  unfold jump_or_die. rewrite Hbufs. destruct (bufs st); [now rewrite Ho, Hm | reflexivity].
Qed.

(* a whole program, started on the fresh record of a thread (no object, empty message) *)
Lemma whole_program : forall p, exits_ok true false p = true -> nesting p <= exc_max_depth ->
  let '(tr, r, st') := mach p st_init in
  let '(tr0, r0, c') := ref_run 0 0 p in
  tr = tr0 /\ depth st' = 0 /\
  r = match r0 with RNormal => MNormal | RRaised k m => MDied (Some k) m | RExit k => MExit k end.
Proof.
  intros p Hok Hb.
  pose proof (machine_refines_structured p true false st_init Hok) as H. cbn [depth st_init bufs length Nat.add] in H.
  specialize (H Hb).
  destruct (mach p st_init) as [[tr r] st'].
  change (depth st_init) with 0 in H. change (msg st_init) with 0 in H.
  destruct (ref_run 0 0 p) as [[tr0 r0] c'].
  destruct H as (-> & Hd & _ & _ & Hres). split; [reflexivity|]. split; [exact Hd|].
  destruct r0; apply Hres.
Qed.

(* a try block whose body ends normally — in particular one whose exceptions were all handled
   by blocks inside it — never runs its handler, whatever its filter *)
Lemma handled_not_seen_outside : forall B fs h st,
  exits_ok false false B = true ->
  depth st + S (nesting B) <= exc_max_depth ->
  snd (fst (ref_run (S (depth st)) (msg st) B)) = RNormal ->
  let '(tr, r, st') := mach (PTry B fs h) st in
  tr = fst (fst (ref_run (S (depth st)) (msg st) B)) /\ r = MNormal /\ depth st' = depth st /\ active st' = false.
Proof.
  intros B fs h st Hok Hb HN. unfold mach. rewrite clear_active_generated, obj_after_format_generated.
  cbn [mrun]. unfold exception_try.
  assert (Hne : (depth st =? exc_max_depth) = false) by (apply Nat.eqb_neq; lia).
  rewrite Hne.
  set (s0 := MS (if try_keeps_obj then obj st else None) (msg st) (S (depth st) :: bufs st) false).
  assert (Hd0 : depth s0 = S (depth st)) by reflexivity.
  assert (Hm0 : msg s0 = msg st) by reflexivity.
  destruct (mrun exc_max_depth true true try_keeps_obj B s0) as [[t1 r1] s1] eqn:E1.
  rewrite <- Hd0, <- Hm0 in HN |- *.
  destruct (ref_run (depth s0) (msg s0) B) as [[t01 r01] c1] eqn:R1. cbn [snd fst] in *. subst r01.
  assert (Hb0 : depth s0 + nesting B <= exc_max_depth) by (rewrite Hd0; lia).
  destruct (refine exc_max_depth try_keeps_obj B false false s0 Hok Hb0 _ _ _ E1 _ _ _ R1) as (-> & Hb1 & _ & -> & Hact).
  specialize (Hact eq_refl).
  unfold exception_try_end. rewrite Hb1. cbn [bufs s0].
  unfold exception_catch. cbn [active]. rewrite Hact. cbn. auto.
Qed.

(* at the bound the next try aborts ("Exception Buffer Overflow"): the bound of the theorems is sharp *)
Lemma overflow_aborts : forall b fs h st,
  depth st = exc_max_depth -> mach (PTry b fs h) st = ([], MAbort, st).
Proof.
  intros b fs h st Hd. unfold mach. cbn [mrun]. unfold exception_try.
  rewrite Hd, Nat.eqb_refl. reflexivity.
Qed.

(* D3: the machine of the pinned code (exception_catch leaves [active] set) does not follow
   block structure: the outer handler runs for an exception the inner block handled ... *)
Definition d3_witness : prog := PTry (PTry (PThrow 0 5 PSkip) [0] (PTick 1)) [] (PTick 2).
(* ... and with a non-matching outer filter the program dies although nothing is unhandled *)
Definition d3_witness_dies : prog := PSeq (PTry (PTry (PThrow 0 5 PSkip) [0] (PTick 1)) [10] (PTick 2)) (PTick 3).

Lemma unrepaired_refuted :
  exists p, nesting p <= exc_max_depth /\
    fst (fst (mrun exc_max_depth false true true p st_init)) <> fst (fst (ref_run 0 0 p)).
Proof. exists d3_witness. split; [apply Nat.leb_le; vm_compute; reflexivity | vm_compute; discriminate]. Qed.

Lemma unrepaired_refuted_dies :
  exists p, nesting p <= exc_max_depth /\ snd (fst (ref_run 0 0 p)) = RNormal /\
    snd (fst (mrun exc_max_depth false true true p st_init)) = MDied (Some 0) 5.
Proof. exists d3_witness_dies. split; [apply Nat.leb_le; vm_compute; reflexivity | split; vm_compute; reflexivity]. Qed.

(* ------------------------------------------------------------------ the structured semantics, read declaratively *)

Lemma matches_spec : forall fs k, matches fs k = true <-> accepts fs k.
Proof.
  intros fs k. unfold matches, accepts. destruct fs as [|f fs'].
  - split; auto.
  - rewrite existsb_exists. split.
    + intros (x & Hin & Heq). apply Nat.eqb_eq in Heq. right. now exists x.
    + intros [H|(x & Hin & Heq)]; [discriminate|]. exists x. split; [exact Hin | now apply Nat.eqb_eq].
Qed.

Lemma matches_false_spec : forall fs k, matches fs k = false <-> rejects fs k.
Proof.
  intros fs k. unfold rejects. split.
  - intros H. split.
    + intros ->. discriminate.
    + intros f Hin Heq. assert (matches fs k = true) by (apply matches_spec; right; now exists f). congruence.
  - intros (Hne & Hnin). destruct (matches fs k) eqn:E; [|reflexivity].
    apply matches_spec in E. destruct E as [E|(f & Hin & Heq)]; [contradiction|]. exfalso. exact (Hnin f Hin Heq).
Qed.

Lemma ref_run_eval : forall p d c t r c', ref_run d c p = (t, r, c') -> eval d c p t r c'.
Proof.
  induction p as [ | n | p IHp q IHq | k m f IHf | b IHb fs h IHh | k0 | p IHp ]; intros d c t r c' H; cbn [ref_run] in H.
  - inversion H; subst. constructor.
  - inversion H; subst. constructor.
  - destruct (ref_run d c p) as [[t1 r1] c1] eqn:R1. apply IHp in R1.
    destruct r1 as [|k m|k].
    + destruct (ref_run d c1 q) as [[t2 r2] c2] eqn:R2. apply IHq in R2.
      inversion H; subst. eapply EvSeqNormal; eassumption.
    + inversion H; subst. apply EvSeqStop; [exact R1 | discriminate].
    + inversion H; subst. apply EvSeqStop; [exact R1 | discriminate].
  - destruct (ref_run d c f) as [[t1 r1] c1] eqn:R1. apply IHf in R1.
    destruct (rfn_end r1) eqn:Hr; inversion H; subst.
    + eapply EvThrow; eassumption.
    + rewrite <- Hr. apply EvThrowEscaped; [exact R1 | rewrite Hr; discriminate].
    + rewrite <- Hr. apply EvThrowEscaped; [exact R1 | rewrite Hr; discriminate].
  - destruct (ref_run (S d) c b) as [[t1 r1] c1] eqn:R1. apply IHb in R1.
    destruct r1 as [|k m|k].
    + inversion H; subst. now apply EvTryNormal.
    + destruct (matches fs k) eqn:Hm.
      * destruct (ref_run d c1 h) as [[t2 r2] c2] eqn:R2. apply IHh in R2.
        inversion H; subst. eapply EvTryHandled; [exact R1 | now apply matches_spec | exact R2].
      * apply matches_false_spec in Hm. inversion H; subst. now apply EvTryPassed.
    + inversion H; subst. now apply EvTryLeft.
  - inversion H; subst. constructor.
  - destruct (ref_run d c p) as [[t1 r1] c1] eqn:R1. apply IHp in R1.
    inversion H; subst. now constructor.
Qed.

Lemma eval_ref_run : forall d c p t r c', eval d c p t r c' -> ref_run d c p = (t, r, c').
Proof.
  induction 1; cbn [ref_run]; try reflexivity.
  - now rewrite IHeval1, IHeval2.
  - rewrite IHeval. destruct r; [contradiction | reflexivity | reflexivity].
  - rewrite IHeval. now rewrite H0.
  - rewrite IHeval. destruct (rfn_end r1) eqn:Hr; [contradiction | reflexivity | reflexivity].
  - now rewrite IHeval.
  - now rewrite IHeval.
  - rewrite IHeval1. assert (Hm : matches fs k = true) by now apply matches_spec.
    now rewrite Hm, IHeval2.
  - rewrite IHeval. assert (Hm : matches fs k = false) by now apply matches_false_spec.
    now rewrite Hm.
  - now rewrite IHeval.
Qed.

Lemma eval_iff_ref_run : forall d c p t r c', eval d c p t r c' <-> ref_run d c p = (t, r, c').
Proof. intros. split; [apply eval_ref_run | apply ref_run_eval]. Qed.

(* the machine against the relation *)
Lemma machine_follows_eval : forall p ret brk st t r0 c',
  exits_ok ret brk p = true ->
  depth st + nesting p <= exc_max_depth ->
  eval (depth st) (msg st) p t r0 c' ->
  let '(tr, r, st') := mach p st in
  tr = t /\ depth st' = depth st /\ msg st' = c' /\
  match r0 with
  | RNormal => r = MNormal
  | RRaised k m => obj st' = Some k /\ msg st' = m /\
                   match bufs st with [] => r = MDied (Some k) m | b :: _ => r = MJump b end
  | RExit k => r = MExit k
  end.
Proof.
  intros p ret brk st t r0 c' Hok Hb He. apply eval_ref_run in He.
  pose proof (machine_refines_structured p ret brk st Hok Hb) as H.
  destruct (mach p st) as [[tr r] st']. rewrite He in H.
  destruct H as (-> & Hd & _ & Hm & Hres). split; [reflexivity|]. split; [exact Hd|]. split; [exact Hm|].
  destruct r0; [apply Hres | exact Hres | apply Hres].
Qed.

(* A try block enters its handler exactly when its body lets an exception escape that its filter
   accepts; the handler is then entered once, with that exception bound; the block ends as the
   handler ends (a handler left by break / continue ends the block normally). *)
Lemma handler_runs_iff : forall d c b fs h t r c',
  eval d c (PTry b fs h) t r c' ->
  forall t1 r1 c1, eval (S d) c b t1 r1 c1 ->
  ((exists k m, r1 = RRaised k m /\ accepts fs k) <->
   (exists k m t2, t = t1 ++ EHandler k m d :: t2)) /\
  (forall k m t2, t = t1 ++ EHandler k m d :: t2 ->
     r1 = RRaised k m /\ exists r2, eval d c1 h t2 r2 c' /\ r = rhandler_end r2).
Proof.
  intros d c b fs h t r c' He t1 r1 c1 Hb.
  apply eval_ref_run in He. apply eval_ref_run in Hb. cbn [ref_run] in He. rewrite Hb in He.
  assert (Hnil : forall (l : list event) x l', l <> l ++ x :: l').
  { intros l x l' E. apply (f_equal (@length event)) in E. rewrite app_length in E. cbn in E. lia. }
  destruct r1 as [|k m|k].
  - inversion He; subst. split.
    + split; [intros (k & m & Hk & _); discriminate | intros (k & m & t2 & E); now apply Hnil in E].
    + intros k m t2 E. now apply Hnil in E.
  - destruct (matches fs k) eqn:Hm.
    + destruct (ref_run d c1 h) as [[t2 r2] c2] eqn:Rh. inversion He; subst. split.
      * split; [intros _; now exists k, m, t2 | intros _; exists k, m; split; [reflexivity | now apply matches_spec]].
      * intros k' m' t2' E. apply app_inv_head in E. inversion E; subst.
        split; [reflexivity|]. exists r2. split; [now apply eval_iff_ref_run | reflexivity].
    + inversion He; subst. assert (Hm' := Hm). apply matches_false_spec in Hm. split.
      * split.
        -- intros (k' & m' & Hk & Hacc). inversion Hk; subst. apply matches_spec in Hacc. congruence.
        -- intros (k' & m' & t2 & E). now apply Hnil in E.
      * intros k' m' t2 E. now apply Hnil in E.
  - inversion He; subst. split.
    + split; [intros (k' & m & Hk & _); discriminate | intros (k' & m & t2 & E); now apply Hnil in E].
    + intros k' m t2 E. now apply Hnil in E.
Qed.

(* A non-matching exception continues to the nearest enclosing matching handler: wrap a raising
   program in blocks that do not accept the exception (pre), then one that does, then anything. *)
Lemma chain_app : forall l1 l2 p, chain (l1 ++ l2) p = chain l2 (chain l1 p).
Proof. induction l1 as [|[fs h] l1 IH]; intros l2 p; cbn; [reflexivity | apply IH]. Qed.

Lemma passes_through : forall pre p d c t1 k m c1,
  ref_run (length pre + d) c p = (t1, RRaised k m, c1) ->
  Forall (fun lv => matches (fst lv) k = false) pre ->
  ref_run d c (chain pre p) = (t1, RRaised k m, c1).
Proof.
  induction pre as [|[fs h] pre IH]; intros p d c t1 k m c1 Hp Hall; cbn [chain].
  - exact Hp.
  - inversion Hall as [|x l Hx Hl]; subst. cbn [fst] in Hx.
    apply IH; [|exact Hl].
    cbn [ref_run]. cbn [length Nat.add] in Hp. rewrite Hp, Hx. reflexivity.
Qed.

Lemma nearest_matching_handler : forall pre fs h p d c t1 k m c1,
  ref_run (S (length pre + d)) c p = (t1, RRaised k m, c1) ->
  Forall (fun lv => matches (fst lv) k = false) pre ->
  matches fs k = true ->
  ref_run d c (chain (pre ++ [(fs, h)]) p) =
    let '(t2, r2, c2) := ref_run d c1 h in (t1 ++ EHandler k m d :: t2, rhandler_end r2, c2).
Proof.
  intros pre fs h p d c t1 k m c1 Hp Hall Hm.
  rewrite chain_app. cbn [chain ref_run].
  rewrite (passes_through pre p (S d) c t1 k m c1); [| now rewrite <- plus_n_Sm | exact Hall].
  now rewrite Hm.
Qed.

Lemma nobody_matches : forall pre p c t1 k m c1,
  ref_run (length pre) c p = (t1, RRaised k m, c1) ->
  Forall (fun lv => matches (fst lv) k = false) pre ->
  ref_run 0 c (chain pre p) = (t1, RRaised k m, c1).
Proof. intros. apply passes_through; [now rewrite Nat.add_0_r | assumption]. Qed.

Lemma nesting_chain : forall levels p,
  nesting (chain levels p) <=
  length levels + Nat.max (nesting p) (fold_right (fun lv a => Nat.max (nesting (snd lv)) a) 0 levels).
Proof.
  induction levels as [|[fs h] rest IH]; intros p; cbn [chain length fold_right snd].
  - lia.
  - specialize (IH (PTry p fs h)). cbn [nesting] in IH. lia.
Qed.

(* the two chain facts for the machine *)
Lemma machine_nearest_matching_handler : forall pre fs h p ret brk st t1 k m c1,
  exits_ok ret brk (chain (pre ++ [(fs, h)]) p) = true ->
  depth st + nesting (chain (pre ++ [(fs, h)]) p) <= exc_max_depth ->
  ref_run (S (length pre + depth st)) (msg st) p = (t1, RRaised k m, c1) ->
  Forall (fun lv => rejects (fst lv) k) pre ->
  accepts fs k ->
  let '(tr, r, st') := mach (chain (pre ++ [(fs, h)]) p) st in
  let '(t2, r2, c2) := ref_run (depth st) c1 h in
  tr = t1 ++ EHandler k m (depth st) :: t2 /\ depth st' = depth st /\
  (r2 = RNormal -> r = MNormal).
Proof.
  intros pre fs h p ret brk st t1 k m c1 Hok Hb Hp Hall Hm.
  pose proof (machine_refines_structured _ ret brk st Hok Hb) as H.
  destruct (mach (chain (pre ++ [(fs, h)]) p) st) as [[tr r] st'].
  rewrite (nearest_matching_handler pre fs h p (depth st) (msg st) t1 k m c1) in H.
  - destruct (ref_run (depth st) c1 h) as [[t2 r2] c2].
    destruct H as (-> & Hd & _ & _ & Hres). split; [reflexivity|]. split; [exact Hd|].
    intros ->. cbn [rhandler_end] in Hres. apply Hres.
  - exact Hp.
  - eapply Forall_impl; [|exact Hall]. intros lv Hlv. now apply matches_false_spec.
  - now apply matches_spec.
Qed.

Lemma machine_nobody_matches : forall pre p t1 k m c1,
  exits_ok true false (chain pre p) = true ->
  nesting (chain pre p) <= exc_max_depth ->
  ref_run (length pre) 0 p = (t1, RRaised k m, c1) ->
  Forall (fun lv => rejects (fst lv) k) pre ->
  let '(tr, r, st') := mach (chain pre p) st_init in
  tr = t1 /\ r = MDied (Some k) m /\ depth st' = 0.
Proof.
  intros pre p t1 k m c1 Hok Hb Hp Hall.
  pose proof (whole_program _ Hok Hb) as H.
  destruct (mach (chain pre p) st_init) as [[tr r] st'].
  rewrite (nobody_matches pre p 0 t1 k m c1) in H.
  - destruct H as (-> & Hd & ->). auto.
  - exact Hp.
  - eapply Forall_impl; [|exact Hall]. intros lv Hlv. now apply matches_false_spec.
Qed.

(* ------------------------------------------------------------------ the filter walk of the pinned code *)

Lemma tuple_next_at : forall pre c post,
  ~ In c pre -> tuple_next (pre ++ c :: post) c = hd_error post.
Proof.
  induction pre as [|x pre IH]; intros c post Hnin; cbn [app tuple_next].
  - now rewrite Nat.eqb_refl.
  - destruct (x =? c) eqn:E.
    + apply Nat.eqb_eq in E. subst. exfalso. apply Hnin. now left.
    + apply IH. intros H. apply Hnin. now right.
Qed.

Lemma foreach_from : forall k post pre c fuel,
  NoDup (pre ++ c :: post) -> length post + 2 <= fuel ->
  foreach_matches fuel (pre ++ c :: post) (Some c) k = Some (existsb (fun f => kind_of f =? kind_of k) (c :: post)).
Proof.
  intros k. induction post as [|x post IH]; intros pre c fuel Hnd Hf.
  - destruct fuel as [|[|f]]; cbn [length] in Hf; try lia.
    cbn [foreach_matches existsb]. destruct (kind_of c =? kind_of k); [reflexivity|].
    rewrite tuple_next_at; [reflexivity|].
    apply NoDup_remove_2 in Hnd. intros H. apply Hnd. rewrite app_nil_r. exact H.
  - destruct fuel as [|f]; cbn [length] in Hf; [lia|].
    cbn [foreach_matches]. cbn [existsb]. destruct (kind_of c =? kind_of k); [reflexivity|]. cbn [orb].
    rewrite tuple_next_at.
    + cbn [hd_error].
      replace (pre ++ c :: x :: post) with ((pre ++ [c]) ++ x :: post) in * by (now rewrite <- app_assoc).
      apply IH; [exact Hnd | lia].
    + apply NoDup_remove_2 in Hnd. intros H. apply Hnd. apply in_or_app. now left.
Qed.

(* on a duplicate-free filter the foreach walk of the pinned code decides what [matches] decides *)
Lemma foreach_agrees_on_sets : forall fs k fuel,
  NoDup fs -> fs <> [] -> length fs + 1 <= fuel ->
  foreach_matches fuel fs (hd_error fs) k = Some (matches fs k).
Proof.
  intros fs k fuel Hnd Hne Hf. destruct fs as [|c post]; [contradiction|].
  cbn [hd_error matches]. apply (foreach_from k post [] c fuel Hnd). cbn [length] in Hf. lia.
Qed.

(* ... and never finishes on a filter that names an object twice, when that object is not the thrown one *)
Lemma foreach_diverges_on_duplicate : forall fuel,
  foreach_matches fuel [0; 0] (hd_error [0; 0]) 10 = None.
Proof. induction fuel as [|f IH]; [reflexivity|]. cbn. exact IH. Qed.

(* ------------------------------------------------------------------ identity of the bound object *)

(* "The object bound in the handler is the one that was thrown" — by identity, also when an object
   that is `eq` to it (same kind) was thrown and handled just before and is still held in the
   record, and whatever the two formats are.  (The message the second handler sees is the second
   throw's, or — empty format, m2 = 0 — the one already in the record.) *)
Lemma bound_object_is_thrown_identity : forall o1 o2 m1 m2 fs,
  accepts fs o2 ->
  fst (mach (PSeq (PTry (PThrow o1 m1 PSkip) [] PSkip) (PTry (PThrow o2 m2 PSkip) fs PSkip)) st_init)
  = ([EHandler o1 (set_msg m1 0) 0; EHandler o2 (set_msg m2 (set_msg m1 0)) 0], MNormal).
Proof.
  intros o1 o2 m1 m2 fs Hacc. apply matches_spec in Hacc.
  set (P := PSeq (PTry (PThrow o1 m1 PSkip) [] PSkip) (PTry (PThrow o2 m2 PSkip) fs PSkip)).
  assert (Hn : nesting P <= exc_max_depth) by (apply Nat.leb_le; reflexivity).
  pose proof (whole_program P eq_refl Hn) as H.
  destruct (mach P st_init) as [[tr r] st']. cbn [fst].
  unfold P in H. cbn [ref_run matches app rfn_end rhandler_end] in H. rewrite Hacc in H. cbn [ref_run app rfn_end rhandler_end] in H.
  destruct H as (-> & _ & ->). reflexivity.
Qed.

(* ------------------------------------------------------------------ the object is stored after formatting *)

(* Third repaired defect: the pinned exception_throw stored e->obj BEFORE it formatted the message.
   A Show method of a message argument that throws and handles an exception of its own then left
   ITS object in the record: the outer handler was bound to the inner object, or — with a filter
   naming the thrown kind — did not run at all and the program died. *)
Definition fmt_witness : prog :=
  PTry (PThrow 0 5 (PTry (PThrow 10 7 PSkip) [] PSkip)) [0] (PTick 1).

Lemma obj_before_format_refuted :
  nesting fmt_witness <= exc_max_depth /\
  ref_run 0 0 fmt_witness = ([EHandler 10 7 1; EHandler 0 5 0; ETick 1 0], RNormal, 5) /\
  fst (mrun exc_max_depth true false true fmt_witness st_init) = ([EHandler 10 7 1], MDied (Some 10) 5).
Proof. split; [apply Nat.leb_le; vm_compute; reflexivity | split; vm_compute; reflexivity]. Qed.

(* With the object stored first, exception_try must not touch e->obj either (seeded change: it
   cleared it): a Show method that merely ENTERS a try block wiped the object being raised; a
   catch-all then bound NULL and was skipped.  With the repaired order the machine refines the
   structured semantics for either behaviour of exception_try ([refine] is generic in tko). *)
Definition fmt_witness_quiet : prog :=
  PTry (PThrow 0 5 (PTry PSkip [] PSkip)) [] (PTick 1).

Lemma try_clearing_obj_refuted_for_old_order :
  ref_run 0 0 fmt_witness_quiet = ([EHandler 0 5 0; ETick 1 0], RNormal, 5) /\
  fst (mrun exc_max_depth true false false fmt_witness_quiet st_init) = ([], MNormal) /\
  fst (mrun exc_max_depth true true false fmt_witness_quiet st_init) = ([EHandler 0 5 0; ETick 1 0], MNormal).
Proof. repeat split; vm_compute; reflexivity. Qed.

(* ------------------------------------------------------------------ handlers left early *)

(* An exception handled by a handler that is left early — by break, by continue, or by return from
   the function the inner block stands in — is not seen by the enclosing block either: the outer
   handler stays out, whatever its filter, and the flag is clear afterwards.
   (Instance of handled_not_seen_outside; [early k] is the inner construct for each exit kind.) *)
Definition early (k : exit_kind) (o m : nat) : prog :=
  match k with
  | XReturn => PCall (PTry (PThrow o m PSkip) [] (PSeq (PTick 1) (PSeq (PExit XReturn) (PTick 9))))
  | _ => PTry (PThrow o m PSkip) [] (PSeq (PTick 1) (PSeq (PExit k) (PTick 9)))
  end.

Lemma early_exit_not_seen_outside : forall k o m fs' h' st,
  depth st + 2 <= exc_max_depth ->
  let '(tr, r, st') := mach (PTry (PSeq (early k o m) (PTick 2)) fs' h') st in
  tr = [EHandler o (set_msg m (msg st)) (S (depth st)); ETick 1 (S (depth st)); ETick 2 (S (depth st))]
  /\ r = MNormal /\ depth st' = depth st /\ active st' = false.
Proof.
  intros k o m fs' h' st Hb.
  pose proof (handled_not_seen_outside (PSeq (early k o m) (PTick 2)) fs' h' st) as H.
  assert (Hok : exits_ok false false (PSeq (early k o m) (PTick 2)) = true) by (destruct k; reflexivity).
  assert (Hn : depth st + S (nesting (PSeq (early k o m) (PTick 2))) <= exc_max_depth) by (destruct k; cbn; lia).
  assert (HN : ref_run (S (depth st)) (msg st) (PSeq (early k o m) (PTick 2))
               = ([EHandler o (set_msg m (msg st)) (S (depth st)); ETick 1 (S (depth st)); ETick 2 (S (depth st))],
                  RNormal, set_msg m (msg st))) by (destruct k; reflexivity).
  specialize (H Hok Hn). rewrite HN in H. cbn [fst snd] in H. specialize (H eq_refl).
  destruct (mach (PTry (PSeq (early k o m) (PTick 2)) fs' h') st) as [[tr r] st']. exact H.
Qed.
