(* ExnProofs.v — proofs about the exception machine of Exn.v (property C07). *)
From Coq Require Import List Arith Bool Lia String.
From CelloV Require Import Generated Exn.
Import ListNotations.

(* ------------------------------------------------------------------ ties to the source *)

Lemma macro_shapes :
  exn_macro_try = expected_macro_try /\ exn_macro_catch = expected_macro_catch /\
  exn_macro_catch_in = expected_macro_catch_in /\ exn_macro_throw = expected_macro_throw.
Proof. repeat split; reflexivity. Qed.

Lemma source_shapes :
  exn_src_try = expected_src_try /\ exn_src_try_end = expected_src_try_end /\
  exn_src_try_fail = expected_src_try_fail /\ exn_src_throw = expected_src_throw /\
  exn_src_catch = expected_src_catch /\ exn_src_buffer = expected_src_buffer /\
  exn_src_len = expected_src_len.
Proof. repeat split; reflexivity. Qed.
