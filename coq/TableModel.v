(* TableModel.v — executable model of src/Table.c on top of RobinHood.v, and the
   finite-map specification it is proved to refine (TableProofs.v, Properties_C02.v).
   MODEL ONLY (no proofs here). *)
From Coq Require Import List Arith Bool NArith ZArith.
From CelloV Require Import Generated RobinHood.
Import ListNotations.

Inductive cexn := KeyError | FormatError | ValueError | IndexError | TypeError
               | ClassError | ResourceError | IOError | OutOfMemoryError | BusyError.

Section Table.
  Variables K V : Type.
  Variable keq : K -> K -> bool.
  Variable hash : K -> N.
  Variable swap : nat -> nat -> bool.     (* displacement rule of Table_Set_Move *)
  Variable primes : list N.
  Variables num den : N.

  Definition entry := (K * V)%type.
  Definition tslot := slot entry.

  Record table := mkT { slots : list tslot; nitems : nat }.

  Definition nslots (t : table) := length (slots t).

  (* hash(key) % t->nslots *)
  Definition home (k : K) (n : nat) : nat := N.to_nat (N.modulo (hash k) (N.of_nat n)).

  Definition ideal := ideal_size primes num den.

  Definition rh_insert := insert K entry keq fst swap (fun _old new => new).
  Definition rh_find := find K entry keq fst.
  Definition rh_delete := delete_at entry.
  Definition rh_rehash := rehash K entry keq fst swap (fun _old new => new) home.

  Inductive out :=
  | OUnit | OVal (v : V) | OBool (b : bool) | ORaise (e : cexn)
  | OCrash      (* the C code would divide by zero / dereference NULL here *)
  | OFuel.      (* a loop of the model ran out of fuel: excluded by theorem *)

  (* Table_New(K, V) without initial pairs: nslots = Ideal_Size(0) *)
  Definition t_empty : table := mkT (repeat None (ideal 0)) 0.

  (* Table_Set_Move(t, k, v, move=false) — requires nslots > 0 (callers guarantee) *)
  Definition set_move (t : table) (k : K) (v : V) : option table :=
    match rh_insert (slots t) (home k (nslots t)) (k, v) with
    | Some (sl, fresh) => Some (mkT sl (if fresh then S (nitems t) else nitems t))
    | None => None
    end.

  (* Table_Rehash: nitems is reset and recounted by the re-insertions *)
  Definition t_rehash (t : table) (n : nat) : option table :=
    match rh_rehash (slots t) n with
    | Some sl => Some (mkT sl (occupied entry sl))
    | None => None
    end.

  (* Table_Resize_More / Table_Resize_Less.  WHEN to rehash and to WHAT size is tuning: the policy
     is read from the source (Generated.table_grow_trigger/target, table_shrink_trigger/target,
     functions of nitems; the pinned code has the identity everywhere):
       More:  if (Ideal(grow_trigger n) > nslots)   Rehash(Ideal(grow_target n))
       Less:  if (Ideal(shrink_trigger n) < nslots) Rehash(Ideal(shrink_target n))              *)
  Definition resize_more (t : table) : option table :=
    if nslots t <? ideal (table_grow_trigger (nitems t))
    then t_rehash t (ideal (table_grow_target (nitems t))) else Some t.

  Definition resize_less (t : table) : option table :=
    if ideal (table_shrink_trigger (nitems t)) <? nslots t
    then t_rehash t (ideal (table_shrink_target (nitems t))) else Some t.

  (* Table_New with initial pairs: capacity from the pair count, no Resize_More *)
  Fixpoint set_all (t : table) (kvs : list entry) : option table :=
    match kvs with
    | [] => Some t
    | (k, v) :: r => match set_move t k v with Some t' => set_all t' r | None => None end
    end.

  Definition t_new (kvs : list entry) : option table :=
    set_all (mkT (repeat None (ideal (length kvs))) 0) kvs.

  (* iteration: keys (with values) in slot order *)
  Definition t_iter (t : table) : list entry := entries entry (slots t).

  (* Table_Assign(self, obj) for obj a Table: clear, size for len(obj), re-insert in
     obj's iteration order *)
  Definition t_assign_from (src : table) : option table :=
    set_all (mkT (repeat None (ideal (nitems src))) 0) (t_iter src).

  Definition t_len (t : table) := nitems t.

  Definition t_lookup (t : table) (k : K) : option (option entry) :=
    if nslots t =? 0 then Some None else
    match rh_find (slots t) (home k (nslots t)) k with
    | Some (Some i) => match at_ entry (slots t) i with
                       | Some (_, e) => Some (Some e)
                       | None => Some None end
    | Some None => Some None
    | None => None
    end.

  Inductive op :=
  | TSet (k : K) (v : V) | TRem (k : K) | TGet (k : K) | TMem (k : K)
  | TResize (n : nat) | TSelfCopy.   (* t := copy(t), old one deleted *)

  Definition t_step (t : table) (o : op) : table * out :=
    match o with
    | TSet k v =>
      (* Table_Set: (re)create the slot array if the table was emptied by resize(0),
         then Set_Move, then Resize_More *)
      let t0 := if nslots t =? 0 then mkT (repeat None (ideal 0)) 0 else t in
      match set_move t0 k v with
      | Some t1 => match resize_more t1 with Some t2 => (t2, OUnit) | None => (t, OFuel) end
      | None => (t, OFuel)
      end
    | TRem k =>
      if nslots t =? 0 then (t, ORaise KeyError) else
      match rh_find (slots t) (home k (nslots t)) k with
      | Some (Some i) =>
        match rh_delete (slots t) i with
        | Some sl => match resize_less (mkT sl (pred (nitems t))) with
                     | Some t2 => (t2, OUnit) | None => (t, OFuel) end
        | None => (t, OFuel)
        end
      | Some None => (t, ORaise KeyError)
      | None => (t, OFuel)
      end
    | TGet k =>
      match t_lookup t k with
      | Some (Some (_, v)) => (t, OVal v)
      | Some None => (t, ORaise KeyError)
      | None => (t, OFuel)
      end
    | TMem k =>
      match t_lookup t k with
      | Some (Some _) => (t, OBool true)
      | Some None => (t, OBool false)
      | None => (t, OFuel)
      end
    | TResize n =>
      if n =? 0 then (mkT [] 0, OUnit)
      else if n <? nitems t then (t, ORaise FormatError)
      else match t_rehash t (ideal n) with Some t2 => (t2, OUnit) | None => (t, OFuel) end
    | TSelfCopy =>
      match t_assign_from t with Some t2 => (t2, OUnit) | None => (t, OFuel) end
    end.

  Definition t_run (ops : list op) (t : table) : table :=
    fold_left (fun t o => fst (t_step t o)) ops t.

  (* ------------------------------------------------------------------ specification *)
  (* a finite map as an association list without duplicate keys *)
  Definition amap := list entry.

  Fixpoint a_get (m : amap) (k : K) : option V :=
    match m with
    | [] => None
    | (k', v) :: r => if keq k' k then Some v else a_get r k
    end.

  Fixpoint a_rem (m : amap) (k : K) : amap :=
    match m with
    | [] => []
    | (k', v) :: r => if keq k' k then a_rem r k else (k', v) :: a_rem r k
    end.

  Definition a_set (m : amap) (k : K) (v : V) : amap := (k, v) :: a_rem m k.

  Definition spec_step (m : amap) (o : op) : amap * out :=
    match o with
    | TSet k v => (a_set m k v, OUnit)
    | TRem k => match a_get m k with Some _ => (a_rem m k, OUnit) | None => (m, ORaise KeyError) end
    | TGet k => match a_get m k with Some v => (m, OVal v) | None => (m, ORaise KeyError) end
    | TMem k => match a_get m k with Some _ => (m, OBool true) | None => (m, OBool false) end
    | TResize n => if n =? 0 then ([], OUnit)
                   else if n <? length m then (m, ORaise FormatError) else (m, OUnit)
    | TSelfCopy => (m, OUnit)
    end.

  Definition spec_run (ops : list op) (m : amap) : amap :=
    fold_left (fun m o => fst (spec_step m o)) ops m.
End Table.
