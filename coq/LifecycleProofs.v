(* LifecycleProofs.v — proofs about the life-cycle machine of Lifecycle.v (property C06). *)
From Coq Require Import List Arith Bool PeanoNat Lia.
From CelloV Require Import Generated Lifecycle.
Import ListNotations.

(* the fixed shapes of the C text that Lifecycle.v re-states (tools/genx_life.py) *)
Lemma source_shape_ok : gc_life_shape = true.
Proof. reflexivity. Qed.
