(* LifecycleProofs.v — proofs about the life-cycle machine of Lifecycle.v (property C06).
   The positive results are about the repaired machine (rem_fix = sweep_fix = true); the
   pinned variants are refuted by computation at the end. *)
From Coq Require Import List Arith Bool PeanoNat Lia.
From CelloV Require Import Generated Lifecycle.
Import ListNotations.

(* the fixed shapes of the C text that Lifecycle.v re-states (tools/genx_life.py) *)
Lemma source_shape_ok : gc_life_shape = true.
Proof. reflexivity. Qed.

(* ------------------------------------------------------------------ small facts *)
Definition regids (s : st) : list id := map fst (reg s).
Definition somes (l : list (option id)) : list id :=
  flat_map (fun x => match x with Some y => [y] | None => [] end) l.
Definition pids (s : st) : list id := somes (pend s).
Definition measure (s : st) : nat := nitems s + live_pend s.
Definition done (s : st) (x : id) : Prop := fin_count s x = 1 /\ free_count s x = 1.

Lemma lev_eqb_refl e : lev_eqb e e = true.
Proof. destruct e; simpl; apply Nat.eqb_refl. Qed.

Lemma count_cons e a l : count e (a :: l) = (if lev_eqb e a then 1 else 0) + count e l.
Proof. unfold count. simpl. destruct (lev_eqb e a); reflexivity. Qed.

Lemma fin_add_fin s o x : fin_count (add_log (LFin o) s) x = (if x =? o then 1 else 0) + fin_count s x.
Proof. unfold fin_count. simpl log. rewrite count_cons. reflexivity. Qed.
Lemma fin_add_free s o x : fin_count (add_log (LFree o) s) x = fin_count s x.
Proof. unfold fin_count. simpl log. rewrite count_cons. reflexivity. Qed.
Lemma free_add_fin s o x : free_count (add_log (LFin o) s) x = free_count s x.
Proof. unfold free_count. simpl log. rewrite count_cons. reflexivity. Qed.
Lemma free_add_free s o x : free_count (add_log (LFree o) s) x = (if x =? o then 1 else 0) + free_count s x.
Proof. unfold free_count. simpl log. rewrite count_cons. reflexivity. Qed.

Lemma somes_in l x : In x (somes l) <-> In (Some x) l.
Proof.
  unfold somes. rewrite in_flat_map. split.
  - intros [[y|] [H1 H2]]; simpl in H2; [destruct H2 as [->|[]]; exact H1 | destruct H2].
  - intros H. exists (Some x). split; [exact H | simpl; auto].
Qed.

Lemma live_pend_somes s : live_pend s = length (pids s).
Proof.
  unfold live_pend, pids, somes. induction (pend s) as [|[y|] l IH]; simpl; auto.
Qed.

Lemma somes_null o l : somes (null_pend o l) = filter (fun y => negb (y =? o)) (somes l).
Proof.
  unfold null_pend, somes. induction l as [|[y|] l IH]; simpl; auto.
  destruct (y =? o) eqn:E; simpl; rewrite IH; reflexivity.
Qed.

Lemma filter_length_le {A} (f : A -> bool) l : length (filter f l) <= length l.
Proof. induction l; simpl; [lia | destruct (f a); simpl; lia]. Qed.

Lemma filter_length_lt {A} (f : A -> bool) l x : In x l -> f x = false -> length (filter f l) < length l.
Proof.
  induction l; simpl; [tauto|]. intros [->|H] Hf.
  - rewrite Hf. pose proof (filter_length_le f l). lia.
  - specialize (IHl H Hf). destruct (f a); simpl; lia.
Qed.

Lemma NoDup_filter {A} (f : A -> bool) l : NoDup l -> NoDup (filter f l).
Proof.
  induction 1; simpl; [constructor|]. destruct (f x); auto. constructor; auto.
  rewrite filter_In. tauto.
Qed.

Lemma regids_rem o r : map fst (rem_reg o r) = filter (fun y => negb (y =? o)) (map fst r).
Proof.
  unfold rem_reg. induction r as [|[a b] r IH]; simpl; auto.
  destruct (a =? o); simpl; rewrite IH; reflexivity.
Qed.

Lemma in_reg_spec s o : in_reg s o = true <-> In o (regids s).
Proof.
  unfold in_reg, regids. rewrite existsb_exists, in_map_iff. split.
  - intros [e [H1 H2]]. apply Nat.eqb_eq in H2. exists e; auto.
  - intros [e [H1 H2]]. exists e. split; auto. apply Nat.eqb_eq; auto.
Qed.

Lemma in_pend_spec s o : in_pend s o = true <-> In o (pids s).
Proof.
  unfold in_pend, pids. rewrite somes_in, existsb_exists. split.
  - intros [[y|] [H1 H2]]; simpl in H2; [|discriminate]. apply Nat.eqb_eq in H2. subst. exact H1.
  - intros H. exists (Some o). split; auto. simpl. apply Nat.eqb_refl.
Qed.

(* ------------------------------------------------------------------ invariant, extension *)
(* A = objects whose destructor is running (Fin logged, memory not yet released) *)
Record GInv (A : list id) (s : st) : Prop := {
  g_reg_nodup : NoDup (regids s);
  g_pend_nodup : NoDup (pids s);
  g_disj : forall x, In x (regids s) -> ~ In x (pids s);
  g_fresh : forall x, In x (regids s) \/ In x (pids s) -> fin_count s x = 0;
  g_prog : forall x, In x A -> fin_count s x = 1 /\ free_count s x = 0;
  g_rest : forall x, ~ In x A -> free_count s x = fin_count s x /\ fin_count s x <= 1
}.

Record Ext (s s' : st) : Prop := {
  e_running : running s' = running s;
  e_info : info s' = info s;
  e_ids : ids s' = ids s;
  e_torn : torn s' = torn s;
  e_bad : bad s' = bad s;
  e_oof : oof s' = oof s;
  e_fin : forall x, fin_count s x <= fin_count s' x;
  e_free : forall x, free_count s x <= free_count s' x;
  e_reg : incl (reg s') (reg s);
  e_pend : Forall2 (fun a b => a = b \/ a = None) (pend s') (pend s);
  e_regdone : forall x, In x (regids s) -> ~ In x (regids s') -> done s' x;
  e_penddone : forall x, In x (pids s) -> ~ In x (pids s') -> done s' x;
  e_done : forall x, done s x -> done s' x;
  e_meas : measure s' <= measure s
}.

Lemma Forall2_refl_or {A} (l : list (option A)) : Forall2 (fun a b => a = b \/ a = None) l l.
Proof. induction l; constructor; auto. Qed.

Lemma Ext_refl s : Ext s s.
Proof.
  constructor; auto; try tauto.
  - apply incl_refl.
  - apply Forall2_refl_or.
Qed.

Lemma F2_trans {A} (l1 l2 l3 : list (option A)) :
  Forall2 (fun a b => a = b \/ a = None) l1 l2 -> Forall2 (fun a b => a = b \/ a = None) l2 l3 ->
  Forall2 (fun a b => a = b \/ a = None) l1 l3.
Proof.
  intros H. revert l3. induction H; intros l3 H3; inversion H3; subst; constructor.
  - destruct H as [-> | ->]; auto.
  - apply IHForall2; assumption.
Qed.

Lemma F2_somes_incl (l1 l2 : list (option id)) :
  Forall2 (fun a b => a = b \/ a = None) l1 l2 -> incl (somes l1) (somes l2).
Proof.
  induction 1; simpl; [apply incl_refl|].
  destruct H as [-> | ->]; simpl.
  - apply incl_app; [apply incl_appl, incl_refl | apply incl_appr; assumption].
  - apply incl_appr; assumption.
Qed.

Lemma Ext_trans s1 s2 s3 : Ext s1 s2 -> Ext s2 s3 -> Ext s1 s3.
Proof.
  intros H1 H2. constructor.
  - rewrite (e_running _ _ H2). apply H1.
  - rewrite (e_info _ _ H2). apply H1.
  - rewrite (e_ids _ _ H2). apply H1.
  - rewrite (e_torn _ _ H2). apply H1.
  - rewrite (e_bad _ _ H2). apply H1.
  - rewrite (e_oof _ _ H2). apply H1.
  - intros x. pose proof (e_fin _ _ H1 x). pose proof (e_fin _ _ H2 x). lia.
  - intros x. pose proof (e_free _ _ H1 x). pose proof (e_free _ _ H2 x). lia.
  - eapply incl_tran; [apply H2 | apply H1].
  - eapply F2_trans; [apply H2 | apply H1].
  - intros x Hin Hnot.
    destruct (in_dec Nat.eq_dec x (regids s2)) as [Hi|Hn].
    + apply (e_regdone _ _ H2); assumption.
    + apply (e_done _ _ H2). apply (e_regdone _ _ H1); assumption.
  - intros x Hin Hnot.
    destruct (in_dec Nat.eq_dec x (pids s2)) as [Hi|Hn].
    + apply (e_penddone _ _ H2); assumption.
    + apply (e_done _ _ H2). apply (e_penddone _ _ H1); assumption.
  - intros x Hd. apply (e_done _ _ H2), (e_done _ _ H1), Hd.
  - pose proof (e_meas _ _ H1). pose proof (e_meas _ _ H2). lia.
Qed.

Lemma Ext_regids s s' : Ext s s' -> incl (regids s') (regids s).
Proof. intros H x Hx. unfold regids in *. apply in_map_iff in Hx. destruct Hx as [e [<- He]]. apply in_map. apply (e_reg _ _ H). exact He. Qed.

Lemma Ext_pids s s' : Ext s s' -> incl (pids s') (pids s).
Proof. intros H. apply F2_somes_incl. apply H. Qed.

(* ------------------------------------------------------------------ primitive steps *)
Ltac ext_triv := first [ reflexivity | apply incl_refl | apply Forall2_refl_or
                       | (let H1 := fresh in let H2 := fresh in intros ? H1 H2; exfalso; apply H2; exact H1)
                       | apply Nat.le_refl | (intros ? ?; assumption) ].

Lemma ginv_done_mono A s s' x :
  GInv A s' -> ~ In x A -> fin_count s x <= fin_count s' x -> free_count s x <= free_count s' x ->
  done s x -> done s' x.
Proof.
  intros G Hn H1 H2 [Hd1 Hd2]. destruct (g_rest _ _ G x Hn) as [Ha Hb]. unfold done. lia.
Qed.

(* logging the destructor call of o *)
Lemma add_fin_ok A s o :
  GInv A s -> ~ In o (regids s) -> ~ In o (pids s) -> fin_count s o = 0 ->
  GInv (o :: A) (add_log (LFin o) s) /\ Ext s (add_log (LFin o) s).
Proof.
  intros G Hr Hp Hf.
  assert (HoA : ~ In o A). { intros HA. destruct (g_prog _ _ G o HA). lia. }
  assert (Hfree : free_count s o = 0). { destruct (g_rest _ _ G o HoA). lia. }
  split.
  - constructor; [apply G | apply G | apply G | | |].
    + intros x Hx. rewrite fin_add_fin. destruct (Nat.eqb_spec x o) as [->|Hne].
      * destruct Hx; contradiction.
      * simpl. apply (g_fresh _ _ G). exact Hx.
    + intros x [<-|Hx].
      * rewrite fin_add_fin, free_add_fin, Nat.eqb_refl. lia.
      * rewrite fin_add_fin, free_add_fin. destruct (Nat.eqb_spec x o) as [->|Hne]; [contradiction|].
        simpl. apply (g_prog _ _ G). exact Hx.
    + intros x Hx. rewrite fin_add_fin, free_add_fin.
      destruct (Nat.eqb_spec x o) as [->|Hne]; [exfalso; apply Hx; left; reflexivity|].
      simpl. apply (g_rest _ _ G). intros HA. apply Hx. right. exact HA.
  - constructor; try ext_triv; try (intros x; rewrite ?fin_add_fin, ?free_add_fin; lia).
    intros x [Hd1 Hd2]. unfold done. rewrite fin_add_fin, free_add_fin.
      destruct (Nat.eqb_spec x o) as [->|Hne]; [lia | simpl; auto].
Qed.

(* logging the release of o's memory *)
Lemma add_free_ok A s o :
  GInv (o :: A) s -> ~ In o A -> ~ In o (regids s) -> ~ In o (pids s) ->
  GInv A (add_log (LFree o) s) /\ Ext s (add_log (LFree o) s) /\ done (add_log (LFree o) s) o.
Proof.
  intros G HoA Hr Hp.
  destruct (g_prog _ _ G o (or_introl eq_refl)) as [Hf1 Hf0].
  split; [|split].
  - constructor.
    + apply G.
    + apply G.
    + apply G.
    + intros x Hx. rewrite fin_add_free. apply (g_fresh _ _ G). exact Hx.
    + intros x Hx. rewrite fin_add_free, free_add_free.
      destruct (Nat.eqb_spec x o) as [->|Hne]; [contradiction|]. simpl.
      apply (g_prog _ _ G). right. exact Hx.
    + intros x Hx. rewrite fin_add_free, free_add_free.
      destruct (Nat.eqb_spec x o) as [->|Hne]; [lia|]. simpl.
      apply (g_rest _ _ G). intros [<-|HA]; [congruence | contradiction].
  - constructor; try ext_triv; try (intros x; rewrite ?fin_add_free, ?free_add_free; lia).
    intros x [Hd1 Hd2]. unfold done. rewrite fin_add_free, free_add_free.
      destruct (Nat.eqb_spec x o) as [->|Hne]; [lia | simpl; auto].
  - unfold done. rewrite fin_add_free, free_add_free, Nat.eqb_refl. lia.
Qed.

(* fields the invariant does not look at *)
Lemma set_mitems_ok A s m : GInv A s -> GInv A (set_mitems m s) /\ Ext s (set_mitems m s).
Proof.
  intros G. split; [constructor; apply G|].
  constructor; try ext_triv; try (intros x; apply Nat.le_refl).
Qed.

Lemma set_owned_ok A s f : GInv A s -> GInv A (set_owned f s) /\ Ext s (set_owned f s).
Proof.
  intros G. split; [constructor; apply G|].
  constructor; try ext_triv; try (intros x; apply Nat.le_refl).
Qed.

Lemma F2_null o l : Forall2 (fun a b => a = b \/ a = None) (null_pend o l) l.
Proof. unfold null_pend. induction l; simpl; constructor; auto. destruct (opt_is o a); auto. Qed.

(* clearing o's pending entry: o is now neither registered nor pending *)
Lemma null_pend_ok A s o :
  GInv A s -> In o (pids s) ->
  let s' := set_pend (null_pend o (pend s)) s in
  GInv A s' /\ ~ In o (regids s') /\ ~ In o (pids s') /\ fin_count s' o = 0 /\ measure s' < measure s /\
  running s' = running s /\ info s' = info s /\ ids s' = ids s /\ torn s' = torn s /\ bad s' = bad s /\ oof s' = oof s /\
  log s' = log s /\ reg s' = reg s /\ Forall2 (fun a b => a = b \/ a = None) (pend s') (pend s) /\
  (forall x, In x (pids s) -> x <> o -> In x (pids s')).
Proof.
  intros G Hin s'.
  assert (Hp : pids s' = filter (fun y => negb (y =? o)) (pids s)).
  { unfold pids, s'. simpl. apply somes_null. }
  assert (Hno : ~ In o (pids s')).
  { rewrite Hp, filter_In. intros [_ H]. rewrite Nat.eqb_refl in H. discriminate. }
  split; [|repeat split; auto].
  - constructor.
    + apply G.
    + rewrite Hp. apply NoDup_filter, G.
    + intros x Hx. rewrite Hp, filter_In. intros [H _]. revert H. apply (g_disj _ _ G). exact Hx.
    + intros x [Hx|Hx]; [apply (g_fresh _ _ G); left; exact Hx|].
      rewrite Hp, filter_In in Hx. apply (g_fresh _ _ G). right. tauto.
    + apply G.
    + apply G.
  - intros Hr. apply (g_disj _ _ G o Hr Hin).
  - apply (g_fresh _ _ G). right. exact Hin.
  - unfold measure, nitems. rewrite !live_pend_somes, Hp. change (reg s') with (reg s).
    assert (length (filter (fun y => negb (y =? o)) (pids s)) < length (pids s)).
    { apply filter_length_lt with (x := o); auto. rewrite Nat.eqb_refl. reflexivity. }
    lia.
  - apply F2_null.
  - intros x Hx Hne. rewrite Hp, filter_In. split; auto.
    destruct (Nat.eqb_spec x o); [contradiction | reflexivity].
Qed.

Lemma incl_filter {A} (f : A -> bool) l : incl (filter f l) l.
Proof. intros x Hx. apply filter_In in Hx. tauto. Qed.

(* removing o's registry entry *)
Lemma rem_reg_ok A s o :
  GInv A s -> In o (regids s) ->
  let s' := set_reg (rem_reg o (reg s)) s in
  GInv A s' /\ ~ In o (regids s') /\ ~ In o (pids s') /\ fin_count s' o = 0 /\ measure s' < measure s /\
  running s' = running s /\ info s' = info s /\ ids s' = ids s /\ torn s' = torn s /\ bad s' = bad s /\ oof s' = oof s /\
  log s' = log s /\ pend s' = pend s /\ incl (reg s') (reg s) /\
  (forall x, In x (regids s) -> x <> o -> In x (regids s')).
Proof.
  intros G Hin s'.
  assert (Hr : regids s' = filter (fun y => negb (y =? o)) (regids s)).
  { unfold regids, s'. simpl. apply regids_rem. }
  assert (Hno : ~ In o (regids s')).
  { rewrite Hr, filter_In. intros [_ H]. rewrite Nat.eqb_refl in H. discriminate. }
  split; [|repeat split; auto].
  - constructor.
    + rewrite Hr. apply NoDup_filter, G.
    + apply G.
    + intros x Hx. rewrite Hr, filter_In in Hx. apply (g_disj _ _ G). tauto.
    + intros x [Hx|Hx]; [|apply (g_fresh _ _ G); right; exact Hx].
      rewrite Hr, filter_In in Hx. apply (g_fresh _ _ G). left. tauto.
    + apply G.
    + apply G.
  - apply (g_disj _ _ G o Hin).
  - apply (g_fresh _ _ G). left. exact Hin.
  - unfold measure, nitems. simpl reg. fold (regids s).
    assert (Hl : length (rem_reg o (reg s)) = length (regids s')).
    { unfold regids, s'. simpl. rewrite map_length. reflexivity. }
    rewrite Hl, Hr.
    assert (length (filter (fun y => negb (y =? o)) (regids s)) < length (regids s)).
    { apply filter_length_lt with (x := o); auto. rewrite Nat.eqb_refl. reflexivity. }
    unfold regids in H at 2. rewrite map_length in H.
    assert (live_pend s' = live_pend s) by reflexivity. lia.
  - unfold s'. simpl. unfold rem_reg. apply incl_filter.
  - intros x Hx Hne. rewrite Hr, filter_In. split; auto.
    destruct (Nat.eqb_spec x o); [contradiction | reflexivity].
Qed.

(* ------------------------------------------------------------------ finalisation *)
(* what a finaliser `fin` achieves on states of measure below n *)
Definition FinOK (fin : st -> id -> st) (n : nat) : Prop :=
  forall A s o, GInv A s -> ~ In o (regids s) -> ~ In o (pids s) -> fin_count s o = 0 -> measure s < n ->
    GInv A (fin s o) /\ Ext s (fin s o) /\ done (fin s o) o.

Lemma Ext_of_fields s s' :
  running s' = running s -> info s' = info s -> ids s' = ids s -> torn s' = torn s -> bad s' = bad s -> oof s' = oof s ->
  log s' = log s -> incl (reg s') (reg s) -> Forall2 (fun a b => a = b \/ a = None) (pend s') (pend s) ->
  (forall x, In x (regids s) -> ~ In x (regids s') -> done s' x) ->
  (forall x, In x (pids s) -> ~ In x (pids s') -> done s' x) ->
  measure s' <= measure s -> Ext s s'.
Proof.
  intros. assert (Hf : forall x, fin_count s' x = fin_count s x) by (intros; unfold fin_count; congruence).
  assert (Hr : forall x, free_count s' x = free_count s x) by (intros; unfold free_count; congruence).
  constructor; auto.
  - intros x. rewrite Hf. lia.
  - intros x. rewrite Hr. lia.
  - intros x [H11 H12]. unfold done. rewrite Hf, Hr. auto.
Qed.

(* s1 = s with the entry of p taken out of the registry or out of the pending list; once p is
   done, everything that followed extends s itself *)
Lemma Ext_from_removed s s1 s3 p :
  running s1 = running s -> info s1 = info s -> ids s1 = ids s -> torn s1 = torn s -> bad s1 = bad s -> oof s1 = oof s ->
  log s1 = log s -> incl (reg s1) (reg s) -> Forall2 (fun a b => a = b \/ a = None) (pend s1) (pend s) ->
  (forall x, In x (regids s) -> x <> p -> In x (regids s1)) ->
  (forall x, In x (pids s) -> x <> p -> In x (pids s1)) ->
  measure s1 <= measure s ->
  Ext s1 s3 -> done s3 p -> Ext s s3.
Proof.
  intros Hr Hi Hd Ht Hb Ho Hl Hreg Hpend Kr Kp Hm E Dn.
  assert (Hf : forall x, fin_count s1 x = fin_count s x) by (intros; unfold fin_count; congruence).
  assert (Hfr : forall x, free_count s1 x = free_count s x) by (intros; unfold free_count; congruence).
  constructor.
  - rewrite (e_running _ _ E); exact Hr.
  - rewrite (e_info _ _ E); exact Hi.
  - rewrite (e_ids _ _ E); exact Hd.
  - rewrite (e_torn _ _ E); exact Ht.
  - rewrite (e_bad _ _ E); exact Hb.
  - rewrite (e_oof _ _ E); exact Ho.
  - intros x. rewrite <- Hf. apply E.
  - intros x. rewrite <- Hfr. apply E.
  - eapply incl_tran; [apply E | exact Hreg].
  - eapply F2_trans; [apply E | exact Hpend].
  - intros x Hx Hnx. destruct (Nat.eq_dec x p) as [->|Hne]; [exact Dn|].
    apply (e_regdone _ _ E); auto.
  - intros x Hx Hnx. destruct (Nat.eq_dec x p) as [->|Hne]; [exact Dn|].
    apply (e_penddone _ _ E); auto.
  - intros x [H1 H2]. apply (e_done _ _ E). unfold done. rewrite Hf, Hfr. auto.
  - pose proof (e_meas _ _ E). lia.
Qed.

(* GC_Rem (repaired) with a good finaliser *)
Lemma gc_rem_ok fin n :
  FinOK fin n -> forall A s p, GInv A s -> measure s <= n ->
    GInv A (gc_rem true fin s p) /\ Ext s (gc_rem true fin s p) /\
    (running s = true -> In p (regids s) \/ In p (pids s) -> done (gc_rem true fin s p) p).
Proof.
  intros HF A s p G Hm. unfold gc_rem.
  destruct (running s) eqn:Hrun; simpl negb; cbv iota.
  2:{ split; [exact G|]. split; [apply Ext_refl|]. discriminate. }
  destruct (in_pend s p) eqn:Hp.
  - apply in_pend_spec in Hp.
    destruct (null_pend_ok A s p G Hp) as (G1 & N1 & N2 & F0 & M1 & R1 & I1 & D1 & T1 & B1 & O1 & L1 & Rg1 & P1 & K1).
    set (s1 := set_pend (null_pend p (pend s)) s) in *.
    destruct (HF A s1 p G1 N1 N2 F0 ltac:(lia)) as (G2 & E2 & Dn).
    set (s2 := fin s1 p) in *.
    destruct (set_mitems_ok A s2 (mitems_rule (nitems s2)) G2) as (G3 & E3).
    split; [exact G3|]. split.
    + assert (Hreg : incl (reg s1) (reg s)) by (rewrite Rg1; apply incl_refl).
      assert (Kr : forall x, In x (regids s) -> x <> p -> In x (regids s1)).
      { intros x Hx _. unfold regids. rewrite Rg1. exact Hx. }
      assert (Hm' : measure s1 <= measure s) by lia.
      assert (E23 : Ext s1 (set_mitems (mitems_rule (nitems s2)) s2)) by (eapply Ext_trans; [exact E2 | exact E3]).
      exact (Ext_from_removed s s1 _ p R1 I1 D1 T1 B1 O1 L1 Hreg P1 Kr K1 Hm' E23 (e_done _ _ E3 _ Dn)).
    + intros _ _. apply (e_done _ _ E3). exact Dn.
  - destruct (in_reg s p) eqn:Hr.
    + apply in_reg_spec in Hr.
      destruct (rem_reg_ok A s p G Hr) as (G1 & N1 & N2 & F0 & M1 & R1 & I1 & D1 & T1 & B1 & O1 & L1 & Pd1 & Rg1 & K1).
      set (s1 := set_reg (rem_reg p (reg s)) s) in *.
      destruct (HF A s1 p G1 N1 N2 F0 ltac:(lia)) as (G2 & E2 & Dn).
      set (s2 := fin s1 p) in *.
      destruct (set_mitems_ok A s2 (mitems_rule (nitems s2)) G2) as (G3 & E3).
      split; [exact G3|]. split.
      * assert (Hpend : Forall2 (fun a b => a = b \/ a = None) (pend s1) (pend s)) by (rewrite Pd1; apply Forall2_refl_or).
        assert (Kp : forall x, In x (pids s) -> x <> p -> In x (pids s1)).
        { intros x Hx _. unfold pids. rewrite Pd1. exact Hx. }
        assert (Hm' : measure s1 <= measure s) by lia.
        assert (E23 : Ext s1 (set_mitems (mitems_rule (nitems s2)) s2)) by (eapply Ext_trans; [exact E2 | exact E3]).
        exact (Ext_from_removed s s1 _ p R1 I1 D1 T1 B1 O1 L1 Rg1 Hpend K1 Kp Hm' E23 (e_done _ _ E3 _ Dn)).
      * intros _ _. apply (e_done _ _ E3). exact Dn.
    + destruct (set_mitems_ok A s (mitems_rule (nitems s)) G) as (G3 & E3).
      split; [exact G3|]. split; [exact E3|].
      intros _ [H|H].
      * apply in_reg_spec in H. congruence.
      * apply in_pend_spec in H. congruence.
Qed.

(* dealloc(destruct(o)) with enough fuel *)
Lemma finalise_ok f : FinOK (finalise true f) f.
Proof.
  induction f as [|f IH]; intros A s o G Hr Hp Hf Hm; [lia|].
  assert (HoA : ~ In o A). { intros HA. destruct (g_prog _ _ G o HA). lia. }
  cbn [finalise].
  destruct (add_fin_ok A s o G Hr Hp Hf) as (G1 & E1).
  set (s1 := add_log (LFin o) s) in *.
  assert (Hm1 : measure s1 <= f) by (pose proof (e_meas _ _ E1); lia).
  assert (Hr1 : ~ In o (regids s1)) by exact Hr.
  assert (Hp1 : ~ In o (pids s1)) by exact Hp.
  destruct (owned s1 o) as [p|].
  - destruct (gc_rem_ok _ _ IH (o :: A) s1 p G1 Hm1) as (G2 & E2 & _).
    set (s2 := gc_rem true (finalise true f) s1 p) in *.
    destruct (set_owned_ok (o :: A) s2 (upd_owned (owned s2) o None) G2) as (G3 & E3).
    set (s3 := set_owned (upd_owned (owned s2) o None) s2) in *.
    assert (E13 : Ext s1 s3) by (eapply Ext_trans; eassumption).
    assert (Hr3 : ~ In o (regids s3)) by (intros H; apply Hr1; apply (Ext_regids _ _ E13); exact H).
    assert (Hp3 : ~ In o (pids s3)) by (intros H; apply Hp1; apply (Ext_pids _ _ E13); exact H).
    destruct (add_free_ok A s3 o G3 HoA Hr3 Hp3) as (G4 & E4 & Dn).
    split; [exact G4|]. split; [|exact Dn].
    eapply Ext_trans; [exact E1|]. eapply Ext_trans; [exact E13 | exact E4].
  - destruct (add_free_ok A s1 o G1 HoA Hr1 Hp1) as (G4 & E4 & Dn).
    split; [exact G4|]. split; [|exact Dn].
    eapply Ext_trans; [exact E1 | exact E4].
Qed.
