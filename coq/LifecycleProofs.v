(* LifecycleProofs.v — proofs about the life-cycle machine of Lifecycle.v (property C06).
   The positive results are about the repaired machine (rem_fix = sweep_fix = true); the
   pinned variants are refuted by computation at the end. *)
From Coq Require Import List Arith Bool PeanoNat Lia.
From CelloV Require Import Generated Lifecycle.
Import ListNotations.

(* the fixed shapes of the C text that Lifecycle.v re-states (tools/genx_life.py) *)
Lemma source_shape_ok : gc_life_shape = true.
Proof. reflexivity. Qed.

Section Rule.
  (* the collection threshold rule (gc->mitems = mrule gc->nitems): WHEN a collection runs is tuning;
     everything below holds for every rule *)
  Variable mrule : nat -> nat.

(* ------------------------------------------------------------------ small facts *)
Definition regids (s : st) : list id := map fst (reg s).
Definition somes (l : list (option id)) : list id :=
  flat_map (fun x => match x with Some y => [y] | None => [] end) l.
Definition pids (s : st) : list id := somes (pend s).
Definition measure (s : st) : nat := phi s.
Definition done (s : st) (x : id) : Prop := fin_count s x = 1 /\ free_count s x = 1.

Lemma lev_eqb_refl e : lev_eqb e e = true.
Proof. destruct e; simpl; apply Nat.eqb_refl. Qed.

Lemma count_cons e a l : count e (a :: l) = (if lev_eqb e a then 1 else 0) + count e l.
Proof. unfold count. simpl. destruct (lev_eqb e a); reflexivity. Qed.

Lemma count_zero_pre e l : existsb (lev_eqb e) l = false -> count e l = 0.
Proof.
  unfold count. induction l as [|a l IH]; simpl; auto.
  destruct (lev_eqb e a); simpl; [discriminate | exact IH].
Qed.

Lemma fin_add_fin s o x : fin_count (add_log (LFin o) s) x = (if x =? o then 1 else 0) + fin_count s x.
Proof. unfold fin_count. simpl log. rewrite count_cons. reflexivity. Qed.
Lemma fin_add_free s o x : fin_count (add_log (LFree o) s) x = fin_count s x.
Proof. unfold fin_count. simpl log. rewrite count_cons. reflexivity. Qed.
Lemma free_add_fin s o x : free_count (add_log (LFin o) s) x = free_count s x.
Proof. unfold free_count. simpl log. rewrite count_cons. reflexivity. Qed.
Lemma free_add_free s o x : free_count (add_log (LFree o) s) x = (if x =? o then 1 else 0) + free_count s x.
Proof. unfold free_count. simpl log. rewrite count_cons. reflexivity. Qed.

Lemma somes_in l x : In x (somes l) <-> In (Some x) l.
Proof.
  unfold somes. rewrite in_flat_map. split.
  - intros [[y|] [H1 H2]]; simpl in H2; [destruct H2 as [->|[]]; exact H1 | destruct H2].
  - intros H. exists (Some x). split; [exact H | simpl; auto].
Qed.

Lemma live_pend_somes s : live_pend s = length (pids s).
Proof.
  unfold live_pend, pids, somes. induction (pend s) as [|[y|] l IH]; simpl; auto.
Qed.

Lemma somes_null o l : somes (null_pend o l) = filter (fun y => negb (y =? o)) (somes l).
Proof.
  unfold null_pend, somes. induction l as [|[y|] l IH]; simpl; auto.
  destruct (y =? o) eqn:E; simpl; rewrite IH; reflexivity.
Qed.

Lemma filter_length_le {A} (f : A -> bool) l : length (filter f l) <= length l.
Proof. induction l; simpl; [lia | destruct (f a); simpl; lia]. Qed.

Lemma filter_length_lt {A} (f : A -> bool) l x : In x l -> f x = false -> length (filter f l) < length l.
Proof.
  induction l; simpl; [tauto|]. intros [->|H] Hf.
  - rewrite Hf. pose proof (filter_length_le f l). lia.
  - specialize (IHl H Hf). destruct (f a); simpl; lia.
Qed.

Lemma NoDup_filter {A} (f : A -> bool) l : NoDup l -> NoDup (filter f l).
Proof.
  induction 1; simpl; [constructor|]. destruct (f x); auto. constructor; auto.
  rewrite filter_In. tauto.
Qed.

Lemma regids_rem o r : map fst (rem_reg o r) = filter (fun y => negb (y =? o)) (map fst r).
Proof.
  unfold rem_reg. induction r as [|[a b] r IH]; simpl; auto.
  destruct (a =? o); simpl; rewrite IH; reflexivity.
Qed.

Lemma in_reg_spec s o : in_reg s o = true <-> In o (regids s).
Proof.
  unfold in_reg, regids. rewrite existsb_exists, in_map_iff. split.
  - intros [e [H1 H2]]. apply Nat.eqb_eq in H2. exists e; auto.
  - intros [e [H1 H2]]. exists e. split; auto. apply Nat.eqb_eq; auto.
Qed.

Lemma in_pend_spec s o : in_pend s o = true <-> In o (pids s).
Proof.
  unfold in_pend, pids. rewrite somes_in, existsb_exists. split.
  - intros [[y|] [H1 H2]]; simpl in H2; [|discriminate]. apply Nat.eqb_eq in H2. subst. exact H1.
  - intros H. exists (Some o). split; auto. simpl. apply Nat.eqb_refl.
Qed.

(* ------------------------------------------------------------------ invariant, extension *)
(* A = objects whose destructor is running (Fin logged, memory not yet released) *)
Record GInv (A : list id) (s : st) : Prop := {
  g_reg_nodup : NoDup (regids s);
  g_pend_nodup : NoDup (pids s);
  g_disj : forall x, In x (regids s) -> ~ In x (pids s);
  g_fresh : forall x, In x (regids s) \/ In x (pids s) -> fin_count s x = 0;
  g_prog : forall x, In x A -> fin_count s x = 1 /\ free_count s x = 0;
  g_rest : forall x, ~ In x A -> free_count s x = fin_count s x /\ fin_count s x <= 1;
  g_info : forall x, In x (regids s) \/ In x (pids s) -> info s x <> None;
  g_alloc : forall x, info s x = None -> fin_count s x = 0;
  g_ids_nodup : NoDup (ids s);
  g_ids : forall x, In x (ids s) <-> info s x <> None;
  g_spawn : forall x, info s x = None -> spawns s x = []
}.

(* s' extends s: what was allocated stays as it was; objects allocated in between (by destructors)
   are managed plain objects, registered if the collector runs *)
Record Ext (s s' : st) : Prop := {
  e_running : running s' = running s;
  e_info : forall x, info s x <> None -> info s' x = info s x;
  e_torn : torn s' = torn s;
  e_oof : oof s' = oof s;
  e_fin : forall x, fin_count s x <= fin_count s' x;
  e_free : forall x, free_count s x <= free_count s' x;
  e_reg : forall e, In e (reg s') -> In e (reg s) \/ (info s (fst e) = None /\ snd e = false);
  e_pend : Forall2 (fun a b => a = b \/ a = None) (pend s') (pend s);
  e_regdone : forall x, In x (regids s) -> ~ In x (regids s') -> done s' x;
  e_penddone : forall x, In x (pids s) -> ~ In x (pids s') -> done s' x;
  e_done : forall x, done s x -> done s' x;
  e_owned : forall y, fin_count s' y = 0 -> owned s' y = owned s y;
  e_spawns : forall x, info s x <> None -> spawns s' x = spawns s x;
  e_prog_owned : forall y, 0 < fin_count s y -> free_count s' y = 0 -> owned s' y = owned s y;
  e_new : forall x, info s x = None -> info s' x <> None ->
            info s' x = Some (KManaged, false) /\ spawns s' x = [] /\
            (running s = true -> In x (regids s') \/ In x (pids s') \/ done s' x)
}.

Lemma Forall2_refl_or {A} (l : list (option A)) : Forall2 (fun a b => a = b \/ a = None) l l.
Proof. induction l; constructor; auto. Qed.

Lemma Ext_refl s : Ext s s.
Proof.
  constructor; auto; try tauto.
  apply Forall2_refl_or.
Qed.

Lemma F2_trans {A} (l1 l2 l3 : list (option A)) :
  Forall2 (fun a b => a = b \/ a = None) l1 l2 -> Forall2 (fun a b => a = b \/ a = None) l2 l3 ->
  Forall2 (fun a b => a = b \/ a = None) l1 l3.
Proof.
  intros H. revert l3. induction H; intros l3 H3; inversion H3; subst; constructor.
  - destruct H as [-> | ->]; auto.
  - apply IHForall2; assumption.
Qed.

Lemma F2_somes_incl (l1 l2 : list (option id)) :
  Forall2 (fun a b => a = b \/ a = None) l1 l2 -> incl (somes l1) (somes l2).
Proof.
  induction 1; simpl; [apply incl_refl|].
  destruct H as [-> | ->]; simpl.
  - apply incl_app; [apply incl_appl, incl_refl | apply incl_appr; assumption].
  - apply incl_appr; assumption.
Qed.

Lemma Ext_trans s1 s2 s3 : Ext s1 s2 -> Ext s2 s3 -> Ext s1 s3.
Proof.
  intros H1 H2. constructor.
  - rewrite (e_running _ _ H2). apply H1.
  - intros x Hx. rewrite (e_info _ _ H2 x); [apply (e_info _ _ H1 x Hx)|]. rewrite (e_info _ _ H1 x Hx). exact Hx.
  - rewrite (e_torn _ _ H2). apply H1.
  - rewrite (e_oof _ _ H2). apply H1.
  - intros x. pose proof (e_fin _ _ H1 x). pose proof (e_fin _ _ H2 x). lia.
  - intros x. pose proof (e_free _ _ H1 x). pose proof (e_free _ _ H2 x). lia.
  - intros e He. destruct (e_reg _ _ H2 e He) as [Hin|[Hn Hf]].
    + apply (e_reg _ _ H1 e Hin).
    + right. split; [|exact Hf]. destruct (info s1 (fst e)) eqn:Hi; [|reflexivity].
      rewrite <- Hn. symmetry. rewrite <- Hi. apply (e_info _ _ H1). congruence.
  - eapply F2_trans; [apply H2 | apply H1].
  - intros x Hin Hnot.
    destruct (in_dec Nat.eq_dec x (regids s2)) as [Hi|Hn].
    + apply (e_regdone _ _ H2); assumption.
    + apply (e_done _ _ H2). apply (e_regdone _ _ H1); assumption.
  - intros x Hin Hnot.
    destruct (in_dec Nat.eq_dec x (pids s2)) as [Hi|Hn].
    + apply (e_penddone _ _ H2); assumption.
    + apply (e_done _ _ H2). apply (e_penddone _ _ H1); assumption.
  - intros x Hd. apply (e_done _ _ H2), (e_done _ _ H1), Hd.
  - intros y Hy. rewrite (e_owned _ _ H2 y Hy). apply (e_owned _ _ H1).
    pose proof (e_fin _ _ H2 y). lia.
  - intros x Hx. rewrite (e_spawns _ _ H2 x); [apply (e_spawns _ _ H1 x Hx)|]. rewrite (e_info _ _ H1 x Hx). exact Hx.
  - intros y Hy Hf. rewrite (e_prog_owned _ _ H2 y); [apply (e_prog_owned _ _ H1 y Hy)| |exact Hf].
    + pose proof (e_free _ _ H2 y). lia.
    + pose proof (e_fin _ _ H1 y). lia.
  - intros x Hn Hs.
    assert (Hrun2 : running s2 = running s1) by apply H1.
    destruct (info s2 x) eqn:Hi2.
    + (* allocated between s1 and s2 *)
      assert (Hi2' : info s2 x <> None) by congruence.
      destruct (e_new _ _ H1 x Hn Hi2') as (Ha & Hb & Hc).
      split; [rewrite (e_info _ _ H2 x Hi2'); exact Ha|].
      split; [rewrite (e_spawns _ _ H2 x Hi2'); exact Hb|].
      intros Hrun. destruct (Hc Hrun) as [Hr|[Hp|Hd]].
      * destruct (in_dec Nat.eq_dec x (regids s3)) as [Hi|Hnn]; [left; exact Hi|].
        right; right. apply (e_regdone _ _ H2); assumption.
      * destruct (in_dec Nat.eq_dec x (pids s3)) as [Hi|Hnn]; [right; left; exact Hi|].
        right; right. apply (e_penddone _ _ H2); assumption.
      * right; right. apply (e_done _ _ H2). exact Hd.
    + destruct (e_new _ _ H2 x Hi2 Hs) as (Ha & Hb & Hc).
      split; [exact Ha|]. split; [exact Hb|]. intros Hrun. apply Hc. rewrite Hrun2. exact Hrun.
Qed.

Lemma Ext_regids s s' x : Ext s s' -> info s x <> None -> In x (regids s') -> In x (regids s).
Proof.
  intros H Hi Hx. unfold regids in *. apply in_map_iff in Hx. destruct Hx as [e [<- He]].
  destruct (e_reg _ _ H e He) as [Hin|[Hn _]]; [apply in_map; exact Hin | contradiction].
Qed.

Lemma Ext_pids s s' : Ext s s' -> incl (pids s') (pids s).
Proof. intros H. apply F2_somes_incl. apply H. Qed.

(* ------------------------------------------------------------------ primitive steps *)
Ltac ext_triv := first [ reflexivity | apply Forall2_refl_or
                       | (let H1 := fresh in let H2 := fresh in intros ? H1 H2; exfalso; apply H2; exact H1)
                       | (intros ? ?; assumption) | (intros ? ?; reflexivity)
                       | (let H := fresh in intros ? H; left; exact H) ].

Lemma ginv_done_mono A s s' x :
  GInv A s' -> ~ In x A -> fin_count s x <= fin_count s' x -> free_count s x <= free_count s' x ->
  done s x -> done s' x.
Proof.
  intros G Hn H1 H2 [Hd1 Hd2]. destruct (g_rest _ _ G x Hn) as [Ha Hb]. unfold done. lia.
Qed.

(* Ext between states that differ only in fields the relation does not look at, or in the ledger *)
Lemma Ext_same s s' :
  running s' = running s -> info s' = info s -> torn s' = torn s -> oof s' = oof s ->
  reg s' = reg s -> pend s' = pend s -> owned s' = owned s -> spawns s' = spawns s ->
  (forall x, fin_count s x <= fin_count s' x) -> (forall x, free_count s x <= free_count s' x) ->
  (forall x, done s x -> done s' x) -> Ext s s'.
Proof.
  intros Hr Hi Ht Ho Hg Hp Hw Hs Hf Hfr Hd. constructor; auto.
  - intros x _. rewrite Hi. reflexivity.
  - intros e He. left. rewrite <- Hg. exact He.
  - rewrite Hp. apply Forall2_refl_or.
  - intros x H1 H2. exfalso. apply H2. unfold regids. rewrite Hg. exact H1.
  - intros x H1 H2. exfalso. apply H2. unfold pids. rewrite Hp. exact H1.
  - intros y _. rewrite Hw. reflexivity.
  - intros x _. rewrite Hs. reflexivity.
  - intros y _ _. rewrite Hw. reflexivity.
  - intros x Hn Hs'. exfalso. apply Hs'. rewrite Hi. exact Hn.
Qed.

Lemma phi_add_free s o : phi (add_log (LFree o) s) = phi s.
Proof. reflexivity. Qed.

Lemma fin_started_spec s x : fin_started s x = false <-> fin_count s x = 0.
Proof.
  unfold fin_started, fin_count. split.
  - apply count_zero_pre.
  - intros H. destruct (existsb (lev_eqb (LFin x)) (log s)) eqn:E; [|reflexivity].
    exfalso. apply existsb_exists in E. destruct E as [e [Hin He]].
    unfold count in H. assert (Hi : In e (filter (lev_eqb (LFin x)) (log s))) by (apply filter_In; auto).
    destruct (filter (lev_eqb (LFin x)) (log s)); [contradiction | discriminate].
Qed.

Definition weight (s : st) (x : id) : nat := if fin_started s x then 0 else S (length (spawns s x)).

Lemma phi_unfold s : phi s = list_sum (map (weight s) (ids s)).
Proof. reflexivity. Qed.

Lemma list_sum_map_ext {A} (f g : A -> nat) l : (forall x, In x l -> f x = g x) -> list_sum (map f l) = list_sum (map g l).
Proof.
  induction l as [|a l IH]; simpl; [reflexivity|]. intros H.
  rewrite (H a (or_introl eq_refl)). f_equal. apply IH. intros x Hx. apply H. right. exact Hx.
Qed.

(* logging the destructor call of o takes o's weight out of the potential *)
Lemma phi_add_fin s o :
  NoDup (ids s) -> In o (ids s) -> fin_count s o = 0 ->
  phi (add_log (LFin o) s) + S (length (spawns s o)) = phi s.
Proof.
  intros Hnd Hin H0. rewrite !phi_unfold. change (ids (add_log (LFin o) s)) with (ids s).
  apply fin_started_spec in H0.
  assert (Hw : forall x, weight (add_log (LFin o) s) x = if x =? o then 0 else weight s x).
  { intros x. unfold weight, fin_started. simpl log. simpl existsb.
    change (spawns (add_log (LFin o) s) x) with (spawns s x).
    destruct (Nat.eqb_spec x o) as [->|Hne]; simpl; [reflexivity|]. reflexivity. }
  induction (ids s) as [|a l IH]; [destruct Hin|].
  inversion Hnd as [|? ? Hna Hnd']; subst. simpl. rewrite Hw.
  destruct Hin as [->|Hin].
  - rewrite Nat.eqb_refl. unfold weight at 2. rewrite H0.
    rewrite (list_sum_map_ext (weight (add_log (LFin o) s)) (weight s) l).
    + lia.
    + intros x Hx. rewrite Hw. destruct (Nat.eqb_spec x o) as [->|]; [contradiction | reflexivity].
  - destruct (Nat.eqb_spec a o) as [->|Hne]; [contradiction|]. specialize (IH Hnd' Hin). lia.
Qed.

(* logging the destructor call of o *)
Lemma add_fin_ok A s o :
  GInv A s -> ~ In o (regids s) -> ~ In o (pids s) -> fin_count s o = 0 -> info s o <> None ->
  GInv (o :: A) (add_log (LFin o) s) /\ Ext s (add_log (LFin o) s) /\
  measure (add_log (LFin o) s) + S (length (spawns s o)) = measure s.
Proof.
  intros G Hr Hp Hf Hinfo.
  assert (HoA : ~ In o A). { intros HA. destruct (g_prog _ _ G o HA). lia. }
  assert (Hfree : free_count s o = 0). { destruct (g_rest _ _ G o HoA). lia. }
  split; [|split].
  - constructor; [apply G | apply G | apply G | | | | apply G | | apply G | apply G | apply G].
    + intros x Hx. rewrite fin_add_fin. destruct (Nat.eqb_spec x o) as [->|Hne].
      * destruct Hx; contradiction.
      * simpl. apply (g_fresh _ _ G). exact Hx.
    + intros x [<-|Hx].
      * rewrite fin_add_fin, free_add_fin, Nat.eqb_refl. lia.
      * rewrite fin_add_fin, free_add_fin. destruct (Nat.eqb_spec x o) as [->|Hne]; [contradiction|].
        simpl. apply (g_prog _ _ G). exact Hx.
    + intros x Hx. rewrite fin_add_fin, free_add_fin.
      destruct (Nat.eqb_spec x o) as [->|Hne]; [exfalso; apply Hx; left; reflexivity|].
      simpl. apply (g_rest _ _ G). intros HA. apply Hx. right. exact HA.
    + intros x Hx. rewrite fin_add_fin. destruct (Nat.eqb_spec x o) as [->|Hne]; [contradiction|].
      simpl. apply (g_alloc _ _ G). exact Hx.
  - apply Ext_same; try reflexivity; try (intros x; rewrite ?fin_add_fin, ?free_add_fin; lia).
    intros x [Hd1 Hd2]. unfold done. rewrite fin_add_fin, free_add_fin.
    destruct (Nat.eqb_spec x o) as [->|Hne]; [lia | simpl; auto].
  - unfold measure. apply phi_add_fin; [apply G | apply (g_ids _ _ G); exact Hinfo | exact Hf].
Qed.

(* logging the release of o's memory *)
Lemma add_free_ok A s o :
  GInv (o :: A) s -> ~ In o A -> ~ In o (regids s) -> ~ In o (pids s) ->
  GInv A (add_log (LFree o) s) /\ Ext s (add_log (LFree o) s) /\ done (add_log (LFree o) s) o /\
  measure (add_log (LFree o) s) = measure s.
Proof.
  intros G HoA Hr Hp.
  destruct (g_prog _ _ G o (or_introl eq_refl)) as [Hf1 Hf0].
  split; [|split; [|split; [|reflexivity]]].
  - constructor; [apply G | apply G | apply G | | | | apply G | | apply G | apply G | apply G].
    + intros x Hx. rewrite fin_add_free. apply (g_fresh _ _ G). exact Hx.
    + intros x Hx. rewrite fin_add_free, free_add_free.
      destruct (Nat.eqb_spec x o) as [->|Hne]; [contradiction|]. simpl.
      apply (g_prog _ _ G). right. exact Hx.
    + intros x Hx. rewrite fin_add_free, free_add_free.
      destruct (Nat.eqb_spec x o) as [->|Hne]; [lia|]. simpl.
      apply (g_rest _ _ G). intros [<-|HA]; [congruence | contradiction].
    + intros x Hx. rewrite fin_add_free. apply (g_alloc _ _ G). exact Hx.
  - apply Ext_same; try reflexivity; try (intros x; rewrite ?fin_add_free, ?free_add_free; lia).
    intros x [Hd1 Hd2]. unfold done. rewrite fin_add_free, free_add_free.
    destruct (Nat.eqb_spec x o) as [->|Hne]; [lia | simpl; auto].
  - unfold done. rewrite fin_add_free, free_add_free, Nat.eqb_refl. lia.
Qed.

(* fields the invariant does not look at *)
Lemma set_mitems_ok A s m : GInv A s -> GInv A (set_mitems m s) /\ Ext s (set_mitems m s) /\ measure (set_mitems m s) = measure s.
Proof.
  intros G. split; [constructor; apply G|]. split; [|reflexivity].
  apply Ext_same; try reflexivity; auto.
Qed.

(* the end of o's destructor: its Box pointer is cleared, its memory released *)
Lemma finish_ok A s o :
  GInv (o :: A) s -> ~ In o A -> ~ In o (regids s) -> ~ In o (pids s) ->
  let s' := add_log (LFree o) (set_owned (upd_owned (owned s) o None) s) in
  GInv A s' /\ Ext s s' /\ done s' o /\ measure s' = measure s.
Proof.
  intros G HoA Hr Hp s'.
  set (s0 := set_owned (upd_owned (owned s) o None) s).
  assert (G0 : GInv (o :: A) s0) by (constructor; apply G).
  destruct (add_free_ok A s0 o G0 HoA Hr Hp) as (G1 & E1 & D1 & M1).
  destruct (g_prog _ _ G o (or_introl eq_refl)) as [Hf1 Hf0].
  split; [exact G1|]. split; [|split; [exact D1 | exact M1]].
  constructor.
  - apply E1. - intros x Hx. apply (e_info _ _ E1 x Hx). - apply E1. - apply E1.
  - intros x. apply (e_fin _ _ E1 x). - intros x. apply (e_free _ _ E1 x).
  - intros e He. apply (e_reg _ _ E1 e He).
  - apply (e_pend _ _ E1).
  - intros x Hx Hn. apply (e_regdone _ _ E1 x Hx Hn).
  - intros x Hx Hn. apply (e_penddone _ _ E1 x Hx Hn).
  - intros x Hx. apply (e_done _ _ E1 x Hx).
  - intros y Hy. change (fin_count s' y) with (fin_count (add_log (LFree o) s0) y) in Hy.
    rewrite fin_add_free in Hy. change (fin_count s0 y) with (fin_count s y) in Hy.
    change (owned s' y) with (upd_owned (owned s) o None y). unfold upd_owned. destruct (Nat.eqb_spec y o) as [->|Hne]; [lia | reflexivity].
  - intros x Hx. apply (e_spawns _ _ E1 x Hx).
  - intros y Hy Hf. change (owned s' y) with (upd_owned (owned s) o None y). unfold upd_owned.
    destruct (Nat.eqb_spec y o) as [->|Hne]; [|reflexivity].
    destruct D1 as [_ D1]. change (free_count s' o = 1) in D1. lia.
  - intros x Hn Hs. exfalso. apply Hs. exact Hn.
Qed.

Lemma F2_null o l : Forall2 (fun a b => a = b \/ a = None) (null_pend o l) l.
Proof. unfold null_pend. induction l; simpl; constructor; auto. destruct (opt_is o a); auto. Qed.

(* clearing o's pending entry: o is now neither registered nor pending *)
Lemma null_pend_ok A s o :
  GInv A s -> In o (pids s) ->
  let s' := set_pend (null_pend o (pend s)) s in
  GInv A s' /\ ~ In o (regids s') /\ ~ In o (pids s') /\ fin_count s' o = 0 /\ measure s' = measure s /\
  running s' = running s /\ info s' = info s /\ ids s' = ids s /\ torn s' = torn s /\ bad s' = bad s /\ oof s' = oof s /\
  log s' = log s /\ reg s' = reg s /\ Forall2 (fun a b => a = b \/ a = None) (pend s') (pend s) /\
  (forall x, In x (pids s) -> x <> o -> In x (pids s')).
Proof.
  intros G Hin s'.
  assert (Hp : pids s' = filter (fun y => negb (y =? o)) (pids s)).
  { unfold pids, s'. simpl. apply somes_null. }
  assert (Hno : ~ In o (pids s')).
  { rewrite Hp, filter_In. intros [_ H]. rewrite Nat.eqb_refl in H. discriminate. }
  split; [|repeat split; auto].
  - constructor.
    + apply G.
    + rewrite Hp. apply NoDup_filter, G.
    + intros x Hx. rewrite Hp, filter_In. intros [H _]. revert H. apply (g_disj _ _ G). exact Hx.
    + intros x [Hx|Hx]; [apply (g_fresh _ _ G); left; exact Hx|].
      rewrite Hp, filter_In in Hx. apply (g_fresh _ _ G). right. tauto.
    + apply G.
    + apply G.
    + intros x [Hx|Hx]; [apply (g_info _ _ G); left; exact Hx|].
      rewrite Hp, filter_In in Hx. apply (g_info _ _ G). right. tauto.
    + apply G.
    + apply G.
    + apply G.
    + apply G.
  - intros Hr. apply (g_disj _ _ G o Hr Hin).
  - apply (g_fresh _ _ G). right. exact Hin.
  - apply F2_null.
  - intros x Hx Hne. rewrite Hp, filter_In. split; auto.
    destruct (Nat.eqb_spec x o); [contradiction | reflexivity].
Qed.

Lemma incl_filter {A} (f : A -> bool) l : incl (filter f l) l.
Proof. intros x Hx. apply filter_In in Hx. tauto. Qed.

(* removing o's registry entry *)
Lemma rem_reg_ok A s o :
  GInv A s -> In o (regids s) ->
  let s' := set_reg (rem_reg o (reg s)) s in
  GInv A s' /\ ~ In o (regids s') /\ ~ In o (pids s') /\ fin_count s' o = 0 /\ measure s' = measure s /\
  running s' = running s /\ info s' = info s /\ ids s' = ids s /\ torn s' = torn s /\ bad s' = bad s /\ oof s' = oof s /\
  log s' = log s /\ pend s' = pend s /\ incl (reg s') (reg s) /\
  (forall x, In x (regids s) -> x <> o -> In x (regids s')).
Proof.
  intros G Hin s'.
  assert (Hr : regids s' = filter (fun y => negb (y =? o)) (regids s)).
  { unfold regids, s'. simpl. apply regids_rem. }
  assert (Hno : ~ In o (regids s')).
  { rewrite Hr, filter_In. intros [_ H]. rewrite Nat.eqb_refl in H. discriminate. }
  split; [|repeat split; auto].
  - constructor.
    + rewrite Hr. apply NoDup_filter, G.
    + apply G.
    + intros x Hx. rewrite Hr, filter_In in Hx. apply (g_disj _ _ G). tauto.
    + intros x [Hx|Hx]; [|apply (g_fresh _ _ G); right; exact Hx].
      rewrite Hr, filter_In in Hx. apply (g_fresh _ _ G). left. tauto.
    + apply G.
    + apply G.
    + intros x [Hx|Hx]; [|apply (g_info _ _ G); right; exact Hx].
      rewrite Hr, filter_In in Hx. apply (g_info _ _ G). left. tauto.
    + apply G.
    + apply G.
    + apply G.
    + apply G.
  - apply (g_disj _ _ G o Hin).
  - apply (g_fresh _ _ G). left. exact Hin.
  - unfold s'. simpl. unfold rem_reg. apply incl_filter.
  - intros x Hx Hne. rewrite Hr, filter_In. split; auto.
    destruct (Nat.eqb_spec x o); [contradiction | reflexivity].
Qed.

(* ------------------------------------------------------------------ finalisation *)
(* closure under ownership: with the collector running, whenever the destructor of y ran between
   s and s', the object y owned in s — if it was registered or pending in s — is done in s' *)
Definition Clo (s s' : st) : Prop :=
  running s = true ->
  forall y p, fin_count s y = 0 -> 0 < fin_count s' y -> owned s y = Some p ->
              In p (regids s) \/ In p (pids s) -> done s' p.

Lemma Clo_refl s : Clo s s.
Proof. intros _ y p H0 H1. lia. Qed.

Lemma Clo_same_log s s' : log s' = log s -> Clo s s'.
Proof. intros Hl _ y p H0 H1. unfold fin_count in *. rewrite Hl in H1. lia. Qed.

Lemma Clo_trans s1 s2 s3 : Ext s1 s2 -> Ext s2 s3 -> Clo s1 s2 -> Clo s2 s3 -> Clo s1 s3.
Proof.
  intros E1 E2 C1 C2 Hrun y p H0 H3 Hown Hin.
  destruct (Nat.eq_dec (fin_count s2 y) 0) as [Hz|Hnz].
  - assert (Hown2 : owned s2 y = Some p) by (rewrite (e_owned _ _ E1 y Hz); exact Hown).
    assert (Hrun2 : running s2 = true) by (rewrite (e_running _ _ E1); exact Hrun).
    destruct Hin as [Hin|Hin].
    + destruct (in_dec Nat.eq_dec p (regids s2)) as [Hi|Hn].
      * apply (C2 Hrun2 y p Hz H3 Hown2). left. exact Hi.
      * apply (e_done _ _ E2). apply (e_regdone _ _ E1); assumption.
    + destruct (in_dec Nat.eq_dec p (pids s2)) as [Hi|Hn].
      * apply (C2 Hrun2 y p Hz H3 Hown2). right. exact Hi.
      * apply (e_done _ _ E2). apply (e_penddone _ _ E1); assumption.
  - apply (e_done _ _ E2). apply (C1 Hrun y p H0); [lia | exact Hown | exact Hin].
Qed.

(* what a finaliser `fin` achieves on states of measure below n *)
Definition FinOK (fin : st -> id -> st) (n : nat) : Prop :=
  forall A s o, GInv A s -> ~ In o (regids s) -> ~ In o (pids s) -> fin_count s o = 0 -> info s o <> None -> measure s < n ->
    GInv A (fin s o) /\ Ext s (fin s o) /\ done (fin s o) o /\ Clo s (fin s o) /\ measure (fin s o) <= measure s.

(* s1 = s with the entry of p taken out of the registry or out of the pending list; once p is
   done, everything that followed extends s itself *)
Lemma Ext_from_removed s s1 s3 p :
  running s1 = running s -> info s1 = info s -> torn s1 = torn s -> oof s1 = oof s ->
  log s1 = log s -> incl (reg s1) (reg s) -> Forall2 (fun a b => a = b \/ a = None) (pend s1) (pend s) ->
  (forall x, In x (regids s) -> x <> p -> In x (regids s1)) ->
  (forall x, In x (pids s) -> x <> p -> In x (pids s1)) ->
  owned s1 = owned s -> spawns s1 = spawns s ->
  Ext s1 s3 -> done s3 p -> Ext s s3.
Proof.
  intros Hr Hi Ht Ho Hl Hreg Hpend Kr Kp Hown Hsp E Dn.
  assert (Hf : forall x, fin_count s1 x = fin_count s x) by (intros; unfold fin_count; congruence).
  assert (Hfr : forall x, free_count s1 x = free_count s x) by (intros; unfold free_count; congruence).
  constructor.
  - rewrite (e_running _ _ E); exact Hr.
  - intros x Hx. rewrite (e_info _ _ E x); rewrite Hi; [reflexivity | exact Hx].
  - rewrite (e_torn _ _ E); exact Ht.
  - rewrite (e_oof _ _ E); exact Ho.
  - intros x. rewrite <- Hf. apply E.
  - intros x. rewrite <- Hfr. apply E.
  - intros e He. destruct (e_reg _ _ E e He) as [Hin|[Hn Hfl]]; [left; apply Hreg; exact Hin | right; rewrite <- Hi; auto].
  - eapply F2_trans; [apply E | exact Hpend].
  - intros x Hx Hnx. destruct (Nat.eq_dec x p) as [->|Hne]; [exact Dn|].
    apply (e_regdone _ _ E); auto.
  - intros x Hx Hnx. destruct (Nat.eq_dec x p) as [->|Hne]; [exact Dn|].
    apply (e_penddone _ _ E); auto.
  - intros x [H1 H2]. apply (e_done _ _ E). unfold done. rewrite Hf, Hfr. auto.
  - intros y Hy. rewrite (e_owned _ _ E y Hy). rewrite Hown. reflexivity.
  - intros x Hx. rewrite (e_spawns _ _ E x); rewrite ?Hi, ?Hsp; [reflexivity | exact Hx].
  - intros y Hy Hf0. rewrite (e_prog_owned _ _ E y); [rewrite Hown; reflexivity | rewrite Hf; exact Hy | exact Hf0].
  - intros x Hn Hs. rewrite <- Hi in Hn. destruct (e_new _ _ E x Hn Hs) as (Ha & Hb & Hc).
    split; [exact Ha|]. split; [exact Hb|]. intros Hrun. apply Hc. rewrite Hr. exact Hrun.
Qed.

Lemma Clo_from_removed s s1 s3 p0 :
  running s1 = running s -> log s1 = log s -> owned s1 = owned s ->
  (forall x, In x (regids s) -> x <> p0 -> In x (regids s1)) ->
  (forall x, In x (pids s) -> x <> p0 -> In x (pids s1)) ->
  Clo s1 s3 -> done s3 p0 -> Clo s s3.
Proof.
  intros Hr Hl Hown Kr Kp C Dn Hrun y p H0 H3 Ho Hin.
  destruct (Nat.eq_dec p p0) as [->|Hne]; [exact Dn|].
  apply (C ltac:(congruence) y p).
  - unfold fin_count in *. rewrite Hl. exact H0.
  - exact H3.
  - rewrite Hown. exact Ho.
  - destruct Hin as [Hin|Hin]; [left; apply Kr | right; apply Kp]; assumption.
Qed.

(* GC_Rem (repaired) with a good finaliser *)
Lemma gc_rem_ok fin n :
  FinOK fin n -> forall A s p, GInv A s -> measure s < n ->
    GInv A (gc_rem mrule true fin s p) /\ Ext s (gc_rem mrule true fin s p) /\
    (running s = true -> In p (regids s) \/ In p (pids s) -> done (gc_rem mrule true fin s p) p) /\
    Clo s (gc_rem mrule true fin s p) /\ measure (gc_rem mrule true fin s p) <= measure s.
Proof.
  intros HF A s p G Hm. unfold gc_rem.
  destruct (running s) eqn:Hrun; simpl negb; cbv iota.
  2:{ split; [exact G|]. split; [apply Ext_refl|]. split; [discriminate |]. split; [apply Clo_refl | lia]. }
  destruct (in_pend s p) eqn:Hp.
  - apply in_pend_spec in Hp.
    destruct (null_pend_ok A s p G Hp) as (G1 & N1 & N2 & F0 & M1 & R1 & I1 & D1 & T1 & B1 & O1 & L1 & Rg1 & P1 & K1).
    set (s1 := set_pend (null_pend p (pend s)) s) in *.
    assert (Hinf : info s1 p <> None) by (rewrite I1; apply (g_info _ _ G); right; exact Hp).
    destruct (HF A s1 p G1 N1 N2 F0 Hinf ltac:(lia)) as (G2 & E2 & Dn & C2 & M2).
    set (s2 := fin s1 p) in *.
    destruct (set_mitems_ok A s2 (mrule (nitems s2)) G2) as (G3 & E3 & M3).
    assert (C23 : Clo s1 (set_mitems (mrule (nitems s2)) s2)).
    { eapply Clo_trans; [exact E2 | exact E3 | exact C2 | apply Clo_same_log; reflexivity]. }
    assert (Kr0 : forall x, In x (regids s) -> x <> p -> In x (regids s1)).
    { intros x Hx _. unfold regids. rewrite Rg1. exact Hx. }
    assert (Hreg : incl (reg s1) (reg s)) by (rewrite Rg1; apply incl_refl).
    assert (E23 : Ext s1 (set_mitems (mrule (nitems s2)) s2)) by (eapply Ext_trans; [exact E2 | exact E3]).
    split; [exact G3|]. split; [|split; [intros _ _; apply (e_done _ _ E3); exact Dn| split;
      [exact (Clo_from_removed s s1 _ p R1 L1 eq_refl Kr0 K1 C23 (e_done _ _ E3 _ Dn)) | lia]]].
    exact (Ext_from_removed s s1 _ p R1 I1 T1 O1 L1 Hreg P1 Kr0 K1 eq_refl eq_refl E23 (e_done _ _ E3 _ Dn)).
  - destruct (in_reg s p) eqn:Hr.
    + apply in_reg_spec in Hr.
      destruct (rem_reg_ok A s p G Hr) as (G1 & N1 & N2 & F0 & M1 & R1 & I1 & D1 & T1 & B1 & O1 & L1 & Pd1 & Rg1 & K1).
      set (s1 := set_reg (rem_reg p (reg s)) s) in *.
      assert (Hinf : info s1 p <> None) by (rewrite I1; apply (g_info _ _ G); left; exact Hr).
      destruct (HF A s1 p G1 N1 N2 F0 Hinf ltac:(lia)) as (G2 & E2 & Dn & C2 & M2).
      set (s2 := fin s1 p) in *.
      destruct (set_mitems_ok A s2 (mrule (nitems s2)) G2) as (G3 & E3 & M3).
      assert (C23 : Clo s1 (set_mitems (mrule (nitems s2)) s2)).
      { eapply Clo_trans; [exact E2 | exact E3 | exact C2 | apply Clo_same_log; reflexivity]. }
      assert (Kp0 : forall x, In x (pids s) -> x <> p -> In x (pids s1)).
      { intros x Hx _. unfold pids. rewrite Pd1. exact Hx. }
      assert (Hpend : Forall2 (fun a b => a = b \/ a = None) (pend s1) (pend s)) by (rewrite Pd1; apply Forall2_refl_or).
      assert (E23 : Ext s1 (set_mitems (mrule (nitems s2)) s2)) by (eapply Ext_trans; [exact E2 | exact E3]).
      split; [exact G3|]. split; [|split; [intros _ _; apply (e_done _ _ E3); exact Dn| split;
        [exact (Clo_from_removed s s1 _ p R1 L1 eq_refl K1 Kp0 C23 (e_done _ _ E3 _ Dn)) | lia]]].
      exact (Ext_from_removed s s1 _ p R1 I1 T1 O1 L1 Rg1 Hpend K1 Kp0 eq_refl eq_refl E23 (e_done _ _ E3 _ Dn)).
    + destruct (set_mitems_ok A s (mrule (nitems s)) G) as (G3 & E3 & M3).
      split; [exact G3|]. split; [exact E3|]. split; [|split; [apply Clo_same_log; reflexivity | lia]].
      intros _ [H|H].
      * apply in_reg_spec in H. congruence.
      * apply in_pend_spec in H. congruence.
Qed.

(* ------------------------------------------------------------------ the sweep (for any good finaliser) *)
Lemma F2_length {A} (l1 l2 : list (option A)) :
  Forall2 (fun a b => a = b \/ a = None) l1 l2 -> length l1 = length l2.
Proof. induction 1; simpl; auto. Qed.

Lemma F2_nth_none (l1 l2 : list (option id)) j :
  Forall2 (fun a b => a = b \/ a = None) l1 l2 -> nth j l2 None = None -> nth j l1 None = None.
Proof.
  intros H. revert j. induction H; intros j Hj; [destruct j; reflexivity|].
  destruct j; simpl in *.
  - destruct H as [-> | ->]; auto.
  - apply IHForall2. exact Hj.
Qed.

Lemma nth_null_none o l j : nth j l None = Some o -> nth j (null_pend o l) None = None.
Proof.
  unfold null_pend. revert j. induction l as [|a l IH]; intros j Hj; [destruct j; discriminate|].
  destruct j; simpl in *.
  - subst a. simpl. rewrite Nat.eqb_refl. reflexivity.
  - apply IH. exact Hj.
Qed.

Lemma nth_in_somes l j o : nth j l None = Some o -> In o (somes l).
Proof.
  intros H. apply somes_in. destruct (Nat.lt_ge_cases j (length l)) as [Hl|Hl].
  - rewrite <- H. apply nth_In. exact Hl.
  - rewrite nth_overflow in H by exact Hl. discriminate.
Qed.

Lemma all_none_somes (l : list (option id)) :
  (forall j, j < length l -> nth j l None = None) -> somes l = [].
Proof.
  induction l as [|a l IH]; intros H; [reflexivity|].
  pose proof (H 0 ltac:(simpl; lia)) as H0. simpl in H0. subst a. simpl.
  apply IH. intros j Hj. apply (H (S j)). simpl. lia.
Qed.

Lemma null_pend_length o l : length (null_pend o l) = length l.
Proof. unfold null_pend. apply map_length. Qed.

Lemma sweep_loop_ok fin n : FinOK fin n -> forall k i A s,
  GInv A s -> measure s < n -> (forall j, j < i -> nth j (pend s) None = None) -> i + k = length (pend s) ->
  let s' := sweep_loop true fin k i s in
  GInv A s' /\ Ext s s' /\ pids s' = [] /\ Clo s s' /\ measure s' <= measure s.
Proof.
  intros HF. induction k as [|k IH]; intros i A s G Hm Hnone Hlen; cbn [sweep_loop].
  - split; [exact G|]. split; [apply Ext_refl|]. split; [|split; [apply Clo_refl | lia]].
    apply all_none_somes. intros j Hj. apply Hnone. lia.
  - destruct (nth i (pend s) None) as [o|] eqn:Hnth.
    + assert (Hin : In o (pids s)) by (eapply nth_in_somes; exact Hnth).
      destruct (null_pend_ok A s o G Hin) as (G1 & N1 & N2 & F0 & M1 & R1 & I1 & D1 & T1 & B1 & O1 & L1 & Rg1 & P1 & K1).
      set (s1 := set_pend (null_pend o (pend s)) s) in *.
      assert (Hinf : info s1 o <> None) by (rewrite I1; apply (g_info _ _ G); right; exact Hin).
      destruct (HF A s1 o G1 N1 N2 F0 Hinf ltac:(lia)) as (G2 & E2 & Dn & C2 & M2).
      set (s2 := fin s1 o) in *.
      assert (Kr : forall x, In x (regids s) -> x <> o -> In x (regids s1)).
      { intros x Hx _. unfold regids. rewrite Rg1. exact Hx. }
      assert (Hreg : incl (reg s1) (reg s)) by (rewrite Rg1; apply incl_refl).
      assert (E : Ext s s2) by exact (Ext_from_removed s s1 _ o R1 I1 T1 O1 L1 Hreg P1 Kr K1 eq_refl eq_refl E2 Dn).
      assert (C : Clo s s2) by exact (Clo_from_removed s s1 _ o R1 L1 eq_refl Kr K1 C2 Dn).
      assert (Hl2 : length (pend s2) = length (pend s)) by (apply F2_length, E).
      destruct (IH (S i) A s2 G2) as (G3 & E3 & P3 & C3 & M3).
      * lia.
      * intros j Hj. apply (F2_nth_none _ _ _ (e_pend _ _ E2)).
        destruct (Nat.eq_dec j i) as [->|Hne].
        -- apply nth_null_none. exact Hnth.
        -- apply (F2_nth_none _ _ _ P1). apply Hnone. lia.
      * lia.
      * split; [exact G3|]. split; [eapply Ext_trans; eassumption |]. split; [exact P3|].
        split; [eapply Clo_trans; eassumption | lia].
    + destruct (IH (S i) A s G) as (G3 & E3 & P3 & C3 & M3).
      * exact Hm.
      * intros j Hj. destruct (Nat.eq_dec j i) as [->|Hne]; [exact Hnth | apply Hnone; lia].
      * lia.
      * split; [exact G3|]. split; [exact E3 |]. split; [exact P3 |]. split; [exact C3 | exact M3].
Qed.

Lemma NoDup_app_intro {A} (l1 l2 : list A) :
  NoDup l1 -> NoDup l2 -> (forall x, In x l1 -> ~ In x l2) -> NoDup (l1 ++ l2).
Proof.
  induction 1; intros H2 Hd; simpl; [exact H2|].
  constructor.
  - rewrite in_app_iff. intros [Hx|Hx]; [contradiction|]. apply (Hd x); [left; reflexivity | exact Hx].
  - apply IHNoDup; auto. intros y Hy. apply Hd. right. exact Hy.
Qed.

Lemma existsb_eqb_in x l : existsb (Nat.eqb x) l = true <-> In x l.
Proof.
  rewrite existsb_exists. split.
  - intros [y [H1 H2]]. apply Nat.eqb_eq in H2. subst. exact H1.
  - intros H. exists x. split; auto. apply Nat.eqb_refl.
Qed.

Lemma arrange_spec order s :
  NoDup (regids s) -> NoDup (arrange order s) /\ (forall x, In x (arrange order s) <-> In x (regids s)).
Proof.
  intros Hnd. unfold arrange. fold (regids s).
  set (o1 := filter (in_reg s) (nodup Nat.eq_dec order)).
  assert (H1 : NoDup o1) by (apply NoDup_filter, NoDup_nodup).
  split.
  - apply NoDup_app_intro; auto.
    + apply NoDup_filter. exact Hnd.
    + intros x Hx. rewrite filter_In. intros [_ Hf].
      apply (proj2 (existsb_eqb_in x o1)) in Hx. rewrite Hx in Hf. discriminate.
  - intros x. rewrite in_app_iff, filter_In. split.
    + intros [Hx|[Hx _]]; [|exact Hx]. apply filter_In in Hx. apply in_reg_spec. tauto.
    + intros Hx. destruct (existsb (Nat.eqb x) o1) eqn:E.
      * left. apply existsb_eqb_in. exact E.
      * right. split; auto.
Qed.

Lemma map_fst_filter {B} (f : nat -> bool) (l : list (nat * B)) :
  map fst (filter (fun e => f (fst e)) l) = filter f (map fst l).
Proof. induction l as [|[a b] l IH]; simpl; auto. destruct (f a); simpl; rewrite IH; reflexivity. Qed.

Lemma somes_map_Some l : somes (map Some l) = l.
Proof. unfold somes. induction l; simpl; auto. rewrite IHl. reflexivity. Qed.

Definition dead_of (order marks : list id) (s : st) : list id :=
  filter (fun o => negb (is_root s o) && negb (existsb (Nat.eqb o) marks)) (arrange order s).

(* GC_Sweep (repaired) started outside any sweep: every unmarked non-root entry is finalised exactly
   once, nothing else changes hands, and the pending list is empty again afterwards *)
Lemma sweep_ok fin n : FinOK fin n -> forall order marks A s,
  GInv A s -> pend s = [] -> measure s < n ->
  let s' := sweep mrule true fin order marks s in
  GInv A s' /\ pend s' = [] /\ Ext s s' /\
  (forall x, In x (regids s) -> is_root s x = false -> ~ In x marks -> done s' x) /\ Clo s s' /\
  measure s' <= measure s.
Proof.
  intros HF order marks A s G Hpe Hm. unfold sweep. fold (dead_of order marks s).
  set (dead := dead_of order marks s).
  set (r' := filter (fun e => negb (existsb (Nat.eqb (fst e)) dead)) (reg s)).
  set (s1 := set_mitems (mrule (length r')) (set_pend (map Some dead) (set_reg r' s))).
  destruct (arrange_spec order s (g_reg_nodup _ _ G)) as [Hand Hain].
  assert (Hdead_in : forall x, In x dead -> In x (regids s)).
  { intros x Hx. apply filter_In in Hx. apply Hain. tauto. }
  assert (Hdead_nd : NoDup dead) by (apply NoDup_filter; exact Hand).
  assert (Hr1 : regids s1 = filter (fun x => negb (existsb (Nat.eqb x) dead)) (regids s)).
  { unfold regids, s1, r'. simpl. apply (map_fst_filter (fun x => negb (existsb (Nat.eqb x) dead))). }
  assert (Hp1 : pids s1 = dead) by (unfold pids, s1; simpl; apply somes_map_Some).
  assert (Hf : forall x, fin_count s1 x = fin_count s x) by reflexivity.
  assert (Hfr : forall x, free_count s1 x = free_count s x) by reflexivity.
  assert (G1 : GInv A s1).
  { constructor.
    - rewrite Hr1. apply NoDup_filter, G.
    - rewrite Hp1. exact Hdead_nd.
    - intros x Hx. rewrite Hp1. rewrite Hr1, filter_In in Hx. destruct Hx as [_ Hx].
      intros Hd. apply existsb_eqb_in in Hd. rewrite Hd in Hx. discriminate.
    - intros x [Hx|Hx]; rewrite Hf; apply (g_fresh _ _ G); left.
      + rewrite Hr1, filter_In in Hx. tauto.
      + rewrite Hp1 in Hx. apply Hdead_in. exact Hx.
    - intros x Hx. rewrite Hf, Hfr. apply (g_prog _ _ G). exact Hx.
    - intros x Hx. rewrite Hf, Hfr. apply (g_rest _ _ G). exact Hx.
    - intros x [Hx|Hx]; apply (g_info _ _ G); left.
      + rewrite Hr1, filter_In in Hx. tauto.
      + rewrite Hp1 in Hx. apply Hdead_in. exact Hx.
    - apply G. - apply G. - apply G. - apply G. }
  destruct (sweep_loop_ok fin n HF (length dead) 0 A s1 G1) as (G2 & E2 & P2 & C2 & M2).
  { exact Hm. }
  { intros j Hj. lia. }
  { unfold s1. simpl. rewrite map_length. reflexivity. }
  set (s2 := sweep_loop true fin (length dead) 0 s1) in *.
  assert (Hdone_dead : forall x, In x dead -> done s2 x).
  { intros x Hx. apply (e_penddone _ _ E2).
    - rewrite Hp1. exact Hx.
    - rewrite P2. intros []. }
  split; [|split; [reflexivity|split; [|split; [|split]]]].
  - constructor; try apply G2.
    + constructor.
    + intros x Hx [].
    + intros x [Hx|[]]. apply (g_fresh _ _ G2). left. exact Hx.
    + intros x [Hx|[]]. apply (g_info _ _ G2). left. exact Hx.
  - constructor.
    + apply E2.
    + intros x Hx. apply (e_info _ _ E2 x Hx).
    + apply E2.
    + apply E2.
    + intros x. rewrite <- Hf. apply E2.
    + intros x. rewrite <- Hfr. apply E2.
    + intros e He. destruct (e_reg _ _ E2 e He) as [Hin|Hnew]; [left | right; exact Hnew].
      unfold s1, r' in Hin. simpl in Hin. apply filter_In in Hin. tauto.
    + rewrite Hpe. constructor.
    + intros x Hx Hnx. destruct (in_dec Nat.eq_dec x dead) as [Hd|Hnd]; [apply Hdone_dead; exact Hd|].
      apply (e_regdone _ _ E2); [|exact Hnx].
      rewrite Hr1, filter_In. split; [exact Hx|].
      destruct (existsb (Nat.eqb x) dead) eqn:Ee; [apply existsb_eqb_in in Ee; contradiction | reflexivity].
    + unfold pids at 1. rewrite Hpe. intros x [].
    + intros x [Hd1 Hd2]. apply (e_done _ _ E2). unfold done. rewrite Hf, Hfr. auto.
    + intros y Hy. apply (e_owned _ _ E2 y Hy).
    + intros x Hx. apply (e_spawns _ _ E2 x Hx).
    + intros y Hy Hf0. apply (e_prog_owned _ _ E2 y); [rewrite Hf; exact Hy | exact Hf0].
    + intros x Hn Hs. destruct (e_new _ _ E2 x Hn Hs) as (Ha & Hb & Hc).
      split; [exact Ha|]. split; [exact Hb|]. intros Hrun. destruct (Hc Hrun) as [Hr|[Hp|Hd]].
      * left. exact Hr.
      * rewrite P2 in Hp. destruct Hp.
      * right; right. exact Hd.
  - intros x Hx Hroot Hmk. apply Hdone_dead. unfold dead, dead_of. rewrite filter_In. split.
    + apply Hain. exact Hx.
    + rewrite Hroot. simpl. destruct (existsb (Nat.eqb x) marks) eqn:Ee; [apply existsb_eqb_in in Ee; contradiction | reflexivity].
  - intros Hrun y p H0 H3 Hoy Hin.
    destruct Hin as [Hin|Hin]; [|unfold pids in Hin; rewrite Hpe in Hin; destruct Hin].
    apply (C2 Hrun y p); [rewrite Hf; exact H0 | exact H3 | exact Hoy |].
    destruct (in_dec Nat.eq_dec p dead) as [Hd|Hnd].
    + right. rewrite Hp1. exact Hd.
    + left. rewrite Hr1, filter_In. split; [exact Hin|].
      destruct (existsb (Nat.eqb p) dead) eqn:Ee; [apply existsb_eqb_in in Ee; contradiction | reflexivity].
  - exact M2.
Qed.

(* ------------------------------------------------------------------ allocation inside a destructor *)
Notation finF := (finalise mrule true true true nopro).
Notation childF := (alloc_child mrule true true).

Lemma phi_add_obj s c k b : fin_count s c = 0 -> phi (add_obj c k b s) = S (length (spawns s c)) + phi s.
Proof.
  intros H0. rewrite !phi_unfold. simpl ids. simpl map. simpl list_sum.
  apply fin_started_spec in H0. unfold weight at 1. change (fin_started (add_obj c k b s) c) with (fin_started s c).
  rewrite H0. reflexivity.
Qed.

Lemma add_obj_ginv A s c k b : GInv A s -> info s c = None -> GInv A (add_obj c k b s).
Proof.
  intros G Hn. set (s1 := add_obj c k b s).
  assert (Hi : forall x, info s1 x = if x =? c then Some (k, b) else info s x) by reflexivity.
  constructor; try apply G.
  - intros x Hx. rewrite Hi. destruct (x =? c); [discriminate | apply (g_info _ _ G); exact Hx].
  - intros x Hx. rewrite Hi in Hx. destruct (x =? c); [discriminate | apply (g_alloc _ _ G); exact Hx].
  - simpl. constructor; [|apply G]. intros Hin. apply (g_ids _ _ G) in Hin. contradiction.
  - intros x. rewrite Hi. simpl ids. destruct (Nat.eqb_spec x c) as [->|Hne].
    + split; [discriminate | intros _; left; reflexivity].
    + split; [intros [Hx|Hx]; [congruence | apply (g_ids _ _ G); exact Hx] | intros Hx; right; apply (g_ids _ _ G); exact Hx].
  - intros x Hx. rewrite Hi in Hx. destruct (x =? c); [discriminate | apply (g_spawn _ _ G); exact Hx].
Qed.

Lemma register_ginv A s c (r : bool) :
  GInv A s -> ~ In c (regids s) -> ~ In c (pids s) -> fin_count s c = 0 -> info s c <> None ->
  GInv A (set_reg ((c, r) :: reg s) s).
Proof.
  intros G Hnr Hnp Hf Hi. constructor; try apply G.
  - simpl. constructor; [exact Hnr | apply G].
  - intros x [<-|Hx]; [exact Hnp | apply (g_disj _ _ G); exact Hx].
  - intros x [[<-|Hx]|Hx]; [exact Hf | apply (g_fresh _ _ G); left; exact Hx | apply (g_fresh _ _ G); right; exact Hx].
  - intros x [[<-|Hx]|Hx]; [exact Hi | apply (g_info _ _ G); left; exact Hx | apply (g_info _ _ G); right; exact Hx].
Qed.

(* the allocation part of GC_Set for a fresh managed plain object c *)
Lemma child_reg_ext s c (s2 : st) :
  info s c = None -> spawns s c = [] ->
  running s2 = running s -> torn s2 = torn s -> oof s2 = oof s -> log s2 = log s -> pend s2 = pend s ->
  owned s2 = owned s -> spawns s2 = spawns s ->
  (forall x, info s2 x = if x =? c then Some (KManaged, false) else info s x) ->
  (reg s2 = reg s /\ running s = false \/ reg s2 = (c, false) :: reg s) ->
  Ext s s2 /\ Clo s s2.
Proof.
  intros Hn Hsp Hr Ht Ho Hl Hp Hw Hs Hi Hreg.
  assert (Hf : forall x, fin_count s2 x = fin_count s x) by (intros; unfold fin_count; congruence).
  assert (Hfr : forall x, free_count s2 x = free_count s x) by (intros; unfold free_count; congruence).
  split; [|apply Clo_same_log; exact Hl].
  constructor; auto.
  - intros x Hx. rewrite Hi. destruct (Nat.eqb_spec x c) as [->|]; [contradiction | reflexivity].
  - intros x. rewrite Hf. lia.
  - intros x. rewrite Hfr. lia.
  - intros e He. destruct Hreg as [[Hg _]|Hg]; rewrite Hg in He; [left; exact He|].
    destruct He as [<-|He]; [right; auto | left; exact He].
  - rewrite Hp. apply Forall2_refl_or.
  - intros x Hx Hnx. exfalso. apply Hnx. unfold regids in *. destruct Hreg as [[Hg _]|Hg]; rewrite Hg; [exact Hx | right; exact Hx].
  - intros x Hx Hnx. exfalso. apply Hnx. unfold pids. rewrite Hp. exact Hx.
  - intros x [H1 H2]. unfold done. rewrite Hf, Hfr. auto.
  - intros y _. rewrite Hw. reflexivity.
  - intros x _. rewrite Hs. reflexivity.
  - intros y _ _. rewrite Hw. reflexivity.
  - intros x Hx Hx2. rewrite Hi in Hx2 |- *. rewrite Hs.
    destruct (Nat.eqb_spec x c) as [->|Hne]; [|contradiction].
    split; [reflexivity|]. split; [exact Hsp|]. intros Hrun.
    destruct Hreg as [[_ Hg]|Hg]; [congruence|]. left. unfold regids. rewrite Hg. left. reflexivity.
Qed.

Lemma child_ok fin n : FinOK fin n -> forall A s c,
  GInv A s -> S (measure s) < n ->
  let s' := childF fin s c in
  GInv A s' /\ Ext s s' /\ Clo s s' /\ measure s' <= S (measure s).
Proof.
  intros HF A s c G Hm. unfold alloc_child.
  destruct (info s c) as [ib|] eqn:Hn.
  { split; [constructor; apply G|]. split; [apply Ext_same; auto|]. split; [apply Clo_same_log; reflexivity | change (measure (set_bad s)) with (measure s); lia]. }
  set (s1 := add_obj c KManaged false s).
  pose proof (add_obj_ginv A s c KManaged false G Hn) as G1. fold s1 in G1.
  assert (Hf0 : fin_count s c = 0) by (apply (g_alloc _ _ G); exact Hn).
  assert (Hsp : spawns s c = []) by (apply (g_spawn _ _ G); exact Hn).
  assert (Hm1 : measure s1 = S (measure s)).
  { unfold measure, s1. rewrite (phi_add_obj s c KManaged false Hf0), Hsp. reflexivity. }
  change (running s1) with (running s).
  destruct (running s) eqn:Hrun; simpl negb; cbv iota.
  2:{ destruct (child_reg_ext s c s1 Hn Hsp) as [E C]; try reflexivity; [left; split; [reflexivity | exact Hrun]|].
      split; [exact G1|]. split; [exact E|]. split; [exact C | lia]. }
  set (s2 := set_reg ((c, false) :: reg s1) s1).
  assert (Hnr : ~ In c (regids s1)).
  { intros Hin. apply (g_info _ _ G c (or_introl Hin)). exact Hn. }
  assert (Hnp : ~ In c (pids s1)).
  { intros Hin. apply (g_info _ _ G c (or_intror Hin)). exact Hn. }
  assert (Hi1 : info s1 c <> None) by (unfold s1; simpl; rewrite Nat.eqb_refl; discriminate).
  pose proof (register_ginv A s1 c false G1 Hnr Hnp Hf0 Hi1) as G2. fold s2 in G2.
  destruct (child_reg_ext s c s2 Hn Hsp) as [E2 C2]; try reflexivity; [right; reflexivity|].
  assert (Hm2 : measure s2 = S (measure s)) by exact Hm1.
  simpl andb.
  destruct (in_sweep s2) eqn:Hsw.
  { split; [exact G2|]. split; [exact E2|]. split; [exact C2 | lia]. }
  destruct (mitems s2 <? nitems s2).
  2:{ split; [exact G2|]. split; [exact E2|]. split; [exact C2 | lia]. }
  set (s3 := set_obsq (tl (obsq s2)) s2).
  assert (G3 : GInv A s3) by (constructor; apply G2).
  assert (Hpe3 : pend s3 = []).
  { unfold in_sweep in Hsw. change (pend s3) with (pend s2). destruct (pend s2); [reflexivity | discriminate]. }
  destruct (sweep_ok fin n HF (fst (hd ([], []) (obsq s2))) (c :: snd (hd ([], []) (obsq s2))) A s3 G3 Hpe3 ltac:(change (measure s3) with (measure s2); lia))
    as (G4 & P4 & E4 & _ & C4 & M4).
  assert (E23 : Ext s2 s3) by (apply Ext_same; auto).
  split; [exact G4|]. split; [eapply Ext_trans; [exact E2|]; eapply Ext_trans; [exact E23 | exact E4]|].
  split.
  - eapply Clo_trans; [exact E2 | eapply Ext_trans; [exact E23 | exact E4] | exact C2 |].
    eapply Clo_trans; [exact E23 | exact E4 | apply Clo_same_log; reflexivity | exact C4].
  - change (measure s3) with (measure s2) in M4. lia.
Qed.

Lemma children_ok fin n : FinOK fin n -> forall cs A s,
  GInv A s -> length cs + measure s < n ->
  let s' := fold_left (childF fin) cs s in
  GInv A s' /\ Ext s s' /\ Clo s s' /\ measure s' <= length cs + measure s.
Proof.
  intros HF. induction cs as [|c cs IH]; intros A s G Hm; simpl fold_left.
  - split; [exact G|]. split; [apply Ext_refl|]. split; [apply Clo_refl | simpl; lia].
  - simpl length in Hm.
    destruct (child_ok fin n HF A s c G ltac:(lia)) as (G1 & E1 & C1 & M1).
    destruct (IH A (childF fin s c) G1 ltac:(lia)) as (G2 & E2 & C2 & M2).
    split; [exact G2|]. split; [eapply Ext_trans; eassumption|]. split; [eapply Clo_trans; eassumption | simpl length; lia].
Qed.

(* dealloc(destruct(o)) with enough fuel *)
Lemma finalise_ok f : FinOK (finF f) f.
Proof.
  induction f as [|f IH]; intros A s o G Hr Hp Hf Hinfo Hm; [lia|].
  assert (HoA : ~ In o A). { intros HA. destruct (g_prog _ _ G o HA). lia. }
  cbn [finalise].
  destruct (add_fin_ok A s o G Hr Hp Hf Hinfo) as (G1 & E1 & M1).
  set (s1 := add_log (LFin o) s) in *.
  assert (Hr1 : ~ In o (regids s1)) by exact Hr.
  assert (Hp1 : ~ In o (pids s1)) by exact Hp.
  assert (Hfin1 : forall y, y <> o -> fin_count s1 y = fin_count s y).
  { intros y Hne. unfold s1. rewrite fin_add_fin. destruct (Nat.eqb_spec y o); [contradiction | reflexivity]. }
  change (spawns s1 o) with (spawns s o).
  destruct (children_ok _ _ IH (spawns s o) (o :: A) s1 G1 ltac:(lia)) as (G1a & E1a & C1a & M1a).
  set (s1a := fold_left (childF (finF f)) (spawns s o) s1) in *.
  assert (Hinfo1 : info s1 o <> None) by exact Hinfo.
  assert (Hr1a : ~ In o (regids s1a)) by (intros H; apply Hr1; apply (Ext_regids _ _ o E1a Hinfo1 H)).
  assert (Hp1a : ~ In o (pids s1a)) by (intros H; apply Hp1; apply (Ext_pids _ _ E1a); exact H).
  assert (Hown1a : owned s1a o = owned s o).
  { destruct (g_prog _ _ G1a o (or_introl eq_refl)) as [_ Hfr]. destruct (g_prog _ _ G1 o (or_introl eq_refl)) as [Hf1 _].
    rewrite (e_prog_owned _ _ E1a o); [reflexivity | lia | exact Hfr]. }
  rewrite Hown1a.
  assert (Hm1a : measure s1a < f) by lia.
  destruct (owned s o) as [p|] eqn:Hown.
  - destruct (gc_rem_ok _ _ IH (o :: A) s1a p G1a Hm1a) as (G2 & E2 & D2 & C2 & M2).
    set (s2 := gc_rem mrule true (finF f) s1a p) in *.
    assert (E12 : Ext s1 s2) by (eapply Ext_trans; eassumption).
    assert (Hr2 : ~ In o (regids s2)) by (intros H; apply Hr1; apply (Ext_regids _ _ o E12 Hinfo1 H)).
    assert (Hp2 : ~ In o (pids s2)) by (intros H; apply Hp1; apply (Ext_pids _ _ E12); exact H).
    destruct (finish_ok A s2 o G2 HoA Hr2 Hp2) as (G4 & E4 & Dn & M4).
    set (s4 := add_log (LFree o) (set_owned (upd_owned (owned s2) o None) s2)) in *.
    split; [exact G4|]. split; [|split; [exact Dn|split]].
    + eapply Ext_trans; [exact E1|]. eapply Ext_trans; [exact E12 | exact E4].
    + intros Hrun y q H0 H4 Hoy Hin.
      destruct (Nat.eq_dec y o) as [->|Hne].
      * assert (q = p) by congruence. subst q.
        apply (e_done _ _ E4).
        assert (Hrun1a : running s1a = true) by (rewrite (e_running _ _ E1a); exact Hrun).
        destruct Hin as [Hin|Hin].
        -- destruct (in_dec Nat.eq_dec p (regids s1a)) as [Hi|Hni].
           ++ apply D2; [exact Hrun1a | left; exact Hi].
           ++ apply (e_done _ _ E2). apply (e_regdone _ _ E1a); assumption.
        -- destruct (in_dec Nat.eq_dec p (pids s1a)) as [Hi|Hni].
           ++ apply D2; [exact Hrun1a | right; exact Hi].
           ++ apply (e_done _ _ E2). apply (e_penddone _ _ E1a); assumption.
      * apply (e_done _ _ E4).
        assert (C12 : Clo s1 s2) by exact (Clo_trans s1 s1a s2 E1a E2 C1a C2).
        apply (C12 Hrun y q).
        -- rewrite (Hfin1 y Hne). exact H0.
        -- assert (fin_count s4 y = fin_count s2 y) by (unfold s4; rewrite fin_add_free; reflexivity). lia.
        -- exact Hoy.
        -- exact Hin.
    + lia.
  - destruct (finish_ok A s1a o G1a HoA Hr1a Hp1a) as (G4 & E4 & Dn & M4).
    (* no owned object: the pointer update is the identity on the ledger *)
    assert (Heq : forall t, fin_count (add_log (LFree o) (set_owned (upd_owned (owned s1a) o None) s1a)) t = fin_count (add_log (LFree o) s1a) t) by reflexivity.
    assert (G4' : GInv A (add_log (LFree o) s1a)).
    { destruct (add_free_ok A s1a o G1a HoA Hr1a Hp1a) as (G5 & _). exact G5. }
    destruct (add_free_ok A s1a o G1a HoA Hr1a Hp1a) as (G5 & E5 & D5 & M5).
    split; [exact G5|]. split; [|split; [exact D5|split]].
    + eapply Ext_trans; [exact E1|]. eapply Ext_trans; [exact E1a | exact E5].
    + intros Hrun y q H0 H4 Hoy Hin.
      destruct (Nat.eq_dec y o) as [->|Hne]; [congruence|].
      apply (e_done _ _ E5). apply (C1a Hrun y q).
      * rewrite (Hfin1 y Hne). exact H0.
      * rewrite fin_add_free in H4. exact H4.
      * exact Hoy.
      * exact Hin.
    + lia.
Qed.

(* the finaliser the events use computes its fuel from the state: good at every bound *)
Notation finT := (fin_top mrule true true true nopro).
Lemma fin_top_ok n : FinOK finT n.
Proof.
  intros A s o G Hr Hp Hf Hi _. unfold fin_top.
  apply (finalise_ok (fuel_of s) A s o G Hr Hp Hf Hi). unfold fuel_of, measure. lia.
Qed.


(* ------------------------------------------------------------------ whole histories *)
Notation stepF := (step mrule true true true nopro).
Notation runF := (run mrule true true true nopro).
Notation step1F := (step1 mrule true true true nopro).
Notation sweepT := (sweep mrule true finT).

Record SInv (s : st) : Prop := {
  si_g : GInv [] s;
  si_pend : pend s = [];
  si_oof : oof s = false;
  si_reginfo : forall x r, In (x, r) (reg s) -> exists b, info s x = Some ((if r then KRoot else KManaged), b);
  si_own : forall b p, fin_count s b = 0 -> owned s b = Some p ->
                       exists k bb, info s p = Some (k, bb) /\ k <> KRaw;
  si_own_none : forall b, info s b = None -> owned s b = None
}.

Lemma si_fin_alloc s : SInv s -> forall x, info s x = None -> fin_count s x = 0.
Proof. intros S. apply (g_alloc _ _ (si_g _ S)). Qed.
Lemma si_ids s : SInv s -> forall x, In x (ids s) <-> info s x <> None.
Proof. intros S. apply (g_ids _ _ (si_g _ S)). Qed.

(* between events and before teardown, every managed or root object whose destructor has not
   run is registered — this is what allocation in a stop window breaks (F2) *)
Definition RegAll (s : st) : Prop :=
  torn s = false -> forall x k b, info s x = Some (k, b) -> k <> KRaw -> fin_count s x = 0 -> In x (regids s).

Lemma count_zero e l : existsb (lev_eqb e) l = false -> count e l = 0.
Proof. apply count_zero_pre. Qed.

Lemma live_spec s o : live s o = true -> fin_count s o = 0 /\ info s o <> None.
Proof.
  unfold live. destruct (info s o); [|discriminate]. intros H. apply negb_true_iff in H.
  split; [apply count_zero; exact H | discriminate].
Qed.

Lemma F2_nil_r {A} (l : list (option A)) : Forall2 (fun a b => a = b \/ a = None) l [] -> l = [].
Proof. inversion 1. reflexivity. Qed.

Lemma SInv_ext s s' :
  SInv s -> GInv [] s' -> Ext s s' ->
  SInv s' /\ (RegAll s -> (running s = true \/ forall x, info s x = None -> info s' x = None) -> RegAll s').
Proof.
  intros S G E.
  assert (Hpe : pend s' = []) by (apply F2_nil_r; rewrite <- (si_pend _ S); apply E).
  split.
  - constructor.
    + exact G.
    + exact Hpe.
    + rewrite (e_oof _ _ E). apply S.
    + intros x r Hx. destruct (e_reg _ _ E _ Hx) as [Hin|[Hn Hr]].
      * destruct (si_reginfo _ S x r Hin) as [b Hb]. exists b. rewrite (e_info _ _ E x); [exact Hb | congruence].
      * simpl in Hn, Hr. subst r.
        assert (Hi : info s' x <> None).
        { apply (g_info _ _ G). left. unfold regids. apply in_map_iff. exists (x, false). auto. }
        destruct (e_new _ _ E x Hn Hi) as (Ha & _). exists false. exact Ha.
    + intros b p Hfb Hown. rewrite (e_owned _ _ E b Hfb) in Hown.
      destruct (info s b) eqn:Hib.
      * assert (H0 : fin_count s b = 0) by (pose proof (e_fin _ _ E b); lia).
        destruct (si_own _ S b p H0 Hown) as (k1 & bb & Hi & Hk). exists k1, bb.
        rewrite (e_info _ _ E p); [auto | congruence].
      * rewrite (si_own_none _ S b Hib) in Hown. discriminate.
    + intros b Hb.
      assert (Hib : info s b = None).
      { destruct (info s b) eqn:Hi; [|reflexivity]. rewrite <- Hb. symmetry. rewrite <- Hi. apply (e_info _ _ E). congruence. }
      rewrite (e_owned _ _ E b (g_alloc _ _ G b Hb)). apply (si_own_none _ S). exact Hib.
  - intros R Hra Ht x k b Hi Hk Hf.
    rewrite (e_torn _ _ E) in Ht.
    destruct (info s x) eqn:Hix.
    + assert (Hi' : info s x = Some (k, b)) by (rewrite <- Hi; symmetry; apply (e_info _ _ E); congruence).
      assert (H0 : fin_count s x = 0) by (pose proof (e_fin _ _ E x); lia).
      pose proof (R Ht x k b Hi' Hk H0) as Hin.
      destruct (in_dec Nat.eq_dec x (regids s')) as [Hi''|Hn]; [exact Hi''|].
      destruct (e_regdone _ _ E x Hin Hn) as [Hd _]. lia.
    + destruct Hra as [Hrun|Hno]; [|rewrite (Hno x Hix) in Hi; discriminate].
      assert (Hi' : info s' x <> None) by congruence.
      destruct (e_new _ _ E x Hix Hi') as (_ & _ & Hc).
      destruct (Hc Hrun) as [Hr|[Hp|[Hd _]]]; [exact Hr | unfold pids in Hp; rewrite Hpe in Hp; destruct Hp | lia].
Qed.

Lemma SInv_same_core s s' :
  reg s' = reg s -> pend s' = pend s -> log s' = log s -> info s' = info s -> ids s' = ids s -> spawns s' = spawns s ->
  owned s' = owned s -> oof s' = oof s -> SInv s -> SInv s'.
Proof.
  intros Hr Hp Hl Hi Hd Hs Hw Ho S. pose proof (si_g _ S) as G.
  assert (Hf : forall x, fin_count s' x = fin_count s x) by (intros; unfold fin_count; congruence).
  assert (Hfr : forall x, free_count s' x = free_count s x) by (intros; unfold free_count; congruence).
  constructor.
  - constructor; unfold regids, pids; rewrite ?Hr, ?Hp, ?Hd.
    + apply G. + apply G. + apply G.
    + intros x Hx. rewrite Hf. apply (g_fresh _ _ G). exact Hx.
    + intros x Hx. rewrite Hf, Hfr. apply (g_prog _ _ G). exact Hx.
    + intros x Hx. rewrite Hf, Hfr. apply (g_rest _ _ G). exact Hx.
    + intros x Hx. rewrite Hi. apply (g_info _ _ G). exact Hx.
    + intros x Hx. rewrite Hf. rewrite Hi in Hx. apply (g_alloc _ _ G). exact Hx.
    + apply G.
    + intros x. rewrite Hi. apply (g_ids _ _ G).
    + intros x Hx. rewrite Hs. rewrite Hi in Hx. apply (g_spawn _ _ G). exact Hx.
  - rewrite Hp. apply S.
  - rewrite Ho. apply S.
  - intros x r Hx. rewrite Hi. rewrite Hr in Hx. apply (si_reginfo _ S). exact Hx.
  - intros b p Hfb Hown. rewrite Hi. rewrite Hf in Hfb. rewrite Hw in Hown. apply (si_own _ S b p Hfb Hown).
  - intros b Hb. rewrite Hw. rewrite Hi in Hb. apply (si_own_none _ S). exact Hb.
Qed.

Lemma RegAll_same_core s s' :
  reg s' = reg s -> log s' = log s -> info s' = info s -> torn s' = torn s -> RegAll s -> RegAll s'.
Proof.
  intros Hr Hl Hi Ht R Ht' x k b Hx Hk Hf. unfold regids. rewrite Hr. rewrite Hi in Hx. rewrite Ht in Ht'.
  apply (R Ht' x k b Hx Hk). unfold fin_count in *. rewrite <- Hl. exact Hf.
Qed.

Lemma SInv_set_bad s : SInv s -> SInv (set_bad s) /\ (RegAll s -> RegAll (set_bad s)).
Proof.
  intros S. split; [apply (SInv_same_core s); auto | apply RegAll_same_core; reflexivity].
Qed.

Lemma SInv_set_bad' s (P : Prop) : SInv s -> SInv (set_bad s) /\ (RegAll s -> P -> RegAll (set_bad s)).
Proof. intros S. destruct (SInv_set_bad s S) as [S' R']. split; [exact S' | intros R _; apply R', R]. Qed.

Lemma SInv_init : SInv init /\ RegAll init.
Proof.
  split.
  - constructor; try reflexivity.
    + constructor.
      * constructor.
      * constructor.
      * intros y [].
      * intros y _. reflexivity.
      * intros y [].
      * intros y _. unfold free_count, fin_count, count, init; simpl; lia.
      * intros y [[]|[]].
      * intros y _. reflexivity.
      * constructor.
      * intros y. simpl. split; [intros [] | intros H; exfalso; apply H; reflexivity].
      * intros y _. reflexivity.
    + intros y r [].
    + intros b p _ H. discriminate.
  - intros _ y k b H. discriminate.
Qed.

Lemma is_root_false s x :
  SInv s -> (exists b, info s x = Some (KManaged, b)) -> is_root s x = false.
Proof.
  intros S [b Hb]. unfold is_root. apply not_true_is_false. intros H.
  apply existsb_exists in H. destruct H as [[y r] [Hin Hc]]. simpl in Hc.
  apply andb_true_iff in Hc. destruct Hc as [Hy Hr]. apply Nat.eqb_eq in Hy. subst y r.
  destruct (si_reginfo _ S x true Hin) as [b' Hb']. congruence.
Qed.

Lemma register_ok s o (r : bool) :
  SInv s -> ~ In o (regids s) -> fin_count s o = 0 ->
  (exists b, info s o = Some ((if r then KRoot else KManaged), b)) ->
  SInv (set_reg ((o, r) :: reg s) s).
Proof.
  intros S Hno Hfo [b Hb]. pose proof (si_g _ S) as G. pose proof (si_pend _ S) as Hpe.
  constructor; try apply S.
  - apply register_ginv; [exact G | exact Hno | unfold pids; rewrite Hpe; intros [] | exact Hfo | congruence].
  - intros x r' [Hx|Hx]; [inversion Hx; subst; exists b; exact Hb | apply (si_reginfo _ S); exact Hx].
Qed.

Lemma add_obj_ok s o k b : SInv s -> info s o = None -> SInv (add_obj o k b s).
Proof.
  intros S Hinfo. pose proof (si_g _ S) as G.
  set (s1 := add_obj o k b s).
  assert (Hno : ~ In o (regids s)).
  { intros Hin. apply (g_info _ _ G o (or_introl Hin)). exact Hinfo. }
  assert (Hinfo1 : forall x, x <> o -> info s1 x = info s x).
  { intros x Hne. unfold s1. simpl. destruct (Nat.eqb_spec x o); [contradiction | reflexivity]. }
  assert (Hinfo1o : info s1 o = Some (k, b)) by (unfold s1; simpl; rewrite Nat.eqb_refl; reflexivity).
  constructor; try apply S.
  - apply add_obj_ginv; assumption.
  - intros x r Hx. destruct (Nat.eq_dec x o) as [->|Hne].
    + exfalso. apply Hno. unfold regids. apply in_map_iff. exists (o, r). auto.
    + rewrite (Hinfo1 x Hne). apply (si_reginfo _ S). exact Hx.
  - intros b' p Hfb Hown. destruct (si_own _ S b' p Hfb Hown) as (k1 & bb & Hi & Hk1).
    destruct (Nat.eq_dec p o) as [->|Hne]; [congruence|].
    exists k1, bb. rewrite (Hinfo1 p Hne). auto.
  - intros b' Hb. destruct (Nat.eq_dec b' o) as [->|Hne]; [rewrite Hinfo1o in Hb; discriminate|].
    rewrite (Hinfo1 b' Hne) in Hb. apply (si_own_none _ S). exact Hb.
Qed.

(* destructors that run while the collector is stopped and have nothing to allocate leave the
   set of allocated objects alone *)
Lemma finalise_stopped_info f s o :
  running s = false -> spawns s o = [] ->
  info (finF f s o) = info s /\ running (finF f s o) = false /\ spawns (finF f s o) = spawns s /\
  pend (finF f s o) = pend s.
Proof.
  intros Hr Hs. destruct f; cbn [finalise]; [auto|].
  change (spawns (add_log (LFin o) s) o) with (spawns s o). rewrite Hs. simpl fold_left.
  destruct (owned (add_log (LFin o) s) o); [|auto].
  unfold gc_rem. change (running (add_log (LFin o) s)) with (running s). rewrite Hr. simpl. auto.
Qed.

Lemma no_spawners_spec s x : no_spawners s = true -> In x (ids s) -> fin_count s x = 0 -> spawns s x = [].
Proof.
  unfold no_spawners. rewrite forallb_forall. intros H Hin Hf. specialize (H x Hin).
  destruct (spawns s x); [reflexivity|]. apply fin_started_spec in Hf. congruence.
Qed.

Lemma sweep_loop_stopped k : forall i s,
  running s = false -> (forall x, In x (pids s) -> spawns s x = []) ->
  let s' := sweep_loop true finT k i s in
  info s' = info s /\ running s' = false /\ spawns s' = spawns s.
Proof.
  induction k as [|k IH]; intros i s Hr Hsp; cbn [sweep_loop]; [auto|].
  destruct (nth i (pend s) None) as [o|] eqn:Hn.
  - set (s0 := set_pend (null_pend o (pend s)) s).
    assert (Ho : spawns s0 o = []) by (apply Hsp; eapply nth_in_somes; exact Hn).
    destruct (finalise_stopped_info (fuel_of s0) s0 o Hr Ho) as (Hi & Hr' & Hs' & Hp').
    fold (finT s0 o) in Hi, Hr', Hs', Hp'.
    destruct (IH (S i) (finT s0 o) Hr') as (A1 & A2 & A3).
    + intros x Hx. rewrite Hs'. apply Hsp. unfold pids in Hx. rewrite Hp' in Hx.
      unfold s0 in Hx. simpl pend in Hx. rewrite somes_null, filter_In in Hx. tauto.
    + rewrite A1, A3, Hi, Hs'. auto.
  - apply IH; assumption.
Qed.

(* a sweep while the collector is stopped, when no object that is still to be finalised has an
   allocating destructor, allocates nothing *)
Lemma sweep_stopped order marks s :
  SInv s -> running s = false -> no_spawners s = true ->
  forall x, info s x = None -> info (sweepT order marks s) x = None.
Proof.
  intros S Hr Hns x Hx. unfold sweep. cbn [info set_pend].
  match goal with |- info (sweep_loop true finT ?k 0 ?s1) x = None => destruct (sweep_loop_stopped k 0 s1) as (A1 & _) end.
  - exact Hr.
  - intros y Hy. cbn [spawns set_mitems set_pend set_reg]. unfold pids in Hy. cbn [pend set_mitems set_pend] in Hy.
    rewrite somes_map_Some in Hy. apply filter_In in Hy. destruct Hy as [Hy _].
    destruct (arrange_spec order s (g_reg_nodup _ _ (si_g _ S))) as [_ Hain]. apply Hain in Hy.
    apply (no_spawners_spec s y Hns).
    + apply (si_ids _ S). apply (g_info _ _ (si_g _ S)). left. exact Hy.
    + apply (g_fresh _ _ (si_g _ S)). left. exact Hy.
  - rewrite A1. exact Hx.
Qed.

Lemma GInv_same_core A s s' :
  reg s' = reg s -> pend s' = pend s -> log s' = log s -> info s' = info s -> ids s' = ids s -> spawns s' = spawns s ->
  GInv A s -> GInv A s'.
Proof.
  intros Hr Hp Hl Hi Hd Hs G.
  assert (Hf : forall x, fin_count s' x = fin_count s x) by (intros; unfold fin_count; congruence).
  assert (Hfr : forall x, free_count s' x = free_count s x) by (intros; unfold free_count; congruence).
  constructor; unfold regids, pids; rewrite ?Hr, ?Hp, ?Hd.
  - apply G. - apply G. - apply G.
  - intros x Hx. rewrite Hf. apply (g_fresh _ _ G). exact Hx.
  - intros x Hx. rewrite Hf, Hfr. apply (g_prog _ _ G). exact Hx.
  - intros x Hx. rewrite Hf, Hfr. apply (g_rest _ _ G). exact Hx.
  - intros x Hx. rewrite Hi. apply (g_info _ _ G). exact Hx.
  - intros x Hx. rewrite Hf. rewrite Hi in Hx. apply (g_alloc _ _ G). exact Hx.
  - apply G.
  - intros x. rewrite Hi. apply (g_ids _ _ G).
  - intros x Hx. rewrite Hs. rewrite Hi in Hx. apply (g_spawn _ _ G). exact Hx.
Qed.

(* one event of the repaired machine *)
Lemma step1_ok s e :
  SInv s -> torn s = false ->
  SInv (step1F s e) /\ (RegAll s -> alloc_ok s e = true -> RegAll (step1F s e)).
Proof.
  intros S Ht. pose proof (si_g _ S) as G. pose proof (si_pend _ S) as Hpe.
  destruct e as [k isbox o order marks | b [o|] | k o | order marks | | | order | o cs | q]; cbn [step1].
  - (* ENew *)
    destruct (info s o) as [[k0 b0]|] eqn:Hinfo; [apply SInv_set_bad'; exact S|].
    set (s1 := add_obj o k isbox s).
    pose proof (add_obj_ok s o k isbox S Hinfo) as S1. fold s1 in S1.
    assert (Hfo : fin_count s o = 0) by (apply (si_fin_alloc _ S); exact Hinfo).
    assert (Hno : ~ In o (regids s)).
    { intros Hin. apply (g_info _ _ G o (or_introl Hin)). exact Hinfo. }
    assert (Hinfo1 : forall x, x <> o -> info s1 x = info s x).
    { intros x Hne. unfold s1. simpl. destruct (Nat.eqb_spec x o); [contradiction | reflexivity]. }
    assert (Hinfo1o : info s1 o = Some (k, isbox)) by (unfold s1; simpl; rewrite Nat.eqb_refl; reflexivity).
    assert (R1 : RegAll s -> k = KRaw -> RegAll s1).
    { intros R Hk _ x k' b' Hi Hk' Hf. destruct (Nat.eq_dec x o) as [->|Hne].
      - rewrite Hinfo1o in Hi. congruence.
      - rewrite (Hinfo1 x Hne) in Hi. apply (R Ht x k' b' Hi Hk' Hf). }
    assert (Reg : forall r : bool, (exists bb, info s1 o = Some ((if r then KRoot else KManaged), bb)) ->
      running s = true ->
      let s2 := set_reg ((o, r) :: reg s1) s1 in
      SInv (if mitems s2 <? nitems s2 then sweepT order (o :: marks) s2 else s2) /\
      (RegAll s -> RegAll (if mitems s2 <? nitems s2 then sweepT order (o :: marks) s2 else s2))).
    { intros r Hr Hrun s2.
      assert (S2 : SInv s2) by (apply register_ok; [exact S1 | exact Hno | exact Hfo | exact Hr]).
      assert (R2 : RegAll s -> RegAll s2).
      { intros R _ x k' b' Hi Hk' Hf. destruct (Nat.eq_dec x o) as [->|Hne]; [left; reflexivity|].
        right. assert (Hi' : info s1 x = Some (k', b')) by exact Hi.
        rewrite (Hinfo1 x Hne) in Hi'. apply (R Ht x k' b' Hi' Hk' Hf). }
      destruct (mitems s2 <? nitems s2); [|split; assumption].
      destruct (sweep_ok finT (1 + measure s2) (fin_top_ok _) order (o :: marks) [] s2 (si_g _ S2) (si_pend _ S2) ltac:(lia))
        as (G3 & P3 & E3 & _).
      destruct (SInv_ext _ _ S2 G3 E3) as [S3 R3]. split; [exact S3|]. intros R. apply R3; [apply R2, R | left; exact Hrun]. }
    destruct k.
    + change (running s1) with (running s). destruct (running s) eqn:Hrun; simpl negb; cbv iota.
      2:{ split; [exact S1|]. intros _ Hc. unfold alloc_ok in Hc. rewrite Hrun in Hc. discriminate. }
      destruct (Reg false ltac:(exists isbox; exact Hinfo1o) eq_refl) as [S3 R3]. split; [exact S3 | intros R _; apply R3, R].
    + change (running s1) with (running s). destruct (running s) eqn:Hrun; simpl negb; cbv iota.
      2:{ split; [exact S1|]. intros _ Hc. unfold alloc_ok in Hc. rewrite Hrun in Hc. discriminate. }
      destruct (Reg true ltac:(exists isbox; exact Hinfo1o) eq_refl) as [S3 R3]. split; [exact S3 | intros R _; apply R3, R].
    + split; [exact S1|]. intros R _. apply R1; auto.
  - (* ELink b (Some o) *)
    match goal with |- context [if ?c then _ else _] => destruct c eqn:Hc end; [|apply SInv_set_bad'; exact S].
    apply andb_true_iff in Hc. destruct Hc as [Hc _].
    apply andb_true_iff in Hc. destruct Hc as [Hc Hraw].
    apply andb_true_iff in Hc. destruct Hc as [Hc Hlo].
    apply andb_true_iff in Hc. destruct Hc as [Hlb _].
    destruct (live_spec _ _ Hlb) as [_ Hib]. destruct (live_spec _ _ Hlo) as [_ Hio].
    split; [|intros R _; exact R].
    constructor; try apply S.
    + eapply GInv_same_core; try exact G; reflexivity.
    + intros b' p Hfb Hown. cbn [owned set_owned] in Hown. unfold upd_owned in Hown.
      change (info (set_owned (upd_owned (owned s) b (Some o)) s) p) with (info s p).
      destruct (Nat.eqb_spec b' b) as [->|Hne].
      * inversion Hown; subst p. unfold kind_of in Hraw.
        destruct (info s o) as [[k1 bb]|]; [|congruence]. simpl in Hraw.
        exists k1, bb. split; [reflexivity|]. intros ->. discriminate.
      * apply (si_own _ S b' p Hfb Hown).
    + intros b' Hb'. cbn [owned set_owned]. unfold upd_owned.
      destruct (Nat.eqb_spec b' b) as [->|Hne]; [contradiction | apply (si_own_none _ S); exact Hb'].
  - (* ELink b None *)
    match goal with |- context [if ?c then _ else _] => destruct c eqn:Hc end; [|apply SInv_set_bad'; exact S].
    split; [|intros R _; exact R].
    constructor; try apply S.
    + eapply GInv_same_core; try exact G; reflexivity.
    + intros b' p Hfb Hown. cbn [owned set_owned] in Hown. unfold upd_owned in Hown.
      destruct (Nat.eqb_spec b' b) as [->|Hne]; [discriminate | apply (si_own _ S b' p Hfb Hown)].
    + intros b' Hb'. cbn [owned set_owned]. unfold upd_owned.
      destruct (Nat.eqb_spec b' b) as [->|Hne]; [reflexivity | apply (si_own_none _ S); exact Hb'].
  - (* EDel *)
    destruct (live s o) eqn:Hlive; simpl andb; cbv iota; [|apply SInv_set_bad'; exact S].
    destruct (live_spec _ _ Hlive) as [Hf0 Hinf].
    destruct (kind_of s o) as [k'|] eqn:Hk; [|apply SInv_set_bad'; exact S].
    destruct (kind_eqb k k') eqn:Hkk; [|apply SInv_set_bad'; exact S].
    assert (Hkeq : k = k') by (destruct k, k'; simpl in Hkk; congruence). subst k'.
    assert (Rem : SInv (gc_rem mrule true finT s o) /\ (RegAll s -> RegAll (gc_rem mrule true finT s o))).
    { destruct (running s) eqn:Hrun.
      - destruct (gc_rem_ok finT (1 + measure s) (fin_top_ok _) [] s o G ltac:(lia)) as (G' & E' & _).
        destruct (SInv_ext _ _ S G' E') as [S' R']. split; [exact S'|]. intros R. apply R'; [exact R | left; exact Hrun].
      - unfold gc_rem. rewrite Hrun. simpl. split; [exact S | auto]. }
    destruct k.
    + destruct Rem as [S' R']. split; [exact S' | intros R _; apply R', R].
    + destruct Rem as [S' R']. split; [exact S' | intros R _; apply R', R].
    + assert (Hno : ~ In o (regids s)).
      { intros Hin. unfold regids in Hin. apply in_map_iff in Hin. destruct Hin as [[y r] [Hy Hin]]. simpl in Hy. subst y.
        destruct (si_reginfo _ S o r Hin) as [b' Hb']. unfold kind_of in Hk. rewrite Hb' in Hk. simpl in Hk. destruct r; discriminate. }
      assert (Hnp : ~ In o (pids s)) by (unfold pids; rewrite Hpe; intros []).
      destruct (fin_top_ok (1 + measure s) [] s o G Hno Hnp Hf0 Hinf ltac:(lia)) as (G' & E' & _).
      destruct (SInv_ext _ _ S G' E') as [S' R']. split; [exact S'|]. intros R Hc. apply R'; [exact R|].
      destruct (running s) eqn:Hrun; [left; reflexivity|]. right.
      unfold alloc_ok in Hc. rewrite Hrun in Hc. simpl in Hc.
      destruct (spawns s o) eqn:Hsp; [|discriminate].
      destruct (finalise_stopped_info (fuel_of s) s o Hrun Hsp) as (Hi & _).
      intros x Hx. unfold fin_top. rewrite Hi. exact Hx.
  - (* ECollect *)
    destruct (sweep_ok finT (1 + measure s) (fin_top_ok _) order marks [] s G Hpe ltac:(lia)) as (G3 & P3 & E3 & _).
    destruct (SInv_ext _ _ S G3 E3) as [S3 R3]. split; [exact S3|]. intros R Hc. apply R3; [exact R|].
    destruct (running s) eqn:Hrun; [left; reflexivity|]. right.
    unfold alloc_ok in Hc. rewrite Hrun in Hc. simpl in Hc.
    apply sweep_stopped; assumption.
  - (* EStop *)
    split; [apply (SInv_same_core s); auto | intros R _; apply (RegAll_same_core s); auto].
  - (* EStart *)
    split; [apply (SInv_same_core s); auto | intros R _; apply (RegAll_same_core s); auto].
  - (* ETeardown *)
    destruct (sweep_ok finT (1 + measure s) (fin_top_ok _) order [] [] s G Hpe ltac:(lia)) as (G3 & P3 & E3 & _).
    destruct (SInv_ext _ _ S G3 E3) as [S3 R3].
    split; [|intros _ _ Hc; discriminate].
    constructor.
    + constructor.
      * simpl. constructor.
      * apply G3.
      * intros x Hx. destruct Hx.
      * intros x Hx. destruct Hx as [Hx|Hx]; [destruct Hx|]. apply (g_fresh _ _ G3). right. exact Hx.
      * apply G3.
      * apply G3.
      * intros x Hx. destruct Hx as [Hx|Hx]; [destruct Hx|]. apply (g_info _ _ G3). right. exact Hx.
      * apply G3.
      * apply G3.
      * apply G3.
      * apply G3.
    + exact P3.
    + apply S3.
    + intros x r [].
    + apply S3.
    + apply S3.
  - (* ESpawn *)
    destruct (live s o) eqn:Hlive; [|apply SInv_set_bad'; exact S].
    destruct (live_spec _ _ Hlive) as [_ Hio].
    split; [|intros R _; apply (RegAll_same_core s); auto].
    constructor; try apply S.
    constructor; try apply G.
    intros x Hx. cbn [spawns set_spawns]. destruct (Nat.eqb_spec x o) as [->|Hne]; [contradiction | apply (g_spawn _ _ G); exact Hx].
  - (* EObs *)
    split; [apply (SInv_same_core s); auto | intros R _; apply (RegAll_same_core s); auto].
Qed.

Lemma step_ok s e :
  SInv s -> SInv (stepF s e) /\ (RegAll s -> alloc_ok s e = true -> RegAll (stepF s e)).
Proof.
  intros S. unfold step. destruct (torn s) eqn:Ht.
  - apply SInv_set_bad'. exact S.
  - destruct (step1_ok s e S Ht) as [S1 R1].
    destruct (dangling (step1F s e)).
    + destruct (SInv_set_bad _ S1) as [S2 R2]. split; [exact S2|]. intros R C. apply R2, R1; assumption.
    + split; assumption.
Qed.

Lemma run_snoc h e : runF (h ++ [e]) = stepF (runF h) e.
Proof. unfold run. rewrite fold_left_app. reflexivity. Qed.

Lemma all_from_snoc c h e s :
  all_from mrule true true true nopro c s (h ++ [e]) = all_from mrule true true true nopro c s h && c (fold_left stepF h s) e.
Proof.
  revert s. induction h as [|a h IH]; intros s; simpl.
  - rewrite andb_true_r. reflexivity.
  - rewrite IH. rewrite andb_assoc. reflexivity.
Qed.

Lemma run_inv h : SInv (runF h).
Proof.
  induction h as [|e h IH] using rev_ind.
  - apply SInv_init.
  - rewrite run_snoc. apply step_ok. exact IH.
Qed.

Lemma run_regall h : no_alloc_in_stop_window mrule true true true nopro h = true -> RegAll (runF h).
Proof.
  induction h as [|e h IH] using rev_ind; intros Hc.
  - apply SInv_init.
  - unfold no_alloc_in_stop_window in Hc. rewrite all_from_snoc in Hc. apply andb_true_iff in Hc.
    destruct Hc as [Hc1 Hc2]. rewrite run_snoc. apply step_ok; [apply run_inv | apply IH; exact Hc1 | exact Hc2].
Qed.

Lemma stop_ok_alloc_ok s e : stop_ok s e = true -> alloc_ok s e = true.
Proof.
  unfold stop_ok, alloc_ok. destruct (running s); simpl; auto.
  destruct e as [[| |] ? ? ? ?| ? ? | [| |] o | ? ? | | | ? | ? ? | ?]; auto; try discriminate.
  destruct (owned s o); [discriminate|]. destruct (spawns s o); auto.
Qed.

Lemma all_from_weaken (c1 c2 : st -> ev -> bool) :
  (forall s e, c1 s e = true -> c2 s e = true) ->
  forall h s, all_from mrule true true true nopro c1 s h = true -> all_from mrule true true true nopro c2 s h = true.
Proof.
  intros Hc. induction h as [|e h IH]; intros s H; simpl in *; auto.
  apply andb_true_iff in H. destruct H as [H1 H2]. rewrite (Hc _ _ H1). simpl. apply IH. exact H2.
Qed.

Lemma stop_clean_alloc_clean h :
  no_alloc_or_del_in_stop_window mrule true true true nopro h = true -> no_alloc_in_stop_window mrule true true true nopro h = true.
Proof. apply all_from_weaken. apply stop_ok_alloc_ok. Qed.

(* ------------------------------------------------------------------ the theorems *)
(* T1: whatever the history (any interleaving, any sweep order, any marks, collector running or
   stopped, misuse flagged instead of executed): no object's destructor runs twice, and memory is
   released exactly as often as the destructor ran. *)
Theorem finalised_at_most_once h x :
  fin_count (runF h) x <= 1 /\ free_count (runF h) x = fin_count (runF h) x.
Proof.
  destruct (g_rest _ _ (si_g _ (run_inv h)) x (fun f => f)) as [H1 H2]. split; [exact H2 | exact H1].
Qed.

(* fuel adequacy: the recursion of destructors through owning Boxes always terminates within
   the fuel the machine supplies, and no sweep is left unfinished *)
Theorem fuel_adequate h : oof (runF h) = false /\ pend (runF h) = [].
Proof. split; [apply (si_oof _ (run_inv h)) | apply (si_pend _ (run_inv h))]. Qed.

Lemma log_set_bad s : log (set_bad s) = log s. Proof. reflexivity. Qed.

Lemma done_step_of_step1 s e x : torn s = false -> done (step1F s e) x -> done (stepF s e) x.
Proof.
  intros Ht Hd. unfold step. rewrite Ht. destruct (dangling (step1F s e)); exact Hd.
Qed.

(* T2: an explicit del / del_root (collector running) or del_raw finalises the object, once, now *)
Theorem explicit_delete_finalises h k o :
  no_alloc_in_stop_window mrule true true true nopro h = true ->
  torn (runF h) = false -> live (runF h) o = true -> kind_of (runF h) o = Some k ->
  (k = KRaw \/ running (runF h) = true) ->
  done (runF (h ++ [EDel k o])) o.
Proof.
  intros Hc Ht Hlive Hk Hrun. rewrite run_snoc.
  pose proof (run_inv h) as S. pose proof (run_regall h Hc) as R.
  set (s := runF h) in *. apply done_step_of_step1; [exact Ht|].
  pose proof (si_g _ S) as G. pose proof (si_pend _ S) as Hpe.
  cbn [step1]. rewrite Hlive, Hk. simpl andb.
  assert (Hkk : kind_eqb k k = true) by (destruct k; reflexivity). rewrite Hkk.
  destruct (live_spec _ _ Hlive) as [Hf0 Hinf].
  assert (Hreg : k <> KRaw -> In o (regids s)).
  { intros Hne. unfold kind_of in Hk. destruct (info s o) as [[k' b']|] eqn:Hi; [|discriminate].
    simpl in Hk. inversion Hk; subst k'. apply (R Ht o k b' Hi Hne Hf0). }
  destruct k.
  - destruct Hrun as [Hrun|Hrun]; [discriminate|].
    destruct (gc_rem_ok finT (1 + measure s) (fin_top_ok _) [] s o G ltac:(lia)) as (_ & _ & Hd & _).
    apply Hd; [exact Hrun | left; apply Hreg; discriminate].
  - destruct Hrun as [Hrun|Hrun]; [discriminate|].
    destruct (gc_rem_ok finT (1 + measure s) (fin_top_ok _) [] s o G ltac:(lia)) as (_ & _ & Hd & _).
    apply Hd; [exact Hrun | left; apply Hreg; discriminate].
  - assert (Hno : ~ In o (regids s)).
    { intros Hin. unfold regids in Hin. apply in_map_iff in Hin. destruct Hin as [[y r] [Hy Hin]]. simpl in Hy. subst y.
      destruct (si_reginfo _ S o r Hin) as [b' Hb']. unfold kind_of in Hk. rewrite Hb' in Hk. simpl in Hk. destruct r; discriminate. }
    assert (Hnp : ~ In o (pids s)) by (unfold pids; rewrite Hpe; intros []).
    destruct (fin_top_ok (1 + measure s) [] s o G Hno Hnp Hf0 Hinf ltac:(lia)) as (_ & _ & Hd & _).
    exact Hd.
Qed.

(* T3: teardown (thread exit, Cello_Exit) leaves no managed object behind: each one has been
   finalised exactly once, by a collection, a del, an owning Box, or now *)
Theorem teardown_complete h order x b :
  no_alloc_in_stop_window mrule true true true nopro h = true ->
  torn (runF h) = false -> info (runF h) x = Some (KManaged, b) ->
  done (runF (h ++ [ETeardown order])) x.
Proof.
  intros Hc Ht Hi. rewrite run_snoc.
  pose proof (run_inv h) as S. pose proof (run_regall h Hc) as R.
  set (s := runF h) in *. apply done_step_of_step1; [exact Ht|].
  pose proof (si_g _ S) as G. pose proof (si_pend _ S) as Hpe.
  cbn [step1].
  destruct (sweep_ok finT (1 + measure s) (fin_top_ok _) order [] [] s G Hpe ltac:(lia)) as (G3 & P3 & E3 & Hdead & _).
  assert (Hd : done (sweepT order [] s) x).
  { destruct (Nat.eq_dec (fin_count s x) 0) as [Hz|Hnz].
    - apply Hdead.
      + apply (R Ht x KManaged b Hi); [discriminate | exact Hz].
      + apply is_root_false; [exact S | exists b; exact Hi].
      + intros [].
    - apply (e_done _ _ E3). destruct (g_rest _ _ G x (fun f => f)) as [H1 H2]. unfold done. lia. }
  exact Hd.
Qed.

(* ------------------------------------------------------------------ refutations (pinned code, stop window) *)











(* ------------------------------------------------------------------ non-vacuity *)


(* ------------------------------------------------------------------ the same, for switches equal to true
   (Properties_C06.v instantiates them with the values read off the C text; stated this way a
   reverted repair fails at once on `false = true` instead of sending the kernel into a long
   conversion) *)
Lemma finalised_at_most_once_sw r w d : r = true -> w = true -> d = true -> forall h x,
  fin_count (run mrule r w d nopro h) x <= 1 /\ free_count (run mrule r w d nopro h) x = fin_count (run mrule r w d nopro h) x.
Proof. intros -> -> ->. exact finalised_at_most_once. Qed.

Lemma fuel_adequate_sw r w d : r = true -> w = true -> d = true -> forall h,
  oof (run mrule r w d nopro h) = false /\ pend (run mrule r w d nopro h) = [].
Proof. intros -> -> ->. exact fuel_adequate. Qed.

Lemma explicit_delete_finalises_sw r w d : r = true -> w = true -> d = true -> forall h k o,
  no_alloc_in_stop_window mrule r w d nopro h = true ->
  torn (run mrule r w d nopro h) = false -> live (run mrule r w d nopro h) o = true -> kind_of (run mrule r w d nopro h) o = Some k ->
  (k = KRaw \/ running (run mrule r w d nopro h) = true) ->
  fin_count (run mrule r w d nopro (h ++ [EDel k o])) o = 1 /\ free_count (run mrule r w d nopro (h ++ [EDel k o])) o = 1.
Proof. intros -> -> ->. exact explicit_delete_finalises. Qed.

Lemma teardown_complete_sw r w d : r = true -> w = true -> d = true -> forall h order x b,
  no_alloc_in_stop_window mrule r w d nopro h = true ->
  torn (run mrule r w d nopro h) = false -> info (run mrule r w d nopro h) x = Some (KManaged, b) ->
  fin_count (run mrule r w d nopro (h ++ [ETeardown order])) x = 1 /\ free_count (run mrule r w d nopro (h ++ [ETeardown order])) x = 1.
Proof. intros -> -> ->. exact teardown_complete. Qed.

(* ------------------------------------------------------------------ through an owning Box *)
(* the chain of ownership that starts at o, through registered objects *)
Inductive Reach (s : st) : id -> id -> Prop :=
| reach_refl o : Reach s o o
| reach_step o p x : owned s o = Some p -> In p (regids s) -> Reach s p x -> Reach s o x.

Lemma clo_reach s s' :
  GInv [] s -> Clo s s' -> running s = true ->
  forall y x, Reach s y x -> fin_count s y = 0 -> done s' y -> done s' x.
Proof.
  intros G C Hrun y x HR. induction HR as [o | o p x Hown Hin HR IH]; intros H0 Hd; [exact Hd|].
  apply IH.
  - apply (g_fresh _ _ G). left. exact Hin.
  - apply (C Hrun o p H0); [destruct Hd; lia | exact Hown | left; exact Hin].
Qed.

(* T4: a delete runs down the whole chain of owning Boxes: with the collector running, del /
   del_root / del_raw of o finalises, exactly once and at once, every object reachable from o
   through ownership of registered objects *)
Theorem delete_reaches_owned h k o x :
  no_alloc_in_stop_window mrule true true true nopro h = true ->
  torn (runF h) = false -> live (runF h) o = true -> kind_of (runF h) o = Some k ->
  running (runF h) = true -> Reach (runF h) o x ->
  done (runF (h ++ [EDel k o])) x.
Proof.
  intros Hc Ht Hlive Hk Hrun HR.
  pose proof (explicit_delete_finalises h k o Hc Ht Hlive Hk (or_intror Hrun)) as Hdo.
  rewrite run_snoc in *.
  pose proof (run_inv h) as S. pose proof (run_regall h Hc) as R.
  set (s := runF h) in *.
  pose proof (si_g _ S) as G. pose proof (si_pend _ S) as Hpe.
  destruct (live_spec _ _ Hlive) as [Hf0 Hinf].
  assert (Hstep : forall z, done (step1F s (EDel k o)) z -> done (stepF s (EDel k o)) z).
  { intros z. apply done_step_of_step1. exact Ht. }
  assert (Hdo1 : done (step1F s (EDel k o)) o).
  { unfold step in Hdo. rewrite Ht in Hdo. destruct (dangling (step1F s (EDel k o))); exact Hdo. }
  apply Hstep.
  assert (C : Clo s (step1F s (EDel k o))).
  { cbn [step1]. rewrite Hlive, Hk. simpl andb.
    assert (Hkk : kind_eqb k k = true) by (destruct k; reflexivity). rewrite Hkk.
    destruct k.
    - destruct (gc_rem_ok finT (1 + measure s) (fin_top_ok _) [] s o G ltac:(lia)) as (_ & _ & _ & C & _). exact C.
    - destruct (gc_rem_ok finT (1 + measure s) (fin_top_ok _) [] s o G ltac:(lia)) as (_ & _ & _ & C & _). exact C.
    - assert (Hno : ~ In o (regids s)).
      { intros Hin. unfold regids in Hin. apply in_map_iff in Hin. destruct Hin as [[y r] [Hy Hin]]. simpl in Hy. subst y.
        destruct (si_reginfo _ S o r Hin) as [b' Hb']. unfold kind_of in Hk. rewrite Hb' in Hk. simpl in Hk. destruct r; discriminate. }
      assert (Hnp : ~ In o (pids s)) by (unfold pids; rewrite Hpe; intros []).
      destruct (fin_top_ok (1 + measure s) [] s o G Hno Hnp Hf0 Hinf ltac:(lia)) as (_ & _ & _ & C & _). exact C. }
  exact (clo_reach s _ G C Hrun o x HR Hf0 Hdo1).
Qed.

Lemma delete_reaches_owned_sw r w d : r = true -> w = true -> d = true -> forall h k o x,
  no_alloc_in_stop_window mrule r w d nopro h = true ->
  torn (run mrule r w d nopro h) = false -> live (run mrule r w d nopro h) o = true -> kind_of (run mrule r w d nopro h) o = Some k ->
  running (run mrule r w d nopro h) = true -> Reach (run mrule r w d nopro h) o x ->
  fin_count (run mrule r w d nopro (h ++ [EDel k o])) x = 1 /\ free_count (run mrule r w d nopro (h ++ [EDel k o])) x = 1.
Proof. intros -> -> ->. exact delete_reaches_owned. Qed.


(* T5: a collection that reclaims a Box (unmarked, not a root) finalises, exactly once, everything
   the Box reaches through ownership — whatever the order in which the sweep meets owner and owned,
   and whether or not the owned objects were marked *)
Theorem collect_reaches_owned h order marks b x :
  torn (runF h) = false -> running (runF h) = true ->
  In b (regids (runF h)) -> is_root (runF h) b = false -> ~ In b marks ->
  Reach (runF h) b x ->
  done (runF (h ++ [ECollect order marks])) x.
Proof.
  intros Ht Hrun Hin Hroot Hm HR. rewrite run_snoc.
  pose proof (run_inv h) as S. set (s := runF h) in *.
  pose proof (si_g _ S) as G. pose proof (si_pend _ S) as Hpe.
  apply done_step_of_step1; [exact Ht|]. cbn [step1].
  destruct (sweep_ok finT (1 + measure s) (fin_top_ok _) order marks [] s G Hpe ltac:(lia)) as (_ & _ & _ & Hdead & C & _).
  apply (clo_reach s _ G C Hrun b x HR).
  - apply (g_fresh _ _ G). left. exact Hin.
  - apply Hdead; assumption.
Qed.

Lemma collect_reaches_owned_sw r w d : r = true -> w = true -> d = true -> forall h order marks b x,
  torn (run mrule r w d nopro h) = false -> running (run mrule r w d nopro h) = true ->
  In b (map fst (reg (run mrule r w d nopro h))) -> is_root (run mrule r w d nopro h) b = false -> ~ In b marks ->
  Reach (run mrule r w d nopro h) b x ->
  fin_count (run mrule r w d nopro (h ++ [ECollect order marks])) x = 1 /\ free_count (run mrule r w d nopro (h ++ [ECollect order marks])) x = 1.
Proof. intros -> -> ->. exact collect_reaches_owned. Qed.

(* ------------------------------------------------------------------ the machine refines the specification *)
(* the specification knows the objects the program allocates; the machine may know more (those
   allocated by destructors) *)
Record Sim (p : sp) (s : st) : Prop := {
  sm_info : forall x, s_info p x <> None -> info s x = s_info p x;
  sm_owned : forall x, s_info p x <> None -> fin_count s x = 0 -> s_owned p x = owned s x;
  sm_must : forall x, In x (s_must p) -> done s x;
  sm_torn : s_torn p = torn s
}.

Lemma sp_run_snoc h e : sp_run (h ++ [e]) = sp_step (sp_run h) e.
Proof. unfold sp_run. rewrite fold_left_app. reflexivity. Qed.

Lemma s_in_spec l o : s_in l o = true <-> In o l.
Proof. unfold s_in. apply existsb_eqb_in. Qed.

Lemma done_fin1 s x : done s x -> fin_count s x = 1.
Proof. intros [H _]; exact H. Qed.

Lemma s_live_info p x : s_live p x = true -> s_info p x <> None.
Proof. unfold s_live. destruct (s_info p x); [discriminate | discriminate]. Qed.

Lemma live_of_fin0 s x : info s x <> None -> fin_count s x = 0 -> live s x = true.
Proof.
  intros Hi Hf. unfold live. destruct (info s x); [|congruence]. apply negb_true_iff.
  unfold fin_started. destruct (existsb (lev_eqb (LFin x)) (log s)) eqn:E; [|reflexivity].
  exfalso. apply existsb_exists in E. destruct E as [e [Hin He]].
  unfold fin_count, count in Hf. assert (In e (filter (lev_eqb (LFin x)) (log s))) by (apply filter_In; auto).
  destruct (filter (lev_eqb (LFin x)) (log s)); [contradiction | discriminate].
Qed.

Lemma freed_of_done s x : done s x -> freed s x = true.
Proof.
  intros [_ Hf]. unfold freed. destruct (existsb (lev_eqb (LFree x)) (log s)) eqn:E; [reflexivity|].
  apply count_zero in E. unfold free_count in Hf. lia.
Qed.

(* everything the specification's chain adds lies on the model's chain of ownership *)
Lemma chain_reach p s :
  Sim p s -> SInv s -> RegAll s -> torn s = false -> dangling s = false ->
  forall f acc o x,
    (s_live p o = true -> fin_count s o = 0) ->
    In x (chain f (s_owned p) acc (s_live p) o) -> In x acc \/ Reach s o x.
Proof.
  intros M S R Ht Hdang. induction f as [|f IH]; intros acc o x Ho Hx; simpl in Hx; [left; exact Hx|].
  destruct (s_in acc o || negb (s_live p o)) eqn:Hstop; [left; exact Hx|].
  apply orb_false_iff in Hstop. destruct Hstop as [_ Hal]. apply negb_false_iff in Hal.
  pose proof (Ho Hal) as Hfo.
  pose proof (s_live_info _ _ Hal) as Hso.
  rewrite (sm_owned _ _ M o Hso Hfo) in Hx.
  destruct (owned s o) as [q|] eqn:Hown.
  2:{ destruct Hx as [<-|Hx]; [right; apply reach_refl | left; exact Hx]. }
  destruct (s_live p q) eqn:Hlq.
  - (* q alive for the specification: it is model-live (else o would dangle), hence registered *)
    assert (Hiq : info s q <> None).
    { destruct (si_own _ S o q Hfo Hown) as (k1 & bb & Hi & _). congruence. }
    assert (Hio : info s o <> None) by (rewrite (sm_info _ _ M o Hso); exact Hso).
    assert (Hfq : fin_count s q = 0).
    { destruct (Nat.eq_dec (fin_count s q) 0) as [Hz|Hnz]; [exact Hz|]. exfalso.
      destruct (g_rest _ _ (si_g _ S) q (fun f => f)) as [Ha Hb].
      assert (Hd : done s q) by (unfold done; lia).
      assert (Hdg : dangling s = true).
      { unfold dangling. apply existsb_exists. exists o. split; [apply (si_ids _ S); exact Hio|].
        rewrite (live_of_fin0 _ _ Hio Hfo), Hown. simpl. apply freed_of_done. exact Hd. }
      congruence. }
    assert (Hreg : In q (regids s)).
    { destruct (si_own _ S o q Hfo Hown) as (k1 & bb & Hi & Hk1). apply (R Ht q k1 bb Hi Hk1 Hfq). }
    destruct (IH (o :: acc) q x (fun _ => Hfq) Hx) as [[<-|Hin]|HR].
    + right. apply reach_refl.
    + left. exact Hin.
    + right. eapply reach_step; eassumption.
  - (* the chain stops at q *)
    assert (Hstopq : chain f (s_owned p) (o :: acc) (s_live p) q = o :: acc).
    { destruct f; simpl; [reflexivity|]. rewrite Hlq. simpl. rewrite orb_true_r. reflexivity. }
    rewrite Hstopq in Hx. destruct Hx as [<-|Hx]; [right; apply reach_refl | left; exact Hx].
Qed.

Lemma del_ext s k o :
  SInv s -> live s o = true -> kind_of s o = Some k ->
  let s' := match k with
            | KRaw => finT s o
            | _ => gc_rem mrule true finT s o
            end in
  GInv [] s' /\ Ext s s'.
Proof.
  intros S Hlive Hk. pose proof (si_g _ S) as G. pose proof (si_pend _ S) as Hpe.
  destruct (live_spec _ _ Hlive) as [Hf0 Hinf].
  destruct k.
  - destruct (gc_rem_ok finT (1 + measure s) (fin_top_ok _) [] s o G ltac:(lia)) as (G' & E' & _). split; assumption.
  - destruct (gc_rem_ok finT (1 + measure s) (fin_top_ok _) [] s o G ltac:(lia)) as (G' & E' & _). split; assumption.
  - assert (Hno : ~ In o (regids s)).
    { intros Hin. unfold regids in Hin. apply in_map_iff in Hin. destruct Hin as [[y r] [Hy Hin]]. simpl in Hy. subst y.
      destruct (si_reginfo _ S o r Hin) as [b' Hb']. unfold kind_of in Hk. rewrite Hb' in Hk. simpl in Hk. destruct r; discriminate. }
    assert (Hnp : ~ In o (pids s)) by (unfold pids; rewrite Hpe; intros []).
    destruct (fin_top_ok (1 + measure s) [] s o G Hno Hnp Hf0 Hinf ltac:(lia)) as (G' & E' & _). split; assumption.
Qed.

(* the flag `bad` is never taken back (structural: no invariant needed) *)
Definition BM (fin : st -> id -> st) : Prop := forall s o, bad s = true -> bad (fin s o) = true.

Lemma bad_gc_rem r fin s p : BM fin -> bad s = true -> bad (gc_rem mrule r fin s p) = true.
Proof.
  intros Hf Hb. unfold gc_rem. destruct (negb (running s)); [exact Hb|].
  destruct (in_pend s p).
  - destruct r; cbn [bad set_mitems]; [apply Hf; exact Hb|].
    match goal with |- context [if ?c then _ else _] => destruct c end; [apply Hf|]; exact Hb.
  - destruct (in_reg s p); cbn [bad set_mitems]; [apply Hf|]; exact Hb.
Qed.

Lemma bad_sweep_loop w fin k : BM fin -> forall i s, bad s = true -> bad (sweep_loop w fin k i s) = true.
Proof.
  intros Hf. induction k as [|k IH]; intros i s Hb; cbn [sweep_loop]; [exact Hb|].
  apply IH. destruct (nth i (pend s) None); [|exact Hb].
  apply Hf. destruct w; exact Hb.
Qed.

Lemma bad_sweep w fin order marks s : BM fin -> bad s = true -> bad (sweep mrule w fin order marks s) = true.
Proof. intros Hf Hb. unfold sweep. cbn [bad set_pend]. apply bad_sweep_loop; [exact Hf | exact Hb]. Qed.

Lemma bad_alloc_child w d fin s c : BM fin -> bad s = true -> bad (alloc_child mrule w d fin s c) = true.
Proof.
  intros Hf Hb. unfold alloc_child. destruct (info s c); [reflexivity|].
  match goal with |- context [if ?c then _ else _] => destruct c end; [exact Hb|].
  match goal with |- context [if ?c then _ else _] => destruct c end; [exact Hb|].
  match goal with |- context [if ?c then _ else _] => destruct c end; [|exact Hb].
  apply bad_sweep; [exact Hf | exact Hb].
Qed.

Lemma bad_children w d fin cs : BM fin -> forall s, bad s = true -> bad (fold_left (alloc_child mrule w d fin) cs s) = true.
Proof.
  intros Hf. induction cs as [|c cs IH]; intros s Hb; simpl; [exact Hb|].
  apply IH. apply bad_alloc_child; assumption.
Qed.

Lemma bad_finalise r w d f : BM (finalise mrule r w d nopro f).
Proof.
  induction f as [|f IH]; intros s o Hb; cbn [finalise]; [exact Hb|].
  cbn [bad add_log].
  assert (H1 : bad (fold_left (alloc_child mrule w d (finalise mrule r w d nopro f)) (spawns (add_log (LFin o) s) o) (add_log (LFin o) s)) = true)
    by (apply bad_children; [exact IH | exact Hb]).
  match goal with |- bad (match ?x with Some _ => _ | None => _ end) = true => destruct x end; [|exact H1].
  cbn [bad set_owned]. apply bad_gc_rem; [exact IH | exact H1].
Qed.

Lemma bad_fin_top r w d : BM (fin_top mrule r w d nopro).
Proof. intros s o Hb. unfold fin_top. apply bad_finalise. exact Hb. Qed.

Lemma step_bad_mono s e : bad s = true -> bad (stepF s e) = true.
Proof.
  intros Hb. unfold step. destruct (torn s); [reflexivity|].
  destruct (dangling (step1F s e)); [reflexivity|].
  pose proof (bad_fin_top true true true) as HT.
  destruct e as [k isbox o order marks | b [o|] | k o | order marks | | | order | o cs | q]; cbn [step1].
  - destruct (info s o); [reflexivity|].
    destruct k; try exact Hb.
    + match goal with |- context [if ?c then _ else _] => destruct c end; [exact Hb|].
      match goal with |- context [if ?c then _ else _] => destruct c end; [apply bad_sweep; [exact HT|]|]; exact Hb.
    + match goal with |- context [if ?c then _ else _] => destruct c end; [exact Hb|].
      match goal with |- context [if ?c then _ else _] => destruct c end; [apply bad_sweep; [exact HT|]|]; exact Hb.
  - match goal with |- context [if ?c then _ else _] => destruct c end; [exact Hb | reflexivity].
  - match goal with |- context [if ?c then _ else _] => destruct c end; [exact Hb | reflexivity].
  - match goal with |- context [if ?c then _ else _] => destruct c end; [|reflexivity].
    destruct k; [apply bad_gc_rem | apply bad_gc_rem | apply HT]; try exact HT; exact Hb.
  - apply bad_sweep; [exact HT | exact Hb].
  - exact Hb.
  - exact Hb.
  - cbn [bad set_torn set_reg]. apply bad_sweep; [exact HT | exact Hb].
  - destruct (live s o); [exact Hb | reflexivity].
  - exact Hb.
Qed.

Lemma run_bad_prefix h e : bad (runF (h ++ [e])) = false -> bad (runF h) = false.
Proof.
  intros H. rewrite run_snoc in H. destruct (bad (runF h)) eqn:E; [|reflexivity].
  rewrite (step_bad_mono _ e E) in H. discriminate.
Qed.

Lemma step_good s e :
  bad (stepF s e) = false ->
  torn s = false /\ stepF s e = step1F s e /\ dangling (step1F s e) = false.
Proof.
  unfold step. destruct (torn s); [discriminate|].
  destruct (dangling (step1F s e)); [discriminate|]. auto.
Qed.

(* what an allocation event leaves of the old state *)
Lemma new_facts s k isbox o order marks :
  SInv s -> info s o = None ->
  let s1 := add_obj o k isbox s in
  let s' := step1F s (ENew k isbox o order marks) in
  (forall x, info s1 x <> None -> info s' x = info s1 x) /\ torn s' = torn s /\
  (forall y, fin_count s' y = 0 -> owned s' y = owned s y) /\ (forall x, done s x -> done s' x).
Proof.
  intros S Hinfo s1 s'. unfold s'. cbn [step1]. rewrite Hinfo. fold s1.
  pose proof (add_obj_ok s o k isbox S Hinfo) as S1. fold s1 in S1.
  assert (Hfo : fin_count s o = 0) by (apply (si_fin_alloc _ S); exact Hinfo).
  assert (Hno : ~ In o (regids s)).
  { intros Hin. apply (g_info _ _ (si_g _ S) o (or_introl Hin)). exact Hinfo. }
  assert (Hio : info s1 o = Some (k, isbox)) by (unfold s1; simpl; rewrite Nat.eqb_refl; reflexivity).
  assert (Triv : forall t, info t = info s1 -> torn t = torn s -> owned t = owned s -> log t = log s ->
            (forall x, info s1 x <> None -> info t x = info s1 x) /\ torn t = torn s /\
            (forall y, fin_count t y = 0 -> owned t y = owned s y) /\ (forall x, done s x -> done t x)).
  { intros t H1 H3 H4 H5. repeat split; auto.
    - intros x _. rewrite H1. reflexivity.
    - intros y _. rewrite H4. reflexivity.
    - destruct H as [Ha _]. unfold fin_count in *. rewrite H5. exact Ha.
    - destruct H as [_ Hb]. unfold free_count in *. rewrite H5. exact Hb. }
  assert (Sweep : forall r : bool, (exists bb, info s1 o = Some ((if r then KRoot else KManaged), bb)) ->
     let s2 := set_reg ((o, r) :: reg s1) s1 in
     let t := sweepT order (o :: marks) s2 in
     (forall x, info s1 x <> None -> info t x = info s1 x) /\ torn t = torn s /\
     (forall y, fin_count t y = 0 -> owned t y = owned s y) /\ (forall x, done s x -> done t x)).
  { intros r Hr s2 t.
    assert (S2 : SInv s2) by (apply register_ok; [exact S1 | exact Hno | exact Hfo | exact Hr]).
    destruct (sweep_ok finT (1 + measure s2) (fin_top_ok _) order (o :: marks) [] s2 (si_g _ S2) (si_pend _ S2) ltac:(lia)) as (_ & _ & E & _).
    fold t in E. repeat split.
    - intros x Hx. apply (e_info _ _ E x Hx).
    - rewrite (e_torn _ _ E). reflexivity.
    - intros y Hy. rewrite (e_owned _ _ E y Hy). reflexivity.
    - apply (e_done _ _ E). exact H.
    - apply (e_done _ _ E). exact H. }
  destruct k.
  - change (running s1) with (running s). destruct (running s); simpl negb; cbv iota; [|apply Triv; reflexivity].
    match goal with |- context [if ?c then _ else _] => destruct c end.
    + apply (Sweep false). exists isbox. exact Hio.
    + apply Triv; reflexivity.
  - change (running s1) with (running s). destruct (running s); simpl negb; cbv iota; [|apply Triv; reflexivity].
    match goal with |- context [if ?c then _ else _] => destruct c end.
    + apply (Sweep true). exists isbox. exact Hio.
    + apply Triv; reflexivity.
  - apply Triv; reflexivity.
Qed.

Lemma sp_bad_mono p e : s_bad p = true -> s_bad (sp_step p e) = true.
Proof.
  intros Hb. unfold sp_step. destruct (s_torn p); [reflexivity|].
  destruct e as [k isbox o order marks | b [o|] | k o | order marks | | | order | o cs | q]; cbn [s_bad]; try exact Hb.
  - destruct (s_info p o); [reflexivity | exact Hb].
  - match goal with |- context [if ?c then _ else _] => destruct c end; [exact Hb | reflexivity].
  - match goal with |- context [if ?c then _ else _] => destruct c end; [exact Hb | reflexivity].
  - match goal with |- context [if ?c then _ else _] => destruct c end; [exact Hb | reflexivity].
Qed.

Lemma dangling_init : dangling init = false.
Proof. reflexivity. Qed.

Lemma Sim_init : Sim sp_init init.
Proof. constructor; try reflexivity. intros x []. Qed.

(* the specification never gives a pointer to an identity it has not allocated *)
Lemma sp_owned_unalloc h o : s_info (sp_run h) o = None -> s_owned (sp_run h) o <> None -> False.
Proof.
  induction h as [|e h IH] using rev_ind; [intros _ H; apply H; reflexivity|].
  rewrite sp_run_snoc. set (p := sp_run h) in *. unfold sp_step.
  destruct (s_torn p); [exact IH|].
  destruct e as [k isbox o' order marks | b [o'|] | k o' | order marks | | | order | o' cs | q]; cbn [s_info s_owned]; try exact IH.
  - destruct (s_info p o') eqn:Hi; [exact IH|]. cbn [s_info s_owned].
    destruct (Nat.eqb_spec o o') as [->|Hne]; [discriminate | exact IH].
  - match goal with |- context [if ?c then _ else _] => destruct c eqn:Hc end; [|exact IH].
    cbn [s_info s_owned]. unfold upd_owned. destruct (Nat.eqb_spec o b) as [->|Hne]; [|exact IH].
    intros Hn _. apply andb_true_iff in Hc. destruct Hc as [Hc _]. apply andb_true_iff in Hc. destruct Hc as [Hc _].
    apply andb_true_iff in Hc. destruct Hc as [Hc _]. apply s_live_info in Hc. contradiction.
  - match goal with |- context [if ?c then _ else _] => destruct c eqn:Hc end; [|exact IH].
    cbn [s_info s_owned]. unfold upd_owned. destruct (Nat.eqb_spec o b) as [->|Hne]; [|exact IH].
    intros _ H. apply H. reflexivity.
  - match goal with |- context [if ?c then _ else _] => destruct c end; exact IH.
Qed.

(* T7: the machine refines the specification (the oracle of the check): along every history in which
   neither the machine nor the specification flags a misuse and whose stop windows are clean, every
   object the specification demands to be finalised by now has been finalised exactly once *)
Theorem refines_spec_sim h :
  bad (runF h) = false -> s_bad (sp_run h) = false -> no_alloc_or_del_in_stop_window mrule true true true nopro h = true ->
  Sim (sp_run h) (runF h) /\ dangling (runF h) = false.
Proof.
  induction h as [|e h IH] using rev_ind; intros Hbad Hsb Hclean.
  - split; [apply Sim_init | apply dangling_init].
  - pose proof (run_bad_prefix h e Hbad) as Hbad0.
    assert (Hsb0 : s_bad (sp_run h) = false).
    { rewrite sp_run_snoc in Hsb. destruct (s_bad (sp_run h)) eqn:E; [|reflexivity].
      rewrite (sp_bad_mono _ e E) in Hsb. discriminate. }
    unfold no_alloc_or_del_in_stop_window in Hclean. rewrite all_from_snoc in Hclean.
    apply andb_true_iff in Hclean. destruct Hclean as [Hc0 Hce].
    destruct (IH Hbad0 Hsb0 Hc0) as [M Hdg].
    pose proof (stop_clean_alloc_clean h Hc0) as Hca.
    pose proof (run_inv h) as S. pose proof (run_regall h Hca) as R.
    assert (Hrs : runF (h ++ [e]) = stepF (runF h) e) by apply run_snoc.
    fold (runF h) in Hce.
    set (s := runF h) in *. set (p := sp_run h) in *.
    set (s' := runF (h ++ [e])) in *.
    rewrite sp_run_snoc in Hsb |- *. fold p in Hsb |- *.
    rewrite Hrs in Hbad. destruct (step_good s e Hbad) as (Ht & Heq & Hnd).
    assert (Hs' : s' = step1F s e) by (rewrite Hrs; exact Heq).
    assert (Hbad1 : bad (step1F s e) = false) by (rewrite <- Heq; exact Hbad).
    split; [|rewrite Hs'; exact Hnd].
    pose proof (si_g _ S) as G. pose proof (si_pend _ S) as Hpe.
    assert (Hpt : s_torn p = false) by (rewrite (sm_torn _ _ M); exact Ht).
    unfold sp_step in Hsb |- *. rewrite Hpt in Hsb |- *.
    destruct e as [k isbox o order marks | b [o|] | k o | order marks | | | order | o cs | q].
    + (* ENew *)
      destruct (s_info p o) as [ib|] eqn:Hsi; [discriminate|].
      destruct (info s o) as [[k0 b0]|] eqn:Hinfo.
      { exfalso. cbn [step1] in Hbad1. rewrite Hinfo in Hbad1. discriminate. }
      destruct (new_facts s k isbox o order marks S Hinfo) as (Fi & Ft & Fo & Fdone).
      rewrite <- Hs' in Fi, Ft, Fo, Fdone.
      assert (Hold : forall x, s_info p x <> None -> fin_count s' x = 0 -> fin_count s x = 0).
      { intros x _ Hx. destruct (Nat.eq_dec (fin_count s x) 0) as [Hz|Hnz]; [exact Hz|].
        exfalso. destruct (g_rest _ _ G x (fun f => f)) as [Ha Hb].
        assert (Hd : done s x) by (unfold done; lia). destruct (Fdone x Hd). lia. }
      constructor; cbn [s_info s_owned s_must s_torn].
      * intros x Hx.
        assert (Hi1 : info (add_obj o k isbox s) x = (if x =? o then Some (k, isbox) else s_info p x)).
        { simpl. revert Hx. destruct (Nat.eqb_spec x o) as [Hxo|Hne]; intros Hx; [reflexivity | apply (sm_info _ _ M); exact Hx]. }
        rewrite Fi; [exact Hi1 | rewrite Hi1; exact Hx].
      * intros x Hx Hf. rewrite (Fo x Hf). revert Hx.
        destruct (Nat.eqb_spec x o) as [->|Hne]; intros Hx.
        -- (* the newborn owns nothing on either side *)
           rewrite (si_own_none _ S o Hinfo).
           destruct (s_owned p o) eqn:Hso; [|reflexivity].
           (* the specification never gave an unallocated identity a pointer *)
           exfalso. apply (sp_owned_unalloc h o Hsi). fold p. rewrite Hso. discriminate.
        -- simpl in Hx. destruct (Nat.eqb_spec x o); [contradiction|].
           apply (sm_owned _ _ M x Hx). apply Hold; assumption.
      * intros x Hx. apply Fdone. apply (sm_must _ _ M). exact Hx.
      * rewrite Ft. symmetry; exact Ht.
    + (* ELink b (Some o) *)
      cbn [step1] in Hs', Hbad1.
      destruct (live s b && is_box s b && live s o && negb (match kind_of s o with Some KRaw => true | _ => false end)
                && negb (has_owner s o b)) eqn:Hc; [|discriminate].
      match type of Hsb with s_bad (if ?c then _ else _) = false => destruct c eqn:Hsc end; [|discriminate].
      rewrite Hs'. constructor; cbn [s_info s_owned s_must s_torn info owned torn set_owned].
      * apply (sm_info _ _ M).
      * intros x Hx Hf. unfold upd_owned. destruct (x =? b); [reflexivity | apply (sm_owned _ _ M); assumption].
      * intros x Hx. apply (sm_must _ _ M). exact Hx.
      * symmetry; exact Ht.
    + (* ELink b None *)
      cbn [step1] in Hs', Hbad1.
      destruct (live s b && is_box s b) eqn:Hc; [|discriminate].
      match type of Hsb with s_bad (if ?c then _ else _) = false => destruct c eqn:Hsc end; [|discriminate].
      rewrite Hs'. constructor; cbn [s_info s_owned s_must s_torn info owned torn set_owned].
      * apply (sm_info _ _ M).
      * intros x Hx Hf. unfold upd_owned. destruct (x =? b); [reflexivity | apply (sm_owned _ _ M); assumption].
      * intros x Hx. apply (sm_must _ _ M). exact Hx.
      * symmetry; exact Ht.
    + (* EDel *)
      cbn [step1] in Hs', Hbad1.
      destruct (live s o) eqn:Hlive; simpl andb in Hs', Hbad1; cbv iota in Hs', Hbad1; [|discriminate].
      destruct (kind_of s o) as [k'|] eqn:Hk; [|discriminate].
      destruct (kind_eqb k k') eqn:Hkk; [|discriminate].
      assert (k = k') by (destruct k, k'; simpl in Hkk; congruence). subst k'.
      match type of Hsb with s_bad (if ?c then _ else _) = false => destruct c eqn:Hsc end; [|discriminate].
      apply andb_true_iff in Hsc. destruct Hsc as [Hsl _].
      destruct (del_ext s k o S Hlive Hk) as (G' & E').
      assert (Hs'' : s' = match k with
                          | KRaw => finT s o
                          | _ => gc_rem mrule true finT s o
                          end) by (rewrite Hs'; destruct k; reflexivity).
      rewrite <- Hs'' in E', G'.
      destruct (live_spec _ _ Hlive) as [Hf0 Hinf].
      constructor; cbn [s_info s_owned s_must s_torn].
      * intros x Hx. rewrite (e_info _ _ E' x); [apply (sm_info _ _ M); exact Hx | rewrite (sm_info _ _ M x Hx); exact Hx].
      * intros x Hx Hf. rewrite (e_owned _ _ E' x Hf). apply (sm_owned _ _ M x Hx).
        pose proof (e_fin _ _ E' x). lia.
      * intros x Hx.
        destruct (chain_reach p s M S R Ht Hdg _ _ o x (fun _ => Hf0) Hx) as [Hin|HR].
        -- apply (e_done _ _ E'). apply (sm_must _ _ M). exact Hin.
        -- destruct (running s) eqn:Hrun.
           ++ exact (delete_reaches_owned h k o x Hca Ht Hlive Hk Hrun HR).
           ++ unfold stop_ok in Hce. rewrite Hrun in Hce. simpl in Hce.
              destruct k; try discriminate.
              destruct (owned s o) eqn:Hown; [discriminate|].
              inversion HR; subst; [|congruence].
              exact (explicit_delete_finalises h KRaw x Hca Ht Hlive Hk (or_introl eq_refl)).
      * rewrite (e_torn _ _ E'). symmetry; exact Ht.
    + (* ECollect *)
      destruct (sweep_ok finT (1 + measure s) (fin_top_ok _) order marks [] s G Hpe ltac:(lia)) as (_ & _ & E' & _).
      cbn [step1] in Hs'. rewrite <- Hs' in E'.
      constructor.
      * intros x Hx. rewrite (e_info _ _ E' x); [apply (sm_info _ _ M); exact Hx | rewrite (sm_info _ _ M x Hx); exact Hx].
      * intros x Hx Hf. rewrite (e_owned _ _ E' x Hf). apply (sm_owned _ _ M x Hx).
        pose proof (e_fin _ _ E' x). lia.
      * intros x Hx. apply (e_done _ _ E'). apply (sm_must _ _ M). exact Hx.
      * rewrite (e_torn _ _ E'). apply (sm_torn _ _ M).
    + (* EStop *)
      rewrite Hs'. constructor; apply M.
    + (* EStart *)
      rewrite Hs'. constructor; apply M.
    + (* ETeardown *)
      destruct (sweep_ok finT (1 + measure s) (fin_top_ok _) order [] [] s G Hpe ltac:(lia)) as (_ & _ & E' & _).
      cbn [step1] in Hs'.
      constructor; cbn [s_info s_owned s_must s_torn]; rewrite Hs'; cbn [info owned torn set_torn set_reg].
      * intros x Hx. rewrite (e_info _ _ E' x); [apply (sm_info _ _ M); exact Hx | rewrite (sm_info _ _ M x Hx); exact Hx].
      * intros x Hx Hf. change (fin_count (sweepT order [] s) x = 0) in Hf.
        rewrite (e_owned _ _ E' x Hf). apply (sm_owned _ _ M x Hx).
        pose proof (e_fin _ _ E' x). lia.
      * intros x Hx. rewrite <- Hs'. apply in_app_iff in Hx. destruct Hx as [Hx|Hx].
        -- apply filter_In in Hx. destruct Hx as [_ Hx].
           destruct (s_info p x) as [[[] bb]|] eqn:Hi; try discriminate.
           assert (Hix : info s x = Some (KManaged, bb)) by (rewrite (sm_info _ _ M x); [exact Hi | congruence]).
           exact (teardown_complete h order x bb Hca Ht Hix).
        -- assert (Hd : done (sweepT order [] s) x) by (apply (e_done _ _ E'); apply (sm_must _ _ M); exact Hx).
           rewrite Hs'. exact Hd.
      * reflexivity.
    + (* ESpawn: the specification ignores it *)
      cbn [step1] in Hs', Hbad1. destruct (live s o); [|discriminate].
      rewrite Hs'. constructor; apply M.
    + (* EObs *)
      rewrite Hs'. constructor; apply M.
Qed.

Theorem refines_spec h x :
  bad (runF h) = false -> s_bad (sp_run h) = false -> no_alloc_or_del_in_stop_window mrule true true true nopro h = true ->
  In x (s_must (sp_run h)) -> fin_count (runF h) x = 1 /\ free_count (runF h) x = 1.
Proof. intros Hb Hs Hc Hx. destruct (refines_spec_sim h Hb Hs Hc) as [M _]. exact (sm_must _ _ M x Hx). Qed.

Lemma refines_spec_sw r w d : r = true -> w = true -> d = true -> forall h x,
  bad (run mrule r w d nopro h) = false -> s_bad (sp_run h) = false -> no_alloc_or_del_in_stop_window mrule r w d nopro h = true ->
  In x (s_must (sp_run h)) -> fin_count (run mrule r w d nopro h) x = 1 /\ free_count (run mrule r w d nopro h) x = 1.
Proof. intros -> -> ->. exact refines_spec. Qed.


(* ------------------------------------------------------------------ fuel adequacy of the specification's chain *)
Lemma filter_length_lt2 {A} (f g : A -> bool) l o :
  (forall x, g x = true -> f x = true) -> In o l -> f o = true -> g o = false ->
  length (filter g l) < length (filter f l).
Proof.
  intros Hgf. induction l as [|a l IH]; simpl; [tauto|].
  assert (Hle : length (filter g l) <= length (filter f l)).
  { clear IH. induction l as [|b l IHl]; simpl; [lia|].
    destruct (g b) eqn:Eg; [rewrite (Hgf b Eg); simpl; lia | destruct (f b); simpl; lia]. }
  intros [->|Hin] Hf Hg.
  - rewrite Hf, Hg. simpl. lia.
  - specialize (IH Hin Hf Hg).
    destruct (g a) eqn:Eg; [rewrite (Hgf a Eg); simpl; lia | destruct (f a); simpl; lia].
Qed.

Definition chain_rem (ids : list id) (alive : id -> bool) (acc : list id) : nat :=
  length (filter (fun x => alive x && negb (s_in acc x)) (nodup Nat.eq_dec ids)).

Lemma chain_stable ids own alive :
  (forall x, alive x = true -> In x ids) ->
  forall f acc o, chain_rem ids alive acc < f ->
    chain (S f) own acc alive o = chain f own acc alive o.
Proof.
  intros Hal. induction f as [|f IH]; intros acc o Hlt; [lia|].
  cbn [chain]. destruct (s_in acc o || negb (alive o)) eqn:Hstop; [reflexivity|].
  destruct (own o) as [p|]; [|reflexivity].
  apply orb_false_iff in Hstop. destruct Hstop as [Hnin Hao]. apply negb_false_iff in Hao.
  change (chain (S f) own (o :: acc) alive p = chain f own (o :: acc) alive p).
  apply IH.
  assert (chain_rem ids alive (o :: acc) < chain_rem ids alive acc).
  { unfold chain_rem. apply filter_length_lt2 with (o := o).
    - intros x Hx. apply andb_true_iff in Hx. destruct Hx as [Ha Hn]. rewrite Ha. simpl.
      apply negb_true_iff in Hn. apply negb_true_iff. unfold s_in in *. simpl in Hn.
      apply orb_false_iff in Hn. tauto.
    - apply nodup_In. apply Hal. exact Hao.
    - rewrite Hao, Hnin. reflexivity.
    - rewrite Hao. simpl. unfold s_in. simpl. rewrite Nat.eqb_refl. reflexivity. }
  lia.
Qed.

Lemma chain_rem_le ids alive acc : chain_rem ids alive acc <= length ids.
Proof.
  unfold chain_rem. etransitivity; [apply filter_length_le|].
  apply NoDup_incl_length; [apply NoDup_nodup|]. intros x Hx. apply nodup_In in Hx. exact Hx.
Qed.

Lemma sp_ids_info h x : s_info (sp_run h) x <> None -> In x (s_ids (sp_run h)).
Proof.
  induction h as [|e h IH] using rev_ind; [intros H; exfalso; apply H; reflexivity|].
  rewrite sp_run_snoc. set (p := sp_run h) in *. unfold sp_step.
  destruct (s_torn p); [exact IH|].
  destruct e as [k isbox o order marks | b [o|] | k o | order marks | | | order | o cs | q]; cbn [s_info s_ids]; try exact IH.
  - destruct (s_info p o) eqn:Hi; [exact IH|]. cbn [s_info s_ids].
    destruct (Nat.eqb_spec x o) as [->|Hne]; [intros _; left; reflexivity | intros H; right; apply IH; exact H].
  - match goal with |- context [if ?c then _ else _] => destruct c end; exact IH.
  - match goal with |- context [if ?c then _ else _] => destruct c end; exact IH.
  - match goal with |- context [if ?c then _ else _] => destruct c end; exact IH.
Qed.

(* the fuel the specification gives its chain is never the reason it stops: any larger fuel
   yields the same set *)
Theorem spec_chain_fuel_adequate h o k :
  let p := sp_run h in
  chain (S (length (s_ids p)) + k) (s_owned p) (s_must p) (s_live p) o =
  chain (S (length (s_ids p))) (s_owned p) (s_must p) (s_live p) o.
Proof.
  intros p. induction k as [|k IH]; [rewrite Nat.add_0_r; reflexivity|].
  rewrite <- IH. replace (S (length (s_ids p)) + S k) with (S (S (length (s_ids p)) + k)) by lia.
  apply chain_stable with (ids := s_ids p).
  - intros x Hx. apply sp_ids_info. unfold s_live in Hx. fold p. destruct (s_info p x); [discriminate | discriminate].
  - pose proof (chain_rem_le (s_ids p) (s_live p) (s_must p)). lia.
Qed.



(* ------------------------------------------------------------------ program exit *)
Lemma torn_after_teardown s order : torn s = false -> torn (stepF s (ETeardown order)) = true.
Proof.
  intros Ht. unfold step. rewrite Ht. cbn [step1].
  match goal with |- torn (if ?c then _ else _) = true => destruct c end; reflexivity.
Qed.

(* with the wrapper that registers Cello_Exit with atexit (and does not call it a second time), and
   Exception_Error leaving only through exit(): EVERY termination route runs the teardown, once —
   every managed object allocated before has been finalised exactly once when the process is gone *)
Theorem terminate_complete r h order x b :
  no_alloc_in_stop_window mrule true true true nopro h = true ->
  torn (runF h) = false -> info (runF h) x = Some (KManaged, b) ->
  done (terminate mrule true true true nopro true false true r order (runF h)) x /\
  torn (terminate mrule true true true nopro true false true r order (runF h)) = true.
Proof.
  intros Hc Ht Hi. unfold terminate. rewrite andb_false_r. simpl andb. cbv iota.
  split; [|apply torn_after_teardown; exact Ht].
  rewrite <- run_snoc. exact (teardown_complete h order x b Hc Ht Hi).
Qed.

Theorem terminate_at_most_once ra ca ee r h order x :
  fin_count (terminate mrule true true true nopro ra ca ee r order (runF h)) x <= 1 /\
  free_count (terminate mrule true true true nopro ra ca ee r order (runF h)) x = fin_count (terminate mrule true true true nopro ra ca ee r order (runF h)) x.
Proof.
  unfold terminate.
  assert (H1 : forall h', fin_count (runF h') x <= 1 /\ free_count (runF h') x = fin_count (runF h') x)
    by (intros; apply finalised_at_most_once).
  destruct (via_error r && negb ee); [apply H1|].
  destruct (ca && returns r); destruct ra; rewrite <- ?run_snoc; apply H1.
Qed.

Lemma terminate_complete_sw r1 w d ra ca ee : r1 = true -> w = true -> d = true -> ra = true -> ca = false -> ee = true ->
  forall r h order x b,
  no_alloc_in_stop_window mrule r1 w d nopro h = true ->
  torn (run mrule r1 w d nopro h) = false -> info (run mrule r1 w d nopro h) x = Some (KManaged, b) ->
  (fin_count (terminate mrule r1 w d nopro ra ca ee r order (run mrule r1 w d nopro h)) x = 1 /\
   free_count (terminate mrule r1 w d nopro ra ca ee r order (run mrule r1 w d nopro h)) x = 1) /\
  torn (terminate mrule r1 w d nopro ra ca ee r order (run mrule r1 w d nopro h)) = true.
Proof. intros -> -> -> -> -> ->. exact terminate_complete. Qed.

End Rule.

(* ------------------------------------------------------------------ refutations and non-vacuity
   (computed with the threshold rule of the pinned tree, Lifecycle.mitems_rule) *)
Notation runF := (run mitems_rule true true true nopro).

(* D18: the pinned GC_Rem_Ptr only clears the pending entry.  Box 1 owns object 2, both become
   unreachable, the sweep meets the Box first: object 2 is never finalised, not even at teardown. *)
Definition d18_history : list ev :=
  [ENew KManaged true 1 [] []; ENew KManaged false 2 [] [1]; ELink 1 (Some 2); ECollect [1; 2] []; ETeardown []].

Theorem lifecycle_d18_refuted_pinned :
  let s := run mitems_rule false false true nopro d18_history in
  no_alloc_or_del_in_stop_window mitems_rule false false true nopro d18_history = true /\ bad s = false /\ torn s = true /\
  info s 2 = Some (KManaged, false) /\ fin_count s 2 = 0 /\ free_count s 2 = 0.
Proof. vm_compute. repeat split; reflexivity. Qed.

(* the same history on the repaired machine *)
Example d18_history_repaired :
  let s := runF d18_history in bad s = false /\ fin_count s 1 = 1 /\ fin_count s 2 = 1 /\ free_count s 2 = 1.
Proof. vm_compute. repeat split; reflexivity. Qed.

(* only GC_Rem_Ptr repaired, the sweep still calls the destructor before clearing the entry: a Box
   that owns itself is finalised twice *)
Definition selfbox_history : list ev := [ENew KManaged true 1 [] []; ELink 1 (Some 1); ECollect [] []].

Theorem lifecycle_sweep_order_refuted_half_repair :
  let s := run mitems_rule true false true nopro selfbox_history in bad s = false /\ fin_count s 1 = 2 /\ free_count s 1 = 2.
Proof. vm_compute. repeat split; reflexivity. Qed.

Example selfbox_history_repaired :
  let s := runF selfbox_history in bad s = false /\ fin_count s 1 = 1 /\ free_count s 1 = 1.
Proof. vm_compute. repeat split; reflexivity. Qed.

(* D22: the pinned GC_Set starts a collection from inside the running sweep when an allocation
   made by a destructor crosses the threshold; the nested sweep takes over the one pending list
   and leaves it empty.  Objects 1 and 3 each allocate two objects in their destructor; at
   teardown the sweep meets 3 first: object 1 is never finalised. *)
Definition d22_history : list ev :=
  [ENew KManaged false 1 [] []; ESpawn 1 [10; 11]; ENew KManaged false 3 [] [1]; ESpawn 3 [12; 13]; ETeardown [3; 1]].

Theorem lifecycle_d22_refuted_pinned :
  let s := run mitems_rule true true false nopro d22_history in
  no_alloc_or_del_in_stop_window mitems_rule true true false nopro d22_history = true /\ bad s = false /\ torn s = true /\
  info s 1 = Some (KManaged, false) /\ fin_count s 1 = 0 /\ free_count s 1 = 0.
Proof. vm_compute. repeat split; reflexivity. Qed.

Example d22_history_repaired :
  let s := runF d22_history in bad s = false /\ fin_count s 1 = 1 /\ fin_count s 3 = 1 /\ free_count s 1 = 1.
Proof. vm_compute. repeat split; reflexivity. Qed.

(* F2 (open finding): an object allocated in a stop window is never registered; del is a no-op
   while stopped; the object is left behind at teardown.  The hypothesis of T2/T3 is needed. *)
Definition stop_window_history : list ev :=
  [EStop; ENew KManaged false 1 [] []; EDel KManaged 1; EStart; ETeardown []].

Theorem lifecycle_stop_window_refuted :
  let s := runF stop_window_history in
  no_alloc_in_stop_window mitems_rule true true true nopro stop_window_history = false /\ bad s = false /\ torn s = true /\
  info s 1 = Some (KManaged, false) /\ fin_count s 1 = 0.
Proof. vm_compute. repeat split; reflexivity. Qed.

(* a history with Boxes, a root, a raw object, a clean stop window and collections satisfies the
   hypotheses of T2 and T3 *)
Definition sample_history : list ev :=
  [ENew KManaged true 1 [] []; ENew KManaged false 2 [] [1]; ELink 1 (Some 2);
   ENew KRoot true 3 [] [1; 2]; ENew KManaged false 4 [] [1; 2; 3]; ELink 3 (Some 4);
   EStop; ENew KRaw false 5 [] []; EDel KRaw 5; EStart;
   ENew KManaged true 7 [] [1; 2; 3; 4]; ENew KManaged false 8 [] [1; 2; 3; 4; 7]; ELink 7 (Some 8);
   ECollect [4; 7; 3; 8; 2; 1] [1; 2; 4]; ENew KManaged false 6 [] [1; 2; 4]].

Example sample_history_ok :
  let s := runF sample_history in
  no_alloc_or_del_in_stop_window mitems_rule true true true nopro sample_history = true /\
  no_alloc_in_stop_window mitems_rule true true true nopro sample_history = true /\
  torn s = false /\ bad s = false /\ running s = true /\
  live s 1 = true /\ kind_of s 1 = Some KManaged /\ info s 6 = Some (KManaged, false) /\
  live s 3 = true /\ kind_of s 3 = Some KRoot /\ fin_count s 7 = 1 /\ fin_count s 8 = 1.
Proof. vm_compute. repeat split; reflexivity. Qed.

(* non-vacuity: in sample_history the Box 1 owns object 2, both registered *)
Example sample_reach : Reach (runF sample_history) 1 2 /\ Reach (runF sample_history) 3 4.
Proof.
  split.
  - apply (reach_step _ 1 2 2); [reflexivity | vm_compute; tauto | apply reach_refl].
  - apply (reach_step _ 3 4 4); [reflexivity | vm_compute; tauto | apply reach_refl].
Qed.

Example sample_spec_must : In 5 (s_must (sp_run sample_history)) /\ s_bad (sp_run sample_history) = false.
Proof. vm_compute. split; [left; reflexivity | reflexivity]. Qed.

(* non-vacuity with allocating destructors: object 1 allocates 10 and 11 when it is deleted; both are
   managed objects of the machine afterwards (registered), so teardown_complete speaks about them *)
Definition alloc_history : list ev :=
  [ENew KManaged false 1 [] []; ESpawn 1 [10; 11]; ENew KManaged true 2 [] [1]; ELink 2 (Some 1);
   EObs [([], [2]); ([], [2])]; EDel KManaged 2].

Example alloc_history_ok :
  let s := runF alloc_history in
  no_alloc_or_del_in_stop_window mitems_rule true true true nopro alloc_history = true /\ bad s = false /\ torn s = false /\
  fin_count s 1 = 1 /\ fin_count s 2 = 1 /\
  info s 10 = Some (KManaged, false) /\ info s 11 = Some (KManaged, false) /\
  fin_count (runF (alloc_history ++ [ETeardown []])) 11 = 1.
Proof. vm_compute. repeat split; reflexivity. Qed.

(* a wrapper that only tears down after Cello_Main has returned: a program that ends through exit()
   below main (or an uncaught throw) leaves its managed objects behind *)
Definition exit_history : list ev := [ENew KManaged false 1 [] []; ENew KManaged true 2 [] [1]; ELink 2 (Some 1)].

Theorem terminate_refuted_without_atexit :
  let s := terminate mitems_rule true true true nopro false true true RExit [] (runF exit_history) in
  no_alloc_in_stop_window mitems_rule true true true nopro exit_history = true /\ bad s = false /\ torn s = false /\
  info s 1 = Some (KManaged, false) /\ fin_count s 1 = 0 /\ fin_count s 2 = 0 /\
  fin_count (terminate mitems_rule true true true nopro false true true RThrow [] (runF exit_history)) 1 = 0 /\
  fin_count (terminate mitems_rule true true true nopro false true true RReturn [] (runF exit_history)) 1 = 1.
Proof. vm_compute. repeat split; reflexivity. Qed.

(* an Exception_Error with a path that avoids exit() (_Exit, abort, ...): an uncaught exception —
   e.g. a signal turned into an exception, or any throw after one — leaves the objects behind;
   the routes that do not go through Exception_Error are fine *)
Theorem terminate_refuted_error_without_exit :
  let s := terminate mitems_rule true true true nopro true false false RSigUncaught [] (runF exit_history) in
  bad s = false /\ torn s = false /\ info s 1 = Some (KManaged, false) /\ fin_count s 1 = 0 /\ fin_count s 2 = 0 /\
  fin_count (terminate mitems_rule true true true nopro true false false RSigCaughtThrow [] (runF exit_history)) 1 = 0 /\
  fin_count (terminate mitems_rule true true true nopro true false false RSigCaughtReturn [] (runF exit_history)) 1 = 1 /\
  fin_count (terminate mitems_rule true true true nopro true false false RSigCaughtExit [] (runF exit_history)) 1 = 1.
Proof. vm_compute. repeat split; reflexivity. Qed.

Example exit_history_ok :
  no_alloc_in_stop_window mitems_rule true true true nopro exit_history = true /\ torn (runF exit_history) = false /\
  info (runF exit_history) 1 = Some (KManaged, false) /\
  fin_count (terminate mitems_rule true true true nopro true false true RExit [] (runF exit_history)) 2 = 1 /\
  fin_count (terminate mitems_rule true true true nopro true false true RSigUncaught [] (runF exit_history)) 2 = 1.
Proof. vm_compute. repeat split; reflexivity. Qed.

(* ------------------------------------------------------------------------------------------------
   Destructors that open a stop/start window of their own (wave 3, seeded C06-r7-2).
   GC_Stop / GC_Start only touch gc->running (switch `keep` = true): the window is invisible to the
   machine — in particular a window opened inside a running sweep leaves that sweep's pending list
   alone — so the machine with windows IS the machine without, and every theorem carries over. *)
Lemma window_keep_id s : window true s = s.
Proof. unfold window, gc_start, gc_stop, set_running. destruct s as [a b run c e f g h i j k l m]; simpl. destruct run; reflexivity. Qed.

Lemma dwin_keep_id win s o : dwin win true s o = s.
Proof. unfold dwin. destruct (win o); [apply window_keep_id|reflexivity]. Qed.

(* the statement asked for: whatever the state of the sweep in progress, its pending list, the
   registry, the running flag and the ledger are what they were when the window closes *)
Theorem window_in_sweep_leaves_pending s :
  in_sweep s = true ->
  pend (window true s) = pend s /\ reg (window true s) = reg s /\
  running (window true s) = running s /\ log (window true s) = log s.
Proof. intros _. rewrite window_keep_id. repeat split. Qed.

(* a GC_Start that drops the pending list it finds: the list of the calling sweep is gone *)
Lemma window_drop_empties s : running s = true -> pend (window false s) = [].
Proof. intros H. unfold window. rewrite H. reflexivity. Qed.

Section ProExt.
  Variable mrule : nat -> nat.
  Variables r w d : bool.
  Variable pro : st -> id -> st.
  Hypothesis pro_id : forall s o, pro s o = s.

  Definition feq (f g : st -> id -> st) := forall s o, f s o = g s o.

  Lemma gc_rem_ext f g : feq f g -> forall s p, gc_rem mrule r f s p = gc_rem mrule r g s p.
  Proof.
    intros H s p. unfold gc_rem. destruct (negb (running s)); [reflexivity|].
    destruct (in_pend s p).
    - destruct r; [rewrite H; reflexivity|]. destruct (in_reg _ p); [rewrite H|]; reflexivity.
    - destruct (in_reg s p); [rewrite H|]; reflexivity.
  Qed.

  Lemma sweep_loop_ext f g : feq f g -> forall k i s, sweep_loop w f k i s = sweep_loop w g k i s.
  Proof.
    intros H k. induction k as [|k IH]; intros i s; simpl; [reflexivity|].
    destruct (nth i (pend s) None); [rewrite H|]; apply IH.
  Qed.

  Lemma sweep_ext f g : feq f g -> forall order marks s, sweep mrule w f order marks s = sweep mrule w g order marks s.
  Proof. intros H order marks s. unfold sweep. rewrite (sweep_loop_ext f g H). reflexivity. Qed.

  Lemma alloc_child_ext f g : feq f g -> forall s c, alloc_child mrule w d f s c = alloc_child mrule w d g s c.
  Proof.
    intros H s c. unfold alloc_child. destruct (info s c); [reflexivity|].
    destruct (negb (running _)); [reflexivity|].
    destruct (d && in_sweep _); [reflexivity|].
    destruct (mitems _ <? nitems _); [apply sweep_ext; exact H|reflexivity].
  Qed.

  Lemma children_ext f g : feq f g -> forall l s,
    fold_left (alloc_child mrule w d f) l s = fold_left (alloc_child mrule w d g) l s.
  Proof.
    intros H l. induction l as [|c l IH]; intros s; simpl; [reflexivity|].
    rewrite (alloc_child_ext f g H). apply IH.
  Qed.

  Lemma finalise_ext : forall f, feq (finalise mrule r w d pro f) (finalise mrule r w d nopro f).
  Proof.
    induction f as [|f IH]; intros s o; cbn [finalise]; [reflexivity|].
    rewrite pro_id. rewrite (children_ext _ _ IH).
    destruct (owned _ o); [rewrite (gc_rem_ext _ _ IH)|]; reflexivity.
  Qed.

  Lemma fin_top_ext : feq (fin_top mrule r w d pro) (fin_top mrule r w d nopro).
  Proof. intros s o. unfold fin_top. apply finalise_ext. Qed.

  Lemma step1_ext s e : step1 mrule r w d pro s e = step1 mrule r w d nopro s e.
  Proof.
    destruct e; simpl; try reflexivity.
    - destruct (info s o); [reflexivity|]. destruct k; try reflexivity;
        (destruct (negb (running _)); [reflexivity|]; destruct (mitems _ <? nitems _); [apply sweep_ext, fin_top_ext|reflexivity]).
    - destruct (_ && _); [|reflexivity]. destruct k; [apply gc_rem_ext, fin_top_ext..|apply fin_top_ext].
    - apply sweep_ext, fin_top_ext.
    - rewrite (sweep_ext _ _ fin_top_ext). reflexivity.
  Qed.

  Lemma step_ext s e : step mrule r w d pro s e = step mrule r w d nopro s e.
  Proof. unfold step. rewrite step1_ext. reflexivity. Qed.

  Lemma run_from_ext h : forall s, fold_left (step mrule r w d pro) h s = fold_left (step mrule r w d nopro) h s.
  Proof. induction h as [|e h IH]; intros s; simpl; [reflexivity|]. rewrite step_ext. apply IH. Qed.

  Lemma run_ext h : run mrule r w d pro h = run mrule r w d nopro h.
  Proof. unfold run. apply run_from_ext. Qed.

  Lemma terminate_ext ra ca ee rt order s :
    terminate mrule r w d pro ra ca ee rt order s = terminate mrule r w d nopro ra ca ee rt order s.
  Proof. unfold terminate. rewrite !step_ext. destruct (ca && returns rt); rewrite ?step_ext; reflexivity. Qed.

  Lemma all_from_ext c h : forall s, all_from mrule r w d pro c s h = all_from mrule r w d nopro c s h.
  Proof. induction h as [|e h IH]; intros s; simpl; [reflexivity|]. rewrite step_ext, IH. reflexivity. Qed.
End ProExt.
