"""C20 — File streams round-trip data and refuse use when closed."""
import os, re, json
import vlib

WRAPPED = ['fopen', 'fclose', 'fread', 'fwrite', 'fseek', 'ftell', 'fflush', 'feof', 'vfprintf', 'vfscanf', '__isoc99_vfscanf']
WRAP = ['-Wl,' + ','.join('--wrap=' + f for f in WRAPPED)]
BUFSIZ = 8192
MODES_R = ['r', 'rb']
MODES_W = ['w', 'wb', 'a', 'ab', 'r+', 'rb+', 'r+b', 'w+', 'wb+', 'w+b', 'a+', 'ab+', 'a+b']
MAXBYTES = 60000          # per case; the harness' scan buffer holds 70000
WORDS = ['a', 'ab', 'hello', 'Dan', 'Chess', 'x1', 'zzzzzzzzzzzz', 'q-9', 'w_w', '0x1f']


def have_dev_full():
    """/dev/full: opens for writing, the flush of fclose fails with ENOSPC (used for the failing-fclose cases)"""
    try:
        f = open('/dev/full', 'wb')
    except OSError:
        return False
    try:
        f.write(b'x'); f.close()
    except OSError:
        return True
    return False


HAVE_FULL = have_dev_full()


def readable(m): return m[0] == 'r' or '+' in m
def writable(m): return m[0] in 'wa' or '+' in m


class Mirror:
    """What the generator remembers while composing a case (only to stay inside the contract of
    stdio: no path open twice with a writer, /dev/full used for small writes only)."""

    def __init__(self):
        self.obj = {0: None, 1: None, 2: 'c', 3: 'c'}      # None dead, 'c' closed, (path, mode)
        self.stack = []
        self.exists = {0: False, 1: False, 2: False}
        self.length = {0: 0, 1: 0, 2: 0}                    # upper bound of the file length
        self.bytes = 0
        self.last = {}                                      # per open object: None | 'in' | 'out'

    def sep(self, rng, i, want, ops):
        """insert what the C standard requires between input and output on one stream"""
        cur = self.last.get(i)
        if cur and cur != want:
            if cur == 'out' and rng.random() < .5: ops.append('f%d' % i)
            else: ops.append(rng.choice(['s%d,0,1' % i, 's%d,0,0' % i, 's%d,0,2' % i]))
        self.last[i] = want

    def live(self): return [i for i in range(4) if self.obj[i] is not None]
    def open_(self): return [i for i in range(4) if isinstance(self.obj[i], tuple)]
    def closed(self): return [i for i in range(4) if self.obj[i] == 'c']

    def users(self, p, but=None):
        return [self.obj[i] for i in self.open_() if self.obj[i][0] == p and i != but]

    def pick_open(self, rng, i):
        """(path, mode) for an open on object i; respects the sharing rule; may fail on purpose."""
        r = rng.random()
        if r < .05:
            return 3, rng.choice(MODES_R + MODES_W)           # missing directory: fopen fails
        if r < .08:
            return rng.randrange(3), rng.choice(['z', 'k', 'R', 'x+'])       # invalid mode string
        for _ in range(20):
            p = rng.randrange(3)
            m = rng.choice(MODES_R) if (self.exists[p] and rng.random() < .45) else rng.choice(MODES_W + MODES_R[:1])
            us = self.users(p, but=i)
            if not us or (not writable(m) and all(not writable(u[1]) for u in us)):
                return p, m
        return 3, 'r'

    def did_open(self, i, p, m):
        # a failing close inside reopen cannot happen for paths 0..2
        if p == 3 or m not in MODES_R + MODES_W or (m[0] == 'r' and not self.exists[p]):
            self.obj[i] = 'c' if self.obj[i] is not None else None
            return False
        if m[0] == 'w': self.length[p] = 0
        self.exists[p] = True
        self.obj[i] = (p, m)
        self.last[i] = None
        return True


def gen_case(rng, maxops, style=None):
    style = style or rng.choice(['life', 'life', 'bin', 'bin', 'chunks', 'chunks', 'records', 'format', 'format', 'text', 'mixed', 'closed', 'big'])
    if style == 'chunks':
        return gen_chunks(rng)
    if style == 'full':
        return gen_full(rng)
    if style == 'records':
        return gen_records(rng)
    if style == 'format':
        return gen_format(rng)
    m = Mirror()
    ops = []
    nops = rng.randrange(3, maxops)
    sizes_small = [0, 1, 2, 3, 5, 8, 13, 16, 17, 40]
    sizes_big = [BUFSIZ - 1, BUFSIZ, BUFSIZ + 1, 4095, 4096, 4097, 2 * BUFSIZ, 5 * BUFSIZ, 1000, 12345]

    def size():
        if style == 'big' and rng.random() < .5 or rng.random() < .04:
            return rng.choice(sizes_big)
        return rng.choice(sizes_small)

    while len(ops) < nops:
        r = rng.random()
        live, opn, cl = m.live(), m.open_(), m.closed()
        # ---- life-cycle operations
        wl = {'life': .45, 'closed': .45, 'bin': .2, 'text': .2, 'mixed': .25, 'big': .15}[style]
        if r < wl or not live:
            k = rng.random()
            dead = [i for i in (0, 1) if m.obj[i] is None]
            if dead and k < .25:
                i = rng.choice(dead)
                if rng.random() < .35:
                    ops.append('N%d' % i); m.obj[i] = 'c'
                else:
                    p, mo = m.pick_open(rng, i)
                    ops.append('O%d,%d,%s' % (i, p, mo))
                    m.obj[i] = 'c'
                    if not m.did_open(i, p, mo): m.obj[i] = None
            elif live and k < .55:
                i = rng.choice(live)
                p, mo = m.pick_open(rng, i)
                ops.append('o%d,%d,%s' % (i, p, mo)); m.did_open(i, p, mo)
            elif live and k < .75:
                i = rng.choice(opn) if opn and rng.random() < .7 else rng.choice(live)
                ops.append('c%d' % i); m.obj[i] = 'c'
            elif live and k < .85:
                c = [i for i in (0, 1) if m.obj[i] is not None and i not in m.stack]
                if c:
                    i = rng.choice(c); ops.append('d%d' % i); m.obj[i] = None
            elif live and k < .93 and len(m.stack) < 4:
                i = rng.choice(live); ops.append('w%d' % i); m.stack.append(i)
            elif m.stack:
                i = m.stack.pop(); ops.append('x'); m.obj[i] = 'c'
            continue
        # ---- an operation on a closed File (must raise IOError and touch nothing)
        if cl and r < wl + (.35 if style == 'closed' else .06):
            i = rng.choice(cl)
            ops.append(rng.choice(['r%d,%d' % (i, size()), 'W%d,%d,%d' % (i, rng.choice([1, 4, 0]), 7), 's%d,0,0' % i, 't%d' % i,
                                   'e%d' % i, 'f%d' % i, 'p%d,5,ab' % i, 'q%d' % i, 'c%d' % i, 'P%d,s,300,1' % i, 'P%d,d,256,3' % i]))
            continue
        if not opn:
            continue
        i = rng.choice(opn)
        p, mo = m.obj[i]
        k = rng.random()
        textual = style == 'text' or (style == 'mixed' and p == 2)
        if k < .30:                                      # write / print
            m.sep(rng, i, 'out', ops)
            if rng.random() < .08 and m.bytes < MAXBYTES - 20000 and p != 4:
                t, n = long_print(rng, i, 6000)
                ops.append(t); m.bytes += n
                if writable(mo): m.length[p] += n
            elif textual:
                ops.append('p%d,%d,%s' % (i, rng.choice([0, 1, -1, 7, 42, -300, 2 ** 31, -2 ** 63, 2 ** 63 - 1, rng.randrange(-10 ** 6, 10 ** 6)]),
                                          rng.choice(WORDS)))
                if writable(mo): m.length[p] += 40
            else:
                n = size()
                if m.bytes + n > MAXBYTES: n = 3
                m.bytes += n
                ops.append('W%d,%d,%d' % (i, n, rng.choice([0, 1, 2, 3, rng.randrange(1, 60000)])))
                if writable(mo): m.length[p] += n
        elif k < .55:                                    # read / scan
            m.sep(rng, i, 'in', ops)
            if textual: ops.append('q%d' % i)
            else:
                n = size()
                if rng.random() < .2 and m.length[p]: n = m.length[p]      # exactly (at most) the whole file
                ops.append('r%d,%d' % (i, n))
        elif k < .78:                                    # seek: all origins, inside the file mostly
            L = m.length[p]
            o = rng.choice([0, 0, 1, 2, 2])
            if o == 0: off = rng.choice([0, 0, rng.randrange(0, L + 1), L, L + rng.randrange(0, 5), -1])
            elif o == 1: off = rng.choice([0, 1, -1, -rng.randrange(0, L + 1), rng.randrange(0, 9)])
            else: off = rng.choice([0, 0, -rng.randrange(0, L + 1), -L, -L - 1, 2])
            if rng.random() < .03: o = 7
            if textual and off > 0 and o != 1: off = 0
            ops.append('s%d,%d,%d' % (i, off, o))
        elif k < .86: ops.append('t%d' % i)
        elif k < .93: ops.append('e%d' % i)
        else: ops.append('f%d' % i)
    return style + '|' + ' '.join(ops)


def chunking(rng, total):
    out = []
    while total > 0:
        n = min(total, rng.choice([1, 1, 2, 3, 7, 64, 1000, 4096, BUFSIZ - 1, BUFSIZ, BUFSIZ + 1, total]))
        out.append(n); total -= n
    if rng.random() < .3: out.insert(rng.randrange(len(out) + 1), 0)
    return out


def gen_chunks(rng):
    """The round trip of the property text: data written in one chunking is read back in another,
    after reopening or after seeking back, through any kind of object."""
    i = rng.randrange(4)
    p = rng.randrange(3)
    total = rng.choice([0, 1, 2, 100, BUFSIZ - 1, BUFSIZ, BUFSIZ + 1, 2 * BUFSIZ + 3, 5 * BUFSIZ, rng.randrange(1, 30000)])
    ops = []
    wm = rng.choice(['w', 'wb', 'w+', 'a', 'a+'])
    if i < 2: ops.append('O%d,%d,%s' % (i, p, wm))
    else: ops.append('o%d,%d,%s' % (i, p, wm))
    inw = rng.random() < .3
    if inw: ops.insert(0 if i >= 2 else 1, 'w%d' % i)
    if i >= 2 and inw: pass
    seed0 = rng.randrange(0, 50000)
    for k, n in enumerate(chunking(rng, total)):
        ops.append('W%d,%d,%d' % (i, n, (seed0 + k) if seed0 else 0))
        if rng.random() < .1: ops.append('t%d' % i)
        if rng.random() < .05: ops.append('f%d' % i)
    back = rng.choice(['reopen', 'reopen', 'seek', 'with', 'del'])
    if back == 'seek' and '+' in wm:
        ops.append(rng.choice(['s%d,0,0' % i, 's%d,%d,2' % (i, -total), 's%d,%d,1' % (i, -total)]))
    elif back == 'with' and inw:
        ops.append('x'); ops.append('o%d,%d,%s' % (i, p, rng.choice(['r', 'rb', 'r+', 'a+'])))
    elif back == 'del' and i < 2 and not inw:
        ops.append('d%d' % i); ops.append('O%d,%d,r' % (i, p))
    else:
        if rng.random() < .5: ops.append('c%d' % i)
        ops.append('o%d,%d,%s' % (i, p, rng.choice(['r', 'rb', 'r+', 'a+'])))
    for n in chunking(rng, total):
        ops.append('r%d,%d' % (i, n))
        if rng.random() < .1: ops.append('t%d' % i)
        if rng.random() < .1: ops.append('e%d' % i)
    ops += ['e%d' % i, 'r%d,1' % i, 'e%d' % i, 't%d' % i]
    ops.append(rng.choice(['c%d' % i, 'd%d' % i if i < 2 and not (inw and back != 'with') else 'c%d' % i]))
    return 'chunks|' + ' '.join(ops)


def gen_records(rng):
    """the text round trip of the property: records printed with print_to are scanned back with
    scan_from after reopening or seeking back"""
    i = rng.randrange(4)
    p = rng.randrange(3)
    wm = rng.choice(['w', 'w+', 'wb+', 'a', 'a+'])
    ops = ['O%d,%d,%s' % (i, p, wm) if i < 2 else 'o%d,%d,%s' % (i, p, wm)]
    n = rng.choice([0, 1, 2, 3, 5, 9, 30])
    recs = []
    for _ in range(n):
        k = rng.choice([0, 1, -1, 7, 42, -300, 2 ** 31, -2 ** 63, 2 ** 63 - 1, rng.randrange(-10 ** 9, 10 ** 9)])
        w = rng.choice(WORDS)
        recs.append((k, w)); ops.append('p%d,%d,%s' % (i, k, w))
        if rng.random() < .1: ops.append('t%d' % i)
    if '+' in wm and rng.random() < .5:
        ops.append(rng.choice(['s%d,0,0' % i, 'f%d s%d,0,0' % (i, i)]))
    else:
        if rng.random() < .5: ops.append('c%d' % i)
        ops.append('o%d,%d,%s' % (i, p, rng.choice(['r', 'r+', 'a+', 'rb'])))
    for _ in range(n):
        ops.append('q%d' % i)
        if rng.random() < .15: ops.append(rng.choice(['t%d' % i, 'e%d' % i]))
    ops += ['e%d' % i, 'q%d' % i, 'e%d' % i, 't%d' % i, 'c%d' % i]
    return 'records|' + ' '.join(ops)


FMT_LENS = [0, 1, 100, 254, 255, 256, 257, 300, 1000, 4095, 5000, BUFSIZ, BUFSIZ + 1]


def long_print(rng, i, budget=12000):
    kind = rng.choice('sdwlm')
    n = rng.choice(FMT_LENS) if rng.random() < .8 else rng.randrange(1, 9000)
    n = min(n, budget // (2 if kind == 'm' else 1))
    if kind == 'l' and n == 0: n = 256
    return 'P%d,%s,%d,%d' % (i, kind, n, rng.randrange(0, 100000)), n * (2 if kind == 'm' else 1) + 8


def gen_format(rng):
    """text written with print_to whose single conversions are long (at and beyond 255/256/257 bytes, several
    BUFSIZ): the bytes in the file are exactly the formatted text, read back after reopening or seeking back"""
    i = rng.randrange(4)
    p = rng.randrange(3)
    wm = rng.choice(['w', 'w+', 'wb', 'a', 'a+'])
    ops = ['O%d,%d,%s' % (i, p, wm) if i < 2 else 'o%d,%d,%s' % (i, p, wm)]
    total = 0
    for _ in range(rng.randrange(1, 6)):
        t, n = long_print(rng, i, max(300, (MAXBYTES - 2000 - total) // 2))
        if total + n > MAXBYTES - 2000: break
        ops.append(t); total += n
        r = rng.random()
        if r < .15: ops.append('t%d' % i)
        elif r < .25: ops.append('p%d,%d,%s' % (i, rng.randrange(-99, 99), rng.choice(WORDS))); total += 40
        elif r < .3: ops.append('W%d,3,1' % i); total += 3
    if '+' in wm and rng.random() < .4:
        ops.append('s%d,0,0' % i)
    else:
        if rng.random() < .5: ops.append('c%d' % i)
        ops.append('o%d,%d,%s' % (i, p, rng.choice(['r', 'r+', 'rb'])))
    left = total + 50
    while left > 0:
        n = rng.choice([1, 7, 255, 256, 257, 1000, BUFSIZ, left])
        ops.append('r%d,%d' % (i, n)); left -= n
    ops += ['e%d' % i, 't%d' % i, 'c%d' % i]
    return 'format|' + ' '.join(ops)


def gen_full(rng):
    """fclose that fails (/dev/full): the stream is gone all the same."""
    i = rng.randrange(4)
    ops = ['O%d,4,%s' % (i, rng.choice(['w', 'a', 'wb']))] if i < 2 else ['o%d,4,%s' % (i, rng.choice(['w', 'a']))]
    if rng.random() < .3: ops.insert(0 if i >= 2 else 1, 'w%d' % i)
    for _ in range(rng.randrange(0, 4)):
        ops.append(rng.choice(['W%d,%d,%d' % (i, rng.choice([1, 3, 100, 0]), rng.randrange(9)), 't%d' % i, 'e%d' % i, 'p%d,7,full' % i]))
    tail = ['c%d' % i, 'x', 't%d' % i, 'c%d' % i, 'r%d,1' % i, 'o%d,0,w' % i, 'W%d,2,1' % i, 'c%d' % i]
    if i < 2: tail.append('d%d' % i)
    k = rng.randrange(1, len(tail) + 1)
    ops += rng.sample(tail, k) if rng.random() < .5 else tail[:k]
    return 'full|' + ' '.join(ops)


# ------------------------------------------------------------------ transcripts
def steps(line):
    return [p.split(';') for p in line.split(' | ')]


def strip_h(objs):
    return re.sub(r'o\d+:', 'o', objs)


STATS = {'in_contract': 0, 'out_of_contract': 0}


def in_contract(toks, sp):
    """The stdio model is the view of ONE stream on its file, under the rules of the C standard:
    (a) no path is open in two streams with a writer among them; (b) on an update stream output is
    not directly followed by input without fflush/fseek, and input not by output without fseek unless
    the input met end-of-file (C11 7.21.5.3p7; glibc really loses data otherwise); (c) /dev/full is
    used for a few small writes only.  `sp` = steps of the specification (or model) transcript:
    which opens succeeded, and the EOF flags."""
    obj = {}
    last = {}
    total = 0
    full_bytes = {}
    for n, t in enumerate(toks):
        if n >= len(sp) or len(sp[n]) < 2: break
        a = t[1:].split(',')
        out = sp[n][0]
        ob = strip_h(sp[n][1]).split(',')
        try: i = int(a[0]) if a[0] else -1
        except ValueError: i = -1
        if t[0] == 'W' and len(a) == 3:
            try: total += int(a[1])
            except ValueError: return False
            if total > MAXBYTES: return False
        if t[0] in 'Oo' and (len(a) != 3 or (a[2] not in MODES_R + MODES_W and a[2][:1] in ('r', 'w', 'a', ''))):
            return False        # mode strings the model does not decode (glibc ignores unknown trailing letters)
        if t[0] == 'P':
            if len(a) != 4 or a[1] not in ('s', 'd', 'w', 'l', 'm'): return False
            try: total += int(a[2]) * (2 if a[1] == 'm' else 1) + 8
            except ValueError: return False
            if total > MAXBYTES or (a[1] == 'l' and a[2] == '0'): return False       # an empty format makes no Format call at all
        if t[0] in 'Oo' and a[1] == '4' and not HAVE_FULL: return False
        if t[0] in 'Oo' and len(a) == 3 and out == 'ok':
            try: p = int(a[1])
            except ValueError: return False
            obj[i] = (p, a[2]); full_bytes[i] = 0; last[i] = None
            if p == 4 and (a[2] not in ('w', 'a', 'wb', 'ab') or not HAVE_FULL): return False
        elif i in obj and 0 <= i < len(ob) and ob[i].startswith('o'):
            if obj[i][0] == 4:
                if t[0] in 'rqsfP': return False
                if t[0] in 'Wp':
                    full_bytes[i] += int(a[1]) if t[0] == 'W' else 40
                    if full_bytes[i] > 2000: return False
            eof = ob[i].endswith('/1')
            if (t[0] == 'W' and a[1] != '0' and out.startswith('W')) or (t[0] in 'pP' and out == 'ok'):
                if last[i] == 'in': return False
                last[i] = 'out'
            elif (t[0] == 'r' and a[1] != '0' and out.startswith('R')) or (t[0] == 'q' and out[0] in 'SF'):
                if last[i] == 'out': return False
                last[i] = 'in-eof' if eof else 'in'
            elif t[0] == 's' and out == 'ok': last[i] = None
            elif t[0] == 'f' and out == 'ok':
                if last[i] == 'out': last[i] = None
        for j in list(obj):
            if j < len(ob) and not ob[j].startswith('o'): del obj[j]
        byp = {}
        for j, (p, mo) in obj.items(): byp.setdefault(p, []).append(mo)
        for p, ms in byp.items():
            if len(ms) > 1 and any(writable(x) for x in ms): return False
    return True


def oracle(case, impl, spec):
    toks = split(case)[1]
    sp = steps(spec)
    if not in_contract(toks, sp):
        STATS['out_of_contract'] += 1
        return None
    STATS['in_contract'] += 1
    im = steps(impl)
    live = set(); nexth = 0
    for n, b in enumerate(sp):
        if n >= len(im):
            return 'step %d (%s): implementation transcript ends (crash/timeout?): %s' % (n, toks[n] if n < len(toks) else 'END', impl[-60:])
        a = im[n]
        tok = toks[n] if n < len(toks) else 'END'
        if b[0] == 'END':
            if a[0] != 'END': return 'after the last step: %s' % ';'.join(a)
            if a[1] != b[1]: return 'files at the end are %s, written data says %s' % (a[1], b[1])
            if len(im) > n + 1: return 'trailing output: %s' % ';'.join(im[n + 1])
            break
        if len(a) != 3:
            return 'step %d (%s): %s' % (n, tok, ';'.join(a))
        out, objs, evs = a
        # the ledger: every fopen'ed stream is closed at most once, and only while it is open
        for e in [x for x in evs.split(',') if x]:
            if e == '-NULL': return 'step %d (%s): fclose(NULL)' % (n, tok)
            if e[0] == '!': return 'step %d (%s): stdio call on the already closed stream #%s' % (n, tok, e[1:])
            if e[0] == '+':
                if int(e[1:]) != nexth: return 'step %d: ledger out of order' % n
                live.add(nexth); nexth += 1
            elif e[0] == '-':
                h = int(e[1:])
                if h not in live: return 'step %d (%s): stream #%d closed twice' % (n, tok, h)
                live.discard(h)
        if out != b[0]:
            return 'step %d (%s): outcome %s, the property demands %s' % (n, tok, out, b[0])
        if strip_h(objs) != b[1]:
            return 'step %d (%s): Files are %s (position/eof as ftell/feof report them), expected %s' % (n, tok, objs, b[1])
        held = [int(x) for x in re.findall(r'o(\d+):', objs)]
        if sorted(held) != sorted(live):
            return 'step %d (%s): open streams %s but Files hold %s (a stream leaked or is shared)' % (n, tok, sorted(live), sorted(held))
        # stell / seof against the C library's own answer for the same FILE*
        if tok[0] in 'te' and out not in ('IOError', 'BADOP'):
            i = int(tok[1:])
            m = re.match(r'o\d+:(\d+)/([01])', objs.split(',')[i])
            if not m: return 'step %d (%s): result %s from a File that is not open' % (n, tok, out)
            if tok[0] == 't' and out != 'n' + m.group(1): return 'step %d: stell %s, ftell %s' % (n, out, m.group(1))
            if tok[0] == 'e' and out != ('true' if m.group(2) == '1' else 'false'): return 'step %d: seof %s, feof %s' % (n, out, m.group(2))
    return None


def corr(case, impl, model):
    if impl == model:
        return None
    toks = split(case)[1]
    if not in_contract(toks, steps(model)):
        return None
    a, b = impl.split(' | '), model.split(' | ')
    for n, (x, y) in enumerate(zip(a, b)):
        if x != y:
            return 'step %d (%s): implementation %s / model %s' % (n, toks[n] if n < len(toks) else 'END', x, y)
    return 'length %d vs %d' % (len(a), len(b))


def features(case, impl):
    """boundary predicates a case exercised (counted for the evidence)"""
    f = set()
    toks = split(case)[1]
    im = steps(impl)
    prev = 'c,c,c,c'
    for n, a in enumerate(im):
        if len(a) != 3 or n >= len(toks): break
        t = toks[n]; out, objs, evs = a
        i = int(t[1]) if len(t) > 1 and t[1].isdigit() else -1
        po = prev.split(',')
        if out == 'IOError' and 0 <= i < 4 and po[i] == 'c' and t[0] not in 'oO': f.add('op-on-closed-File')
        if out.startswith('R1=') and not out.startswith('R1=0:'): f.add('read-back')
        if out.startswith('R0=') and t.split(',')[1] != '0': f.add('read-hits-eof')
        if out.startswith('S'): f.add('scan-back')
        if t[0] == 'o' and 0 <= i < 4 and po[i].startswith('o') and '-' in evs: f.add('reopen-closes-first')
        if t[0] == 'x' and evs.startswith('-'): f.add('with-exit-closes')
        if t[0] == 'd' and evs.startswith('-'): f.add('del-closes')
        if t[0] == 's' and out == 'ok': f.add('seek-origin-' + t.split(',')[2])
        if t[0] in 'rW' and out[0] in 'RW' and int(t.split(',')[1]) >= BUFSIZ - 1: f.add('chunk>=BUFSIZ-1')
        if t[0] in 'oO' and out == 'IOError': f.add('failed-open')
        if t[0] == 'P' and out == 'ok' and int(t.split(',')[2]) >= 255: f.add('format-piece>=255-' + t.split(',')[1])
        prev = objs
    return f


def nontrivial(case, impl):
    f = features(case, impl)
    return bool(f & {'op-on-closed-File', 'read-back', 'scan-back'}) and len(f) >= 2


def split(case):
    tag, ops = case.split('|', 1)
    return tag, [t for t in ops.split(' ') if t]


def join(tag, toks):
    return tag + '|' + ' '.join(toks)


CORPUS = [
    'D19|N0 o0,0,w c0 c0 t0 d0',                       # sclose of a closed File: IOError, not fclose(NULL)
    'D19|N0 w0 o0,0,w W0,3,1 c0 x o0,0,r r0,3 d0',      # with-exit after an inner sclose
    'D19|O0,0,w W0,5,2 c0 d0 O0,0,r r0,5 e0 d0',        # del after sclose closes nothing
    'D19|c2 o2,0,w c2 c2 w3 x',                         # stack Files
    'D22|O0,4,w W0,3,1 c0 t0 c0 d0',                    # fclose fails on /dev/full: the File is closed all the same
    'D22|o2,4,w w2 W2,3,1 x t2 o2,0,w W2,1,1 c2',
    'doc|O0,0,wb W0,5,9 c0 d0 o2,0,w p2,23,Dan p2,24,Chess c2 O1,0,r w1 q1 q1 x d1',      # the examples of File.c
    'chunks|O1,1,w+ W1,8191,5 W1,1,6 W1,8193,7 s1,0,0 r1,8192 r1,8192 r1,1 e1 r1,1 e1 t1 d1',
    'fd0|O0,0,wb W0,23,5 d0 O0,0,rb r0,23 e0 d0',       # del closes (and flushes) whatever descriptor number the stream has
    'fd012|O0,0,w O1,1,w+ o2,2,w W0,3,1 W1,3,2 p2,7,ab d0 d1 c2 o3,0,r r3,3 o3,2,r q3 c3',
    'format|O0,0,w P0,s,255,1 P0,s,256,2 P0,s,257,3 t0 c0 o0,0,r r0,257 r0,258 r0,259 r0,1 e0 d0',      # "%s" pieces around 256 bytes
    'format|o2,1,w+ P2,d,255,7 P2,d,256,7 P2,d,300,8 P2,w,1000,0 P2,m,5000,4 P2,l,5000,9 t2 s2,0,0 r2,256 r2,257 r2,301 r2,1001 r2,10008 r2,5000 r2,1 e2 c2',
    'life|o2,3,w t2 o2,0,r o2,0,w o2,1,w+ W2,4,3 o2,1,r r2,4 o2,3,r t2 c2',           # failing fopen leaves the File closed
    'bin|O0,0,w+ W0,10,3 s0,2,0 W0,2,0 s0,-3,2 r0,3 s0,4,1 W0,1,9 t0 s0,0,0 r0,16 e0 s0,-1,0 s0,0,7 t0 e0 d0',
]


SMALL_ALPHABET = ['N0', 'O0,0,w+', 'o0,0,r', 'o2,0,a+', 'c0', 'c2', 'd0', 'w0', 'w2', 'x',
                  'W0,2,1', 'p2,7,ab', 'r0,3', 'q2', 's0,0,0', 's2,-1,2', 't0', 'e2', 'f0', 'o0,3,w']


def small_scope(maxlen):
    """every history up to maxlen over the small alphabet (2 objects: heap File 0, stack File 2; one path)"""
    import itertools
    out = []
    for n in range(1, maxlen + 1):
        for t in itertools.product(SMALL_ALPHABET, repeat=n):
            out.append('small|' + ' '.join(t))
    return out


def rng_flag(rng):
    r = rng.random()
    return 'fd0,' if r < .2 else 'fd012,' if r < .34 else ''


def file_flags():
    """Generated.file_close_tests_closed / file_close_clears_always as the driver needs them."""
    try:
        g = open(os.path.join(vlib.COQ, 'Generated.v')).read()
    except OSError:
        g = ''
    def flag(name):
        m = re.search(r'Definition %s : bool := (true|false)' % name, g)
        return '1' if (m is None or m.group(1) == 'true') else '0'       # missing pattern: model of the repaired code
    return [flag('file_close_tests_closed'), flag('file_close_clears_always')]


def run(ctx):
    quick = ctx.tier == 'quick'
    ctx.cov['rule'] = (
        'seeded histories over 4 File objects (2 heap: new(File)/new(File,path,mode)/del; 2 `$(File,NULL)` on the stack) and 5 paths '
        '(3 regular files in a fresh directory per case, one in a missing directory, /dev/full): sopen in every mode string incl. invalid ones, '
        'sclose, del, with{...} nesting, sread/swrite with sizes 0..5*BUFSIZ (BUFSIZ-1, BUFSIZ, BUFSIZ+1 included; data with zero bytes and '
        'all-zero data), sseek with every origin (inside, at, beyond the end, negative, invalid origin), stell, seof, sflush, '
        'print_to/scan_from of "%ld %s\\n" records; print_to with LONG single pieces ("<%s>" of long strings, "%0<n>li|", "%<n>s|", long literal text, '
        '"%s=%05li;%s"; lengths 0,1,100,254..257,300,1000,4095,5000,BUFSIZ,BUFSIZ+1 and random) read back byte for byte; styles: life-cycle heavy, operations on closed Files, binary, text, mixed, big chunks, '
        'write-in-one-chunking/read-in-another after reopen|seek|with|del, records printed then scanned back after reopen|seek, failing fclose; '
        'plus EVERY history up to length 3 (thorough: 4) over a 20-operation alphabet; a third of the seeded histories, the short exhaustive ones '
        'and two corpus cases run in a process that closed descriptor 0 (or 0,1,2) first, so that Files get the descriptor numbers of the standard streams. After EVERY operation the harness prints ftell/feof '
        'of each open FILE* and the fopen/fclose events seen by the link-time wrappers. A case is non-trivial when it exercised at least two '
        'of the boundary predicates listed in coverage.features and at least one of {operation on a closed File raised IOError, bytes read '
        'back, record scanned back}; distinct = distinct implementation transcripts')
    ctx.assumptions += [
        'C text of src/File.c tied by correspondence only (extracted Gallina model vs library built from the working tree, state compared after every operation) '
        'and by Generated.v (shape of File_Close, closed-handle tests of the 8 wrappers, File_Del/File_Open)',
        'stdio (glibc) is MODELLED: byte-vector files, position, EOF flag, modes r w a + ; validated against the real stdio in every run, not verified; '
        'the model is the unbuffered single-stream view, so generated cases never open a path in two streams when one of them writes',
        'fclose(NULL) and stdio calls on a closed FILE* are intercepted by link-time wrappers and reported as CRASH instead of being executed',
        'formatting of numbers/strings (vfprintf/vfscanf conversions) is C14/C15; here print_to writes the formatted bytes and scan_from consumes '
        'them directive by directive ("%ld" " " "%s" "\\n")']
    ctx.coq()
    drv = ctx.build_driver('File')
    h = ctx.build_harness('file_ops.c', extra=WRAP)
    fdir = os.path.join(ctx.tmp, 'files')
    os.makedirs(fdir, exist_ok=True)
    env = dict(os.environ, H_DIR=fdir)
    flags = file_flags()
    run_impl = lambda cs: ctx.run_lines(h, cs, env=env)[1]
    run_model = lambda cs: ctx.run_lines(drv, cs, args=['model'] + flags)[1]
    run_spec = lambda cs: ctx.run_lines(drv, cs, args=['spec'])[1]
    d = vlib.Differential(ctx, 'file', run_impl, run_model, run_spec, oracle, corr, nontrivial, split, join)
    hist = {}
    feats = {}
    rp = os.environ.get('VERIF_REPLAY')
    if rp:
        r = json.load(open(rp))
        d.feed([r['case']] if 'case' in r else CORPUS)
        for x in d.oracle_fail + d.corr_fail:
            print('REPLAY: %s\n  impl  %s\n  model %s\n  spec  %s' % (x[4], x[1], x[2], x[3]))
        d.report()
        return
    if not HAVE_FULL:
        ctx.notes.append('/dev/full is not available: the failing-fclose cases (D22 witnesses, style full) are not run')
    d.feed(CORPUS, 'corpus')
    small = small_scope(3 if quick else 4)          # 20 + 400 + 8000 (+ 160000) histories, exhaustive
    small += ['fd012,' + c for c in small_scope(2 if quick else 3)]      # and again with descriptors 0,1,2 free
    for i in range(0, len(small), 4000):
        d.feed(small[i:i + 4000])
    ctx.cov['small_scope'] = {'alphabet': SMALL_ALPHABET, 'max_length': 3 if quick else 4, 'histories': len(small), 'exhaustive': True}
    n = 2500 if quick else 50000
    maxops = 40 if quick else 70
    cases = []
    for i in range(n):
        if i % 10 == 9 and HAVE_FULL: cases.append(gen_case(ctx.rng, maxops, 'full'))
        else: cases.append(gen_case(ctx.rng, maxops if i % 4 else 12))
    # a third of the histories run in a process that has given up descriptor 0 (or 0, 1, 2)
    cases = [(rng_flag(ctx.rng) + c) for c in cases]
    for i in range(0, n, 1000):
        d.feed(cases[i:i + 1000])
    # evidence: operation histogram and boundary predicates (second pass over a sample, cheap)
    sample = CORPUS + cases[:300]
    for c, il in zip(sample, run_impl(sample)):
        for t in split(c)[1]:
            hist[t[0]] = hist.get(t[0], 0) + 1
        for f in features(c, il):
            feats[f] = feats.get(f, 0) + 1
    ctx.cov['op_histogram_first_300'] = hist
    ctx.cov['features'] = feats
    ctx.cov['cases_in_contract'] = dict(STATS)

    def extra(dd):
        dd.feed([gen_case(ctx.rng, 30) for _ in range(min(10 * n, 5000))])
    d.report(extra)
