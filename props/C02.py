"""C02 — Table behaves as a finite map whatever the hashing does."""
import os, json
import vlib

SIZES = [1, 5, 11, 23, 53, 101, 197]
LCM_SMALL = 5 * 11 * 23 * 53 * 101        # hashes = multiples collide modulo 1,5,11,23,53,101


def gen_case(rng, maxops):
    style = rng.choice(['allzero', 'lcm', 'endcluster', 'small', 'ident', 'identbig', 'mixed'])
    nkeys = rng.choice([2, 3, 4, 5, 6, 8, 12, 20]) if maxops > 30 else rng.choice([2, 3, 4, 5])
    keys = rng.sample(range(-5, 60), nkeys) if style != 'identbig' else \
        [rng.choice([0, 1, -1, 2**31, 2**32, -2**31, 2**62, -2**63, 2**63 - 1, 55, 110, 165, 5, 10]) + rng.randrange(3) * 55 for _ in range(nkeys)]
    keys = list(dict.fromkeys(max(-2**63, min(2**63 - 1, k)) for k in keys))     # int64 keys
    if style in ('ident', 'identbig'):
        hs = 'id'
    else:
        hm = {}
        for k in keys:
            if style == 'allzero': h = 0
            elif style == 'lcm': h = LCM_SMALL * rng.randrange(0, 4) + rng.choice([0, 0, 0, 1])
            elif style == 'endcluster':
                n = rng.choice([5, 11, 23]); h = LCM_SMALL * rng.randrange(1, 3) + (n - 1 - rng.randrange(2)) % n if rng.random() < .5 else n - 1 - rng.randrange(2)
            elif style == 'small': h = rng.randrange(0, 13)
            else: h = rng.choice([0, 1, 4, 10, 22, LCM_SMALL, 2**64 - 1, 2**63, rng.randrange(2**64)])
            hm[k] = h
        hs = ','.join('%d:%d' % kv for kv in hm.items())
    ops = []
    if rng.random() < .25:
        init = [(rng.choice(keys), rng.randrange(100)) for _ in range(rng.randrange(0, 6))]
        ops.append('n' + ','.join('%d:%d' % kv for kv in init))
    nops = rng.randrange(1, maxops)
    live = set()
    for _ in range(nops):
        r = rng.random()
        k = rng.choice(keys)
        if r < .45:
            ops.append('s%d,%d' % (k, rng.randrange(1000))); live.add(k)
        elif r < .65:
            if live and rng.random() < .8: k = rng.choice(sorted(live))
            ops.append('r%d' % k); live.discard(k)
        elif r < .78: ops.append('g%d' % k)
        elif r < .88: ops.append('m%d' % k)
        elif r < .93:
            ops.append('z%d' % rng.choice([0, 0, 1, 2, 3, len(live), len(live) + 1, 9, 20, 47]))
            if ops[-1] == 'z0': live.clear()
        else: ops.append('c')
    return hs + '|' + ' '.join(ops)


def parse(line):
    """-> list of (out, len, slots, iter) per op; trailing CRASH/TIMEOUT marker kept as an op."""
    res = []
    for part in line.split(' | '):
        f = part.split(';')
        if len(f) == 4:
            res.append(tuple(f))
        else:
            res.append((part, None, None, None))
    return res


def oracle(case, impl, spec):
    pi, ps = parse(impl), [p.split(';') for p in spec.split(' | ')]
    if len(pi) != len(ps):
        return 'implementation transcript has %d steps, specification %d (crash/timeout?): %s' % (len(pi), len(ps), pi[-1][0])
    for n, (a, b) in enumerate(zip(pi, ps)):
        out, ln, slots, it = a
        if ln is None:
            return 'step %d: %s' % (n, out)
        if out != b[0]:
            return 'step %d: outcome %s, specification says %s' % (n, out, b[0])
        if ln != b[1]:
            return 'step %d: len %s, specification says %s' % (n, ln, b[1])
        items = sorted(it.split(',')) if it else []
        want = sorted(b[2].split(',')) if b[2] else []
        if items != want:
            return 'step %d: iteration yields %s, bindings are %s' % (n, it, b[2])
    return None


def corr(case, impl, model):
    if impl == model:
        return None
    a, b = impl.split(' | '), model.split(' | ')
    for n, (x, y) in enumerate(zip(a, b)):
        if x != y:
            return 'step %d: implementation %s / model %s' % (n, x, y)
    return 'length %d vs %d' % (len(a), len(b))


def nontrivial(case, impl):
    for (out, ln, slots, it) in parse(impl):
        if slots:
            for idx, s in enumerate(slots.split(',')):
                if s != '_' and s.split(':')[0] != str(idx + 1):
                    return True       # at least one entry displaced from its home slot
    return False


def split(case):
    hs, ops = case.split('|', 1)
    return hs, ops.split(' ')


def join(hs, toks):
    return hs + '|' + ' '.join(toks)


CORPUS = [
    'id|s55,1 s110,2 s55,3 g55 r55 g55 m55',          # D1: update the older of two same-home keys
    'id|s1,1 z0 s2,2 g2 m1',                          # D2: emptied table keeps working
    '0:0,1:0,2:0,3:0|s0,0 s1,1 s2,2 s3,3 s0,9 s1,8 r2 g0 g1 g3 m2',
    '7:4,8:4,9:4,3:3|s3,0 s7,1 s8,2 s9,3 r3 g7 g8 g9 r8 g9 s8,5 g8',   # wrap-around at the last slot of 5
]


def run(ctx):
    quick = ctx.tier == 'quick'
    ctx.cov['rule'] = ('seeded operation sequences (set/rem/get/mem/resize/copy/new-with-pairs) over 2-20 keys with scripted '
                       'hashes (all-equal, multiples of 5*11*23*53*101, clusters ending at the last slot, small, 64-bit extremes) and '
                       'Int keys (identity hash); a case is non-trivial when at least one entry sits away from its home slot '
                       '(displacement happened); distinct = distinct implementation transcripts')
    ctx.assumptions += ['C text tied by correspondence only: extracted Gallina model vs library built from the working tree, '
                        'white-box slot arrays compared after every operation',
                        'double arithmetic of Table_Ideal_Size modelled as floor((n+1)*10/9)']
    ctx.coq()
    drv = ctx.build_driver('Table')
    h = ctx.build_harness('table_wb.c', whitebox='Table')
    run_impl = lambda cs: ctx.run_lines(h, cs)[1]
    run_model = lambda cs: ctx.run_lines(drv, cs, args=['model'])[1]
    run_spec = lambda cs: ctx.run_lines(drv, cs, args=['spec'])[1]
    d = vlib.Differential(ctx, 'table', run_impl, run_model, run_spec, oracle, corr, nontrivial, split, join)
    rp = os.environ.get('VERIF_REPLAY')
    if rp:
        r = json.load(open(rp))
        d.feed([r['case']] if 'case' in r else CORPUS)
        for x in d.oracle_fail + d.corr_fail:
            print('REPLAY: %s\n  impl  %s\n  model %s\n  spec  %s' % (x[4], x[1], x[2], x[3]))
        d.report()
        return
    d.feed(CORPUS, 'corpus')
    n = 1500 if quick else 60000
    maxops = 60 if quick else 120
    cases = [gen_case(ctx.rng, maxops if i % 3 else 12) for i in range(n)]
    for i in range(0, n, 2000):
        d.feed(cases[i:i + 2000])

    def extra(dd):
        dd.feed([gen_case(ctx.rng, 40) for _ in range(10 * min(n, 3000))])
    d.report(extra)
