"""C02 — Table behaves as a finite map whatever the hashing does."""
import os, json
import vlib

SIZES = [1, 5, 11, 23, 53, 101, 197]
LCM_SMALL = 5 * 11 * 23 * 53 * 101        # hashes = multiples collide modulo 1,5,11,23,53,101


def gen_case(rng, maxops):
    style = rng.choice(['allzero', 'lcm', 'endcluster', 'small', 'ident', 'identbig', 'mixed'])
    nkeys = rng.choice([2, 3, 4, 5, 6, 8, 12, 20]) if maxops > 30 else rng.choice([2, 3, 4, 5])
    keys = rng.sample(range(-5, 60), nkeys) if style != 'identbig' else \
        [rng.choice([0, 1, -1, 2**31, 2**32, -2**31, 2**62, -2**63, 2**63 - 1, 55, 110, 165, 5, 10]) + rng.randrange(3) * 55 for _ in range(nkeys)]
    keys = list(dict.fromkeys(max(-2**63, min(2**63 - 1, k)) for k in keys))     # int64 keys
    if style in ('ident', 'identbig'):
        hs = 'id'
    else:
        hm = {}
        for k in keys:
            if style == 'allzero': h = 0
            elif style == 'lcm': h = LCM_SMALL * rng.randrange(0, 4) + rng.choice([0, 0, 0, 1])
            elif style == 'endcluster':
                n = rng.choice([5, 11, 23]); h = LCM_SMALL * rng.randrange(1, 3) + (n - 1 - rng.randrange(2)) % n if rng.random() < .5 else n - 1 - rng.randrange(2)
            elif style == 'small': h = rng.randrange(0, 13)
            else: h = rng.choice([0, 1, 4, 10, 22, LCM_SMALL, 2**64 - 1, 2**63, rng.randrange(2**64)])
            hm[k] = h
        hs = ','.join('%d:%d' % kv for kv in hm.items())
    ops = []
    if rng.random() < .25:
        init = [(rng.choice(keys), rng.randrange(100)) for _ in range(rng.randrange(0, 6))]
        ops.append('n' + ','.join('%d:%d' % kv for kv in init))
    nops = rng.randrange(1, maxops)
    live = set()
    for _ in range(nops):
        r = rng.random()
        k = rng.choice(keys)
        if r < .45:
            ops.append('s%d,%d' % (k, rng.randrange(1000))); live.add(k)
        elif r < .65:
            if live and rng.random() < .8: k = rng.choice(sorted(live))
            ops.append('r%d' % k); live.discard(k)
        elif r < .78: ops.append('g%d' % k)
        elif r < .88: ops.append('m%d' % k)
        elif r < .93:
            ops.append('z%d' % rng.choice([0, 0, 1, 2, 3, len(live), len(live) + 1, 9, 20, 47]))
            if ops[-1] == 'z0': live.clear()
        else: ops.append('c')
    if rng.random() < .5:
        ops += [rng.choice('gm') + str(k) for k in keys[:12]]      # probe sequences of all keys
    return hs + '|' + ' '.join(ops)


# item counts for which Table keeps exactly n slots (Resize_More / Resize_Less thresholds of the
# generated prime table and load factor): inside the band no rehash interferes with the cluster
BAND = {5: (1, 4), 11: (5, 9), 23: (10, 20)}


def gen_dense(rng, maxops):
    """Clusters at (nearly) full load in a table of fixed size: homes drawn from a window of 1-4
    adjacent slots placed anywhere (also across the array end), then set/rem churn at constant
    count.  Aims at the case splits of the proofs: displacement chains with equal and unequal
    probe distances, backward shift across the wrap, lookups stopped by the distance test."""
    n = rng.choice([5, 5, 11, 11, 23])
    lo, hi = BAND[n]
    nk = hi + rng.choice([1, 2, 3])
    w, width = rng.randrange(n), rng.choice([1, 2, 2, 3, 4])
    hm = {}
    for k in range(nk):
        home = (w + rng.randrange(width)) % n if rng.random() < .85 else rng.randrange(n)
        hm[k] = home + n * rng.choice([0, 0, 1, 7, LCM_SMALL, 2**40])
    hs = ','.join('%d:%d' % kv for kv in hm.items())
    keys = list(range(nk))
    rng.shuffle(keys)
    target = rng.randrange(max(lo, hi - 2), hi + 1)
    live, ops = [], []
    for k in keys[:target]:
        ops.append('s%d,%d' % (k, rng.randrange(100))); live.append(k)
    dead = keys[target:]
    for _ in range(rng.randrange(2, maxops)):
        r = rng.random()
        if r < .40 and live and len(live) > lo:
            k = live.pop(rng.randrange(len(live))); dead.append(k); ops.append('r%d' % k)
        elif r < .75 and dead and len(live) < hi:
            k = dead.pop(rng.randrange(len(dead))); live.append(k); ops.append('s%d,%d' % (k, rng.randrange(100)))
        elif r < .85 and live:
            ops.append('s%d,%d' % (rng.choice(live), rng.randrange(100)))       # update in place
        elif r < .93:
            ops.append(rng.choice('gm') + str(rng.choice(keys)))
        elif r < .96:
            ops.append('c')
        else:
            ops.append('z%d' % rng.choice([len(live), hi, hi + 1]))
            if ops[-1] == 'z%d' % (hi + 1) and n != 23: break    # table grows: leave the band, stop
    # look every key up at the end: the iteration in the harness's dump reaches values through
    # Table_Get's pointer-into-the-table shortcut, so only explicit get/mem walk the probe sequence
    ops += ['g%d' % k for k in keys]
    return hs + '|' + ' '.join(ops)


# element sizes of the typed stream: 0 = builtin Int (8 bytes), else a user struct of that many bytes
# (1, 4, 12, 20: none a multiple of sizeof(var)); (key size, value size)
KINDS = [(0, 12), (12, 0), (12, 12), (1, 0), (1, 12), (4, 20), (20, 4), (0, 1), (0, 4), (0, 20), (20, 20), (1, 1), (4, 4), (12, 20)]


def gen_typed(rng, maxops, kinds=None):
    """Table<K,V> with user element types whose sizes are not multiples of the pointer size: inserts
    with growth (1 -> 5 -> 11 -> 23 -> 53 slots), updates, removals with shrink, copy, assign over an
    existing table, resize, new with pairs.  Every byte of every stored key and value is checked
    (the harness prints an element as its integer only if all its bytes are the encoding's), and
    the slot layout (step, reserved key/value bytes) is compared with the model's."""
    ks, vs = rng.choice(kinds or KINDS)
    nkeys = rng.choice([3, 6, 12, 25, 40])
    if ks == 1:
        pool = rng.sample([55 * i for i in range(5)] + [5 * i for i in range(50)] + list(range(256)), 60)
    elif rng.random() < .5:
        pool = [1265 * i + rng.choice([0, 0, 1]) for i in range(60)]          # homes collide modulo 5, 11, 23
    else:
        pool = rng.sample(range(-5, 200), 60)
    keys = list(dict.fromkeys(pool))[:nkeys]
    if ks == 0 or rng.random() < .5:
        hs = 'id'
    else:
        hs = ','.join('%d:%d' % (k, rng.choice([0, 4, LCM_SMALL, rng.randrange(64), rng.randrange(2**64)])) for k in keys)
    val = (lambda: rng.randrange(256)) if vs == 1 else (lambda: rng.choice([rng.randrange(1000), 2**31 - 1, -2**31, -1]) if vs != 0 else rng.randrange(-2**40, 2**40))
    ops = []
    if rng.random() < .2:
        ops.append('n' + ','.join('%d:%d' % (rng.choice(keys), val()) for _ in range(rng.randrange(1, 8))))
    live = set()
    grow = rng.random() < .6
    for i in range(rng.randrange(2, maxops)):
        r, k = rng.random(), rng.choice(keys)
        if grow and i < len(keys): r, k = 0, keys[i]                  # fill first: growth through the sizes
        if r < .45: ops.append('s%d,%d' % (k, val())); live.add(k)
        elif r < .70:
            if live and rng.random() < .85: k = rng.choice(sorted(live))
            ops.append('r%d' % k); live.discard(k)
        elif r < .80: ops.append(rng.choice('gm') + str(k))
        elif r < .86: ops.append('c')
        elif r < .92: ops.append('a')
        else:
            ops.append('z%d' % rng.choice([0, len(live), len(live) + 1, 9, 47]))
            if ops[-1] == 'z0': live.clear()
    ops += ['g%d' % k for k in keys[:12]]
    return 't%d.%d;%s|%s' % (ks, vs, hs, ' '.join(ops))


def gen_alias(rng, maxops):
    """Arguments that live INSIDE the table's own slot array: set(t, k, get(t, k2)) (S), set with the key
    object the iteration yields (K), set(t, get(t,k), get(t,k2)) (X), get / mem / rem with a stored value
    as the key (G M R).  Keys and values come from one small pool, so a stored value is often (not
    always) a key.  The fill phase duplicates bindings under new keys, so that the aliased set is the
    one that crosses each growth threshold (1, 5, 11, 23, 53 slots); removals through aliased keys
    cross the shrink thresholds.  The harness runs with M_PERTURB (freed memory is scribbled) and a
    second time under AddressSanitizer."""
    same = rng.random() < .75           # key and value of one type: a value can be used as a key
    if same:
        ks = vs = rng.choice([0, 0, 0, 4, 12, 20, 1])
    else:
        ks, vs = rng.choice([(0, 12), (12, 0), (4, 20), (1, 0), (20, 4)])
    n = rng.choice([6, 12, 25, 60])
    if ks == 1 or vs == 1:
        pool = rng.sample(range(0, 256), min(n, 60))
    elif rng.random() < .4:
        pool = [1265 * i for i in range(n)]
    else:
        pool = rng.sample(range(0, 300), n)
    hs = 'id' if (ks == 0 or rng.random() < .6) else ','.join('%d:%d' % (k, rng.choice([0, 4, rng.randrange(64)])) for k in pool)
    val = lambda: rng.choice(pool) if same and rng.random() < .8 else rng.randrange(200)
    ops, live = [], []
    k0 = pool[0]
    ops.append('s%d,%d' % (k0, val())); live.append(k0)
    fill = rng.random() < .7
    for i in range(rng.randrange(2, maxops)):
        r, k = rng.random(), rng.choice(pool)
        if fill and i + 1 < len(pool) and i < 56:
            k = pool[i + 1]; r = rng.choice([.05, .05, .05, .25, .95])
        src = rng.choice(live) if live else k
        if r < .20: ops.append('S%d,%d' % (k, src)); live.append(k) if k not in live else None
        elif r < .30: ops.append('K%d,%d' % (k, val())); live.append(k) if k not in live else None
        elif r < .40 and same: ops.append('X%d,%d' % (src, rng.choice(live) if live else k))
        elif r < .55 and same: ops.append('G%d' % src)
        elif r < .62 and same: ops.append('M%d' % src)
        elif r < .70 and same: ops.append('R%d' % src)
        elif r < .80:
            if live: k = rng.choice(live); live.remove(k)
            ops.append('r%d' % k)
        elif r < .85: ops.append(rng.choice('gm') + str(k))
        elif r < .88: ops.append(rng.choice('ca'))
        else: ops.append('s%d,%d' % (k, val())); live.append(k) if k not in live else None
        if ops[-1][0] in 'XR':
            live = []        # bindings changed through stored values: stop tracking, ops stay legal either way
    ops += ['g%d' % k for k in pool[:10]]
    pre = 't%d.%d;' % (ks, vs) if (ks or vs) else ''
    return pre + hs + '|' + ' '.join(ops)


def continuations(rng, case, count, maxops=25):
    """Directed search around a case on which model and implementation differ: keep its hash
    script and operations, continue with set/rem/get/mem over its keys and over new keys whose
    homes are next to the existing ones (a structural difference of the slot array becomes a
    lost or duplicated key once the cluster is probed and reshuffled)."""
    hs, ops = case.split('|', 1)
    pre = ''
    if hs.startswith('t'):
        pre, hs = hs.split(';', 1)
        pre += ';'
    toks = [t for t in ops.split(' ') if t]
    out = []
    if hs == 'id':
        keys = sorted({int(t[1:].split(',')[0]) for t in toks if t[0] in 'srgmSKXGMR'}) or [0]
        extra = [k + d * m for k in keys[:6] for d in (1, -1) for m in (5, 11, 23, 55, 253)]
        extra = [k for k in extra if -2**63 <= k < 2**63]
        pool, spec = keys + extra, 'id'
    else:
        hm = dict((int(a), int(b)) for a, b in (kv.split(':') for kv in hs.split(',') if kv))
        keys = list(hm)
        nxt = max(keys + [0]) + 1
        for h in list(hm.values())[:8]:
            for d in (0, 0, 1, -1):
                hm[nxt] = max(0, h + d); nxt += 1
        pool, spec = list(hm), ','.join('%d:%d' % kv for kv in hm.items())
    if pre.startswith('t1.'):
        pool = [k for k in pool if 0 <= k < 256] or [0]          # one-byte keys
    elif pre:
        pool = [k for k in pool if -2**31 <= k < 2**31] or [0]
    spec = pre + spec
    for _ in range(count):
        cut = rng.randrange(max(1, len(toks) - 3), len(toks) + 1) if rng.random() < .5 else len(toks)
        t = toks[:cut]
        for _ in range(rng.randrange(1, maxops)):
            r, k = rng.random(), rng.choice(pool)
            if r < .5: t.append('s%d,%d' % (k, rng.randrange(100)))
            elif r < .8: t.append('r%d' % k)
            else: t.append(rng.choice('gm') + str(k))
        t += ['g%d' % k for k in pool[:12]]
        out.append(spec + '|' + ' '.join(t))
    return out


def parse(line):
    """-> list of (out, len, slots, iter) per op; trailing CRASH/TIMEOUT marker kept as an op."""
    res = []
    for part in line.split(' | '):
        f = part.split(';')
        if len(f) == 5 and f[2].startswith('L'):      # typed case: layout field (white-box, model only)
            f = f[:2] + f[3:]
        if len(f) == 4:
            res.append(tuple(f))
        else:
            res.append((part, None, None, None))
    return res


def oracle(case, impl, spec):
    pi, ps = parse(impl), [p.split(';') for p in spec.split(' | ')]
    if len(pi) != len(ps):
        return 'implementation transcript has %d steps, specification %d (crash/timeout?): %s' % (len(pi), len(ps), pi[-1][0])
    for n, (a, b) in enumerate(zip(pi, ps)):
        out, ln, slots, it = a
        if ln is None:
            return 'step %d: implementation %s' % (n, out.strip() or 'printed no record (crashed before the first one?)')
        if out != b[0]:
            return 'step %d: outcome %s, specification says %s' % (n, out, b[0])
        if ln != b[1]:
            return 'step %d: len %s, specification says %s' % (n, ln, b[1])
        items = sorted(it.split(',')) if it else []
        want = sorted(b[2].split(',')) if b[2] else []
        if items != want:
            return 'step %d: iteration yields %s, bindings are %s' % (n, it, b[2])
    return None


def corr(case, impl, model):
    if impl == model:
        return None
    a, b = impl.split(' | '), model.split(' | ')
    for n, (x, y) in enumerate(zip(a, b)):
        if x != y:
            return 'step %d: implementation %s / model %s' % (n, x, y)
    return 'length %d vs %d' % (len(a), len(b))


def nontrivial(case, impl):
    for (out, ln, slots, it) in parse(impl):
        if slots:
            for idx, s in enumerate(slots.split(',')):
                if s != '_' and s.split(':')[0] != str(idx + 1):
                    return True       # at least one entry displaced from its home slot
    return False


def split(case):
    hs, ops = case.split('|', 1)
    return hs, ops.split(' ')


def join(hs, toks):
    return hs + '|' + ' '.join(toks)


CORPUS = [
    'id|s55,1 s110,2 s55,3 g55 r55 g55 m55',          # D1: update the older of two same-home keys
    'id|s1,1 z0 s2,2 g2 m1',                          # D2: emptied table keeps working
    '0:0,1:0,2:0,3:0|s0,0 s1,1 s2,2 s3,3 s0,9 s1,8 r2 g0 g1 g3 m2',
    '7:4,8:4,9:4,3:3|s3,0 s7,1 s8,2 s9,3 r3 g7 g8 g9 r8 g9 s8,5 g8',   # wrap-around at the last slot of 5
    # element sizes that are not multiples of sizeof(var): growth 1 -> 5 -> 11, update, removal, copy, assign
    't0.12;id|s1,10 s2,20 s3,30 s4,40 s5,50 s6,60 g1 g6 s1,11 r2 c g1 g3 a g6 m2',
    't12.0;id|s1,10 s2,20 s3,30 s4,40 s5,50 s6,60 g1 g6 s1,11 r2 c g1 g3 a g6 m2',
    't12.12;0:0,5:0,10:4,15:4|s0,1 s5,2 s10,3 s15,4 g0 g5 g10 g15 r0 g5 c g15 z9 g10',
    't1.20;id|s55,1 s110,2 s165,3 s220,4 s0,5 g55 g220 r110 g165 a g0 m110',
    # arguments inside the table's own storage; the aliased set crosses the growth thresholds 1->5 and 5->11
    'id|s1,2 S2,1 S3,2 S4,3 S5,4 S6,5 g6 K3,9 X1,2 g2',
    # D22: a stored VALUE passed as the key must be looked up like any other Int (Table_Get's in-table shortcut)
    'id|s1,2 s2,3 G1 M1 s7,5 G7 M7',
]


def small_scope(nkeys=3, nslots=5, maxlen=5):
    """Bounded exhaustive search (thorough tier), for every assignment of home slots in a table of
    `nslots` slots up to renaming of the keys:
      (a) every sequence of exactly `maxlen` set/rem operations over `nkeys` keys (all shorter
          sequences are its prefixes and every step is compared) — rem of an absent key included;
      (b) every sequence of `maxlen`+1 operations in which rem is only applied to a present key.
    Each is followed by get and mem of every key."""
    import itertools
    alphabet = ['s%d' % k for k in range(nkeys)] + ['r%d' % k for k in range(nkeys)]
    probe = ' '.join(['g%d' % k for k in range(nkeys)] + ['m%d' % k for k in range(nkeys)])

    def valid(live, depth, acc, out):
        if depth == maxlen + 1:
            out.append(tuple(acc)); return
        for k in range(nkeys):
            acc.append('s%d' % k); valid(live | {k}, depth + 1, acc, out); acc.pop()
            if k in live:
                acc.append('r%d' % k); valid(live - {k}, depth + 1, acc, out); acc.pop()
    longer = []
    valid(frozenset(), 0, [], longer)
    for homes in itertools.combinations_with_replacement(range(nslots), nkeys):
        hs = ','.join('%d:%d' % (k, h) for k, h in enumerate(homes))
        for seq in itertools.chain(itertools.product(alphabet, repeat=maxlen), longer):
            ops = ' '.join(o + (',%d' % i if o[0] == 's' else '') for i, o in enumerate(seq))
            yield hs + '|' + ops + ' ' + probe


def run(ctx):
    quick = ctx.tier == 'quick'
    ctx.cov['rule'] = ('seeded operation sequences (set/rem/get/mem/resize/copy/new-with-pairs) over 2-20 keys with scripted '
                       'hashes (all-equal, multiples of 5*11*23*53*101, clusters ending at the last slot, small, 64-bit extremes) and '
                       'Int keys (identity hash); a second stream ("dense") fills a table of 5, 11 or 23 slots to the highest count '
                       'that keeps its size, with homes drawn from a window of 1-4 adjacent slots (anywhere, also across the array end), '
                       'then removes and re-inserts at constant count, so that displacement chains, backward shifts across the wrap and '
                       'distance-stopped lookups occur in most cases, and ends with a get of every key (present or not); a third stream ("typed") runs '
                       'the same kinds of histories (growth 1-5-11-23-53, updates, removals with shrink, copy, assign over an existing table, resize, '
                       'new with pairs) on Table<K,V> with user struct types of 1, 4, 12 and 20 bytes and Int, as key and as value: every byte of every '
                       'stored key and value must be the encoding of the integer the model holds, and step / reserved key bytes / reserved value bytes '
                       'of the slot must equal the model layout (8 + round_up(ksize) + round_up(vsize) plus two headers); a fourth stream ("alias") passes '
                       'arguments that live inside the table itself — set(t,k,get(t,k2)), set with the key object the iteration yields, '
                       'set(t,get(t,k),get(t,k2)), get/mem/rem with a stored value as key — with the aliased set placed on the calls that cross the '
                       'growth thresholds (1,5,11,23,53 slots), run with M_PERTURB and again under AddressSanitizer; the model takes arguments by '
                       'value; a case is non-trivial when at least one entry sits away from its '
                       'home slot (displacement happened); distinct = distinct implementation transcripts; every step of every case '
                       'compares outcome, len and the iterated bindings with the finite map (oracle) and the whole slot array with the '
                       'extracted model (correspondence)')
    ctx.assumptions += ['C text tied by correspondence only: extracted Gallina model vs library built from the working tree, '
                        'white-box slot arrays compared after every operation',
                        'double arithmetic of Table_Ideal_Size modelled as floor((n+1)*10/9)']
    ctx.coq()
    drv = ctx.build_driver('Table')
    h = ctx.build_harness('table_wb.c', whitebox='Table')
    # glibc scribbles over freed memory (the harness calls mallopt(M_PERTURB)); chunks that go to the thread
    # cache are skipped by glibc >= 2.26, so the cache is switched off for the harness process
    henv = dict(os.environ, H_TIMEOUT='3', GLIBC_TUNABLES='glibc.malloc.tcache_count=0')       # a case takes microseconds; a hang is an observation

    def retrying(exe, env, slow):
        """A case whose child was killed by the watchdog or printed no record at all (fork refused under
        memory pressure) is run once more on its own with a longer watchdog; only that second
        observation counts.  A genuine hang or crash shows again; a loaded machine does not."""
        env2 = dict(env, H_TIMEOUT=str(slow))
        def run(cs):
            out = ctx.run_lines(exe, cs, env=env, timeout=3000)[1]
            if len(out) != len(cs):
                return out
            for i, (c, o) in enumerate(zip(cs, out)):
                if 'TIMEOUT' in o or not o.startswith('new'):
                    r = ctx.run_lines(exe, [c], env=env2, timeout=600)[1]
                    if len(r) == 1:
                        out[i] = r[0]
            return out
        return run
    run_impl = retrying(h, henv, 8)
    run_model = lambda cs: ctx.run_lines(drv, cs, args=['model'])[1]
    run_spec = lambda cs: ctx.run_lines(drv, cs, args=['spec'])[1]
    d = vlib.Differential(ctx, 'table', run_impl, run_model, run_spec, oracle, corr, nontrivial, split, join)
    rp = os.environ.get('VERIF_REPLAY')
    if rp:
        r = json.load(open(rp))
        d.feed([r['case']] if 'case' in r else CORPUS)
        for x in d.oracle_fail + d.corr_fail:
            print('REPLAY: %s\n  impl  %s\n  model %s\n  spec  %s' % (x[4], x[1], x[2], x[3]))
        d.report()
        return

    def feed_all(cases, chunk=250):
        """chunked (first chunks small), stops as soon as the property has failed on a concrete
        input: a change that makes the library hang would otherwise cost the per-case watchdog
        thousands of times"""
        i, step = 0, 25
        while i < len(cases):
            if d.oracle_fail:
                return False
            d.feed(cases[i:i + step])
            i += step
            step = min(chunk, step * 2)
        return not d.oracle_fail

    d.feed(CORPUS, 'corpus')
    n = 1500 if quick else 40000
    maxops = 60 if quick else 120
    cases = [gen_case(ctx.rng, maxops if i % 3 else 12) for i in range(n)]
    dense = [gen_dense(ctx.rng, 40 if quick else 80) for i in range(n)]
    nt = 700 if quick else 20000
    typed = [gen_typed(ctx.rng, 60 if quick else 120) for i in range(nt)]
    ctx.cov['streams'] = {'mixed': n, 'dense': n, 'typed (element sizes 1, 4, 12, 20 and Int, as key and as value)': nt,
                          'corpus': len(CORPUS)}
    na = 700 if quick else 20000
    alias = [gen_alias(ctx.rng, 70 if quick else 120) for i in range(na)]
    ctx.cov['streams']['alias (arguments that point into the table: get results, iteration keys; M_PERTURB)'] = na
    ok = feed_all(cases) and feed_all(dense) and feed_all(typed) and feed_all(alias)
    if ok:
        # the aliasing histories once more under AddressSanitizer: a read from a freed or foreign slot
        # array aborts the case (an observation), whatever the bytes happen to be
        ctx.build_lib('asan', cflags=['-fsanitize=address', '-fno-omit-frame-pointer', '-O1'])
        ha = ctx.build_harness('table_wb.c', tag='asan', name='table_wb_asan', whitebox='Table',
                               extra=['-fsanitize=address', '-fno-omit-frame-pointer'])
        aenv = dict(os.environ, H_TIMEOUT='10', ASAN_OPTIONS='detect_leaks=0:abort_on_error=1:allocator_may_return_null=1')
        run_asan = retrying(ha, aenv, 40)
        da = vlib.Differential(ctx, 'table_asan', run_asan, run_model, run_spec, oracle, corr, nontrivial, split, join)
        nasan = 250 if quick else 5000
        ctx.cov['streams']['alias stream replayed under AddressSanitizer'] = nasan
        da.feed([c for c in CORPUS if any(o[0] in 'SKXGMR' for o in c.split('|', 1)[1].split())])
        for i in range(0, nasan, 250):
            if da.oracle_fail: break
            da.feed(alias[i:i + 250])
        if da.oracle_fail or da.corr_fail:
            da.report()
    if ok and not quick:
        t0 = __import__('time').time()
        cnt = 0; buf = []
        for c in small_scope():
            buf.append(c); cnt += 1
            if len(buf) >= 5000:
                if not feed_all(buf, 5000): break
                buf = []
        if buf: feed_all(buf, 5000)
        ctx.cov['exhaustive_small_scope'] = {
            'kind': 'bounded search (not a proof): validates the model against the library and looks for failing inputs',
            'scope': 'all sequences of 5 set/rem operations (every prefix compared step by step; rem of absent keys included) and all '
                     'sequences of 6 set/rem operations in which rem hits a present key, over 3 keys, for all 35 assignments of home '
                     'slots in a 5-slot table up to renaming of keys, each followed by get and mem of every key',
            'cases': cnt, 'oracle_failures': len(d.oracle_fail), 'correspondence_failures': len(d.corr_fail),
            'wall_s': round(__import__('time').time() - t0, 1)}

    def extra(dd):
        # directed search: continue the disagreeing cases, then fresh dense and mixed streams
        seeds = [x[0] for x in dd.corr_fail[:40]]
        conts = [c for s0 in seeds for c in continuations(ctx.rng, s0, 60)]
        dd.feed(conts[:250])
        if len(dd.oracle_fail) > 0: return
        for i in range(250, len(conts), 500):
            dd.feed(conts[i:i + 500])
            if dd.oracle_fail: return
        # the element sizes for which the layout theorems need Table_Size_Round to round up
        dd.feed([gen_typed(ctx.rng, 40) for _ in range(400)])
        if dd.oracle_fail: return
        for _ in range(10):
            dd.feed([gen_dense(ctx.rng, 60) for _ in range(1000)] + [gen_case(ctx.rng, 40) for _ in range(500)])
            if dd.oracle_fail: return
    d.report(extra)
