"""C11 — iteration agrees with len and get, forwards and backwards, for views too.

Case = an iterable expression in prefix form (see harness/iter_walk.c).  Three transcripts:
implementation (harness/iter_walk.c on the library built from the working tree), model (the
extracted Gallina cursor model, ocaml/Iter_driver.ml) and the specification, which is computed
HERE from the definitions in the property text (Python lists, Python range): it is not the model."""
import os, json
import vlib

INT64 = 2 ** 63


class Undef(Exception):
    """the property text does not define the expression (e.g. slice over an iterable without len)"""


# ------------------------------------------------------------------ expressions
LEAVES = ('arr', 'list', 'tup', 'tupr', 'tab', 'tree')
HISTS = {'arrh': 'arr', 'listh': 'list', 'tuph': 'tup', 'tabh': 'tab', 'treeh': 'tree'}   # containers after a mutation history


def p_ints(s):
    return [] if s == '-' else [int(x) for x in s.split(',')]


def p_args(s):
    return [] if s == '-' else [x if x == '_' else int(x) for x in s.split(',')]


def parse(toks, i=0):
    k = toks[i]
    if k in LEAVES:
        return {'k': k, 'xs': p_ints(toks[i + 1]), 'sub': []}, i + 2
    if k in HISTS:
        ops = [] if toks[i + 1] == '-' else toks[i + 1].split('/')
        e = {'k': HISTS[k], 'ops': ops, 'sub': []}
        e['xs'] = hist_list(e)             # None: the history is not defined (an operation is invalid)
        return e, i + 2
    if k == 'range':
        return {'k': k, 'args': p_args(toks[i + 1]), 'sub': []}, i + 2
    if k == 'slice':
        u, j = parse(toks, i + 2)
        return {'k': k, 'args': p_args(toks[i + 1]), 'sub': [u]}, j
    if k in ('rev', 'enum'):
        u, j = parse(toks, i + 1)
        return {'k': k, 'sub': [u]}, j
    if k == 'zip':
        n = int(toks[i + 1]); subs = []; j = i + 2
        for _ in range(n):
            u, j = parse(toks, j); subs.append(u)
        return {'k': k, 'sub': subs}, j
    if k in ('filter', 'map'):
        u, j = parse(toks, i + 2)
        return {'k': k, 'id': int(toks[i + 1]), 'sub': [u]}, j
    raise ValueError('bad token ' + k)


def parse_case(case):
    toks = case.split(' ')
    e, j = parse(toks)
    if j != len(toks):
        raise ValueError('trailing tokens')
    return e


def a_s(args):
    return ','.join(str(a) for a in args) if args else '-'


def apply_op(kind, xs, op):
    """the element list after one operation, as Array.c / List.c / Tuple.c define it for VALID arguments;
    Undef for anything that raises (or whose effect differs between the containers)"""
    c, a = op[0], op[1:]
    n = len(xs)
    if kind in ('tab', 'tree'):                       # xs = list of distinct keys (order irrelevant)
        if c == 'k':
            return xs if int(a) in xs else xs + [int(a)]
        if c == 'r':
            if int(a) not in xs: raise Undef('rem of an absent key')
            return [x for x in xs if x != int(a)]
        if c == 'z':
            if int(a) == 0: return []
            if kind == 'tree' or int(a) < n: raise Undef('resize')
            return xs
        raise Undef('operation ' + op)
    if c == 'p': return xs + [int(a)]
    if c == 'o':
        if not n: raise Undef('pop of an empty container')
        return xs[:-1]
    if c == 'x':
        i = int(a)
        if not 0 <= i < n: raise Undef('pop_at out of range')
        return xs[:i] + xs[i + 1:]
    if c == 'r':
        v = int(a)
        if v not in xs: raise Undef('rem of an absent value')
        i = xs.index(v); return xs[:i] + xs[i + 1:]
    if c == 'a':
        i, v = (int(t) for t in a.split(':'))
        ok = 0 <= i <= n if kind == 'arr' else (0 <= i < n or (kind == 'list' and i == 0))
        if not ok: raise Undef('push_at out of range')
        return xs[:i] + [v] + xs[i:]
    if c == 'z':
        m = int(a)
        if m < n: return xs[:m]
        if kind == 'arr': return xs                   # only reserves
        if kind == 'list': return xs + [0] * (m - n)  # appends zero Ints
        raise Undef('Tuple cannot be resized upwards')
    if c == 'c': return xs + p_ints(a or '-')
    if c == 's':
        if kind == 'list': raise Undef('List has no Sort')
        return sorted(xs)
    raise Undef('operation ' + op)


def hist_list(e):
    xs, ops = [], list(e['ops'])
    try:
        if ops and ops[0][:1] == 'n':
            if e['k'] in ('tab', 'tree'): return None
            xs = p_ints(ops[0][1:] or '-'); ops = ops[1:]
        for op in ops:
            if not op or op[0] == 'n': return None
            xs = apply_op(e['k'], xs, op)
        return xs
    except (Undef, ValueError):
        return None


def unparse(e):
    k = e['k']
    if k in LEAVES and 'ops' in e:
        return '%sh %s' % (k, '/'.join(e['ops']) if e['ops'] else '-')
    if k in LEAVES:
        return '%s %s' % (k, a_s(e['xs']))
    if k == 'range':
        return 'range ' + a_s(e['args'])
    if k == 'slice':
        return 'slice %s %s' % (a_s(e['args']), unparse(e['sub'][0]))
    if k in ('rev', 'enum'):
        return '%s %s' % (k, unparse(e['sub'][0]))
    if k == 'zip':
        return ' '.join(['zip %d' % len(e['sub'])] + [unparse(u) for u in e['sub']])
    return '%s %d %s' % (k, e['id'], unparse(e['sub'][0]))


def nodes(e):
    yield e
    for u in e['sub']:
        yield from nodes(u)


# ------------------------------------------------------------------ the specification
def wrap64(x):
    return (x + INT64) % (2 * INT64) - INT64


def key(v):
    return v if isinstance(v, int) else sum(key(x) for x in v)


class O(int):
    """an Int object with a registered identity: the elements of the leaf containers are numbered in the order the
    leaves (prefix order) yield them; -1 is the shared flag object.  A plain int is an object whose identity is of no
    interest (a Range's counter, a fresh object made by a map function or a predicate)."""
    def __new__(cls, z, oid):
        o = int.__new__(cls, z); o.oid = oid
        return o


FLAG = O(777, -1)
# a predicate ANSWERS with an object; None = NULL = reject.  0..5 answer with their own argument, 6..8 with another
# non-NULL object (shared flag, fresh box, fresh copy of the value): only NULL / non-NULL may matter to Filter
_self = lambda c: (lambda v: v if c(v) else None)
PREDS = [lambda v: v, lambda v: None, _self(lambda v: key(v) % 2 == 0), _self(lambda v: key(v) > 0),
         _self(lambda v: key(v) % 3 == 0), _self(lambda v: key(v) < 3),
         lambda v: FLAG if key(v) % 2 == 0 else None, lambda v: (v,) if key(v) > 0 else None,
         lambda v: int(key(v)) if key(v) % 3 == 0 else None]
FUNS = [lambda v: v, lambda v: key(v) + 100, lambda v: -key(v), lambda v: wrap64(key(v) * key(v)), lambda v: (v,),
        lambda v: FLAG, lambda v: int(key(v)), lambda v: v]
PROBE = 7       # map 7 = the identity that records what it is applied to: makes the accesses of the view above it observable


def accepts(pid, v):
    return PREDS[pid % len(PREDS)](v) is not None


def show(v):
    if isinstance(v, O):
        return '%d@%d' % (v, v.oid)
    return str(v) if isinstance(v, int) else '(' + ' '.join(show(x) for x in v) + ')'


class LeafCtx:
    def __init__(self, leaves):
        self.leaves, self.n = leaves, 0

    def objs(self, xs):
        out = [O(int(x), self.n + i) for i, x in enumerate(xs)]
        self.n += len(xs)
        return out


def haslen(e):
    k = e['k']
    if k in LEAVES or k in ('range', 'slice', 'rev'):
        return True
    if k == 'filter':
        return False
    return all(haslen(u) for u in e['sub'])          # zip (also of nothing), enum, map


def hasget(e):
    k = e['k']
    if k in ('arr', 'list', 'tup', 'tupr', 'range'):
        return True
    if k in ('tab', 'tree', 'filter'):
        return False                                  # keyed get / no get: "where get is defined" does not apply
    return all(hasget(u) for u in e['sub'])


def range_params(args):
    n = len(args)
    if n == 0:
        return 0, 0, 1
    if '_' in args[1:2] or (n == 1 and args[0] == '_'):
        raise Undef('omitted stop')
    if n == 1:
        return 0, args[0], 1
    start = 0 if args[0] == '_' else args[0]
    step = 1 if n < 3 or args[2] == '_' else args[2]
    return start, args[1], step


def positions(start, stop, step):
    """the integers a range / a slice selects: start, start+step, .. below stop;
    for a negative step from the other end: stop-1, stop-1+step, .. not below start"""
    if step == 0:
        raise Undef('step 0')
    r = range(start, stop, step) if step > 0 else range(stop - 1, start - 1, step)
    if len(r) > 4000:
        raise Undef('longer than the walks of the harness (cut off at 10004 items)')
    return list(r)


def slice_arg(part, n, a):
    if a == '_':
        return (0, n, 1)[part]
    if part == 2:
        return a
    if a < 0:
        a += n
    return max(0, min(n, a))


def slice_params(args, n):
    k = len(args)
    if k == 0:
        return 0, n, 1
    if k == 1:
        return 0, slice_arg(1, n, args[0]), 1
    if k == 2:
        return slice_arg(0, n, args[0]), slice_arg(1, n, args[1]), 1
    return slice_arg(0, n, args[0]), slice_arg(1, n, args[1]), slice_arg(2, n, args[2])


def ev(e, leaves):
    """the list of items the expression denotes; `leaves` = iterator over the observed forward
    sequences of the Table/Tree leaves (their order is not fixed by this property)"""
    k = e['k']
    if not isinstance(leaves, LeafCtx):
        leaves = LeafCtx(leaves)
    if k in LEAVES and e['xs'] is None:
        raise Undef('history with an invalid operation')
    if k == 'tupr':
        return list(e['xs'])
    if k in ('arr', 'list', 'tup'):
        return leaves.objs(e['xs'])               # the yielded items ARE the stored elements (identity)
    if k in ('tab', 'tree'):
        return leaves.objs(next(leaves.leaves))
    if k == 'range':
        return positions(*range_params(e['args']))
    if k in ('slice', 'rev'):
        u = e['sub'][0]
        xs = ev(u, leaves)
        if not haslen(u):
            raise Undef('slice over an iterable without len')
        st = slice_params(e['args'], len(xs)) if k == 'slice' else (0, len(xs), -1)
        return [xs[p] for p in positions(*st)]
    if k == 'zip':
        cols = [ev(u, leaves) for u in e['sub']]
        return [tuple(t) for t in zip(*cols)] if cols else []
    if k == 'enum':
        u = e['sub'][0]
        xs = ev(u, leaves)
        if not haslen(u):
            raise Undef('enumerate over an iterable without len')
        return [(i, x) for i, x in enumerate(xs)]
    if k == 'filter':
        return [x for x in ev(e['sub'][0], leaves) if accepts(e['id'], x)]     # the accepted ELEMENTS themselves
    if k == 'map':
        return [FUNS[e['id'] % len(FUNS)](x) for x in ev(e['sub'][0], leaves)]
    raise ValueError(k)


def has_probe(e):
    return any(n['k'] == 'map' and n['id'] % len(FUNS) == PROBE for n in nodes(e))


def access_spec(e, ctx):
    """(forward, backward): the items of the input of a probe (map 7 X) that a full forward / backward walk of the view e
    touches, in order - where the property text and the definitions fix them; None = nothing demanded (compared with the
    model only).  Rules: Map / Filter / enumerate walk their input completely, once, in walking order.  A Slice enters its
    input from the end its walk starts at and never goes beyond the far end of its selection: a walk entering at the front
    touches positions 0..hi, one entering at the back n-1..lo (lo, hi = lowest / highest selected position), nothing if
    nothing is selected: 'a view never reads outside the part it selects' + no look-ahead once its own Range is exhausted."""
    k = e['k']
    if not has_probe(e):
        ev(e, ctx)                                 # keeps the identity numbering in step
        return [], []
    if sum(1 for n in nodes(e) if n['k'] == 'map' and n['id'] % len(FUNS) == PROBE) > 1:
        return None                                # several probes write one log: compared with the model only
    if k == 'map' and e['id'] % len(FUNS) == PROBE and not has_probe(e['sub'][0]):
        xs = ev(e['sub'][0], ctx)
        return xs, xs[::-1]
    if k in ('filter', 'map') or (k == 'enum' and haslen(e['sub'][0])):
        return access_spec(e['sub'][0], ctx)
    if k in ('slice', 'rev'):
        u = e['sub'][0]
        if u['k'] == 'map' and u['id'] % len(FUNS) == PROBE and not has_probe(u['sub'][0]) and haslen(u):
            xs = ev(u['sub'][0], ctx)
            st = slice_params(e['args'], len(xs)) if k == 'slice' else (0, len(xs), -1)
            sel = positions(*st)
            if not sel:
                return [], []
            front, back = xs[:max(sel) + 1], xs[min(sel):][::-1]
            return (front, back) if st[2] > 0 else (back, front)
    return None


def sections(line):
    d = {}
    for part in line.split(';'):
        if '=' in part:
            a, b = part.split('=', 1)
            d[a] = b
    return d


def items(s):
    return [] if s == '' else s.split(',')


def oracle(case, impl, spec=None):
    """None, or the sentence saying what the property demands and the implementation does not do."""
    try:
        e = parse_case(case)
    except Exception:
        return None
    died = None
    for mark in (' | CRASH(', ' | TIMEOUT', ' | EXIT('):
        if mark in impl:
            impl, died = impl[:impl.index(mark)], impl[impl.index(mark) + 3:]
    d = sections(impl)
    if died and 'build' not in d:
        # the child died in the middle of a section: every section before it is complete and judged as usual below
        names = {'len': 'len', 'leaf': 'the walk of a Table/Tree leaf', 'fwd': 'forward iteration', 'bwd': 'backward iteration',
                 'af': 'forward iteration', 'ab': 'backward iteration', 'get': 'get(0..len-1)', 'gx': 'get beyond the ends', 'sl': 'the dump', 'tab': 'the dump', 'hist': 'the dump'}
        order = ['len', 'leaf', 'fwd', 'af', 'bwd', 'ab', 'get', 'gx', 'sl', 'tab', 'hist']
        missing = [k for k in order if k not in d]
        last = order[order.index(missing[0]) - 1] if missing and missing[0] != 'len' else None
        # the section that was being printed is the first missing one (its header is flushed only with its content)
        died_in = missing[0] if missing else 'hist'
        died_msg = '%s: the harness child ended with %s' % (names[died_in], died)
    else:
        died_msg = None
    if 'build' in d:
        try:
            ev(e, iter([[]] * 99))
        except Undef:
            return None
        except Exception:
            pass
        return 'construction raised %s' % d['build']
    if any(n['k'] in LEAVES and n['xs'] is None for n in nodes(e)):
        return None                     # a history with an invalid operation: nothing is demanded
    if d.get('hist', '0') != '0':
        return None                     # an operation of the history raised (C04/C12's business): the list is not defined
    if 'len' not in d:
        return died_msg or 'no transcript: %s' % impl[-80:]
    # Table / Tree leaves: any order, but exactly the distinct keys
    lv = []
    leaf_nodes = [n for n in nodes(e) if n['k'] in ('tab', 'tree')]
    if leaf_nodes:
        obs = d.get('leaf', '').split('/')
        if len(obs) != len(leaf_nodes):
            return 'leaf walks missing: %s' % impl[-80:]
        for n, o in zip(leaf_nodes, obs):
            its = items(o)
            want = sorted(set(n['xs']))
            try:
                got = [int(x.split('@')[0]) for x in its]
            except ValueError:
                return '%s leaf: forward walk %s' % (n['k'], o)
            if sorted(got) != want:
                return '%s leaf: forward walk yields %s, keys are %s' % (n['k'], o, want)
            lv.append(got)
    try:
        want = [show(v) for v in ev(e, iter(lv))]
    except Undef:
        return None
    if haslen(e) and d['len'] != str(len(want)):
        return 'len is %s, the definition selects %d items' % (d['len'], len(want))
    for sec, w, what in (('fwd', want, 'forward iteration'), ('bwd', want[::-1], 'backward iteration')):
        if sec not in d:
            return died_msg or '%s: no result (%s)' % (what, impl[-60:])
        if items(d[sec]) != w:
            return '%s yields %s, must be %s' % (what, d[sec][:200], ','.join(w)[:200])
    if 'af' in d and 'ab' in d:
        try:
            acc = access_spec(e, LeafCtx(iter(lv)))
        except Undef:
            acc = None
        if acc is not None:
            for sec, w, what in (('af', acc[0], 'the forward walk'), ('ab', acc[1], 'the backward walk')):
                w = [show(v) for v in w]
                if items(d[sec]) != w:
                    return '%s touches the items %s of the probed input, must touch exactly %s' % (what, d[sec][:200] or 'none', ','.join(w)[:200] or 'none')
    if haslen(e) and hasget(e):
        if 'get' not in d:
            return died_msg or 'get: no result (%s)' % impl[-60:]
        if items(d['get']) != want:
            return 'get(0..len-1) yields %s, forward iteration %s' % (d['get'][:200], ','.join(want)[:200])
    if e['k'] == 'range' and 'gx' in d and d['gx'] != '-':
        # Range_Get beyond 0..len-1: keys -1 and -len count from the end, everything outside [-len, len) raises
        n = len(want)
        oob = 'E:IndexOutOfBoundsError'
        wx = [want[-1] if n else oob, want[0] if n else oob, oob, oob, oob, oob]
        if items(d['gx']) != wx:
            return 'get at -1,-len,-len-1,len,INT64_MAX,INT64_MIN yields %s, must be %s' % (d['gx'], ','.join(wx))
    if 'tab' not in d:
        return died_msg or 'transcript incomplete: %s' % impl[-80:]
    return died_msg


def spec_line(case):
    """the specification's transcript (for replay files; the oracle recomputes it)"""
    try:
        e = parse_case(case)
        if any(n['k'] in LEAVES and n['xs'] is None for n in nodes(e)):
            raise Undef('history with an invalid operation')
        lv = [sorted(set(n['xs'])) for n in nodes(e) if n['k'] in ('tab', 'tree')]
        want = [show(v) for v in ev(e, iter(lv))]
        return 'len=%s;fwd=%s;bwd=%s;get=%s' % (len(want) if haslen(e) else 'undefined', ','.join(want), ','.join(want[::-1]),
                                             ','.join(want) if haslen(e) and hasget(e) else '-') + \
               (' (Table/Tree leaves: any order)' if lv else '')
    except Undef as u:
        return 'undefined: %s' % u
    except Exception as x:
        return 'BADCASE %r' % x


def corr(case, impl, model):
    if impl == model:
        return None
    a, b = sections(impl), sections(model)
    for k in ('build', 'len', 'leaf', 'fwd', 'af', 'bwd', 'ab', 'get', 'gx', 'sl', 'tab', 'hist'):
        if a.get(k) != b.get(k):
            return 'section %s: implementation %s / model %s' % (k, str(a.get(k))[:200], str(b.get(k))[:200])
    return 'implementation %s / model %s' % (impl[-100:], model[-100:])


# ------------------------------------------------------------------ features (what counts as non-trivial)
def feats(e):
    """boundary predicates a case exercises (also the histogram in the evidence)"""
    f = set()
    try:
        if any(n['k'] in LEAVES and n['xs'] is None for n in nodes(e)):
            raise Undef('history')
        for n in nodes(e):
            if 'ops' in n:
                hist_feats(n, f)
        lv = [sorted(set(n['xs'])) for n in nodes(e) if n['k'] in ('tab', 'tree')]
        it = iter(lv)

        def go(n):
            k = n['k']
            subs = [go(u) for u in n['sub']] if k not in ('tab', 'tree') else []
            if k in ('tab', 'tree'):
                xs = next(it)
            elif k in ('arr', 'list', 'tup', 'tupr'):
                xs = list(n['xs'])
            elif k == 'range':
                st = range_params(n['args']); xs = positions(*st)
                f.add('range')
                if st[2] < 0: f.add('range-negative-step')
                if st[1] <= st[0]: f.add('range-empty')
                elif (st[1] - st[0]) % abs(st[2]): f.add('range-length-not-divisible-by-step')
                if '_' in n['args']: f.add('range-omitted-arg')
            elif k in ('slice', 'rev'):
                u = subs[0]; ln = len(u)
                args = n['args'] if k == 'slice' else ['_', '_', -1]
                st = slice_params(args, ln); xs = [u[p] for p in positions(*st)]
                f.add('slice')
                if st[2] < 0: f.add('slice-negative-step')
                if abs(st[2]) > 1 and st[1] > st[0] and (st[1] - st[0]) % abs(st[2]): f.add('slice-length-not-divisible-by-step')
                if any(a != '_' and a < 0 for a in args[:2]): f.add('slice-negative-from-end')
                if any(a != '_' and (a > ln or a < -ln) for a in args[:2]): f.add('slice-beyond-the-ends')
                if '_' in args or len(args) < 3: f.add('slice-omitted-arg')
                if u and not xs: f.add('slice-empty-selection')
                if st[1] < ln and st[2] > 0: f.add('slice-stops-before-the-end')
                if n['sub'][0]['k'] in ('slice', 'rev', 'zip', 'enum', 'filter', 'map'): f.add('view-of-view')
            elif k == 'zip':
                xs = [tuple(t) for t in zip(*subs)] if subs else []
                f.add('zip-%d' % min(len(subs), 4))
                if len(set(len(s) for s in subs)) > 1: f.add('zip-unequal-lengths')
                if any(u['k'] in ('slice', 'rev', 'zip', 'enum', 'filter', 'map') for u in n['sub']): f.add('view-of-view')
            elif k == 'enum':
                xs = list(enumerate(subs[0])); f.add('enumerate')
            elif k == 'filter':
                p = lambda x, _i=n['id']: accepts(_i, x)
                xs = [x for x in subs[0] if p(x)]; f.add('filter')
                if n['id'] % len(PREDS) >= 6:
                    f.add('filter-answer-is-another-object')
                    if len(xs) >= 2: f.add('filter-answer-is-another-object-2-accepted')
                if subs[0] and not p(subs[0][-1]): f.add('filter-rejects-last')
                if subs[0] and not p(subs[0][0]): f.add('filter-rejects-first')
                if subs[0] and not xs: f.add('filter-rejects-all')
                if n['sub'][0]['k'] in ('slice', 'rev', 'zip', 'enum', 'filter', 'map'): f.add('view-of-view')
            else:
                fn = FUNS[n['id'] % len(FUNS)]
                xs = [fn(x) for x in subs[0]]; f.add('map')
                if n['id'] % len(FUNS) >= 5: f.add('map-result-is-shared-or-copy')
                if n['sub'][0]['k'] in ('slice', 'rev', 'zip', 'enum', 'filter', 'map'): f.add('view-of-view')
            if k in LEAVES:
                f.add(k + ('-empty' if not xs else '-one' if len(xs) == 1 else '-many'))
            return xs
        go(e)
    except Undef:
        f.add('undefined')
    except Exception:
        pass
    return f


def hist_feats(n, f):
    """boundary predicates of a mutation history"""
    k = n['k']; f.add('history-' + k)
    xs, ops = [], list(n['ops'])
    if ops and ops[0][:1] == 'n':
        xs = p_ints(ops[0][1:] or '-'); ops = ops[1:]
    emptied = False
    for op in ops:
        m = len(xs); c = op[0]
        if k in ('tab', 'tree'):
            if c == 'r': f.add('history-rem-key')
            if c == 'z': f.add('history-cleared')
        else:
            if (c == 'x' and op[1:] == '0' and m >= 2) or (c == 'r' and m >= 2 and xs[0] == int(op[1:])): f.add('history-head-removed')
            if c == 'o' or (c == 'x' and int(op[1:]) == m - 1) or (c == 'r' and xs and xs.index(int(op[1:])) == m - 1): f.add('history-tail-removed')
            if (c == 'x' and 0 < int(op[1:]) < m - 1): f.add('history-middle-removed')
            if c == 'a': f.add('history-push_at-' + ('head' if op[1:].startswith('0:') else 'inner'))
            if c in 'zcs': f.add('history-' + {'z': 'resize', 'c': 'concat', 's': 'sort'}[c])
        xs = apply_op(k, xs, op)
        if m and not xs: emptied = True
        if emptied and xs: f.add('history-emptied-and-refilled')
    if not xs: f.add('history-ends-empty')


FEAT_HIST = {}


def nontrivial(case, impl):
    try:
        f = feats(parse_case(case))
    except Exception:
        return False
    for x in f:
        FEAT_HIST[x] = FEAT_HIST.get(x, 0) + 1
    return bool(f - {'undefined'})


# ------------------------------------------------------------------ known findings (predicates on the INPUT)
def classify(case, impl, why):
    try:
        e = parse_case(case)
    except Exception:
        return None
    for n in nodes(e):
        if n['k'] == 'tupr' and len(set(n['xs'])) != len(n['xs']):
            return 'tuple-repeated-pointer'
    for n in nodes(e):
        if n['k'] in ('range', 'slice') and any(a != '_' and abs(a) >= 2 ** 62 for a in n['args']):
            return 'range-int64-overflow'
    if 'backward' in why:
        for n in nodes(e):
            if n['k'] == 'zip' and any(not haslen(u) and u['k'] != 'filter' for u in n['sub']):
                return 'zip-backward-input-without-len'
    return None


# ------------------------------------------------------------------ structural shrinking
def shrink_candidates(e):
    """smaller expressions, most aggressive first"""
    for u in e['sub']:
        yield u
    k = e['k']
    if k in LEAVES and 'ops' in e:
        ops = e['ops']
        mk = lambda o: (lambda n: dict(n, xs=hist_list(n)))(dict(e, ops=o))
        if e['xs'] is not None:
            yield {'k': k, 'xs': list(e['xs']), 'sub': []}          # the same elements, freshly built
        for i in range(len(ops) - 1, -1, -1):
            c = mk(ops[:i] + ops[i + 1:])
            if c['xs'] is not None: yield c
        for i, op in enumerate(ops):                                 # shorter element lists inside n.. / c..
            if op[0] in 'nc' and ',' in op:
                vs = op[1:].split(',')
                for j in range(len(vs)):
                    c = mk(ops[:i] + [op[0] + ','.join(vs[:j] + vs[j + 1:])] + ops[i + 1:])
                    if c['xs'] is not None: yield c
        return
    if k in LEAVES:
        xs = e['xs']
        if len(xs) > 1:
            yield dict(e, xs=xs[:len(xs) // 2])
            yield dict(e, xs=xs[len(xs) // 2:])
        for i in range(len(xs)):
            yield dict(e, xs=xs[:i] + xs[i + 1:])
        for i, x in enumerate(xs):
            if k != 'tupr' and x not in (0, 1, 2, 3) and (i + 1) not in xs:
                yield dict(e, xs=xs[:i] + [i + 1] + xs[i + 1:])
    if k in ('range', 'slice'):
        a = e['args']
        if a:
            yield dict(e, args=a[:-1])
        for i, x in enumerate(a):
            if x == '_':
                continue
            for y in ('_', 0, 1, -1, x // 2, x - 1 if x > 0 else x + 1):
                if y != x and (y == '_' or abs(y) < abs(x) or (y != '_' and abs(y) == 1 and abs(x) > 1)):
                    yield dict(e, args=a[:i] + [y] + a[i + 1:])
    if k == 'zip':
        for i in range(len(e['sub'])):
            yield dict(e, sub=e['sub'][:i] + e['sub'][i + 1:])
    if k in ('filter', 'map') and e['id'] != 0:
        yield dict(e, id=0)
    for i, u in enumerate(e['sub']):
        for c in shrink_candidates(u):
            yield dict(e, sub=e['sub'][:i] + [c] + e['sub'][i + 1:])


def shrink(case, fails, budget=400, seconds=60):
    import time
    t0 = time.time()
    try:
        e = parse_case(case)
    except Exception:
        return case
    improved = True
    while improved and budget > 0 and time.time() - t0 < seconds:
        improved = False
        for c in shrink_candidates(e):
            budget -= 1
            if budget <= 0 or time.time() - t0 > seconds:
                break
            s = unparse(c)
            try:
                bad = len(s) < len(unparse(e)) + 2 and s != unparse(e) and fails(s)
            except Exception:
                bad = False
            if bad:
                e = c; improved = True
                break
    return unparse(e)


# ------------------------------------------------------------------ generators
KINDS = ('arr', 'list', 'tup', 'tab', 'tree')


def contents(rng, n, kind):
    if kind in ('tab', 'tree'):
        return rng.sample(range(-20, 60), n)
    style = rng.randrange(3)
    if style == 0:
        return list(range(1, n + 1))
    if style == 1:
        return [rng.randrange(-9, 10) for _ in range(n)]
    return [rng.choice([0, 1, 2, 3, -1, 5, 6, 7]) for _ in range(n)]


TAB_KEYS = [0, 1265, 2530, 3795, 5060, 6325, 1, 1266, 2531, 4, 1269, 2534, 5, 10, 11, 22, 23, 46, -1, 7]   # 1265 = 5*11*23


def gen_history(rng, kind, maxops=12):
    """a VALID mutation history (<= maxops operations) of one container; head/tail removal, emptying and refilling
    are frequent.  Returns the expression node."""
    ops, xs = [], []
    style = rng.choice(['mixed', 'mixed', 'head', 'tail', 'drain', 'grow'])
    if kind in ('tab', 'tree'):
        pool = TAB_KEYS if kind == 'tab' else list(range(-3, 14))
        nops = rng.randrange(1, maxops + 1)
        fill = rng.randrange(2, 9) if style in ('drain', 'grow', 'head') else rng.randrange(0, 4)
        while len(ops) < nops:
            r = rng.random()
            if len(ops) < fill or not xs and r < .8:
                op = 'k%d' % rng.choice(pool)
            elif style == 'drain' and xs and r < .85:
                op = 'r%d' % rng.choice([xs[0], xs[-1], rng.choice(xs)])
            elif r < .45 and xs:
                op = 'r%d' % rng.choice([xs[0], xs[0], xs[-1], rng.choice(xs)])     # the first inserted key is often the Tree root
            elif r < .55:
                op = 'z0' if kind == 'tree' or rng.random() < .6 else 'z%d' % (len(xs) + rng.choice([0, 1, 9, 20]))
            else:
                op = 'k%d' % rng.choice(pool)
            xs = apply_op(kind, xs, op); ops.append(op)
        e = {'k': kind, 'ops': ops, 'sub': []}
        e['xs'] = hist_list(e)
        return e
    val = lambda: rng.choice([0, 1, 2, 3, 4, 5, 6, 7, rng.randrange(-9, 10)])
    if rng.random() < .75:
        xs = [val() for _ in range(rng.choice([1, 2, 2, 3, 3, 4, 5, 6]))]
        ops.append('n' + a_s(xs))
    nops = rng.randrange(1, maxops + 1)
    for _ in range(nops):
        n = len(xs); r = rng.random()
        cand = []
        if n:
            cand += ['x0', 'r%d' % xs[0]] * (4 if style in ('head', 'drain') else 2)                       # head removal
            cand += ['o', 'x%d' % (n - 1), 'r%d' % xs[-1]] * (3 if style in ('tail', 'drain') else 1)        # tail removal
            if n > 2: cand += ['x%d' % rng.randrange(1, n - 1), 'r%d' % xs[rng.randrange(1, n - 1)]]       # middle
            cand += ['a0:%d' % val(), 'a%d:%d' % (n - 1, val()), 'a%d:%d' % (rng.randrange(0, n), val())]
            cand += ['z%d' % rng.randrange(0, n), 'z0']
        if style != 'drain' or not n:
            cand += ['p%d' % val()] * (3 if style == 'grow' or not n else 2)
            cand += ['c%s' % a_s([val() for _ in range(rng.randrange(0, 4))])]
            if kind == 'list' or kind == 'arr': cand += ['z%d' % (n + rng.randrange(0, 4))]
            if kind == 'list' and not n: cand += ['a0:%d' % val()]
            if kind == 'arr': cand += ['a%d:%d' % (n, val())]
        if kind in ('arr', 'tup') and n > 1: cand += ['s']
        op = rng.choice(cand)
        try:
            xs = apply_op(kind, xs, op)
        except Undef:
            continue
        ops.append(op)
    e = {'k': kind, 'ops': ops, 'sub': []}
    e['xs'] = hist_list(e)
    return e


def gen_answer(rng, maxlen=9):
    """a Filter (or Map) whose predicate (function) answers with an object other than its argument, somewhere in a nest"""
    u = gen_expr(rng, rng.choice([0, 0, 1, 1, 2]), maxlen)
    e = {'k': 'filter', 'id': rng.choice([6, 7, 8]), 'sub': [u]} if rng.random() < .8 else {'k': 'map', 'id': rng.choice([5, 6]), 'sub': [u]}
    r = rng.random()
    if r < .2: e = {'k': 'map', 'id': rng.choice([0, 1, 4, 5, 6]), 'sub': [e]}
    elif r < .4: e = {'k': 'filter', 'id': rng.randrange(len(PREDS)), 'sub': [e]}
    elif r < .55: e = {'k': 'zip', 'sub': [e, {'k': 'range', 'args': [rng.randrange(0, 12)], 'sub': []}][::rng.choice([1, -1])]}
    elif r < .6: e = {'k': 'zip', 'sub': [e]}
    return e


def gen_probe(rng, maxlen=9):
    """a view over map(probe, X): the accesses of the view to X become observable"""
    x = gen_history(rng, rng.choice(KINDS), 6) if rng.random() < .2 else leaf(rng, maxlen)
    pr = {'k': 'map', 'id': PROBE, 'sub': [x]}
    r = rng.random()
    try:
        n = len(ev(x, iter([sorted(set(y['xs'])) for y in nodes(x) if y['k'] in ('tab', 'tree')])))
    except Exception:
        n = 3
    if r < .55: e = {'k': 'slice', 'args': slice_args(rng, n), 'sub': [pr]}
    elif r < .65: e = {'k': 'rev', 'sub': [pr]}
    elif r < .75: e = {'k': 'filter', 'id': rng.randrange(len(PREDS)), 'sub': [pr]}
    elif r < .85: e = {'k': 'zip', 'sub': [pr, {'k': 'range', 'args': [rng.randrange(0, 9)], 'sub': []}][::rng.choice([1, -1])]}
    elif r < .9: e = {'k': 'enum', 'sub': [pr]}
    else: e = {'k': 'map', 'id': rng.randrange(len(FUNS)), 'sub': [pr]}
    r = rng.random()
    if r < .15: e = {'k': 'slice', 'args': slice_args(rng, 4), 'sub': [e]}
    elif r < .25: e = {'k': 'filter', 'id': rng.randrange(len(PREDS)), 'sub': [e]}
    elif r < .3: e = {'k': 'rev', 'sub': [e]}
    return e


def probe_boundary():
    out = []
    for u in ('arr 1,2,3,4', 'list 1,2,3,4,5', 'tup 1,2,3', 'tab 1,2,3,4', 'tree 1,2,3,4', 'range 5', 'listh n1,2,3,4/x0/p9', 'arr -', 'arr 7'):
        for a in ('0,2', '1,3', '_,_,2', '1,_,2', '_,_,3', '_,-1', '_,_,-1', '_,_,-2', '1,-1,-2', '2', '3,1', '-2,_', '_,_,5', '0,0'):
            out.append('slice %s map 7 %s' % (a, u))
        out += ['rev map 7 %s' % u, 'map 7 %s' % u, 'filter 2 map 7 %s' % u, 'enum map 7 %s' % u, 'zip 2 map 7 %s range 2' % u,
                'zip 2 range 2 map 7 %s' % u, 'slice 0,2 filter 0 map 7 %s' % u, 'filter 6 slice 1,3 map 7 %s' % u, 'slice 0,1 slice 0,3 map 7 %s' % u]
    return out


def answer_boundary():
    """predicates 6..8 (accepting answer = another non-NULL object) and map functions 5..6 over every underlying
    iterable and in nested views; at least two accepted elements"""
    out = []
    unders = ['arr 1,2,3,4,5,6,8,9', 'list 2,4,7,10,11,12', 'tup 0,1,2,3,4,5,6', 'tab 2,3,4,6,9,12', 'tree 2,3,4,6,9,12', 'range 1,13',
              'range 12,0,-1'.replace('12,0', '0,13'), 'listh n1,2,3,4,6/x0/p12', 'arrh n6,3,2,4/s/p12', 'tuph n1,2,4,6/x0', 'tabh k2/k4/k6/k3/r3/k12',
              'treeh k6/k2/k4/k12/r6/k3', 'slice 1,_ arr 1,2,3,4,6,12', 'rev list 1,2,3,4,6,12', 'map 0 arr 2,3,4,6,12', 'map 1 arr 2,4,8,14',
              'zip 2 arr 1,1,2,3 list 1,2,2,3', 'enum arr 1,2,3,4,5', 'filter 3 arr -2,2,3,4,6,12', 'filter 6 arr 2,3,4,6,12']
    for u in unders:
        for p in (6, 7, 8):
            out += ['filter %d %s' % (p, u), 'map 0 filter %d %s' % (p, u), 'filter %d map 6 %s' % (p, u), 'filter 2 filter %d %s' % (p, u),
                    'filter %d filter 0 %s' % (p, u), 'zip 2 filter %d %s range 9' % (p, u), 'zip 2 range 9 filter %d %s' % (p, u)]
        out += ['map 5 %s' % u, 'map 6 %s' % u, 'filter 6 map 5 %s' % u, 'map 6 filter 8 %s' % u]
        if not u.startswith('filter'):
            out += ['enum map 6 %s' % u]
    return out


def history_boundary():
    out = []
    for k in ('arrh', 'listh', 'tuph'):
        out += ['%s %s' % (k, h) for h in (
            '-', 'p1', 'n1/o', 'n1/x0', 'n1/r1', 'n1,2/x0', 'n1,2/o', 'n1,2/r1', 'n1,2/r2', 'n1,2,3/x0', 'n1,2,3/x1', 'n1,2,3/x2',
            'n1,2,3/r1', 'n1,2,3/r2', 'n1,2,3/r3', 'n1,2,3/x0/x0', 'n1,2,3/x0/x0/x0', 'n1,2,3/x0/x0/x0/p4/p5', 'n1,2,3/o/o/o/p4',
            'n1,2,3/a0:9', 'n1,2,3/a1:9', 'n1,2,3/a2:9', 'n1,2,3/x0/a0:9', 'n1,2,3/z2', 'n1,2,3/z0/p7/p8', 'n1,2,3/z1/p5',
            'n1,2,3/c4,5', 'n1,2/c-', 'c1,2,3/x0', 'p1/p2/p3/x0/p4/x0/o', 'n1,2,3,4,5/x0/x3/x1', 'n5,5,5/r5/r5', 'n1,2,3/x0/c7,8/x0/o')]
    out += ['arrh n3,1,2/s', 'arrh n3,1,2/s/x0/p0/s', 'tuph n3,1,2/s/x0', 'arrh n1,2/z9/p3/x0', 'arrh n1,2,3/a3:9/x0', 'listh n1,2/z4/x0/o',
            'listh a0:1/a0:2/x0', 'listh n1,2,3/x0/z5/x0', 'rev listh n1,2,3/x0', 'slice 1,_ listh n1,2,3,4/x0', 'zip 2 listh n1,2,3/x0 arrh n1,2,3/x0',
            'filter 2 listh n1,2,3,4/x0/x0', 'map 1 tuph n1,2,3/x0/a0:9', 'enum arrh n1,2,3/o/p7']
    out += ['tabh -', 'tabh k1', 'tabh k1/r1', 'tabh k1/r1/k2', 'tabh k0/k1265/k2530/r0', 'tabh k0/k1265/k2530/r1265', 'tabh k0/k1265/k2530/r2530/k0',
            'tabh k4/k1269/k2534/r4/k9', 'tabh k1/k2/k3/k4/k5/r1/r2/r3', 'tabh k1/k2/k3/k4/k5/r5/r4/r3/r2/r1/k7', 'tabh k1/k2/z0/k3/k4', 'tabh k1/k2/z9/r1',
            'tabh k0/k5/k10/k15/r0/r5', 'rev tabh k0/k1265/k2530/r0', 'treeh -', 'treeh k1', 'treeh k1/r1', 'treeh k1/r1/k2', 'treeh k5/k3/k8/r5',
            'treeh k5/k3/k8/k1/k4/k7/k9/r3', 'treeh k5/k3/k8/k1/k4/k7/k9/r5/r8', 'treeh k1/k2/k3/k4/k5/k6/r1/r2/r3/r4/r5/r6/k3', 'treeh k5/k3/z0/k2/k9',
            'treeh k3/k2/k1/r3/r2', 'rev treeh k5/k3/k8/k1/r5', 'slice _,_,2 treeh k5/k3/k8/k1/k9/r5']
    return out


def leaf(rng, maxlen):
    if rng.random() < .25:
        return gen_history(rng, rng.choice(KINDS), 8)
    kind = rng.choice(KINDS + ('arr', 'range', 'range'))
    if kind == 'range':
        return {'k': 'range', 'args': range_args(rng, max(3, maxlen)), 'sub': []}
    n = rng.choice([0, 1, 2, 3, rng.randrange(0, maxlen + 1), rng.randrange(0, maxlen + 1)])
    return {'k': kind, 'xs': contents(rng, min(n, maxlen), kind), 'sub': []}


def small(rng, b):
    return rng.choice([0, 1, -1, 2, -2, b, -b, b + 1, -b - 1, rng.randrange(-b - 3, b + 4), rng.randrange(-b - 3, b + 4)])


def step(rng, b):
    return rng.choice([1, -1, 2, -2, 3, -3, b, -b, b + 1, rng.choice([-1, 1]) * rng.randrange(1, b + 3)]) or 1


def range_args(rng, b):
    r = rng.random()
    if r < .05:
        return []
    if r < .2:
        return [small(rng, b)]
    if r < .4:
        return [rng.choice(['_', small(rng, b)]), small(rng, b)]
    return [rng.choice(['_', small(rng, b), small(rng, b)]), small(rng, b), rng.choice(['_', step(rng, b), step(rng, b), step(rng, b)])]


def slice_args(rng, n):
    r = rng.random()
    if r < .05:
        return []
    if r < .2:
        return [rng.choice(['_', small(rng, n)])]
    if r < .35:
        return [rng.choice(['_', small(rng, n)]), rng.choice(['_', small(rng, n)])]
    return [rng.choice(['_', small(rng, n), small(rng, n)]), rng.choice(['_', small(rng, n), small(rng, n)]),
            rng.choice(['_', step(rng, n), step(rng, n), step(rng, n)])]


def gen_expr(rng, depth, maxlen, need_len=False):
    if depth == 0 or rng.random() < .12:
        return leaf(rng, maxlen)
    ch = ['slice', 'slice', 'rev', 'zip', 'enum', 'map', 'map'] + ([] if need_len else ['filter', 'filter'])
    k = rng.choice(ch)
    if k == 'slice':
        u = gen_expr(rng, depth - 1, maxlen, True)
        try:
            n = len(ev(u, iter([sorted(set(x['xs'])) for x in nodes(u) if x['k'] in ('tab', 'tree')])))
        except Exception:
            n = 3
        return {'k': 'slice', 'args': slice_args(rng, n), 'sub': [u]}
    if k in ('rev', 'enum'):
        return {'k': k, 'sub': [gen_expr(rng, depth - 1, maxlen, True)]}
    if k == 'zip':
        n = rng.choice([0, 1, 2, 2, 2, 3, 3, 4])
        return {'k': 'zip', 'sub': [gen_expr(rng, depth - 1, maxlen, need_len) for _ in range(n)]}
    return {'k': k, 'id': rng.randrange(len(PREDS) if k == 'filter' else len(FUNS)), 'sub': [gen_expr(rng, depth - 1, maxlen, need_len)]}


def big_range(rng):
    """range arguments of large magnitude, inside the box |.| < 2^62 of the Range theorems (few items)"""
    B = 2 ** 62 - 1
    pick = lambda: rng.choice([B, -B, B - rng.randrange(5), -B + rng.randrange(5), rng.randrange(-B, B + 1), rng.randrange(-5, 6)])
    st = rng.choice([B, -B, B // 2, -(B // 2), B // 3 + rng.randrange(9), -(B // 5), rng.randrange(1, B + 1), -rng.randrange(1, B + 1)])
    if rng.random() < .3:
        st = rng.choice([1, -1, 2, -3])
        a = pick(); b = max(-B, min(B, a + rng.randrange(-6, 7)))
        return 'range %d,%d,%d' % (a, b, st)
    a, b = pick(), pick()
    if abs(b - a) // abs(st) > 60:                    # keep the number of items small
        st = (abs(b - a) // rng.randrange(1, 40) + 1) * (1 if st > 0 else -1)
        st = max(-B, min(B, st))
    return 'range %d,%d,%d' % (a, b, st)


def opt_box(b):
    return ['_'] + list(range(-b, b + 1))


def range_box(b):
    """every range(start, stop, step) with arguments in [-b, b] or omitted (stop always given, step != 0)"""
    for a in opt_box(b):
        for s in range(-b, b + 1):
            for t in opt_box(b):
                if t != 0:
                    yield 'range %s' % a_s([a, s, t])
    for s in range(-b, b + 1):
        yield 'range %d' % s
        for a in opt_box(b):
            yield 'range %s' % a_s([a, s])
    yield 'range -'


def slice_box(kind, n, b, steps):
    xs = a_s(list(range(1, n + 1)))
    for a in opt_box(b):
        for s in opt_box(b):
            for t in steps:
                yield 'slice %s %s %s' % (a_s([a, s, t]), kind, xs)


def boundary_cases():
    out = []
    for kind in KINDS + ('tup',):
        for n in (0, 1, 2, 3, 5):
            xs = a_s(list(range(1, n + 1)))
            out += ['%s %s' % (kind, xs), 'rev %s %s' % (kind, xs), 'enum %s %s' % (kind, xs),
                    'filter 2 %s %s' % (kind, xs), 'filter 1 %s %s' % (kind, xs), 'filter 3 map 2 %s %s' % (kind, xs),
                    'map 1 %s %s' % (kind, xs), 'zip 1 %s %s' % (kind, xs), 'zip 2 %s %s range 3' % (kind, xs),
                    'zip 2 range 1,8,2 %s %s' % (kind, xs), 'slice 1 %s %s' % (kind, xs), 'slice -1,_ %s %s' % (kind, xs),
                    'slice _,_,2 %s %s' % (kind, xs), 'slice _,_,-2 %s %s' % (kind, xs), 'slice -100,100,3 %s %s' % (kind, xs),
                    'slice 1,-1,-3 %s %s' % (kind, xs), 'rev rev %s %s' % (kind, xs), 'slice 1,_,2 rev %s %s' % (kind, xs),
                    'zip 3 %s %s rev %s %s map 3 %s %s' % (kind, xs, kind, xs, kind, xs)]
    # large magnitudes just inside the box |.| < 2^62 of the Range theorems (beyond it: open finding range-int64-overflow)
    out += ['range 4611686018427387901,4611686018427387903,1', 'range -4611686018427387903,4611686018427387903,4611686018427387903',
            'range -4611686018427387903,4611686018427387903,-4611686018427387903', 'range _,4611686018427387903,4611686018427387902',
            'range -4611686018427387903,-4611686018427387900,_', 'slice _,_,4611686018427387903 arr 1,2,3',
            'slice 1,_,-4611686018427387903 list 1,2,3', 'slice -4611686018427387903,4611686018427387903,2 tup 1,2,3,4,5']
    out += ['zip 0', 'rev zip 0', 'map 1 zip 0', 'enum zip 0', 'range -', 'range 0', 'range -3', 'range 5,0', 'range 0,0,2',
            'range 0,10,4', 'range 0,10,-4', 'range _,7,-3', 'range -7,7,5', 'range 3,4,-12', 'rev range 0,10,4',
            'slice _,_,-3 range 0,10,4', 'enum range 2,11,3', 'zip 2 range 5 range 3', 'zip 2 range 3 range 5',
            'zip 3 arr 1,2,3,4,5 list 1,2 tup 1,2,3', 'zip 2 filter 2 arr 1,2,3,4,5,6 filter 3 arr -1,2,3',
            'filter 2 zip 2 arr 1,2,3,4 list 1,1,1,1', 'map 4 map 4 arr 1,2', 'filter 4 map 1 filter 2 range 20',
            'slice 1,_,2 slice 1,_,2 slice 1,_,2 range 40', 'rev slice 2,9,3 rev arr 1,2,3,4,5,6,7,8,9,10']
    return out


# witnesses of the repaired defects (must pass on every run) -- see findings.d/C11.json
CORPUS = [
    'arr 1,2,3',                          # D9  Array_Iter_Prev yielded a 4th item from before the array
    'tup -',                              # D10 Tuple_Iter_Last on the empty tuple read items[-1]
    'range 0,10,4',                       # D11 backward 9,5,1
    'range 0,0,2', 'range 5,0',           # D11 len 1 / len 2^64-5
    'range 10', 'range 0,10,2',           # D11 Range_Get: [-11] = -1, [INT64_MAX] = -2 (section gx)
    'slice 2 arr 1,2,3,4,5,6',            # D12 ignores stop
    'slice _,_,4 arr 1,2,3,4,5,6',        # D12 walks past the end
    'slice -100,_ arr 1,2,3',             # D12 Slice_Arg clamps -100 to n
    'zip 2 arr 1,2,3 list 7,8',           # F4  backward misaligned
    'rev zip 2 range 5 tup 1,2,3',
]

# open findings: (signature, probe case)
PROBES = {
    'tuple-repeated-pointer': 'tupr 0,1,0,2',
    'zip-backward-input-without-len': 'zip 2 map 0 filter 0 arr 1,2,3 arr 1,2',
    'range-int64-overflow': 'range 0,9223372036854775807,4611686018427387904',
}


def run(ctx):
    quick = ctx.tier == 'quick'
    ctx.cov['rule'] = (
        'cases are iterable expressions: a leaf (Array/List/Tuple/Table/Tree with 0..N integer elements, or range(start,stop,step) '
        'with arguments omitted / negative / beyond; or an Array/List/Tuple/Table/Tree after a seeded VALID mutation history of <= 12 operations '
        '(push, pop, pop_at/rem at head, middle, tail, push_at, resize down/up, concat, sort; set/rem/resize with colliding keys for Table, '
        'root and two-children removals for Tree; head/tail removal, draining and refilling frequent)) under up to 3 view layers slice(a,b,s)/reverse/zip(k inputs)/enumerate/'
        'filter(9 predicates, three of which answer "accept" with an object OTHER than their argument: shared flag, fresh box, fresh copy)/map(7 functions).  Streams: corpus of repaired witnesses; hand-written boundary set; EXHAUSTIVE '
        'boxes (all range(a,b,s) and all slice(a,b,s) over a container, arguments in [-B,B] or omitted); seeded ranges of magnitude up to 2^62-1; seeded random nested '
        'expressions.  For each case the harness prints len, forward walk (cut off at 2*len+4), backward walk, get(0..len-1); the '
        'oracle recomputes the denoted list from the definitions in Python, items compared BY IDENTITY (value@number for the registered elements of the leaves).  A case is non-trivial when it exercises at least one '
        'boundary predicate of props/C11.py:feats (empty/one/many leaf, negative step, length not divisible by the step, '
        'argument omitted/negative-from-end/beyond the ends, empty selection, zip arity and unequal lengths, filter rejecting '
        'first/last/all, view of view ...; histogram in coverage.features); distinct = distinct implementation transcripts')
    ctx.assumptions += ['C text tied by correspondence only: extracted Gallina cursor model vs the library built from the working '
                        'tree; Table slot occupancy and every Slice\'s computed range compared white-box',
                        'Tree: the walk over child/parent links is modelled and proved for every binary tree shape; the shape Tree.c builds is not (C03)',
                        'interleaved walks over one Range/Slice/Map object (shared cursor state) are outside the property']
    # findings.d/C11.json is this property's own fragment; known_findings.json is assembled from it later
    frag = os.path.join(vlib.VERIF, 'findings.d', 'C11.json')
    if os.path.exists(frag):
        for f in json.load(open(frag)):
            if not any(g.get('property') == f.get('property') and g.get('signature') == f.get('signature') and
                       g.get('commit') == f.get('commit') for g in ctx.findings):
                ctx.findings.append(f)
    have_model = os.path.exists(os.path.join(vlib.COQ, 'Properties_C11.v'))
    if have_model:
        ctx.coq()
    drv, model_broken = None, None
    if have_model:
        try:
            drv = ctx.build_driver('Iter')
        except vlib.ModelBuildError as e:
            # e.g. a function text the model was written from changed: no model transcript, but the oracle still runs
            model_broken = str(e)
            ctx.notes.append('model does not build against the regenerated Generated.v: ' + model_broken[-600:])
    h = ctx.build_harness('iter_walk.c', whitebox='Table')
    henv = dict(os.environ, H_TIMEOUT='2')          # a case takes microseconds; a hang is an observation (TIMEOUT)
    stats = {'forked': 0, 'inprocess': 0}

    def hybrid(exe, env):
        """chunks run inside ONE harness process first (H_NOFORK, ~25x faster); a chunk whose process crashes, hangs or
        loses a line is re-run with every case in its own forked child, so that the crash/hang is an observation"""
        def run(cs):
            out = []
            for i in range(0, len(cs), 1000):
                chunk = cs[i:i + 1000]
                # one plain process for the chunk (not run_lines: its stall handling would retry a hanging in-process run);
                # a handful of cases (shrinking, replay) go straight to the forked mode
                rc, o, err = vlib.sh([exe], input='\n'.join(chunk) + '\n', timeout=25, env=dict(env, H_NOFORK='1')) \
                    if len(chunk) > 8 else (1, '', '')
                lines = o.split('\n')
                if lines and lines[-1] == '':
                    lines.pop()
                if rc != 0 or len(lines) != len(chunk) or any(l.startswith('HARNESS-') for l in lines):
                    rc, lines, err = ctx.run_lines(exe, chunk, env=env, timeout=3000)
                    stats['forked'] += len(chunk)
                else:
                    stats['inprocess'] += len(chunk)
                out += lines
            return out
        return run
    run_impl = hybrid(h, henv)
    run_model = (lambda cs: ctx.run_lines(drv, cs, args=['model'])[1]) if drv else None
    run_spec = lambda cs: [spec_line(c) for c in cs]
    d = vlib.Differential(ctx, 'iter', run_impl, run_model, run_spec, oracle, corr, nontrivial, classify=classify)

    def preshrink():
        """structural shrinking of the first failing cases (Differential's token ddmin does not fit expressions)"""
        done = 0
        for idx, (c, i, m, s, why) in enumerate(d.oracle_fail):
            if classify(c, i, why) in PROBES or done >= 3:
                continue
            c2 = shrink(c, d._fails_oracle)
            if c2 != c:
                i2 = run_impl([c2])[0]
                d.oracle_fail[idx] = (c2, i2, run_model([c2])[0] if run_model else None, spec_line(c2), oracle(c2, i2) or why)
            done += 1

    rp = os.environ.get('VERIF_REPLAY')
    if rp:
        r = json.load(open(rp))
        d.feed([r['case']] if 'case' in r else CORPUS)
        for x in d.oracle_fail + d.corr_fail:
            print('REPLAY: %s\n  case  %s\n  impl  %s\n  model %s\n  spec  %s' % (x[4], x[0], x[1], x[2], x[3]))
        d.report()
        return

    # open findings: the recorded witness runs every time
    for f in ctx.open_findings():
        probe = PROBES.get(f.get('signature'))
        if probe:
            il = run_impl([probe])[0]
            why = oracle(probe, il)
            ctx.cov.setdefault('probes', []).append({'signature': f['signature'], 'case': probe, 'impl': il[:300], 'oracle': why})
            if why:
                ctx.known(f)
            else:
                ctx.notes.append('open finding %s no longer reproduces on its witness %s' % (f['signature'], probe))

    d.feed(CORPUS, 'corpus')
    d.feed(boundary_cases() + history_boundary() + answer_boundary() + probe_boundary(), 'boundary')
    rng = ctx.rng
    if quick:
        B = 12
        cases = list(range_box(B))
        # slices over an Array: the WHOLE box start,stop in [-12,12] or omitted, step in [-12,12]\{0} or omitted, lengths 0..9
        allsteps = [t for t in opt_box(B) if t != 0]
        for n in range(0, 10):
            cases += list(slice_box('arr', n, B, allsteps))
        # the other containers: lengths 0,2,5,9, start/stop in [-(n+3),n+3] or omitted (anything beyond clamps the same way)
        for kind in ('list', 'tup', 'tab', 'tree'):
            for n in (0, 2, 5, 9):
                steps = list(dict.fromkeys(t for t in ['_', 1, -1, 2, -2, 3, -3, n, -n, n + 1, -n - 1, 12, -12] if t != 0))
                cases += list(slice_box(kind, n, min(B, n + 3), steps))
            for _ in range(500):
                n = rng.randrange(0, 10)
                cases.append('slice %s %s %s' % (a_s([rng.choice(opt_box(B)), rng.choice(opt_box(B)), rng.choice(allsteps)]),
                                                 kind, a_s(contents(rng, n, kind))))
        cases += [big_range(rng) for _ in range(1500)]
        cases += [unparse(gen_answer(rng)) for _ in range(4000)]
        cases += [unparse(gen_probe(rng)) for _ in range(5000)]
        # every container kind after a seeded mutation history, bare and under one view
        for kind in KINDS:
            cases += [unparse(gen_history(rng, kind)) for _ in range(4000)]
            cases += [rng.choice(['rev %s', 'slice _,_,2 %s', 'slice 1,-1 %s', 'enum %s', 'filter 2 %s', 'map 1 %s', 'zip 2 %s range 4', 'slice _,_,-2 %s'])
                      % unparse(gen_history(rng, kind)) for _ in range(800)]
        cases += [unparse(gen_expr(rng, rng.choice([1, 2, 2, 3, 3]), 9)) for _ in range(6000)]
        ctx.cov['exhaustive'] = {'range_box': 'all range(a,b,s), a,s in [-12,12] or omitted, b in [-12,12], s != 0',
                                 'slice_box_array': 'all slice(a,b,s) over Arrays of length 0..9, a,b in [-12,12] or omitted, s in [-12,12]\\{0} or omitted',
                                 'slice_box_other': 'List/Tuple/Table/Tree of length 0,2,5,9: all a,b in [-(n+3),n+3] or omitted, '
                                                    's in {_,+-1,+-2,+-3,+-n,+-(n+1),+-12}'}
    else:
        B = 45
        cases = list(range_box(20))
        for n in list(range(0, 13)) + [17, 25, 40]:
            steps = [t for t in opt_box(min(B, n + 4)) if t != 0]
            cases += list(slice_box(rng.choice(['arr', 'list', 'tup']), n, min(B, n + 3), steps))
        for _ in range(20000):
            cases.append('range %s' % a_s([rng.choice(opt_box(B)), rng.randrange(-B, B + 1), rng.choice([t for t in opt_box(B) if t != 0])]))
        for kind in KINDS:
            for _ in range(6000):
                n = rng.randrange(0, 41)
                cases.append('slice %s %s %s' % (a_s([rng.choice(opt_box(B)), rng.choice(opt_box(B)), rng.choice([t for t in opt_box(B) if t != 0])]),
                                                 kind, a_s(contents(rng, n, kind))))
        cases += [big_range(rng) for _ in range(20000)]
        cases += [unparse(gen_answer(rng, rng.choice([9, 20]))) for _ in range(60000)]
        cases += [unparse(gen_probe(rng, rng.choice([9, 20]))) for _ in range(60000)]
        for kind in KINDS:
            cases += [unparse(gen_history(rng, kind, rng.choice([6, 12, 20]))) for _ in range(40000)]
            cases += [rng.choice(['rev %s', 'slice _,_,2 %s', 'slice 1,-1 %s', 'enum %s', 'filter 2 %s', 'map 1 %s', 'zip 2 %s range 4', 'slice _,_,-2 %s'])
                      % unparse(gen_history(rng, kind)) for _ in range(8000)]
        cases += [unparse(gen_expr(rng, 3, rng.choice([5, 12, 40]))) for _ in range(100000)]
        ctx.cov['exhaustive'] = {'range_box': 'all range(a,b,s) with arguments in [-20,20] or omitted',
                                 'slice_box': 'all slice(a,b,s) over lengths 0..12,17,25,40 with a,b in [-(n+3),n+3] or omitted, s in [-(n+4),n+4]'}
    for i in range(0, len(cases), 2500):
        d.feed(cases[i:i + 2500])
        if len(d.oracle_fail) > 300:
            ctx.notes.append('stopped after %d cases: more than 300 cases already contradict the specification' % d.ncases)
            break
    if not quick:
        # AddressSanitizer build of library + harness: any read outside the underlying storage aborts the child
        ctx.build_lib(tag='asan', cflags=['-fsanitize=address', '-fno-omit-frame-pointer'])
        ha = ctx.build_harness('iter_walk.c', tag='asan', whitebox='Table', extra=['-fsanitize=address'])
        env = dict(os.environ, ASAN_OPTIONS='detect_leaks=0:abort_on_error=1', H_TIMEOUT='10')
        d_asan = vlib.Differential(ctx, 'iter_asan', hybrid(ha, env), None,
                                   run_spec, oracle, corr, nontrivial, classify=classify)
        sample = CORPUS + boundary_cases() + rng.sample(cases, min(len(cases), 40000))
        for i in range(0, len(sample), 5000):
            d_asan.feed(sample[i:i + 5000])
            if len(d_asan.oracle_fail) > 300:
                break
        ctx.cov['asan_cases'] = len(sample)
        if d_asan.oracle_fail:
            d.oracle_fail += d_asan.oracle_fail
    ctx.cov['features'] = dict(sorted(FEAT_HIST.items()))
    ctx.cov['harness_mode'] = dict(stats, note='inprocess = chunk of 1000 cases in one harness process; forked = chunk re-run '
                                               'with one child per case because the in-process run crashed, hung or lost a line')
    if os.environ.get('C11_DEBUG'):
        print('oracle_fail %d corr_fail %d' % (len(d.oracle_fail), len(d.corr_fail)))
        for x in d.oracle_fail[:int(os.environ['C11_DEBUG'])]:
            print('ORACLE', x[0], '\n   ', x[4], '\n   ', x[1][:300])
        nc = [x for x in d.corr_fail if 'CRASH' not in x[4]]
        print('corr_fail without CRASH: %d' % len(nc))
        for x in nc[:int(os.environ['C11_DEBUG'])]:
            print('CORR', x[0], '\n   ', x[4])

    def extra(dd):
        dd.feed(answer_boundary() + probe_boundary() + [unparse(gen_answer(rng)) for _ in range(10000)] + [unparse(gen_probe(rng)) for _ in range(10000)])
        dd.feed([unparse(gen_expr(rng, rng.choice([1, 2, 3]), 9)) for _ in range(20000)])
        preshrink()
    preshrink()
    d.report(extra)
    if model_broken and not any(not nf for _, nf in ctx.violations):
        ctx.violation('model', {'kind': 'the Coq model no longer builds against coq/Generated.v regenerated from the source',
                                'detail': model_broken[-3000:], 'theorem_or_file': 'Extract_Iter.v / IterSource.v / Generated.v',
                                'search': 'oracle (spec vs implementation) clean on %d cases' % d.ncases}, no_failing_input=True)
