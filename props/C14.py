"""C14 — print formatting equals C formatting, on every sink, with exact positions."""
import os, json, re, struct
import vlib

# ------------------------------------------------------------------------------------------------
# grammar-driven generator.  A case is   pos|init|fmt|items|args   (see ocaml/Format_driver.ml and
# harness/format.c).  Everything is built from ITEMS; fmt is their unparsing.

INT_CONVS_S, INT_CONVS_U = 'di', 'uoxX'
FLOAT_CONVS = 'fFeEgGaA'
STD_CONVS = 'diuoxXcsfFeEgGaAp'
WIDE = ['l', 'll', 'j', 'z', 't']
I32MIN, I32MAX, U32MAX = -2**31, 2**31 - 1, 2**32 - 1
I64MIN, I64MAX = -2**63, 2**63 - 1


def hx(b):
    return bytes(b).hex()


def flags_for(c):
    """flags whose meaning the C standard defines for the conversion"""
    if c in 'di': return '-+ 0'
    if c == 'u': return '-0'
    if c in 'oxX': return '-#0'
    if c in FLOAT_CONVS: return '-+ #0'
    return '-'


def lens_for(c):
    if c in 'diuoxX': return ['', 'hh', 'h', 'l', 'll', 'j', 'z', 't']
    if c in FLOAT_CONVS: return ['', 'l']        # L would announce a long double; the library passes a double
    return ['']                                  # lc / ls announce wide characters


def has_prec(c):
    return c in 'diuoxXsfFeEgGaA'


def rnd_bytes(rng, n, alphabet=None):
    if alphabet is None:
        return bytes(rng.randrange(1, 256) for _ in range(n))
    return bytes(rng.choice(alphabet) for _ in range(n))


LIT_ALPHA = [c for c in range(1, 256) if c != 0x25]
LIT_TRICKY = list(b'diuoxXfFeEgGaAcsp$hlLjzt0123456789.-+ #*\\\'"\n\t')


def gen_lit(rng):
    r = rng.random()
    n = rng.choice([1, 1, 2, 3, 5, 8, 13]) if r < .9 else rng.randrange(20, 120)
    if rng.random() < .5:
        b = rnd_bytes(rng, n, LIT_TRICKY)
    elif rng.random() < .5:
        b = rnd_bytes(rng, n, list(range(32, 37)) + list(range(38, 127)))
    else:
        b = rnd_bytes(rng, n, LIT_ALPHA)
    return 'L' + hx(b)


def gen_int(rng, lo, hi):
    r = rng.random()
    if r < .45:
        grid = [0, 1, -1, 2, 7, 9, 10, 42, 99, 100, 127, 128, -128, -129, 255, 256, 32767, 32768, -32768, -32769, 65535, 65536,
                I32MAX, I32MIN, I32MAX + 1, I32MIN - 1, U32MAX, U32MAX + 1, I64MAX, I64MIN, I64MAX - 1, I64MIN + 1,
                10**9, 10**18, -10**18, 2**62, -2**62, 2**53, 2**40 + 5]
        v = rng.choice(grid)
        if lo <= v <= hi:
            return v
    if r < .7:
        return max(lo, min(hi, rng.choice([1, -1]) * rng.randrange(0, 2000)))
    if r < .85:
        return max(lo, min(hi, rng.choice([1, -1]) * (1 << rng.randrange(0, 64)) + rng.randrange(-2, 3)))
    return rng.randrange(lo, hi + 1)


FLOAT_GRID = [0.0, -0.0, 1.0, -1.0, 0.5, 0.1, 0.3, 1.5, 2.5, 3.5, 0.125, 9.995, 0.0005, 99999.5, 999999.5, 1e-5, 1e-4, 123456789.123456, 3.141592653589793,
              1e15, 1e16, 1e17, 1e21, 1e22, 1e100, 1e-100, 1e300, 1.7976931348623157e308, 2.2250738585072014e-308, 5e-324,
              2.2250738585072009e-308, float('inf'), float('-inf'), 4503599627370496.5, 9007199254740993.0, 0.30000000000000004, 1 / 3.0, 2 / 3.0, 1e6, 1e-6, 123.456, -123.456]


def gen_float_bits(rng):
    r = rng.random()
    if r < .5:
        v = rng.choice(FLOAT_GRID)
    elif r < .75:
        v = rng.choice([1, -1]) * rng.randrange(0, 10**6) / rng.choice([1, 10, 100, 1000, 7, 3, 10**6])
    else:
        while True:
            b = rng.getrandbits(64)
            if (b >> 52) & 0x7ff == 0x7ff and b & ((1 << 52) - 1):     # NaN: sign/payload printing is libc's business only
                continue
            return '%016x' % b
    return '%016x' % struct.unpack('<Q', struct.pack('<d', v))[0]


def gen_str(rng):
    r = rng.random()
    n = 0 if r < .1 else rng.randrange(1, 12) if r < .8 else rng.randrange(12, 60) if r < .97 else rng.randrange(200, 400)
    if rng.random() < .6:
        return rnd_bytes(rng, n, list(range(32, 127)))
    return rnd_bytes(rng, n, [7, 8, 9, 10, 11, 12, 13, 34, 39, 63, 92, 37, 36, 65, 66, 67, 128, 200, 255])


def scalar(rng, kinds='ifs'):
    k = rng.choice(kinds)
    if k == 'i': return 'i%d' % gen_int(rng, I64MIN, I64MAX)
    if k == 'f': return 'f' + gen_float_bits(rng)
    return 's' + hx(gen_str(rng))


def gen_dollar_arg(rng):
    r = rng.random()
    if r < .45:
        return scalar(rng)
    n = rng.choice([0, 1, 1, 2, 3, 5])
    k = rng.choice('ifs')
    if r < .6: return 'A' + ','.join(scalar(rng, k) for _ in range(n))
    if r < .72: return 'l' + ','.join(scalar(rng, k) for _ in range(n))
    if r < .86: return 't' + ','.join(scalar(rng) for _ in range(n))
    kk, vk = rng.choice('is'), rng.choice('ifs')
    keys = []
    for _ in range(n):
        key = scalar(rng, kk)
        if key not in keys: keys.append(key)
    return rng.choice('TTR') + ','.join('%s=%s' % (key, scalar(rng, vk)) for key in keys)


def gen_width(rng, big):
    r = rng.random()
    if r < .45: return ''
    if r < .93: return str(rng.randrange(1, 31))
    return str(rng.randrange(31, 400)) if not big else str(rng.randrange(400, 6000))


def gen_prec(rng, c, big):
    if not has_prec(c): return ''
    r = rng.random()
    if r < .45: return ''
    if r < .52: return '.'
    if r < .6: return '.0'
    if r < .94: return '.' + str(rng.randrange(1, 25))
    return '.' + (str(rng.randrange(25, 330)) if not big else str(rng.randrange(330, 3000)))


def gen_conv(rng, big=False, c=None):
    """-> (item, argument descriptor)"""
    c = c or rng.choice(STD_CONVS)
    fl = flags_for(c)
    flags = ''.join(rng.choice(fl) for _ in range(rng.choice([0, 0, 0, 1, 1, 2, 3])))
    if rng.random() < .9:
        flags = ''.join(dict.fromkeys(flags))          # mostly without repetition
    width = gen_width(rng, big)
    prec = gen_prec(rng, c, big)
    ln = rng.choice(lens_for(c)) if rng.random() < .6 else ''
    if c in 'di':
        arg = 'i%d' % (gen_int(rng, I64MIN, I64MAX) if ln in WIDE else gen_int(rng, I32MIN, I32MAX))
    elif c in 'uoxX':
        arg = 'i%d' % (gen_int(rng, I64MIN, I64MAX) if ln in WIDE else gen_int(rng, I32MIN, U32MAX))
    elif c == 'c':
        r = rng.random()
        arg = 'i%d' % (rng.randrange(1, 256) if r < .9 else 0 if r < .93 else gen_int(rng, I32MIN, I32MAX))
    elif c in FLOAT_CONVS:
        arg = 'f' + gen_float_bits(rng)
    elif c == 's':
        arg = 's' + hx(gen_str(rng))
    else:
        arg = 'p%x' % rng.choice([0, 1, 0xdeadbeef, 0x7ffdeadbeef0, 2**64 - 1, 2**63, rng.getrandbits(48), rng.getrandbits(64)])
    item = 'C%s,%s,%s,%s,%s' % (hx(flags.encode()), hx(width.encode()), hx(prec.encode()), hx(ln.encode()), hx(c.encode()))
    return item, arg


def item_bytes(it):
    if it[0] == 'L': return bytes.fromhex(it[1:])
    if it[0] == 'P': return b'%%'
    if it[0] == 'D': return b'%$'
    return b'%' + b''.join(bytes.fromhex(x) for x in it[1:].split(','))


def build(pos, init, pairs, extra=()):
    """pairs: [(item, arg or None)], consumers without argument only as a suffix; extra: unused arguments"""
    items, merged = [], []
    for it, a in pairs:
        if it[0] == 'L' and merged and merged[-1][0][0] == 'L':
            merged[-1] = ('L' + merged[-1][0][1:] + it[1:], None)      # two literals are one literal run
        else:
            merged.append((it, a))
    args, stop = [], False
    for it, a in merged:
        if it[0] in 'CD':
            if a is None: stop = True
            elif not stop: args.append(a)
    args += list(extra)
    fmt = b''.join(item_bytes(it) for it, _ in merged)
    return '%d|%s|%s|%s|%s' % (pos, init, hx(fmt), ';'.join(it for it, _ in merged), ';'.join(args))


def gen_case(rng, maxitems=6, big=False, style=None):
    n = rng.choice([0, 1, 1, 2, 2, 3, 3, 4, 5, 6]) if maxitems >= 6 else rng.randrange(0, maxitems + 1)
    style = style or rng.choice(['mixed', 'mixed', 'mixed', 'specs', 'dollar', 'lits'])
    pairs = []
    for _ in range(n):
        r = rng.random()
        if style == 'specs': r = .3 + r * .5
        if style == 'dollar': r = .8 + r * .2 if rng.random() < .6 else r
        if style == 'lits': r = r * .35
        if r < .25: pairs.append((gen_lit(rng), None))
        elif r < .32: pairs.append(('P', None))
        elif r < .86: pairs.append(gen_conv(rng, big))
        else: pairs.append(('D', gen_dollar_arg(rng)))
    extra = []
    r = rng.random()
    cons = [i for i, (it, a) in enumerate(pairs) if it[0] in 'CD']
    if cons and r < .1:                                   # too few arguments: a suffix of the consumers gets none
        k = rng.choice(cons)
        pairs = [(it, None if (i >= k and it[0] in 'CD') else a) for i, (it, a) in enumerate(pairs)]
    elif r < .16:
        extra = [scalar(rng) for _ in range(rng.choice([1, 2]))]
    init = gen_str(rng) if rng.random() < .7 else b''
    init = init.replace(b'\0', b'')
    r = rng.random()
    L = len(init)
    pos = 0 if r < .3 else L if r < .55 else rng.randrange(0, L + 1) if r < .85 else L + rng.randrange(1, 9)
    return build(pos, hx(init), pairs, extra)


# ------------------------------------------------------------------------------------------------
# transcripts

def sections(line):
    d = {}
    for part in line.split(' | '):
        if ':' in part:
            d[part[0]] = part.split(':')
        else:
            d.setdefault('?', []).append(part)
    return d


def refs_of(impl):
    m = re.match(r'R:([^ |]*)', impl or '')
    return m.group(1) if m else ''


OPENERS = {'A': rb"<'Array' At 0x(0xP+|\(nil\)) \[", 'l': rb"<'List' At 0x(0xP+|\(nil\)) \[", 't': rb'tuple\(',
           'T': rb"<'Table' At 0x(0xP+|\(nil\)) \{", 'R': rb"<'Tree' At 0x(0xP+|\(nil\)) \{"}
CLOSERS = {'A': b']>', 'l': b']>', 't': b')', 'T': b'}>', 'R': b'}>'}


def oracle(case, impl, spec):
    """the property: characters written = what C writes for the items (reference texts R), position =
    start + number written, both sinks, FormatError on too few arguments; container show = elements' show."""
    si, ss = sections(impl), sections(spec)
    if '?' in si or not all(k in si for k in 'RWSFCE'):
        return 'library run did not complete: %s' % impl[-160:]
    if 'S' not in ss:
        return 'specification could not be evaluated: %s' % spec
    pos, init = int(case.split('|')[0]), bytes.fromhex(case.split('|')[1])
    S, F, sS, sF = si['S'], si['F'], ss['S'], ss['F']
    if len(S) < 5 or len(F) < 4:
        return 'library run did not complete: %s' % impl[-160:]
    # the reference itself: one snprintf call on the whole format (when expressible) = the items' texts in a row
    if 'W' in si and len(si['W']) > 1 and si['W'][1] != '-' and sS[1] == 'ok' and si['W'][1] != sS[4]:
        return 'snprintf of the whole format writes %s, the items one by one %s' % (si['W'][1], sS[4])
    if S[1] != sS[1]:
        return 'String sink: outcome %s, expected %s' % (S[1], sS[1])
    if F[1] != sF[1]:
        return 'File sink: outcome %s, expected %s' % (F[1], sF[1])
    if sS[1] == 'ok':
        if S[2] != sS[2]:
            return 'String sink: returned position %s, expected %s (start %d + %d written)' % (S[2], sS[2], pos, int(sS[2]) - pos)
        if S[4] != sS[4]:
            return 'String sink: characters written at [%d,%s) are %s, C writes %s' % (pos, S[2], S[4], sS[4])
        if pos <= len(init) and bytes.fromhex(S[3])[:pos] != init[:pos]:
            return 'String sink: text before the start position changed: %s' % S[3]
        if F[2] != sF[2]:
            return 'File sink: returned position %s, expected %s' % (F[2], sF[2])
        if F[3] != sF[3]:
            return 'File sink: file holds %s, expected %s' % (F[3], sF[3])
    # containers: show text = opener, elements' own show texts in iteration order joined by ", ", closer
    R = si['R'][1].split(';') if len(si['R']) > 1 else []
    if len(si['E']) > 1 and si['E'][1]:
        args = case.split('|')[4].split(';')
        items = case.split('|')[3].split(';')
        cons = [i for i, it in enumerate(items) if it[0] in 'CD']
        for ent in si['E'][1].split(';'):
            k, elems = ent.split('=')
            k = int(k)
            kind = args[cons.index(k)][0]
            text = bytes.fromhex(R[k])
            el = [bytes.fromhex(e) for e in elems.split(',')] if elems else []
            m = re.match(OPENERS[kind], text)
            if not m:
                return 'container show text %r does not start like a %s' % (text, kind)
            want = text[:m.end()] + b', '.join(el) + CLOSERS[kind]
            if text != want:
                return 'container show text %r is not its elements\' show texts once each in iteration order (%r)' % (text, want)
    return None


def corr(case, impl, model):
    si, sm = sections(impl), sections(model)
    for k in 'SFC':
        a, b = si.get(k), sm.get(k)
        if a is None or b is None:
            return 'section %s missing: implementation %s / model %s' % (k, impl[-120:], model[-120:])
        if a[:4] != b[:4]:
            return 'section %s: implementation %s / model %s' % (k, ':'.join(a[:4]), ':'.join(b[:4]))
    return None


def nontrivial(case, impl):
    f = case.split('|')
    return len(f) == 5 and any(it[:1] in ('C', 'D') for it in f[3].split(';')) and (' | S:ok:' in impl or ' | S:FormatError:' in impl)


def split(case):
    pos, init, fmt, items, args = case.split('|')
    items = items.split(';') if items else []
    args = args.split(';') if args else []
    toks, k = [], 0
    for it in items:
        if it[0] in 'CD':
            toks.append(it + '@' + (args[k] if k < len(args) else ''))
            k += 1
        else:
            toks.append(it + '@')
    toks += ['@' + a for a in args[k:]]
    return pos + '|' + init, toks


def join(pre, toks):
    pos, init = pre.split('|')
    pairs, extra = [], []
    for t in toks:
        it, a = t.split('@')
        if it: pairs.append((it, a or None))
        else: extra.append(a)
    return build(int(pos), init, pairs, extra)


def lit(s): return 'L' + hx(s.encode())


def conv(spec, arg):
    m = re.match(r'^%([-+ #0]*)(\d*)(\.\d*)?(hh|h|ll|l|j|z|t|L)?([a-zA-Z])$', spec)
    f, w, p, l, c = m.group(1), m.group(2), m.group(3) or '', m.group(4) or '', m.group(5)
    return ('C%s,%s,%s,%s,%s' % tuple(hx(x.encode()) for x in (f, w, p, l, c)), arg)


CORPUS = [
    build(0, '', []),                                                     # empty format
    build(3, hx(b'hello'), []),
    build(0, '', [conv('%d', 'i42')]),                                    # specification = whole format
    build(2, hx(b'hello'), [(lit('ab'), None), conv('%5d', 'i42'), ('P', None), (lit('x'), None), ('D', 'i7')]),
    build(0, '', [conv('%d', 'i1'), conv('%d', 'i2'), conv('%s', 's' + hx(b'end'))]),             # adjacent, at both ends
    build(5, hx(b'hello'), [('P', None), ('P', None), ('D', 's' + hx(b'a"b\n')), ('P', None)]),
    build(0, '', [conv('%li', 'i%d' % I64MIN), (lit(' '), None), conv('%lu', 'i-1'), (lit(' '), None), conv('%lx', 'i%d' % I64MAX)]),
    build(1, hx(b'abc'), [conv('%-08.3f', 'f' + '%016x' % struct.unpack('<Q', struct.pack('<d', 3.14159))[0]), conv('%+.10e', 'f7ff0000000000000')]),
    build(0, hx(b'abc'), [conv('%d', None)]),                             # too few arguments
    build(0, hx(b'abc'), [(lit('x='), None), conv('%d', 'i1'), (lit(' y='), None), conv('%s', None), ('D', None)]),
    build(7, hx(b'abc'), [(lit('beyond'), None), conv('%c', 'i65')]),     # start position behind the end of the String
    build(0, '', [('D', 'Ai1,i2,i3')]), build(0, '', [('D', 'A')]), build(2, hx(b'xy'), [('D', 'ls6162,s63')]),
    build(0, '', [('D', 'ti1,s6162,f3ff0000000000000')]), build(0, '', [('D', 'Ti1=s6162,i2=s63')]), build(0, '', [('D', 'Rs62=i2,s61=i1,s63=i3')]), build(0, '', [('D', 'R')]),
    build(0, '', [conv('%p', 'p0'), (lit('|'), None), conv('%20p', 'pdeadbeef'), conv('%-20p', 'p1')]),
    build(0, '', [conv('%c', 'i0'), (lit('after NUL'), None)]),
    build(0, '', [(lit('100'), None), ('P', None), (lit(' sure$ '), None), ('D', 'i5'), (lit('$'), None)]),
    build(0, '', [conv('%0300d', 'i-5'), conv('%.300f', 'f7fefffffffffffff')]),
    build(0, '', [conv('%hhd', 'i200'), conv('%hu', 'i65537'), conv('%#o', 'i8'), conv('%#X', 'i255'), conv('%zu', 'i-1'), conv('%td', 'i-9'), conv('%jd', 'i%d' % I64MAX), conv('%lld', 'i%d' % I64MIN)]),
]


def asan_cases(rng, n):
    """long specifications, specifications at the very end, adjacent specifications"""
    out = []
    for i in range(n):
        k = rng.randrange(1, 5)
        pairs = [gen_conv(rng, big=(rng.random() < .5)) if rng.random() < .8 else ('D', gen_dollar_arg(rng)) for _ in range(k)]
        if rng.random() < .3: pairs.insert(0, (gen_lit(rng), None))
        if rng.random() < .2: pairs.insert(rng.randrange(len(pairs)), ('P', None))
        if rng.random() < .15 and pairs[-1][0][0] in 'CD':
            pairs[-1] = (pairs[-1][0], None)
        init = gen_str(rng).replace(b'\0', b'')
        pos = rng.choice([0, len(init), len(init) + 3, rng.randrange(0, len(init) + 1)])
        out.append(build(pos, hx(init), pairs))
    return out


def boundary_cases(rng, caps):
    """pieces (one format_to call each) whose rendered text is exactly n-1, n, n+1 bytes for the buffer sizes n a
    sink may stage short texts in (powers of two, and the size read from the source: string_fmt_stack_cap)"""
    out = []
    for cap in caps:
        for n in (cap - 1, cap, cap + 1):
            if n < 1: continue
            w = str(n)
            pieces = [conv('%' + w + 'd', 'i%d' % rng.choice([0, 7, -42, 123456])),
                      conv('%-' + w + 's', 's' + hx(rnd_bytes(rng, rng.randrange(0, 5), list(range(65, 91))))),
                      conv('%.' + w + 's', 's' + hx(rnd_bytes(rng, n + rng.randrange(0, 40), list(range(97, 123))))),
                      conv('%0' + w + 'lx', 'i%d' % rng.getrandbits(60)),
                      conv('%' + w + '.3f', 'f' + gen_float_bits(rng)) if n > 330 else conv('%' + w + 'c', 'i%d' % rng.randrange(33, 127)),
                      (lit(''.join(chr(rng.randrange(97, 123)) for _ in range(n))), None),
                      ('D', 's' + hx(rnd_bytes(rng, max(0, n - 2), list(range(97, 123)))))]
            for k, pc in enumerate(pieces):
                init = gen_str(rng).replace(b'\0', b'')
                pos = rng.choice([0, len(init), rng.randrange(0, len(init) + 1)])
                pairs = [pc]
                if k % 3 == 1: pairs = [(lit('<'), None), pc, conv('%d', 'i%d' % n)]      # something after it: the next piece lands at pos + n
                if k % 3 == 2: pairs = [conv('%s', 's' + hx(b'ab')), pc, ('P', None)]
                out.append(build(pos, hx(init), pairs))
    # whole formats of exactly n-1, n, n+1 bytes (the piece buffer is sized from strlen(fmt)): one literal run,
    # a specification at the very end, a specification at the very start
    for cap in caps:
        if cap > 1100: continue
        for n in (cap - 1, cap, cap + 1):
            if n < 4: continue
            word = lambda k: lit(''.join(chr(rng.randrange(97, 123)) for _ in range(k)))
            for pairs in ([(word(n), None)],
                          [(word(n - 2), None), conv('%d', 'i%d' % rng.randrange(-99, 100))],
                          [(word(n - 3), None), conv('%ld', 'i%d' % gen_int(rng, I64MIN, I64MAX))],
                          [conv('%s', 's' + hx(gen_str(rng).replace(b'\0', b''))), (word(n - 2), None)],
                          [(word(n - 4), None), ('P', None), ('D', 'i%d' % rng.randrange(1000))]):
                out.append(build(rng.choice([0, 2]), hx(b'xy'), pairs))
    return out


def staged_caps():
    caps = [16, 32, 64, 128, 256, 512, 1024, 4096]
    try:
        g = open(os.path.join(vlib.COQ, 'Generated.v')).read()
        for m in re.finditer(r'Definition (?:string_fmt_stack_cap|print_buf_stack_cap) : nat := (\d+)', g):
            if int(m.group(1)) > 0: caps.append(int(m.group(1)))
    except OSError:
        pass
    return sorted(set(caps))


def exhaustive_one(rng):
    """every single specification over the product flags-subsets x width x precision x length x conversion
    (restricted to the combinations with a defined meaning), at the start, in the middle and at the end"""
    out = []
    for c in STD_CONVS:
        fl = flags_for(c)
        subsets = [''.join(f for j, f in enumerate(fl) if m >> j & 1) for m in range(1 << len(fl))]
        for flags in subsets:
            for width in ('', '1', '12'):
                for prec in (('', '.', '.0', '.7') if has_prec(c) else ('',)):
                    for ln in lens_for(c):
                        _, arg = gen_conv(rng, c=c)
                        if c in 'diuoxX':
                            arg = 'i%d' % (gen_int(rng, I64MIN, I64MAX) if ln in WIDE else gen_int(rng, I32MIN, I32MAX))
                        it = 'C%s,%s,%s,%s,%s' % tuple(hx(x.encode()) for x in (flags, width, prec, ln, c))
                        shape = rng.randrange(3)
                        pairs = [(it, arg)]
                        if shape == 1: pairs = [(lit('<'), None)] + pairs + [(lit('>'), None)]
                        if shape == 2: pairs = [('P', None)] + pairs
                        out.append(build(rng.choice([0, 0, 2]), hx(b'ab'), pairs))
    return out


def exhaustive_two(rng):
    """every ordered pair of items from a representative set (adjacency, both ends)"""
    base = [(lit('a'), None), (lit('d$'), None), ('P', None), ('D', 'i-7'), ('D', 's' + hx(b'q'))]
    for c in STD_CONVS:
        base.append(gen_conv(rng, c=c))
        base.append(conv('%' + ('-' if True else '') + '6' + ('.2' if has_prec(c) else '') + ('l' if c in 'diuoxXfFeEgGaA' else '') + c,
                         gen_conv(rng, c=c)[1] if c not in 'diuoxX' else 'i%d' % gen_int(rng, I64MIN, I64MAX)))
    out = []
    for a in base:
        for b in base:
            out.append(build(rng.choice([0, 1]), hx(b'z'), [a, b]))
    return out


def run(ctx):
    quick = ctx.tier == 'quick'
    ctx.cov['rule'] = (
        'format strings are generated from the grammar of the property (0-6 items: literal runs over all bytes 1..255 except %, '
        'favouring characters that look like flags/lengths/conversions; %%; %$; specifications with flags, width, .precision, '
        'length modifier h hh l ll j z t and a conversion of d i u o x X c s f F e E g G a A p) and unparsed to bytes; only '
        'flag/precision/length combinations with a meaning defined by C are used (no L, no lc/ls); arguments: Int over the full '
        'int64 range incl. INT64_MIN/MAX for l/ll/j/z/t conversions, int range (unsigned: up to 2^32-1) otherwise, Float from a grid '
        '(zeros, denormals, DBL_MAX, infinities, rounding ties) and random bit patterns without NaN, String of 0-400 bytes, raw pointers '
        'for %p, Int/Float/String/Array/List/Tuple/Table for %$; start positions 0..length and beyond; too few / too many arguments; plus single pieces whose text is exactly n-1, n, n+1 bytes for n = 16..4096 '
        '(powers of two) and the stack-buffer sizes read from String_Format_To / print_to_with, and whole formats of exactly n-1, n, n+1 bytes. '
        'Per case three runs of print_to_with (heap String, File, recording sink) are compared with the reference: per item, libc '
        'snprintf of that ONE specification with the C value the property assigns (a whole-format printf is the concatenation, '
        'directives being independent; cross-checked by one snprintf call on the whole format whenever all its specifications take '
        'the same C type), show_to text for %$. Non-trivial = the format contains at least one specification or %$ '
        'and the library run completed; distinct = distinct implementation transcripts.')
    ctx.assumptions += [
        'C text tied to the model by correspondence only (String sink contents/position, File contents/position, recorded format_to/show_to calls)',
        'libc rendering of one specification is an oracle (vsnprintf is not modelled)',
        'String sink is a heap String (a stack String raises ValueError by design); start position >= 0',
        'what follows the written text in a String (truncation) is described by the model, not demanded by the oracle']
    ctx.coq()
    drv = ctx.build_driver('Format')
    h = ctx.build_harness('format.c')
    env = dict(os.environ, H_TMPDIR=ctx.tmp)
    cache = {}

    def mk_impl(exe, env):
        def run_impl(cs):
            ls = ctx.run_lines(exe, cs, env=env, timeout=3000)[1]
            ls += [''] * (len(cs) - len(ls))
            for c, l in zip(cs, ls):
                cache[c] = l
            return ls[:len(cs)]
        return run_impl

    def with_refs(cs):
        return [c + '~' + refs_of(cache.get(c, '')) for c in cs]

    run_model = lambda cs: ctx.run_lines(drv, with_refs(cs), args=['model'], timeout=3000)[1]
    run_spec = lambda cs: ctx.run_lines(drv, with_refs(cs), args=['spec'], timeout=3000)[1]
    d = vlib.Differential(ctx, 'format', mk_impl(h, env), run_model, run_spec, oracle, corr, nontrivial, split, join)
    rp = os.environ.get('VERIF_REPLAY')
    if rp:
        r = json.load(open(rp))
        d.feed([r['case']] if 'case' in r else CORPUS)
        for x in d.oracle_fail + d.corr_fail:
            print('REPLAY: %s\n  impl  %s\n  model %s\n  spec  %s' % (x[4], x[1], x[2], x[3]))
        d.report()
        return
    d.feed(CORPUS, 'corpus')
    d.feed(boundary_cases(ctx.rng, staged_caps()), 'boundary')
    n = 5000 if quick else 500000
    done = 0
    while done < n:
        m = min(5000, n - done)
        d.feed([gen_case(ctx.rng) for _ in range(m)])
        done += m
    if not quick:
        d.feed(exhaustive_one(ctx.rng))
        d.feed(exhaustive_two(ctx.rng))
    # AddressSanitizer build: "never reads or writes outside the format text or the destination"
    ctx.build_lib(tag='asan', cflags=['-fsanitize=address', '-fno-omit-frame-pointer'])
    ha = ctx.build_harness('format.c', tag='asan', extra=['-fsanitize=address', '-fno-omit-frame-pointer'])
    aenv = dict(env, ASAN_OPTIONS='detect_leaks=0:abort_on_error=1:allocator_may_return_null=1')
    da = vlib.Differential(ctx, 'format_asan', mk_impl(ha, aenv), run_model, run_spec, oracle, corr, nontrivial, split, join)
    da.feed(CORPUS, 'corpus')
    da.feed(boundary_cases(ctx.rng, staged_caps()), 'boundary')
    da.feed(asan_cases(ctx.rng, 300 if quick else 20000))
    if not quick:
        da.feed([gen_case(ctx.rng) for _ in range(20000)])

    def extra(dd):
        dd.feed([gen_case(ctx.rng) for _ in range(20000)])
    d.report(extra)
    da.report(None)
