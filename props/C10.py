"""C10 — equal values hash equally; hash is a function of the value alone; copy / assign / swap.

Three sides per case:  implementation (harness/val_hash.c on the library built from the working
tree), extracted Gallina model (coq/HashModel.v through ocaml/Hash_driver.ml), and the property
itself as the oracle (checked on the implementation's own observations; for hash_data an
independent MurmurHash64A written here)."""
import os, json, struct
import vlib

M64 = (1 << 64) - 1

# ------------------------------------------------------------------ independent MurmurHash64A
def murmur64a(data, seed=0xCe110):
    m, r = 0xc6a4a7935bd1e995, 47
    h = (seed ^ (len(data) * m)) & M64
    nb = len(data) // 8
    for i in range(nb):
        k = int.from_bytes(data[8 * i:8 * i + 8], 'little')
        k = (k * m) & M64; k ^= k >> r; k = (k * m) & M64
        h ^= k; h = (h * m) & M64
    tail = data[8 * nb:]
    if tail:
        h ^= int.from_bytes(tail, 'little')
        h = (h * m) & M64
    h ^= h >> r; h = (h * m) & M64; h ^= h >> r
    return h


# ------------------------------------------------------------------ term generators
TYPES = ['Int', 'Float', 'String', 'Array', 'List', 'Table', 'Tree', 'Tuple', 'Ref', 'Box', 'Type', 'Range', 'File']
BLOB_SIZES = [1, 2, 3, 4, 5, 6, 7, 8, 9, 11, 12, 15, 16, 17, 20, 24, 31, 33]
INT_EDGE = [0, 1, -1, 2, 2**31 - 1, 2**31, -2**31, 2**32, -2**32, 2**32 + 1, 2**62, -2**62, 2**63 - 1, -2**63,
            1265, 2530, 3795, 5, 10, 55, 110, 115, 230]          # 1265 = 5*11*23: same home slot in the small tables
FLT_EDGE = [0x0000000000000000, 0x8000000000000000, 0x0000000000000001, 0x8000000000000001, 0x000fffffffffffff,
            0x0010000000000000, 0x8010000000000000, 0x3ff0000000000000, 0xbff0000000000000, 0x3ff0000000000001,
            0x7fefffffffffffff, 0xffefffffffffffff, 0x7ff0000000000000, 0xfff0000000000000, 0x4000000000000000,
            0x3fe0000000000000, 0x7fe0000000000000, 0x0020000000000000, 0x4340000000000000, 0xc340000000000001]


def is_nan(bits):
    return (bits >> 52) & 0x7ff == 0x7ff and bits & ((1 << 52) - 1) != 0


def g_int(rng):
    r = rng.random()
    if r < .5: return rng.choice(INT_EDGE)
    if r < .7: return rng.randrange(-20, 40)
    if r < .85: return 1265 * rng.randrange(-3, 12) + rng.choice([0, 0, 5])
    return rng.randrange(-2**63, 2**63)


def g_flt(rng):
    while True:
        r = rng.random()
        if r < .55: b = rng.choice(FLT_EDGE)
        elif r < .75: b = rng.choice(FLT_EDGE) ^ rng.choice([0, 1, 2, 1 << 63, 1 << 52])
        elif r < .85: b = struct.unpack('<Q', struct.pack('<d', float(rng.randrange(-50, 50)) / rng.choice([1, 2, 3, 10])))[0]
        else: b = rng.getrandbits(64)
        if not is_nan(b): return b


def g_str(rng):
    r = rng.random()
    n = rng.choice([0, 1, 2, 3, 5, 7, 8, 9, 15, 16, 17, 24]) if r < .8 else rng.randrange(0, 40)
    if rng.random() < .5:
        return bytes(rng.choice(b'abAB\x01\x7f\x80\xff') for _ in range(n))
    return bytes(rng.randrange(1, 256) for _ in range(n))


def g_ptr(rng):
    return rng.choice([0, 1, 8, 0x7ffe12345678, 0x00005555deadbee0, 0xffffffffffffffff, 0x8000000000000000, rng.getrandbits(64), rng.getrandbits(47) & ~7])


def g_blob(rng, n=None):
    n = n or rng.choice(BLOB_SIZES)
    return bytes(rng.choice([0, 0, 1, 0xff, rng.randrange(256)]) for _ in range(n))


# values are python tuples: ('I', int) ('F', bits) ('S', bytes) ('T', name) ('R', p) ('B', p) ('P', bytes)
# ('A'|'L'|'U', [values])  ('H'|'E', [(k, v)])
def g_scalar(rng, ty):
    if ty == 'I': return ('I', g_int(rng))
    if ty == 'F': return ('F', g_flt(rng))
    if ty == 'S': return ('S', g_str(rng))
    if ty == 'T': return ('T', rng.choice(TYPES))
    if ty == 'R': return ('R', g_ptr(rng))
    if ty == 'B': return ('B', g_ptr(rng))
    return ('P', g_blob(rng, int(ty[1:])))


def g_elem_type(rng, depth):
    r = rng.random()
    if depth > 0 and r < .15: return rng.choice(['A', 'L'])
    return rng.choice(['I', 'I', 'I', 'F', 'F', 'S', 'S', 'R', 'B', 'P%d' % rng.choice(BLOB_SIZES)])


def g_of_type(rng, ty, depth):
    if ty in ('A', 'L'):
        return g_seq(rng, ty, depth - 1)
    return g_scalar(rng, ty)


def g_seq(rng, kind, depth):
    n = rng.choice([0, 1, 1, 2, 2, 3, 4, 5, 8, 13])
    if depth <= 0: n = min(n, 4)
    if kind == 'U' and rng.random() < .4:          # heterogeneous tuple
        return ('U', [g_of_type(rng, g_elem_type(rng, depth), depth) for _ in range(n)])
    ty = g_elem_type(rng, depth)
    els = [g_of_type(rng, ty, depth) for _ in range(n)]
    if els and rng.random() < .3:                  # repeated elements: XOR folds cancel
        els += [rng.choice(els) for _ in range(rng.randrange(1, 3))]
    return (kind, els)


def keynorm(k):
    """Key up to eq: the two zeros of Float are one key."""
    if k[0] == 'F' and k[1] & ~(1 << 63) == 0:
        return ('F', 0)
    return k


def key_sort(kv):
    """Iteration order of a Tree = cmp order of its keys."""
    k = kv[0]
    if k[0] == 'F':
        return struct.unpack('<d', struct.pack('<Q', k[1]))[0]
    if k[0] in 'RB':
        return k[1].to_bytes(8, 'little')          # default cmp = memcmp over the struct
    return k[1]


def g_map(rng, kind, depth):
    n = rng.choice([0, 1, 2, 2, 3, 4, 5, 6, 9, 14])
    kty = rng.choice(['I', 'I', 'I', 'I', 'S', 'S', 'F', 'F', 'R', 'B', 'P%d' % rng.choice([1, 4, 8, 12])])
    vty = g_elem_type(rng, depth)
    keys = {}
    for _ in range(n):
        k = g_scalar(rng, kty)
        keys[keynorm(k)] = k
    kvs = [(k, g_of_type(rng, vty, depth)) for k in keys.values()]
    if kind == 'E':
        kvs.sort(key=key_sort)                     # a Tree term lists its bindings in key order
    else:
        rng.shuffle(kvs)
    return (kind, kvs)


def g_value(rng):
    r = rng.random()
    if r < .30: return g_scalar(rng, rng.choice(['I', 'F', 'F', 'S', 'T', 'R', 'B', 'P%d' % rng.choice(BLOB_SIZES)]))
    if r < .65: return g_seq(rng, rng.choice('ALU'), 1)
    return g_map(rng, rng.choice('HHE'), 1)


def homogeneous(els):
    return len(set(e[0] + (str(len(e[1])) if e[0] == 'P' else '') for e in els)) <= 1


def alt(rng, v):
    """A term that denotes an equal value, written differently (the hypothesis eq(a,b) of the property)."""
    k = v[0]
    if k == 'F':
        return ('F', v[1] ^ (1 << 63)) if v[1] & ~(1 << 63) == 0 and rng.random() < .8 else v
    if k in 'ALU':
        els = [alt(rng, e) for e in v[1]]
        if k in 'AL' and any(e[0] in 'ALU' for e in els):
            ek = rng.choice('AL')                  # elements of a typed container keep one common type
            els = [(ek, e[1]) for e in els]
        nk = rng.choice('ALU') if homogeneous(els) else k
        return (nk, els)
    if k in 'HE':
        kvs = [(alt(rng, kk), alt(rng, vv)) for kk, vv in v[1]]     # a zero key may change its sign
        if any(vv[0] in 'ALU' for _, vv in kvs):
            ek = rng.choice('AL')                  # the values of a map have one common type
            kvs = [(kk, (ek, vv[1])) for kk, vv in kvs]
        nk = k if rng.random() < .7 else ('E' if k == 'H' else 'H')
        if nk == 'E': kvs.sort(key=key_sort)
        else: rng.shuffle(kvs)
        return (nk, kvs)
    return v


def near(rng, v):
    """A term that denotes a slightly different value."""
    k = v[0]
    if k == 'I': return ('I', max(-2**63, min(2**63 - 1, v[1] + rng.choice([1, -1, 2**32, -2**32, 1265]))))
    if k == 'F':
        b = v[1] ^ rng.choice([1, 1 << 63, 1 << 52, 1 << 31])
        return ('F', b if not is_nan(b) else 0x3ff0000000000000)
    if k == 'S':
        s = v[1]
        r = rng.random()
        if r < .4 or not s: return ('S', s + bytes([rng.randrange(1, 256)]))
        if r < .7: return ('S', s[:-1])
        i = rng.randrange(len(s)); return ('S', s[:i] + bytes([(s[i] % 255) + 1]) + s[i + 1:])
    if k == 'T': return ('T', rng.choice(TYPES))
    if k in 'RB': return (k, v[1] ^ rng.choice([1, 8, 1 << 40, 1 << 63]))
    if k == 'P':
        i = rng.randrange(len(v[1])); return ('P', v[1][:i] + bytes([v[1][i] ^ rng.choice([1, 0x80, 0xff])]) + v[1][i + 1:])
    if k in 'ALU':
        els = list(v[1])
        r = rng.random()
        if not els: return v
        if r < .3: return (k, els[:-1])
        if r < .5: return (k, els + [els[0]])
        if r < .7 and len(els) > 1:
            i = rng.randrange(len(els) - 1); els[i], els[i + 1] = els[i + 1], els[i]; return (k, els)   # same XOR, other order
        i = rng.randrange(len(els)); els[i] = near(rng, els[i]); return (k, els)
    if k in 'HE':
        kvs = list(v[1])
        if not kvs: return v
        r = rng.random()
        if r < .3: kvs.pop(rng.randrange(len(kvs))); return (k, kvs)
        i = rng.randrange(len(kvs))
        if r < .8: kvs[i] = (kvs[i][0], near(rng, kvs[i][1])); return (k, kvs)
        nk = near(rng, kvs[i][0])
        if any(keynorm(x[0]) == keynorm(nk) for x in kvs): return (k, kvs[:i] + kvs[i + 1:])
        kvs[i] = (nk, kvs[i][1])
        if k == 'E': kvs.sort(key=key_sort)
        return (k, kvs)
    return v


def show(v):
    k = v[0]
    if k == 'I': return 'I%d' % v[1]
    if k in 'FRB': return '%s%016x' % (k, v[1])
    if k in 'SP': return k + v[1].hex()
    if k == 'T': return 'T' + v[1]
    if k in 'ALU': return k + '[' + ','.join(show(e) for e in v[1]) + ']'
    return k + '{' + ','.join(show(a) + ':' + show(b) for a, b in v[1]) + '}'


def gen_case(rng):
    a = g_value(rng)
    r = rng.random()
    if r < .55: b = alt(rng, a)
    elif r < .85: b = near(rng, alt(rng, a))
    else:
        # unrelated value of the same class (scalar / sequence / map): comparisons between a sequence
        # and a map (Array_Cmp walks the keys only) are outside the property and not modelled
        cls = lambda v: 0 if v[0] in 'IFSTRBP' else 1 if v[0] in 'ALU' else 2
        b = g_value(rng)
        while cls(b) != cls(a): b = g_value(rng)
    if rng.random() < .5: a, b = b, a
    return 'V %s %s' % (show(a), show(b))


# ------------------------------------------------------------------ value histories (in-place mutation)
def gen_history(rng):
    """W case: an object mutated in place; each step is op=<value the object must then have>.  The
    harness hashes the object right before and IMMEDIATELY after every mutation (no other hash call in
    between), then compares with a fresh equal object in the other order."""
    r = rng.random()
    steps = []
    nops = rng.choice([1, 2, 3, 4, 6, 9])
    if r < .40:                                          # String: rem / append / shrink / assign, same buffer
        cur = bytes(rng.choice(b'abcdeABC xyz') for _ in range(rng.choice([1, 3, 6, 11, 16, 24, 40])))
        init = ('S', cur)
        for _ in range(nops):
            k = rng.random()
            if k < .3 and len(cur) > 0:
                i = rng.randrange(len(cur)); j = rng.randrange(i + 1, len(cur) + 1)
                sub = cur[i:j]; cur = cur.replace(sub, b'', 1)
                steps.append(('r' + show(('S', sub)), ('S', cur)))
            elif k < .5:
                add = bytes(rng.choice(b'abcXYZ!') for _ in range(rng.choice([1, 1, 2, 5])))
                cur = cur + add; steps.append(('p' + show(('S', add)), ('S', cur)))
            elif k < .7 and len(cur) > 0:
                n = rng.randrange(0, len(cur) + 1); cur = cur[:n]; steps.append(('z%d' % n, ('S', cur)))
            else:
                n = rng.choice([len(cur), len(cur), max(0, len(cur) - 1), rng.randrange(0, 20)])   # often the same length
                cur = bytes(rng.choice(b'pqrstuv012') for _ in range(n)); steps.append(('a' + show(('S', cur)), ('S', cur)))
    elif r < .55:                                        # other scalars: assign
        ty = rng.choice(['I', 'F', 'R', 'B', 'P%d' % rng.choice(BLOB_SIZES)])
        init = g_scalar(rng, ty)
        for _ in range(nops):
            v = g_scalar(rng, ty); steps.append(('a' + show(v), v))
    elif r < .80:                                        # sequences: push / pop / set / assign
        kind = rng.choice('ALU')
        ty = rng.choice(['S', 'S', 'I', 'F', 'P8'])
        els = [g_scalar(rng, ty) for _ in range(rng.choice([1, 2, 3, 5]))]
        init = (kind, list(els))
        for _ in range(nops):
            k = rng.random()
            if k < .35:
                x = g_scalar(rng, ty); els.append(x); steps.append(('u' + show(x), (kind, list(els))))
            elif k < .55 and els:
                els.pop(); steps.append(('o', (kind, list(els))))
            elif k < .85 and els and kind != 'U':
                i = rng.randrange(len(els)); x = g_scalar(rng, ty); els[i] = x
                steps.append(('sI%d,%s' % (i, show(x)), (kind, list(els))))
            elif kind != 'U':
                els = [g_scalar(rng, ty) for _ in range(rng.choice([1, 1, 2, 4]))]    # an empty literal would retype the container
                steps.append(('a' + show((rng.choice('AL'), list(els))), (kind, list(els))))
    else:                                                # maps: set / overwrite / rem
        kind = rng.choice('HE')
        kty, vty = rng.choice(['I', 'S']), rng.choice(['S', 'S', 'I', 'F'])
        d = {}
        for _ in range(rng.choice([1, 2, 3, 5])):
            k = g_scalar(rng, kty); d[k[1]] = (k, g_scalar(rng, vty))
        def term():
            kvs = list(d.values())
            if kind == 'E': kvs.sort(key=key_sort)
            return (kind, kvs)
        init = term()
        for _ in range(nops):
            x = rng.random()
            if x < .35 and d:
                kk = rng.choice(sorted(d)); k = d[kk][0]; v = g_scalar(rng, vty); d[kk] = (k, v)     # overwrite in place
                steps.append(('s%s:%s' % (show(k), show(v)), term()))
            elif x < .7:
                k = g_scalar(rng, kty); v = g_scalar(rng, vty); d[k[1]] = (d[k[1]][0] if k[1] in d else k, v)
                steps.append(('s%s:%s' % (show(k), show(v)), term()))
            elif d:
                kk = rng.choice(sorted(d)); k = d.pop(kk)[0]; steps.append(('r' + show(k), term()))
    return 'W ' + show(init) + ''.join(' %s=%s' % (op, show(v)) for op, v in steps)


def gen_bytes_cases(rng, per_len, long_n):
    cs = []
    for n in range(0, 97):
        for j in range(per_len):
            st = j % 4
            if st == 0: d = bytes(rng.randrange(256) for _ in range(n))
            elif st == 1: d = bytes([rng.choice([0, 0xff, 0x80, 1])] * n)
            elif st == 2: d = bytes((i * 37 + j) & 0xff for i in range(n))
            else: d = bytes(rng.choice([0, 0, 0, 0xff, rng.randrange(256)]) for _ in range(n))
            cs.append('M ' + d.hex())
    for _ in range(long_n):
        n = rng.choice([65, 71, 72, 127, 128, 129, 255, 256, 1000, rng.randrange(65, 3000)])
        cs.append('M ' + bytes(rng.randrange(256) for _ in range(n)).hex())
    return cs


# ------------------------------------------------------------------ small-scope exhaustive enumeration
def exhaustive_cases(full):
    """All pairs of Float sequences of length <= 2 over {+0, -0, 1, inf} (every pair of kinds when full,
    Array vs List otherwise), and when full all pairs of maps over keys {0, 5, 10} (one home slot in a
    5-slot table) with values {1, 2} in the kind pairs Table/Table, Table/Tree, Tree/Tree."""
    F = [0x0, 0x8000000000000000, 0x3ff0000000000000, 0x7ff0000000000000]
    seqs = [[]] + [[a] for a in F] + [[a, b] for a in F for b in F]
    kinds = [(ka, kb) for ka in 'ALU' for kb in 'ALU'] if full else [('A', 'L')]
    cs = []
    for ka, kb in kinds:
        for x in seqs:
            for y in seqs:
                cs.append('V %s %s' % (show((ka, [('F', v) for v in x])), show((kb, [('F', v) for v in y]))))
    if full:
        maps = []
        for v0 in (None, 1, 2):
            for v5 in (None, 1, 2):
                for v10 in (None, 1, 2):
                    maps.append([(('I', k), ('I', v)) for k, v in ((0, v0), (5, v5), (10, v10)) if v is not None])
        for ka, kb in (('H', 'H'), ('H', 'E'), ('E', 'E')):
            for x in maps:
                for y in maps:
                    cs.append('V %s %s' % (show((ka, x if ka == 'E' else x[::-1])), show((kb, y))))
    return cs


# ------------------------------------------------------------------ shrinking of value cases
def parse_term(s, i=0):
    k = s[i]; i += 1
    if k == 'I':
        j = i + 1 if s[i] == '-' else i
        while j < len(s) and s[j].isdigit(): j += 1
        return ('I', int(s[i:j])), j
    if k in 'FRB':
        j = i
        while j < len(s) and j < i + 16 and s[j] in '0123456789abcdefABCDEF': j += 1
        return (k, int(s[i:j] or '0', 16)), j
    if k in 'SP':
        j = i
        while j + 1 < len(s) and s[j] in '0123456789abcdefABCDEF' and s[j + 1] in '0123456789abcdefABCDEF': j += 2
        return (k, bytes.fromhex(s[i:j])), j
    if k == 'T':
        j = i
        while j < len(s) and s[j].isalnum(): j += 1
        return ('T', s[i:j]), j
    if k in 'ALU':
        i += 1; els = []
        while s[i] != ']':
            e, i = parse_term(s, i); els.append(e)
            if s[i] == ',': i += 1
        return (k, els), i + 1
    if k in 'HE':
        i += 1; kvs = []
        while s[i] != '}':
            kk, i = parse_term(s, i); i += 1
            vv, i = parse_term(s, i); kvs.append((kk, vv))
            if s[i] == ',': i += 1
        return (k, kvs), i + 1
    raise ValueError('bad term ' + s[i - 1:])


def smaller(v):
    """Structurally smaller variants of a term (one element / binding dropped, at any depth 1 position)."""
    k = v[0]
    if k in 'ALU':
        for i in range(len(v[1])):
            yield (k, v[1][:i] + v[1][i + 1:])
        for i, e in enumerate(v[1]):
            for e2 in smaller(e):
                yield (k, v[1][:i] + [e2] + v[1][i + 1:])
    elif k in 'HE':
        for i in range(len(v[1])):
            yield (k, v[1][:i] + v[1][i + 1:])
        for i, (kk, vv) in enumerate(v[1]):
            for v2 in smaller(vv):
                yield (k, v[1][:i] + [(kk, v2)] + v[1][i + 1:])
    elif k == 'S' and len(v[1]) > 1:
        yield ('S', v[1][:1])


def drop_key(v, key):
    return (v[0], [kv for kv in v[1] if kv[0] != key])


def candidates(a, b):
    # the same binding / position dropped on both sides first (keeps an equal pair equal)
    if a[0] in 'HE' and b[0] in 'HE':
        for kk, _ in a[1]:
            yield drop_key(a, kk), drop_key(b, kk)
    if a[0] in 'ALU' and b[0] in 'ALU':
        for i in range(min(len(a[1]), len(b[1]))):
            yield (a[0], a[1][:i] + a[1][i + 1:]), (b[0], b[1][:i] + b[1][i + 1:])
    for a2 in smaller(a): yield a2, b
    for b2 in smaller(b): yield a, b2


class D10(vlib.Differential):
    def shrink(self, case, fails):
        if not case.startswith('V '):
            return case
        try:
            p = case[2:].split(' ')
            a, _ = parse_term(p[0]); b, _ = parse_term(p[1])
        except Exception:
            return case
        budget, improved = 300, True
        while improved and budget > 0:
            improved = False
            for a2, b2 in candidates(a, b):
                budget -= 1
                if budget <= 0: break
                if fails('V %s %s' % (show(a2), show(b2))):
                    a, b, improved = a2, b2, True
                    break
        return 'V %s %s' % (show(a), show(b))


# ------------------------------------------------------------------ verdicts
def fields(line):
    d = {}
    for tok in line.split(' '):
        if '=' in tok:
            k, v = tok.split('=', 1); d[k] = v
    return d


def spec_of(case):
    if case.startswith('M '):
        return 'h=%d' % murmur64a(bytes.fromhex(case[2:]))
    return ''


def oracle(case, impl, spec):
    if case.startswith('M '):
        f = fields(impl)
        if 'h=' + f.get('h', '?') != spec:
            return 'hash_data gives %s, MurmurHash64A (seed 0xCe110) of these %d bytes is %s' % (impl, len(case[2:]) // 2, spec)
        if f.get('al') != 'ok':
            return 'hash_data depends on the alignment of the bytes: %s' % impl
        return None
    if 'CRASH' in impl or 'TIMEOUT' in impl or 'EXIT(' in impl:
        return 'the library crashed or hung: %s' % impl[-60:]
    if case.startswith('W '):
        for n, step in enumerate(impl.split(' | ')):
            f = fields(step)
            if step.startswith('BUILD-RAISED') or step.startswith('BAD'):
                return None
            if f.get('own') == 'STALE':
                return ('step %d: hash(obj) taken right after the mutation is %s, which is not the hash of the value the object '
                        'holds now (hash depends on more than the current value)' % (n, f.get('h')))
            if f.get('fr') not in ('ok', None) and not f.get('fr', '').startswith('BUILD'):
                return ('step %d: mutated object vs fresh equal object: %s   [f = the fresh object hashes differently, '
                        'o = hash(obj) changed when asked again, e/E = not eq]' % (n, f.get('fr')))
            if f.get('ab') == 'STALE':
                return 'step %d: a String allocated where another one was freed reports the hash of the freed one' % n
        return None
    if impl.startswith('BUILD-RAISED') or impl.startswith('BADCASE'):
        return None          # counted by corr (the model has a result, the harness has none)
    f = fields(impl)
    ab, ba = (f.get('cmp', '?,?').split(',') + ['?'])[:2]
    if ab == '0' and f.get('ha') != f.get('hb'):
        return 'eq(a,b) holds but hash(a)=%s differs from hash(b)=%s' % (f.get('ha'), f.get('hb'))
    if ba == '0' and f.get('ha') != f.get('hb'):
        return 'eq(b,a) holds but hash(b)=%s differs from hash(a)=%s' % (f.get('hb'), f.get('ha'))
    for k, what in (('va', 'a variant of a (allocation class / construction history / copy)'),
                    ('vb', 'a variant of b (allocation class / construction history / copy)'),
                    ('x', 'eq(variant of a, b) disagrees with eq(a, b)'),
                    ('asg', 'assign(y, a) does not give a value eq to a with the same hash'),
                    ('swap', 'swap does not exchange the two values')):
        v = f.get(k)
        if v is None:
            return 'transcript incomplete: %s' % impl[-80:]
        if v not in ('ok', 'na'):
            return '%s: %s   [h = hash differs, e/E = not eq (base,variant)/(variant,base), r = raised, x = eq differs]' % (what, v)
    return None


def top_kinds(case):
    p = case[2:].split(' ')
    return (p[0][:1], p[1][:1]) if len(p) == 2 else ('?', '?')


def corr(case, impl, model):
    if case.startswith('M '):
        return None if impl.split(' ')[0] == model else 'hash_data: implementation %s / model %s' % (impl, model)
    if case.startswith('W '):
        a, b = impl.split(' | '), model.split(' | ')
        if len(a) != len(b):
            return 'history: implementation has %d steps, model %d: %s' % (len(a), len(b), impl[-80:])
        for n, (x, y) in enumerate(zip(a, b)):
            if fields(x).get('h') != fields(y).get('h'):
                return 'step %d: hash after the mutation: implementation %s / model %s' % (n, x, y)
            if fields(x).get('fr', 'ok').startswith('BUILD'):
                return 'step %d: the expected value could not be built' % n
        return None
    fi, fm = fields(impl), fields(model)
    if 'cmp' not in fi:
        return 'no observation from the implementation (%s), model says %s' % (impl[:60], model[:60])
    ka, kb = top_kinds(case)
    ci, cm = fi['cmp'].split(','), fm.get('cmp', '?,?').split(',')
    if ka in 'HE' or kb in 'HE':
        # unequal maps: whether the walk raises (TypeError on values of different types) or returns
        # non-zero depends on the slot order; both mean "not equal"
        ci = ['n' if x == 'E' else x for x in ci]; cm = ['n' if x == 'E' else x for x in cm]
    # Tree_Cmp(tree, table) walks the table in slot order, which the value-level model does not know
    if not (ka == 'E' and kb == 'H') and ci[0] != cm[0]:
        return 'cmp(a,b): implementation %s / model %s' % (ci[0], cm[0])
    if not (kb == 'E' and ka == 'H') and ci[1] != cm[1]:
        return 'cmp(b,a): implementation %s / model %s' % (ci[1], cm[1])
    for k in ('ha', 'hb'):
        if fi.get(k) != fm.get(k):
            return '%s: implementation %s / model %s' % (k, fi.get(k), fm.get(k))
    if fm.get('wf') != '1':
        return 'generated value is outside the model\'s well-formedness predicate'
    for k in ('cp', 'as', 'sw'):
        if fm.get(k) == '0':
            return 'the model itself violates the %s law on this input' % k
    return None


def nontrivial(case, impl):
    if case.startswith('M '):
        return True
    if case.startswith('W '):
        return impl.count(' | ') >= 1          # at least one in-place mutation observed
    f = fields(impl)
    return f.get('cmp', '').startswith('0,') or f.get('cmp', '').endswith(',0')


CORPUS = [
    # D5: 0.0 and -0.0 are eq, so they must hash equally — bare, embedded, and as values of a map
    'V F0000000000000000 F8000000000000000',
    'V A[F8000000000000000,F3ff0000000000000] L[F0000000000000000,F3ff0000000000000]',
    'V H{I1:F8000000000000000} E{I1:F0000000000000000}',
    # F5: Table equality must not depend on slot order (insertion order under collisions, reserves, copy)
    'V H{I5:I1,I10:I2,I0:I3} H{I0:I3,I10:I2,I5:I1}',
    'V H{I7:I1,I3:I2} H{I3:I2,I7:I1}',
    'V H{I1265:S61,I2530:S62,I3795:S63,I0:S64} H{I0:S64,I3795:S63,I2530:S62,I1265:S61}',
    # XOR folds: repeated elements cancel, order is not seen
    'V A[I1,I1,I2] L[I2,I1,I1]',
    'V U[I1,S41] U[I1,S41]',
    'V S S',
    'V S48656c6c6f TInt',
    'V R0000000000000000 R0000000000000000',
    'V P00ff01 P00ff01',
    'V A[A[I1],A[I2,I3]] A[A[I1],A[I2,I3]]',
    'V H{} E{}',
    'M ', 'M 48656c6c6f',
    # value histories: hash right after an in-place mutation (seeded C16-r6-2: String_Hash memoised by buffer address)
    'W S48656c6c6f20576f726c64 rS6c6f20576f=S48656c726c64 aS546869727374=S546869727374 pS79=S54686972737479 z3=S546869',
    'W S48656c6c6f aS48656c6c6f=S48656c6c6f',
    'W A[S4142] sI0,S4344=A[S4344]',
    'W H{I1:S4142} sI1:S4344=H{I1:S4344} rI1=H{}',
    'W I5 aI7=I7 aI-1=I-1',
    'W F0000000000000000 aF8000000000000000=F8000000000000000',
]


def run(ctx):
    quick = ctx.tier == 'quick'
    ctx.cov['rule'] = (
        'hash_data: every length 0..96 x several contents (random, constant, ramp, sparse) at all 8 alignments plus long random inputs, compared '
        'with the Gallina MurmurHash64A and an independent Python one; every such case counts as non-trivial. '
        'Value cases: a pair (a, b) of terms over Int / Float (bit patterns, no NaN) / String / Type / Ref / Box / plain structs of 18 sizes / '
        'Array / List / Tuple / Table / Tree (one level of nesting); b is with probability .55 an equal value written differently '
        '(signed zero flipped, other container kind, bindings reordered), .30 a neighbour (one leaf changed, element dropped, '
        'adjacent elements exchanged), .15 unrelated. For each side the harness builds every variant (stack / heap / embedded in '
        'Array, List, Table, Tree, Tuple; 7 construction histories with reserves, junk pushed and removed, reversed and rotated '
        'insertion orders, overwritten values, assignment from the other kind; copy and copy of copy) and checks hash and eq '
        'against the base object, then assign and swap. A value case is non-trivial when the implementation finds the pair eq in '
        'at least one direction (the hypothesis of "eq implies equal hash" is exercised); distinct = distinct implementation transcripts. '
        'History cases (W): a String / Int / Float / Ref / Box / struct / Array / List / Tuple / Table / Tree object is mutated in place '
        '(rem, append, shrinking resize, assign of the same length, push, pop, set, overwrite, rem of a key); the object is hashed right '
        'before and IMMEDIATELY after every mutation with no other hash call and no exception frame in between (Cello\'s try looks up a '
        'String-keyed Table), the result is compared with the harness\'s own hash_data over the current bytes, with the model\'s hash of '
        'the expected value, and with a fresh equal object hashed afterwards (then the mutated object again), and a String allocated in '
        'a just-freed buffer must hash as its own bytes; a history case is non-trivial when at least one mutation was observed.')
    ctx.assumptions += [
        'C text tied by correspondence only: extracted Gallina model (HashModel.v) vs the library built from the working tree; '
        'constants and shapes of hash_data (tail shape), Int_Hash, Float_Hash (shape), Float_Cmp (form), memswap (loop plan), Table_Cmp, the XOR folds re-extracted into Generated.v; the theorems hold for every admissible shape',
        'NaN is excluded (Float_Cmp returns 0 whenever an operand is NaN, so eq(NaN, x) holds for every x)',
        'allocation class and address independence are carried by the correspondence (a functional model has no addresses)',
        'Tree_Cmp(tree, table) (walk of the table in slot order) is not modelled at value level; only eq(table, tree) is demanded there',
    ]
    ctx.coq()
    model_err = None
    try:
        drv = ctx.build_driver('Hash')
    except vlib.ModelBuildError as e:
        # Generated.v no longer provides what the model needs (a code shape changed): the
        # implementation-only oracle still runs and looks for a concrete failing input
        drv, model_err = None, e
        ctx.notes.append('model build error: %s' % str(e)[-600:])
    h = ctx.build_harness('val_hash.c')
    run_impl = lambda cs: ctx.run_lines(h, cs)[1]
    run_model = (lambda cs: ctx.run_lines(drv, cs, args=['model'])[1]) if drv else None
    run_spec = lambda cs: [spec_of(c) for c in cs]
    d = D10(ctx, 'values', run_impl, run_model, run_spec, oracle, corr, nontrivial)
    rp = os.environ.get('VERIF_REPLAY')
    if rp:
        r = json.load(open(rp))
        d.feed([r['case']] if 'case' in r else CORPUS)
        for x in d.oracle_fail + d.corr_fail:
            print('REPLAY: %s\n  case  %s\n  impl  %s\n  model %s' % (x[4], x[0], x[1], x[2]))
        d.report()
        return
    d.feed(CORPUS, 'corpus')
    d.feed(gen_bytes_cases(ctx.rng, 16 if quick else 200, 60 if quick else 2000))
    ex = exhaustive_cases(not quick)
    d.feed(ex)
    ctx.cov['exhaustive'] = ('%d cases: all pairs of Float sequences of length <= 2 over {+0.0, -0.0, 1.0, inf}, %s; %s'
                             % (len(ex), 'Array vs List' if quick else 'all 9 pairs of Array/List/Tuple',
                                'maps only in the thorough tier' if quick else
                                'all pairs of maps over keys {0,5,10} x values {1,2} for Table/Table, Table/Tree, Tree/Tree'))
    nh = 1200 if quick else 40000
    hist = [gen_history(ctx.rng) for _ in range(nh)]
    for i in range(0, nh, 2000):
        d.feed(hist[i:i + 2000])
    n = 3000 if quick else 100000
    cases = [gen_case(ctx.rng) for _ in range(n)]
    for i in range(0, n, 2000):
        d.feed(cases[i:i + 2000])

    def extra(dd):
        dd.feed([gen_case(ctx.rng) for _ in range(10 * min(n, 3000))])
    if (model_err or getattr(ctx, 'proof_broken', None)) and not d.oracle_fail:
        extra(d)          # broken obligation / model: directed search for a concrete failing input
    d.report(extra)
    if model_err and not any(not nf for _, nf in ctx.violations):
        ctx.violation('model', {'kind': 'the Coq model no longer builds against coq/Generated.v regenerated from the source',
                                'detail': str(model_err)[-3000:], 'theorem_or_file': 'Extract_Hash.v / Generated.v',
                                'search': 'implementation-only oracle clean on %d cases incl. directed search' % d.ncases},
                      no_failing_input=True)
