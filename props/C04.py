"""C04 — Array, List and Tuple behave as sequences.

Coq side: coq/SeqModels.v (models + list specification), SeqProofs.v / SortProofs.v, Properties_C04.v.
Correspondence: harness/seq_wb.c (real library, white-box nslots) vs ocaml/Seq_driver.ml (extracted
model and extracted specification); case format documented in Seq_driver.ml."""
import os, json
import vlib

BIG = [2 ** 31, -2 ** 31, 2 ** 32 + 1, 2 ** 62, -2 ** 63, 2 ** 63 - 1, -1, 1000003]
KINDS = 'ALT'


# ---------------------------------------------------------------- python shadow (generation only)
class Shadow:
    """Tracks the abstract sequence so that the valid stream stays inside each container's
    in-range contract.  It is NOT the oracle (the extracted Coq specification is)."""

    def __init__(self, kind, vals):
        self.k, self.l = kind, list(vals)

    def push_at_ok(self, k):
        n = len(self.l)
        if self.k == 'A':
            i = n + 1 + k if k < 0 else k
            return i if 0 <= i <= n else None
        if self.k == 'L' and k == 0:
            return 0
        i = n + k if k < 0 else k
        return i if 0 <= i < n else None

    def idx(self, k):
        n = len(self.l)
        i = n + k if k < 0 else k
        return i if 0 <= i < n else None


def pick_val(rng, style):
    r = rng.random()
    if style == 'dups':
        return rng.randrange(0, 4)
    if r < .55:
        return rng.randrange(0, 8)
    if r < .9:
        return rng.randrange(-50, 100)
    return rng.choice(BIG)


def edge_index(rng, n, for_push_at=False):
    """index at one of the boundaries the proofs split on"""
    c = [0, n - 1, -1, -n, n // 2, n // 2 + 1, -(n // 2), n // 2 - 1]
    if for_push_at:
        c += [n, -n - 1, -1, 0]
    return rng.choice(c)


def gen_valid(rng, kind, maxops, style=None):
    style = style or rng.choice(['mixed', 'mixed', 'grow', 'edges', 'dups', 'sorty', 'xfer'])
    toks = []
    vals = []
    if rng.random() < .4:
        vals = [pick_val(rng, style) for _ in range(rng.choice([0, 1, 2, 3, 5, 8, 13]))]
        toks.append('N' + ','.join(map(str, vals)))
    sh = Shadow(kind, vals)
    nops = rng.randrange(1, maxops + 1)
    phase_push = True
    target = rng.choice([10, 20, 41, 47]) if style == 'grow' else 0
    while len(toks) < nops:
        n = len(sh.l)
        r = rng.random()
        if style == 'grow':
            # push run up to the target (crossing every growth), then pop run back to empty
            if phase_push and n >= target:
                phase_push = False
            if not phase_push and n == 0:
                phase_push = True; target = rng.choice([3, 7, 12, 30])
            r = rng.random() * .12 if phase_push else .12 + rng.random() * .12
            if rng.random() < .15:
                r = rng.random()
        if r < .12 or n == 0 and r < .5:
            v = pick_val(rng, style)
            if rng.random() < .8:
                toks.append('u%d' % v)
            else:
                toks.append('a%d' % v)
            sh.l.append(v)
        elif r < .24:
            if n == 0: continue
            if rng.random() < .6:
                toks.append('o'); sh.l.pop()
            else:
                k = edge_index(rng, n) if rng.random() < .6 else rng.randrange(-n, n)
                i = sh.idx(k)
                if i is None: continue
                toks.append('d%d' % k); del sh.l[i]
        elif r < .38:
            k = edge_index(rng, n, True) if rng.random() < .7 else rng.randrange(-n - 1, n + 1)
            i = sh.push_at_ok(k)
            if i is None: continue
            v = pick_val(rng, style)
            toks.append('i%d,%d' % (k, v)); sh.l.insert(i, v)
        elif r < .48:
            if n == 0: continue
            k = edge_index(rng, n) if rng.random() < .6 else rng.randrange(-n, n)
            i = sh.idx(k)
            if i is None: continue
            v = pick_val(rng, style)
            toks.append('s%d,%d' % (k, v)); sh.l[i] = v
        elif r < .56:
            if n == 0: continue
            k = edge_index(rng, n) if rng.random() < .6 else rng.randrange(-n, n)
            if sh.idx(k) is None: continue
            toks.append('g%d' % k)
        elif r < .62:
            toks.append('m%d' % (rng.choice(sh.l) if sh.l and rng.random() < .6 else pick_val(rng, style)))
        elif r < .70:
            if n == 0: continue
            v = rng.choice(sh.l)
            toks.append('r%d' % v); sh.l.remove(v)
        elif r < .77:
            src = rng.choice(KINDS)
            vs = [pick_val(rng, style) for _ in range(rng.choice([0, 1, 2, 3, 6, 11]))]
            toks.append('c%s:%s' % (src, ','.join(map(str, vs)))); sh.l += vs
        elif r < .83:
            if kind == 'T':
                if n == 0: continue
                m = rng.choice([0, n - 1, n // 2, rng.randrange(0, n)])
                toks.append('z%d' % m); del sh.l[m:]
            else:
                m = rng.choice([0, 1, n, n + 1, n - 1, n // 2, n + n // 2, n + n // 2 + 1, 2 * n + 3, rng.randrange(0, n + 6)])
                if m < 0: continue
                toks.append('z%d' % m)
                if kind == 'L':
                    sh.l = sh.l[:m] + [0] * (m - n)
                else:
                    del sh.l[m:]
        elif r < .90:
            if kind == 'L': continue
            if style == 'sorty' and rng.random() < .5 and n:
                # already sorted / reverse sorted / all equal input right before the sort
                form = rng.choice(['asc', 'desc', 'eq'])
                vs = sorted(sh.l) if form == 'asc' else sorted(sh.l, reverse=True) if form == 'desc' else [sh.l[0]] * n
                src = rng.choice(KINDS if kind == 'T' else 'AL')
                toks.append('n%s:%s' % (src, ','.join(map(str, vs)))); sh.l = list(vs)
            toks.append('t'); sh.l.sort()
        elif r < .95:
            # assign from another container (Array/List take Int containers only: a Tuple source
            # would turn them into containers of Ref)
            src = rng.choice(KINDS if kind == 'T' else 'AL')
            vs = [pick_val(rng, style) for _ in range(rng.choice([0, 1, 2, 4, 9]))]
            toks.append('n%s:%s' % (src, ','.join(map(str, vs)))); sh.l = list(vs)
        else:
            toks.append('y')
    return kind + '|' + ' '.join(toks)


def gen_access(rng, kind, maxops):
    """explicit dump mode: the observations ARE the operation stream.  Indexed operations (get / set /
    pop_at / push_at) mostly at indices adjacent to the previous indexed operation (j-1, j, j+1, j+2),
    interleaved with push/pop/mem/rem; most steps are not dumped at all, some are dumped by gets at
    descending indices ('^'), by iteration only ('~') or fully ('!'); a full dump closes the case.
    State that depends on the access history (a cached cursor, a remembered node) is therefore not
    re-seeded by a 0..n-1 sweep between two operations."""
    vals = [pick_val(rng, 'mixed') for _ in range(rng.choice([0, 3, 5, 8, 12, 20]))]
    toks = ['N' + ','.join(map(str, vals))]
    sh = Shadow(kind, vals)
    last = None
    nops = rng.randrange(2, maxops + 1)
    tries = 0
    while len(toks) <= nops and tries < 20 * maxops:
        tries += 1
        n = len(sh.l)
        r = rng.random()
        if last is not None and rng.random() < .7:
            k = last + rng.choice([-1, 0, 1, 1, 1, 2])
            if rng.random() < .25 and n:
                k -= n                     # the same position given as a negative key
        else:
            k = rng.randrange(-n, n + 1) if n else 0
        tok = None
        if r < .30:
            if sh.idx(k) is None: continue
            tok = 'g%d' % k; last = sh.idx(k)
        elif r < .45:
            i = sh.idx(k)
            if i is None: continue
            v = pick_val(rng, 'mixed'); tok = 's%d,%d' % (k, v); sh.l[i] = v; last = i
        elif r < .65:
            i = sh.push_at_ok(k)
            if i is None: continue
            v = pick_val(rng, 'mixed'); tok = 'i%d,%d' % (k, v); sh.l.insert(i, v); last = i
        elif r < .75:
            i = sh.idx(k)
            if i is None: continue
            tok = 'd%d' % k; del sh.l[i]; last = i
        elif r < .83:
            v = pick_val(rng, 'mixed'); tok = 'u%d' % v; sh.l.append(v)
        elif r < .87:
            if not n: continue
            tok = 'o'; sh.l.pop()
        elif r < .92:
            tok = 'm%d' % (rng.choice(sh.l) if sh.l and rng.random() < .6 else pick_val(rng, 'mixed'))
        elif r < .96:
            if not n: continue
            v = rng.choice(sh.l); tok = 'r%d' % v; sh.l.remove(v)
        else:
            tok = 'y'
        d = rng.random()
        toks.append(tok + ('' if d < .72 else '^' if d < .82 else '~' if d < .92 else '!'))
    return kind + '*|' + ' '.join(toks)


ELEM_SIZES = [1, 2, 4, 6, 12, 20]


def gen_elem(rng, kind, size, maxops):
    """Array / List of a plain struct element type of `size` bytes (values 0..250, every byte of the
    element is a function of the value, so a partially moved element is visible): a valid sequence
    with push_at away from the end, sort and set — the paths that move elements with swap / assign"""
    style = rng.choice(['sorty', 'edges', 'mixed', 'dups'])
    case = gen_valid(rng, kind, maxops, style)
    pre, toks = split(case)
    out = []
    for t in toks:
        # squeeze every value into 0..250 (keys stay as they are)
        if t[0] in 'uamr':
            t = t[0] + str(abs(int(t[1:])) % 251)
        elif t[0] in 'is':
            k, v = t[1:].split(',')
            t = '%s%s,%d' % (t[0], k, abs(int(v)) % 251)
        elif t[0] in 'Ncn':
            h, _, vs = t.partition(':') if t[0] in 'cn' else (t[0], '', t[1:])
            vs = ','.join(str(abs(int(v)) % 251) for v in vs.split(',') if v)
            t = (h + ':' + vs) if t[0] in 'cn' else 'N' + vs
        out.append(t)
    return '%se%d|%s' % (kind, size, ' '.join(out))


def gen_invalid(rng, kind, maxops):
    """valid prefix, then operations outside the contract interleaved with valid ones
    (compared with the MODEL only: the oracle stops at the first out-of-range operation)"""
    base = gen_valid(rng, kind if kind != 'S' else 'T', rng.randrange(1, 12), 'mixed')
    pre, toks = base.split('|', 1)
    toks = toks.split(' ') if toks else []
    if kind == 'S':
        toks = [t for t in toks if t[0] == 'N'] or ['N1,2,3']
    for _ in range(rng.randrange(1, maxops)):
        r = rng.random()
        big = rng.choice([60, 61, 1000, 2 ** 31, 2 ** 63 - 1])
        k = rng.choice([big, -big - 1, -2 ** 63, 50, -50, 7, -7, 3, -3])
        if r < .2: toks.append('g%d' % k)
        elif r < .35: toks.append('s%d,5' % k)
        elif r < .5: toks.append('d%d' % k)
        elif r < .65: toks.append('i%d,5' % k)
        elif r < .72: toks.append('o')
        elif r < .8: toks.append('r%d' % rng.choice([77777, -77777, 3]))
        elif r < .86: toks.append('z%d' % rng.choice([0, 1, 5, 50]) if kind in 'TS' else 'u3')
        elif r < .9: toks.append('t')
        else: toks.append(rng.choice(['u1', 'u2', 'o', 'g0', 'g-1', 'm1', 'y', 'a4', 'cL:1,2']))
    return kind + '|' + ' '.join(toks)


ALPHA16 = ['u0', 'u1', 'o', 'i0,2', 'i-1,2', 'i1,1', 'd0', 'd-1', 's0,2', 'r1', 'r0', 't', 'z1', 'z2', 'cL:1,0', 'y']
ALPHA_ACCESS = ['u0', 'o', 'i0,2', 'i1,1', 'i-1,2', 'g0', 'g1', 'g2', 'g-1', 's1,2', 'd0', 'd1']
ALPHA7 = {'A': ['u0', 'u1', 'o', 'i0,2', 'i-1,2', 'd0', 't'],
          'L': ['u0', 'u1', 'o', 'i0,2', 'i-1,2', 'd0', 'r1'],
          'T': ['u0', 'u1', 'o', 'i0,2', 'i-1,2', 'd0', 't']}


def gen_exhaustive(alpha, maxlen):
    """every sequence of <= maxlen ops from a small alphabet over the values 0,1,2 (thorough tier;
    sequences that leave the in-range contract are still run: the model is compared throughout,
    the specification up to the first out-of-range operation)"""
    import itertools
    for n in range(1, maxlen + 1):
        for ops in itertools.product(alpha, repeat=n):
            yield ops


def parallel(run, jobs=4):
    """run the chunks of a case list in `jobs` concurrent processes (order preserved)"""
    from concurrent.futures import ThreadPoolExecutor

    def go(cases):
        if len(cases) < 64:
            return run(cases)
        k = (len(cases) + jobs - 1) // jobs
        chunks = [cases[i:i + k] for i in range(0, len(cases), k)]
        with ThreadPoolExecutor(jobs) as ex:
            outs = list(ex.map(run, chunks))
        return [l for o in outs for l in o]
    return go


# ---------------------------------------------------------------- transcript handling
# the comparisons of coq/SeqCmps.v (z_cmp), on values
CMP_NAMES = ['lt', 'gt', 'le', 'ge', 'abs-lt', 'key(|v|/4)-lt', 'never', 'always']
CMPS = [lambda x, y: x < y, lambda x, y: x > y, lambda x, y: x <= y, lambda x, y: x >= y,
        lambda x, y: abs(x) < abs(y), lambda x, y: abs(x) // 4 < abs(y) // 4, lambda x, y: False, lambda x, y: True]
CMP_IN_CONTRACT = [0, 1, 4, 5, 6]     # asymmetric and transitive (SeqCmps.cmp_in_contract)


def cmp_of(case):
    fl = case[1:case.index('|')]
    return int(fl[fl.index('c') + 1]) if 'c' in fl else 0


def gen_sortby(rng, kind, k):
    """sort_by(t, f) with comparison k on ascending / descending / all-equal / duplicate-laden / single /
    empty / random contents (installed by new or assign right before the sort), then a few more operations
    and possibly a second sort"""
    def contents():
        form = rng.choice(['asc', 'asc', 'desc', 'eq', 'dups', 'single', 'empty', 'random', 'random', 'signs'])
        n = rng.choice([2, 3, 5, 6, 7, 12, 20])
        if form == 'empty': return []
        if form == 'single': return [rng.randrange(-9, 10)]
        if form == 'eq': return [rng.randrange(-9, 10)] * n
        if form == 'dups': vs = [rng.randrange(0, 4) for _ in range(n)]
        elif form == 'signs': vs = [rng.choice([-1, 1]) * rng.randrange(0, 12) for _ in range(n)]
        else: vs = [rng.randrange(-50, 100) for _ in range(n)]
        if form == 'asc': vs.sort()
        if form == 'desc': vs.sort(reverse=True)
        if form == 'asc' and rng.random() < .5: vs = sorted(set(vs))
        return vs
    toks = ['N' + ','.join(map(str, contents())), 't']
    for _ in range(rng.randrange(0, 4)):
        r = rng.random()
        if r < .4:
            src = rng.choice(KINDS if kind == 'T' else 'AL')
            toks += ['n%s:%s' % (src, ','.join(map(str, contents()))), 't']
        elif r < .6: toks.append('u%d' % rng.randrange(-9, 10))
        elif r < .8: toks += ['i0,%d' % rng.randrange(-9, 10), 't']
        else: toks.append('t')
    return '%sc%d|%s' % (kind, k, ' '.join(toks))


def list_cursor_flags(ctx):
    """white-box: if struct List carries a cached position (a pointer field X next to an integer field
    X_index / X_idx / X_pos) tell the harness its names, so that it can check the cache against the links"""
    import re
    try:
        src = open(os.path.join(vlib.REPO, 'src', 'List.c')).read()
    except OSError:
        return []
    m = re.search(r'struct\s+List\s*\{(.*?)\}\s*;', src, re.S)
    if not m:
        return []
    ptrs = re.findall(r'\bvar\s+(\w+)\s*;', m.group(1))
    ints = re.findall(r'\b(?:size_t|int64_t|uint64_t|int|long)\s+(\w+)\s*;', m.group(1))
    for x in ptrs:
        if x in ('type', 'head', 'tail'):
            continue
        for suf in ('_index', '_idx', '_pos', '_i'):
            if x + suf in ints:
                ctx.notes.append('struct List has a cached position (%s, %s): checked against the links after every dump' % (x, x + suf))
                return ['-DLIST_CURSOR_PTR=' + x, '-DLIST_CURSOR_IDX=' + x + suf]
    return []


def steps(line):
    return line.split(' | ')


def oracle(case, impl, spec):
    """implementation vs the abstract-sequence specification, only while the history stays inside
    the in-range contract (the specification prints OOR from the first operation outside it on)"""
    pi, ps = steps(impl), steps(spec)
    ops = [t for t in split(case)[1] if t[0] != 'N']
    for n, b in enumerate(ps):
        if b == 'OOR':
            return None
        if n >= len(pi):
            return 'implementation transcript stops after %d steps (crash/timeout), specification has %d' % (len(pi), len(ps))
        a = pi[n].split(';')
        b = b.split(';')
        if len(a) < 2 or a[0] != b[0]:
            return 'step %d: outcome %s, the abstract sequence gives %s' % (n, a[0] if len(a) > 1 else pi[n], b[0])
        if a[1] != b[1]:
            return 'step %d: len %s, the abstract sequence has %s elements' % (n, a[1], b[1])
        if len(b) == 2:                       # step without a dump (explicit dump mode)
            if len(a) != 2:
                return 'step %d: %s' % (n, pi[n])
            continue
        if b[2] == '^':                       # indexed gets only, taken at descending indices
            if len(a) != 5 or a[2] != '^':
                return 'step %d: %s' % (n, pi[n])
            if a[3] != b[3]:
                return 'step %d: get(len-1..0) = [%s] (listed by index), the abstract sequence is [%s]' % (n, a[3], b[3])
            if a[4] != '=':
                return 'step %d: get(-len..-1) = [%s] is not the sequence [%s] reversed' % (n, a[4], b[3])
            continue
        if b[2] == '~':                       # iteration and mem only
            if len(a) != 5 or a[2] != '~':
                return 'step %d: %s' % (n, pi[n])
            if a[3] != b[3]:
                return 'step %d: iteration yields [%s], the abstract sequence is [%s]' % (n, a[3], b[3])
            if a[4] != b[4]:
                return 'step %d: mem of probes 0,1,2,7 = %s, the abstract sequence gives %s' % (n, a[4], b[4])
            continue
        if len(a) != 7:
            return 'step %d: %s' % (n, pi[n])
        out, ln, g, ng, it, mm, w = a
        if g != b[2] and n >= 1 and n - 1 < len(ops) and ops[n - 1].rstrip('!^~') == 't' and ng == '=' and it == '=':
            # sort is specified, not computed: any permutation of the previous contents without an inversion
            # under the GIVEN comparison is right (ties may come out in another order than the reference
            # sort's); the specification's own sequence is then no longer the implementation's: stop here
            f = CMPS[cmp_of(case)]
            try:
                got = [int(x) for x in g.split(',')] if g else []
                prev = ps[n - 1].split(';')
                before = [int(x) for x in prev[2].split(',')] if len(prev) == 4 and prev[2] else None
            except ValueError:
                return 'step %d: %s' % (n, pi[n])
            if before is not None and sorted(got) != sorted(before):
                return 'step %d: sort_by left [%s], not a permutation of [%s]' % (n, g, prev[2])
            for j in range(len(got)):
                for i in range(j):
                    if f(got[j], got[i]):
                        return ('step %d: sort_by(%s) left [%s]: element %d at index %d must not come after %d at index %d'
                                % (n, CMP_NAMES[cmp_of(case)], g, got[j], j, got[i], i))
            return None
        if g != b[2]:
            return 'step %d: get(0..len-1) = [%s], the abstract sequence is [%s]' % (n, g, b[2])
        if ng != '=':
            return 'step %d: get(-1..-len) = [%s] is not the sequence [%s] reversed' % (n, ng, b[2])
        if it != '=':
            return 'step %d: iteration yields [%s] (forward from iter_init, or BACKWARD from iter_last), the abstract sequence is [%s]' % (n, it, b[2])
        if mm != b[3]:
            return 'step %d: mem of probes 0,1,2,7 = %s, the abstract sequence gives %s' % (n, mm, b[3])
    if len(pi) > len(ps):
        return 'step %d: %s' % (len(ps), pi[len(ps)])
    return None


EXACT_CAPACITY = [True]      # set by run(): False when tools/genx_seq.py did not recognise the capacity policy


def raised(out):
    return not (out in ('new', 'ok', 'end', 'true', 'false') or (out[:1] == 'v' and out[1:].lstrip('-').isdigit()))


def corr(case, impl, model):
    """implementation vs model, field by field.  The Array capacity (last field of a full dump) is tuning,
    not contents: it is compared exactly only while the capacity policy was read from the source and no
    operation of the case has raised so far (what a FAILED operation does to the capacity is nobody's
    business); otherwise it only has to be admissible: nslots >= len."""
    if impl == model:
        return None
    a, b = steps(impl), steps(model)
    exact = EXACT_CAPACITY[0]
    ops = [t for t in split(case)[1] if t[0] != 'N']
    for n, (x, y) in enumerate(zip(a, b)):
        if raised(x.split(';')[0]):
            exact = False
        if x != y:
            fx, fy = x.split(';'), y.split(';')
            if (n >= 1 and n - 1 < len(ops) and ops[n - 1].rstrip('!^~') == 't' and len(fx) == 7 and len(fy) == 7
                    and fx[:2] == fy[:2] and fx[3:] == fy[3:] and fx[3] == '=' and fx[4] == '='):
                # a sort whose result differs from the modelled quicksort's only in the order of the elements:
                # which of the valid orders comes out (ties; any order at all for a comparison outside the
                # sort contract) is the algorithm's choice, not the property's.  Accept a permutation of the
                # previous contents that has no inversion under an in-contract comparison, and stop
                # comparing this case (the states differ from here on)
                k = cmp_of(case)
                try:
                    got = [int(v) for v in fx[2].split(',')] if fx[2] else []
                    want = [int(v) for v in fy[2].split(',')] if fy[2] else []
                except ValueError:
                    return 'step %d: implementation %s / model %s' % (n, x, y)
                if sorted(got) != sorted(want):
                    return 'step %d: sort left [%s], not a permutation of the model\'s [%s]' % (n, fx[2], fy[2])
                if k in CMP_IN_CONTRACT and any(CMPS[k](got[j], got[i]) for j in range(len(got)) for i in range(j)):
                    return 'step %d: sort_by(%s) left [%s], which has an inversion (model: [%s])' % (n, CMP_NAMES[k], fx[2], fy[2])
                return None
            if case[0] == 'A' and len(fx) == 7 and len(fy) == 7 and fx[:6] == fy[:6] and fx[6].isdigit() and fx[1].isdigit():
                if exact:
                    return 'step %d: capacity %s, the model (policy read from the source) says %s: %s' % (n, fx[6], fy[6], x)
                if int(fx[6]) < int(fx[1]):
                    return 'step %d: capacity %s below len %s: %s' % (n, fx[6], fx[1], x)
            else:
                return 'step %d: implementation %s / model %s' % (n, x, y)
    if len(a) != len(b):
        return 'length %d vs %d' % (len(a), len(b))
    return None


def nontrivial(case, impl):
    """a case counts when it crossed a capacity change (Array: nslots changed between two steps),
    or used a negative / boundary index on a non-empty container, or sorted >= 2 elements"""
    st = [s.split(';') for s in steps(impl)]
    if case[0] == 'A':
        ws = [s[6] for s in st if len(s) == 7]
        if any(x != y for x, y in zip(ws, ws[1:])) and len(set(ws)) > 2:
            return True
    toks = case[case.index('|') + 1:].split(' ')
    if '*' in case[:case.index('|')]:
        # explicit dump mode: counts when an indexed access follows another operation at an adjacent index
        idx = [int(t[1:].rstrip('!^~').split(',')[0]) if t and t[0] in 'idsg' else None for t in toks]
        return any(x is not None and y is not None and abs(x - y) <= 1 for x, y in zip(idx, idx[1:]))
    for n, t in enumerate(toks):
        if t and t[0] in 'idsg' and n < len(st) and len(st[n]) == 7 and st[n][1] not in ('0', '1'):
            k = t[1:].split(',')[0]
            if k.startswith('-') or k == '0' or k == st[n][1] or k == str(int(st[n][1]) - 1):
                return True
        if t == 't' and n < len(st) and len(st[n]) == 7 and st[n][1] not in ('0', '1'):
            return True
    return False


def split(case):
    b = case.index('|') + 1
    return case[:b], [t for t in case[b:].split(' ') if t]


def join(pre, toks):
    return pre + ' '.join(toks)


# witnesses of the repaired defects of this area (must agree with the model = repaired behaviour)
CORPUS = [
    'A|N1,2,3 i7,9 i7,9 i-5,9 u4 g3',        # D13 cab8f5d: failed push_at must not grow the Array
    'S|N1,2,3 d0 g0 d-1 g2',                 # D14 9c281b5: pop_at on a stack Tuple refuses before moving
    'T|N1,2,3 r9 r2 r2',                     # D15 898595c: rem of an absent element raises ValueError
    'L|N1,2,3 i7,9 i3,9 i-4,9 i0,8 i-1,7',   # D20 e081243: failed push_at on List (locate first)
    'A|u1 u2 u3 g0 g-1 i-1,9 i0,8 d1 r9 m2 t z2 y o o o',
    'L|u1 u2 u3 i-1,9 i0,8 i3,7 d1 r9 z7 z2 y',
    'T|u1 u2 u3 i-1,9 i0,8 d1 r9 t z1 cA:4,5 nL:1,2 y',
    'S|N3,1,2 g0 t g0 s1,9 m9 y u5',
    'A|z5 u1 u2 z1 z0 u3',
    'A|N5,5,1,5,1 t', 'T|N2,1,2,1,0,0 t', 'A|N3,2,1 t', 'T|N1,2,3 t',
    'L|N1,2,3,4,5,6,7 g3 g4 g-3 g-4 d3 d3 i3,0 i4,0',     # both walks of List_At around nitems/2
    # access-pattern dependent state (seeded C04-r5-2: cursor cache in List_At not reset by an insertion)
    'L*|N0,1,2,3,4,5,6,7 i3,9 g4 g2 i1,8 g3 s4,7 g5^', 'L*|N0,1,2,3,4,5 g3 i0,9 g4 i-2,8 g-1 d2 g2~',
    'A*|N0,1,2,3,4,5,6,7 i3,9 g4 g2 i1,8 g3 s4,7 g5^', 'T*|N0,1,2,3,4,5,6,7 i3,9 g4 g2 i1,8 g3 s4,7 g5^',
    # sort_by with the caller's comparison on already ascending input (seeded C04-r7-2: "already in order" scan with lt)
    'Tc1|N1,2,3,4,5,6 t', 'Ac1|N1,2,3,4,5,6 t', 'Tc1|N1,2,2,3,3,3,7 t', 'Tc1|N1,2 t', 'Tc1|N3,1,2 t t', 'Tc4|N-1,2,-3,4 t',
    'Tc5|N9,1,5,2,8 t u3', 'Ac6|N3,1,2 t', 'Tc6|N3,1,2 t', 'Ac2|N2,1,2 t', 'Tc3|N2,1,2 t', 'Ac7|N2,1,3 t', 'Tc7|N2,1,3 t',
    # struct elements whose size is not a multiple of 8 moved by swap (seeded C04-r5-1: memswap tail)
    'Ae12|N50,10,40,20,30 i0,5 i2,60 t', 'Ae6|N50,10,40,20,30 i0,5 i2,60 t', 'Ae20|N3,2,1 i1,9 t',
    'Ae1|N250,3,7 i1,9 t', 'Ae2|N250,3,7 i1,9 t', 'Ae4|N250,3,7 i1,9 t', 'Le12|N50,10,40 i1,5 s-1,7 z5',
]
# D21 d93ad78: a wrong-typed element (String) is outside the model; literal expected transcripts
CORPUS_LITERAL = [
    ('A|N1,2,3 x u4', 'new;3;1,2,3;=;=;0110;3 | ClassError;3;1,2,3;=;=;0110;6 | ok;4;1,2,3,4;=;=;0110;6'),
    ('A|N1,2,3 X:7,8 u4', 'new;3;1,2,3;=;=;0110;3 | ClassError;5;1,2,3,7,8;=;=;0111;10 | ok;6;1,2,3,7,8,4;=;=;0111;10'),
    ('L|N1,2,3 x u4', 'new;3;1,2,3;=;=;0110;- | ClassError;3;1,2,3;=;=;0110;- | ok;4;1,2,3,4;=;=;0110;-'),
]


def run(ctx):
    quick = ctx.tier == 'quick'
    ctx.cov['rule'] = (
        'seeded operation sequences per container (A = Array of Int, L = List of Int, T = heap Tuple of distinct Int '
        'objects, S = stack Tuple): push/pop/push_at/pop_at/set/get/mem/rem/concat/append/resize/sort/assign/copy; styles: '
        'mixed, grow (push runs to 10-47 then pop runs to 0, crossing every growth x1.5 and every shrink), edges (index in '
        '{0, len-1, len, -1, -len, len/2 +-1}), dups (values 0..3), sorty (sorted / reverse / all-equal input before sort), '
        'xfer (concat/assign from Array, List and Tuple sources); an invalid stream (out-of-range keys incl. INT64 extremes, '
        'absent rem, impossible resize, sort on List, mutation of a stack Tuple) is compared with the model only. After EVERY '
        'operation the harness dumps outcome, len, get at every index 0..len-1 and -1..-len, forward iteration, mem of 0,1,2,7 '
        'and (white-box) nslots. A case is non-trivial when the Array capacity changed at least twice, or an operation used '
        'a negative or boundary index on a container of >= 2 elements, or >= 2 elements were sorted; distinct = distinct '
        'implementation transcripts')
    ctx.assumptions += [
        'C text tied by correspondence only: extracted Gallina models vs library built from the working tree; dump after '
        'every operation, Array capacity (nslots) compared white-box',
        'keys are int64; elements are Int values (Tuple: distinct heap Int objects); a wrong-typed element is outside the model',
        'realloc keeps the common prefix; memmove/memcpy move whole element records']
    ctx.coq()
    try:
        gen = open(os.path.join(vlib.COQ, 'Generated.v')).read()
    except OSError:
        gen = ''
    EXACT_CAPACITY[0] = 'array_policy_from_source : bool := true' in gen
    if not EXACT_CAPACITY[0]:
        ctx.notes.append('Array capacity policy not recognised by tools/genx_seq.py: the models run with the pinned policy and the '
                         'capacity is compared for admissibility only (nslots >= len after every operation)')
    drv = ctx.build_driver('Seq')
    h = ctx.build_harness('seq_wb.c', whitebox=['Array', 'List'], extra=list_cursor_flags(ctx))
    run_impl = parallel(lambda cs: ctx.run_lines(h, cs)[1])
    run_model = parallel(lambda cs: ctx.run_lines(drv, cs, args=['model'])[1], 2)
    run_spec = parallel(lambda cs: ctx.run_lines(drv, cs, args=['spec'])[1], 2)
    d = vlib.Differential(ctx, 'seq', run_impl, run_model, run_spec, oracle, corr, nontrivial, split, join)
    rp = os.environ.get('VERIF_REPLAY')
    if rp:
        r = json.load(open(rp))
        lit = dict(CORPUS_LITERAL)
        if r.get('case') in lit:
            got = run_impl([r['case']])[0]
            nocap = lambda t: ' | '.join(';'.join(f.split(';')[:6]) for f in steps(t))
            print('REPLAY: D21 witness %s\n  impl     %s\n  expected %s' % (r['case'], got, lit[r['case']]))
            if nocap(got) != nocap(lit[r['case']]):
                ctx.violation('seq_d21_witness', dict(r, impl=got))
            return
        d.feed([r['case']] if 'case' in r else CORPUS)
        for x in d.oracle_fail + d.corr_fail:
            print('REPLAY: %s\n  impl  %s\n  model %s\n  spec  %s' % (x[4], x[1], x[2], x[3]))
        d.report()
        return

    # open finding F3: a Tuple holding the same object twice cannot be iterated
    f3 = [f for f in ctx.open_findings() if f.get('signature') == 'tuple-repeated-pointer']
    if not f3:
        # known_findings.json is assembled from findings.d/ at merge time; on a worker branch that has
        # not been assembled yet read this property's own fragment
        frag = os.path.join(vlib.VERIF, 'findings.d', 'C04.json')
        if os.path.exists(frag):
            f3 = [f for f in json.load(open(frag)) if f.get('status') == 'open' and f.get('signature') == 'tuple-repeated-pointer']
    out = run_impl(['F|N'])
    mod = run_model(['F|N'])
    if out and 'RUNAWAY' in out[0]:
        if f3:
            ctx.known(f3[0])
        else:
            ctx.violation('seq_f3', {'kind': 'Tuple holding the same object twice: iteration does not terminate',
                                     'harness': 'seq', 'case': 'F|N', 'impl': out[0], 'model': mod[0]})
    else:
        ctx.notes.append('F3 probe: iteration over a Tuple with a repeated pointer terminated (%s); model says %s' % (out, mod))

    d.feed(CORPUS, 'corpus')
    lit = run_impl([c for c, _ in CORPUS_LITERAL])
    nocap = lambda t: ' | '.join(';'.join(f.split(';')[:6]) for f in steps(t))     # capacity is tuning
    for (c, want), got in zip(CORPUS_LITERAL, lit):
        ctx.cov['evaluations'] += 1
        if nocap(got) != nocap(want):
            ctx.notes.append('D21 witness %s: got %s' % (c, got))
            ctx.violation('seq_d21_witness', {
                'kind': 'witness of a repaired defect (wrong-typed element, outside the model) no longer behaves as repaired',
                'harness': 'seq', 'case': c, 'impl': got, 'expected': want,
                'why': 'D21 witness: implementation %s / expected (modulo capacity) %s' % (got, want)})

    per = 2000 if quick else 34000
    maxops = 60
    for kind in KINDS:
        cases = [gen_valid(ctx.rng, kind, maxops if i % 4 else 14) for i in range(per)]
        for i in range(0, per, 1000):
            d.feed(cases[i:i + 1000])
    # the observations as part of the operation stream (no sweep between operations)
    nacc = 1500 if quick else 20000
    for kind in KINDS:
        acc = [gen_access(ctx.rng, kind, 30 if i % 3 else 8) for i in range(nacc)]
        for i in range(0, nacc, 1000):
            d.feed(acc[i:i + 1000])
    # struct element types of 1, 2, 4, 6, 12, 20 bytes in Array and List
    nel = 120 if quick else 2500
    for kind in 'AL':
        el = [gen_elem(ctx.rng, kind, sz, 30) for sz in ELEM_SIZES for _ in range(nel)]
        for i in range(0, len(el), 1000):
            d.feed(el[i:i + 1000])
    # sort_by with every comparison of coq/SeqCmps.v on Array and Tuple (le, ge, always are outside the sort
    # theorem's contract: compared with the model only)
    nsb = 60 if quick else 1500
    sb = [gen_sortby(ctx.rng, kind, k) for kind in 'AT' for k in range(8) for _ in range(nsb)]
    for i in range(0, len(sb), 1000):
        d.feed(sb[i:i + 1000])
    ninv = 400 if quick else 4000
    inv = [gen_invalid(ctx.rng, k, 12) for k in 'ALTS' for _ in range(ninv)]
    for i in range(0, len(inv), 1000):
        d.feed(inv[i:i + 1000])
    if not quick:
        ex = []
        for kind in KINDS:
            for ops in gen_exhaustive(ALPHA16, 4):
                ex.append(kind + '|' + ' '.join(ops))
            for ops in gen_exhaustive(ALPHA7[kind], 6):
                if len(ops) > 4:
                    ex.append(kind + '|' + ' '.join(ops))
        # access patterns, no dump between operations: every sequence of <= 5 (List) / <= 4 (Array, Tuple)
        # operations from ALPHA_ACCESS on a container holding 0,1,2
        for kind in KINDS:
            for ops in gen_exhaustive(ALPHA_ACCESS, 5 if kind == 'L' else 4):
                ex.append(kind + '*|N0,1,2 ' + ' '.join(ops))
        for i in range(0, len(ex), 8000):
            d.feed(ex[i:i + 8000])
        ctx.cov['exhaustive'] = ('bounded search (not a proof): per container every sequence of <= 4 operations from the '
                                 '16-operation alphabet %s and every sequence of 5 or 6 operations from the 7-operation alphabet '
                                 '%s over the values 0,1,2; and, without any dump between operations, every sequence of <= 5 (List) / <= 4 (Array, Tuple) '
                                 'operations from %s on a container holding 0,1,2: %d cases' % (ALPHA16, ALPHA7, ALPHA_ACCESS, len(ex)))

    def extra(dd):
        for kind in KINDS:
            dd.feed([gen_valid(ctx.rng, kind, 40) for _ in range(6000)])
    d.report(extra)
