"""C17 — the collector's registry is exactly the set of live managed objects.

Three transcripts per case (format: ocaml/Registry_driver.ml):
  impl   harness/gcreg_wb.c   real src/GC.c driven through alloc/alloc_root/del/GC_Mark/GC_Sweep,
                              addresses scripted (arena), destructors that delete what they own
  model  extracted coq/RegistryModel.v (gc_step)                    -> must equal impl exactly
  spec   extracted `led_list` (the ledger function of the Coq specification) applied to the
         events the IMPLEMENTATION produced (allocations, deletions issued, finalisations)
The oracle demands what the property states: after every step the registry holds exactly the
ledger's objects, each once, with its root flag, count equal, mem() right for every address the
case knows, plus the white-box observations listed with the property (stored home, probe
distances ordered, bounds, marks clear)."""
import os, json, re
import vlib

PR = [5, 11, 23, 53, 101, 197, 389]
L5 = 5 * 11 * 23 * 53 * 101                 # 6 771 545
MP = L5 * 197 * 389                         # B is a multiple: B = 0 modulo every size up to 389
BASES = [4 * MP, 8 * MP, 12 * MP, 20 * MP, 24 * MP]
GAP = 6                                     # words between two objects (header 3 + body 2)


# ------------------------------------------------------------------ case generation
def spaced(offs, o):
    return all(abs(o - x) >= GAP for x in offs)


def gen_offsets(rng, n, style):
    offs = []
    tries = 0
    while len(offs) < n and tries < 50 * n + 200:
        tries += 1
        if style == 'lcm':          # every address collides modulo 5, 11, 23, 53, 101
            o = L5 * rng.randrange(0, 4 * n + 4)
        elif style == 'lcmbig':     # ... and modulo 197 (and 389)
            o = L5 * 197 * rng.choice([1, 389]) * rng.randrange(0, 24)
        elif style == 'lcm197':     # as many as wanted, all homes equal modulo every size up to 197
            o = L5 * 197 * rng.randrange(0, 4 * n + 4)
        elif style == 'endcluster':  # homes at the last slots of a small registry: wrap-around
            m = rng.choice([5, 11, 23])
            o = m * GAP * rng.randrange(0, 6 * n + 6) + (m - 1 - rng.randrange(0, 3))
        elif style == 'lastslot':    # every home is the LAST slot of a small registry: every probe run wraps
            m = rng.choice([5, 11, 23])
            o = m * GAP * rng.randrange(0, 6 * n + 6) + (m - 1)
        elif style == 'twohomes':
            m = rng.choice([5, 11, 23, 53])
            o = m * GAP * rng.randrange(0, 6 * n + 6) + rng.choice([0, m - 1])
        elif style == 'dense':      # consecutive objects, as a bump allocator would give
            o = GAP * rng.randrange(0, 3 * n + 3)
        elif style == 'small':
            o = rng.randrange(0, 40 * n + 40)
        else:
            o = rng.choice([L5 * rng.randrange(0, 40), rng.randrange(0, 5000),
                            11 * 23 * GAP * rng.randrange(0, 200) + rng.choice([0, 4, 10, 22])])
        if spaced(offs, o):
            offs.append(o)
    return offs


def gen_case(rng, maxops, nmax, base):
    style = rng.choice(['lcm', 'lcm', 'lcmbig', 'endcluster', 'endcluster', 'lastslot', 'lastslot', 'twohomes', 'dense', 'small', 'mixed'])
    n = rng.choice([2, 3, 4, 5, 6, 8, 12, 20, 40, nmax])
    n = max(2, min(n, nmax))
    offs = gen_offsets(rng, n, style)
    n = len(offs)
    allids = list(range(n))
    # destructors may also ALLOCATE (GC_Set from inside a sweep's finaliser loop or a removal): the
    # addresses they allocate (targets) are never allocated by the history itself and never deleted
    # by a destructor; some of them lie outside the address window of everything else
    ntgt = rng.choice([0, 0, 1, 2, 3]) if n >= 4 else 0
    targets = allids[n - ntgt:] if ntgt else []
    ids = allids[:n - ntgt]
    for t in targets:
        r = rng.random()
        if r < .3:
            cand = max(offs) + GAP * rng.randrange(1, 50) + rng.choice([0, 55 * 23, L5])
        elif r < .5 and min(offs[:n - ntgt]) >= 2 * GAP:
            cand = rng.randrange(0, min(offs[:n - ntgt]) - GAP)
        else:
            cand = offs[t]
        if spaced([o for i, o in enumerate(offs) if i != t], cand):
            offs[t] = cand
    pown = rng.choice([0, 0.1, 0.3, 0.6])
    pspw = rng.choice([0.2, 0.5, 0.9]) if targets else 0
    # temporaries: a destructor allocates an object and deletes it again at once, at the address of an
    # ordinary object of the case (so: possibly one finalised and released earlier in the same sweep);
    # such addresses are never deleted by destructors and their own destructor does nothing
    ptmp = rng.choice([0, 0, 0.3, 0.7]) if len(ids) >= 3 else 0
    plain = set(rng.sample(ids, max(1, len(ids) // 3))) if ptmp else set()
    objs = []
    for k in allids:
        own, spw = [], []
        if k in ids and k not in plain and rng.random() < pown:
            own = [rng.choice([x for x in ids if x not in plain] or [k]) for _ in range(rng.choice([1, 1, 1, 2, 3]))]
        if k in ids and k not in plain and rng.random() < pspw:
            spw = ['%d%s' % (t, rng.choice(['', '', 'r'])) for t in rng.sample(targets, rng.randrange(1, len(targets) + 1))]
        if k in ids and k not in plain and rng.random() < ptmp:
            spw += ['%d%st' % (t, rng.choice(['', '', 'r'])) for t in rng.sample(sorted(plain), rng.randrange(1, min(3, len(plain)) + 1))]
            rng.shuffle(spw)
        objs.append('%d:%d%s%s' % (k, offs[k], (':' + '.'.join(map(str, own))) if own or spw else '',
                                   (':' + '.'.join(spw)) if spw else ''))
    proot = rng.choice([0, 0.1, 0.3, 0.8])
    pkeep = rng.choice([0.2, 0.5, 0.9, 1.0])      # how much of what was allocated is on the "stack"
    st = {}                                        # id -> 'm' managed/root (maybe reclaimed), 'w' raw, absent/None = free
    running = True
    words = []
    ops = []
    recent = []
    nops = rng.randrange(1, maxops)
    for _ in range(nops):
        r = rng.random()
        free = [k for k in ids if st.get(k) is None]
        if r < 0.45 and free:
            k = rng.choice(free[:max(3, len(free) // 2)]) if rng.random() < .7 else rng.choice(free)
            raw = rng.random() < 0.06
            if rng.random() < 0.8:
                # refresh the stack words: the newborn and part of the recent allocations
                keep = [x for x in recent[-40:] if rng.random() < pkeep]
                if rng.random() < 0.85:
                    keep.append(k)
                if rng.random() < 0.1 and ids:
                    keep.append('u%d' % rng.choice(ids))
                rng.shuffle(keep)
                keep = keep[:100]
                if keep != words:
                    words = keep
                    ops.append('k' + '.'.join(map(str, words)))
            if raw:
                ops.append('w%d' % k); st[k] = 'w'
            else:
                ops.append(('A%d' if rng.random() < proot else 'a%d') % k)
                st[k] = 'm' if running else 'w'    # allocated while stopped: never registered
                recent.append(k)
        elif r < 0.62:
            k = rng.choice(allids)
            if st.get(k) == 'w':
                ops.append('x%d' % k); st[k] = None
            else:
                ops.append('d%d' % k)
                if running:
                    st[k] = None
        elif r < 0.72:
            ops.append('m%d' % rng.choice(allids))
        elif r < 0.82:
            if rng.random() < .5:
                words = [x for x in recent[-30:] if rng.random() < rng.choice([0, .3, .7])]
                ops.append('k' + '.'.join(map(str, words)))
            ops.append('c')
        elif r < 0.84:
            ops.append('z')
        elif r < 0.87:
            ops.append('S' if running else 'T'); running = not running
        else:
            k = rng.choice(ids)
            ops.append('d%d' % k)
            if st.get(k) != 'w' and running:
                st[k] = None
    if rng.random() < .3:
        ops.append(rng.choice(['c', 'z', 'k', 'k c']))
    return 'B=%d;%s|%s' % (base, ','.join(objs), ' '.join(ops))


def gen_grow(rng, n, base, brief=False):
    """growth past several primes and shrink back: n objects, most of them roots or kept on the
    stack, allocated in a row with a few deletions and queries in between, then deleted in random
    order with collections in between (Resize_More / Resize_Less at every threshold)"""
    style = rng.choice(['lcm', 'lcm197', 'dense', 'mixed', 'endcluster'])
    offs = gen_offsets(rng, n, style)
    n = len(offs)
    ids = list(range(n))
    pown = rng.choice([0, 0, 0.05, 0.2])
    objs = []
    for k in ids:
        own = [rng.choice(ids) for _ in range(rng.choice([1, 1, 2]))] if rng.random() < pown else []
        objs.append('%d:%d%s' % (k, offs[k], (':' + '.'.join(map(str, own))) if own else ''))
    proot = rng.choice([0.3, 0.6, 1.0])
    ops = ['Q'] if brief else []
    alive, words = [], []
    order = ids[:]
    rng.shuffle(order)
    dead = set()
    for k in order:
        words = (words + [k])[-90:]
        if rng.random() < 0.5 or len(words) < 3:
            ops.append('k' + '.'.join(map(str, words)))
        ops.append(('A%d' if rng.random() < proot else 'a%d') % k)
        alive.append(k)
        r = rng.random()
        if r < 0.05:
            ops.append('m%d' % rng.choice(ids))
        elif r < 0.08 and len(alive) > 4:
            v = alive.pop(rng.randrange(len(alive))); ops.append('d%d' % v); dead.add(v)
            words = [w for w in words if w != v]
    rng.shuffle(alive)
    cnt = 0
    for v in alive:
        ops.append('d%d' % v); cnt += 1
        if rng.random() < 0.03:
            ops.append('k'); ops.append('c')
        if rng.random() < 0.05:
            ops.append('m%d' % rng.choice(ids))
    ops.append('k'); ops.append('c')
    return 'B=%d;%s|%s' % (base, ','.join(objs), ' '.join(ops))


def exhaustive_cases(base, maxlen=4):
    """small scope, complete: every admissible sequence of at most `maxlen` operations over three
    objects (alloc managed / root, del, forced collection), for stack words = none / object 0 /
    all, two address patterns (one home; last slot + wrap) and two ownership relations"""
    import itertools
    alpha = ['a0', 'a1', 'a2', 'A1', 'd0', 'd1', 'd2', 'c']
    res = []
    for offs in ([0, 55, 110], [4, 59, 9]):
        for own in ({}, {0: [1], 1: [0, 2]}, 'spawn', 'temp'):
            if own == 'temp':    # 2's destructor creates temporaries at the addresses of 0 and 1
                objs = '0:%d,1:%d,2:%d::0t.1t' % (offs[0], offs[1], offs[2])
            elif own == 'spawn':   # 0's destructor allocates 3 (far above the window) and root 4 (below / colliding)
                objs = '0:%d::3.4r,1:%d:0,2:%d,3:%d,4:%d' % (offs[0], offs[1], offs[2], offs[2] + 5500, offs[0] + 25)
            else:
                objs = ','.join('%d:%d%s' % (k, offs[k], (':' + '.'.join(map(str, own[k]))) if k in own else '') for k in range(3))
            for words in ('k', 'k0', 'k0.1.2'):
                for n in range(1, maxlen + 1):
                    for seq in itertools.product(alpha, repeat=n):
                        c = 'B=%d;%s|%s %s' % (base, objs, words, ' '.join(seq))
                        if admissible(c):
                            res.append(c)
    return res


def parse_case(case):
    hd, ops = case.split('|', 1)
    b, objs = hd.split(';', 1)
    base = int(b[2:])
    ids, off = [], {}
    for o in objs.split(','):
        f = o.split(':')
        ids.append(int(f[0])); off[int(f[0])] = int(f[1])
    return base, ids, off, [t for t in ops.split(' ') if t]


def dtor_sets(case):
    """(addresses some destructor deletes, addresses some destructor allocates)"""
    objs = case.split('|', 1)[0].split(';', 1)[1]
    owned, spawned = set(), set()
    for o in objs.split(','):
        f = o.split(':')
        if len(f) > 2 and f[2]:
            owned |= {int(x) for x in f[2].split('.')}
        if len(f) > 3 and f[3]:
            spawned |= {int(x.rstrip('rt')) for x in f[3].split('.') if 't' not in x}
    return owned, spawned


def temp_sets(case):
    """(addresses some destructor uses for a temporary, ids whose destructor does something)"""
    objs = case.split('|', 1)[0].split(';', 1)[1]
    temps, active = set(), set()
    for o in objs.split(','):
        f = o.split(':')
        if (len(f) > 2 and f[2]) or (len(f) > 3 and f[3]):
            active.add(int(f[0]))
        if len(f) > 3 and f[3]:
            temps |= {int(x.rstrip('rt')) for x in f[3].split('.') if 't' in x}
    return temps, active


def admissible(case):
    """the history never allocates an address that may still be registered or raw-live, never
    del_raw's anything but a live raw object (generator rules; shrinking must keep them)"""
    try:
        base, ids, off, ops = parse_case(case)
        owned, spawned = dtor_sets(case)
    except Exception:
        return False
    temps, active = temp_sets(case)
    if owned & (spawned | temps) or not (owned | spawned | temps) <= set(ids) or temps & active:
        return False          # hypothesis dtors_ok of the theorems; temporaries have no destructor actions
    st, running = {}, True
    for t in ops:
        c = t[0]
        if c in 'aAw':
            k = int(t[1:])
            if k not in off or st.get(k) is not None or k in spawned:
                return False
            st[k] = 'w' if (c == 'w' or not running) else 'm'
        elif c == 'x':
            k = int(t[1:])
            if st.get(k) != 'w':
                return False
            st[k] = None
        elif c == 'd':
            k = int(t[1:])
            if k not in off:
                return False
            if running and st.get(k) != 'w':
                st[k] = None
        elif c == 'S':
            running = False
        elif c == 'T':
            running = True
        elif c in 'czQ':
            if len(t) != 1:
                return False
        elif c == 'm':
            if int(t[1:]) not in off:
                return False
        elif c == 'k':
            for w in t[1:].split('.'):
                if w and int(w.lstrip('u')) not in off:
                    return False
    return True


# ------------------------------------------------------------------ transcripts
def steps_of(line):
    res = []
    for part in line.split(' | '):
        f = part.split(';')
        res.append(f if len(f) == 11 else [part])
    return res


def spec_input(case, impl):
    """events the implementation produced, step by step, for the ledger function"""
    base, ids, off, ops = parse_case(case)
    st = steps_of(impl)
    out, running = ['-'], True
    for n, t in enumerate(ops):
        ev = ''
        if t[0] in 'aA' and running:
            ev = 'A%s:%d' % (t[1:], 1 if t[0] == 'A' else 0)
        if t[0] == 'S': running = False
        if t[0] == 'T': running = True
        if n + 1 < len(st) and len(st[n + 1]) == 11:
            ev += st[n + 1][1]
        out.append(ev or '-')
    return ' '.join(out)


def oracle(case, impl, spec):
    if not admissible(case) or spec.startswith('HARNESS-'):
        return None          # (second case: the ledger DRIVER ran out of its time slice — not an observation)
    base, ids, off, ops = parse_case(case)
    st = steps_of(impl)
    sp = spec.split(' | ')
    if len(st) != len(ops) + 1:
        return 'implementation transcript has %d steps, the case %d (crash/timeout?): %s' % (len(st), len(ops) + 1, st[-1][0][-60:])
    if len(sp) != len(st):
        return 'ledger transcript has %d steps, implementation %d' % (len(sp), len(st))
    words, prev_want, run_prev = set(), {}, True
    for n, f in enumerate(st):
        if len(f) != 11:
            return 'step %d: %s' % (n, f[0][-80:])
        out, ev, nslots, nitems, mitems, mn, mx, run, npend, slots, mem = f
        want = {}
        for kv in sp[n].split(','):
            if kv:
                k, r = kv.split(':'); want[int(k)] = r
        op = ops[n - 1] if n else 'new'
        if op[0] == 'k':
            words = {int(w) for w in op[1:].split('.') if w and not w.startswith('u')}
        # nothing live may be RECLAIMED: an object that is finalised in this step without having been deleted
        # in it (no `r` before its `f`) was taken by a sweep; that is only legitimate for a managed object that
        # the collection could not reach - not a root, and (when a mark phase ran: alloc, alloc_root, c) not
        # among the words the stack scan was given.  (del_raw finalises its own target.)
        # `cur` follows the registrations INSIDE the step (ids may be re-used within one step: spawned, deleted,
        # spawned again with another flag), `deleted` the deletions issued and not yet followed by a new allocation
        cur, deleted = dict(prev_want), set()
        if op[0] in 'aA' and run_prev:
            cur[int(op[1:])] = '1' if op[0] == 'A' else '0'
        for m_ in re.finditer(r'([rf])(\d+)|s(\d+):([01])|!', ev):
            if m_.group(1) == 'r':
                k = int(m_.group(2)); deleted.add(k); cur.pop(k, None)
            elif m_.group(3) is not None:
                k = int(m_.group(3)); cur[k] = m_.group(4); deleted.discard(k)
            elif m_.group(1) == 'f':
                k = int(m_.group(2))
                if k in deleted or (op[0] == 'x' and op[1:] == str(k)):
                    deleted.discard(k)
                    continue
                flag = cur.pop(k, None)
                if flag == '1':
                    return 'step %d (%s): root object %d was reclaimed and finalised by a sweep' % (n, op, k)
                if flag is not None and k in words and op[0] in 'aAc':
                    return ('step %d (%s): object %d is referenced from the scanned stack words, yet the collection reclaimed '
                            'and finalised it (a live managed object dropped from the registry)' % (n, op, k))
        run_prev = run == '1'
        prev_want = want
        if 'HOOKLOST' in mem:
            return 'step %d: harness hook on the stack scan no longer reached' % n
        if op[0] == 'm':
            exp = 'true' if int(op[1:]) in want else 'false'
            if out != exp:
                return 'step %d (%s): mem answers %s, the object is %sregistered' % (n, op, out, '' if exp == 'true' else 'not ')
        elif out not in ('ok', 'new'):
            return 'step %d (%s): outcome %s' % (n, op, out)
        nslots = int(nslots)
        if slots.startswith('#'):
            # brief dump (big cases): slot text only as a hash (compared with the model); the oracle
            # still checks the count and mem() for the sampled objects
            if int(nitems) != len(want):
                return 'step %d (%s): nitems %s, %d objects are registered' % (n, op, nitems, len(want))
            sub = [k for k in ids if (k + n) % 8 == 0]
            bits = mem.replace('HOOKLOST', '')
            if len(bits) != len(sub):
                return 'step %d (%s): %d mem answers for %d sampled objects' % (n, op, len(bits), len(sub))
            for j, k in enumerate(sub):
                if (bits[j] == '1') != (k in want):
                    return 'step %d (%s): mem(gc, object %d) = %s but it is %sregistered' % (n, op, k, bits[j], '' if k in want else 'not ')
            continue
        ent = [s.split(':') for s in slots.split(',')] if slots else []
        if len(ent) != nslots:
            return 'step %d: %d slots dumped, nslots %d' % (n, len(ent), nslots)
        seen = {}
        dist = []
        for i, e in enumerate(ent):
            if e == ['_']:
                dist.append(None); continue
            h, k, r, m = e
            if k == 'X':
                return 'step %d (%s): slot %d holds an address no allocation of the case returned' % (n, op, i)
            k = int(k)
            if k in seen:
                return 'step %d (%s): object %d is recorded twice (slots %d and %d)' % (n, op, k, seen[k], i)
            seen[k] = i
            if k not in want:
                return 'step %d (%s): object %d is in the registry but was deleted/reclaimed or never registered' % (n, op, k)
            if want[k] != r:
                return 'step %d (%s): object %d recorded with root flag %s, allocated with %s' % (n, op, k, r, want[k])
            if int(h) != (base + off[k]) % nslots + 1:
                return 'step %d (%s): object %d stored home %s, address hash gives %d' % (n, op, k, h, (base + off[k]) % nslots + 1)
            if m != '0':
                return 'step %d (%s): object %d still marked outside a collection' % (n, op, k)
            if mn == '-' or mx == '-' or not (int(mn) <= off[k] <= int(mx)):
                return 'step %d (%s): object %d outside [minptr, maxptr]' % (n, op, k)
            dist.append((i - (int(h) - 1)) % nslots)
        for k in want:
            if k not in seen:
                return 'step %d (%s): object %d is allocated, not deleted, not reclaimed, but missing from the registry' % (n, op, k)
        if int(nitems) != len(want):
            return 'step %d (%s): nitems %s, %d objects are registered' % (n, op, nitems, len(want))
        if npend != '0':
            return 'step %d (%s): pending list not emptied' % (n, op)
        for j, k in enumerate(ids):
            if (mem[j] == '1') != (k in want):
                return 'step %d (%s): mem(gc, object %d) = %s but it is %sregistered' % (n, op, k, mem[j], '' if k in want else 'not ')
        for i in range(nslots):
            d = dist[i]
            if d:
                p = dist[(i - 1) % nslots]
                if p is None or p < d - 1:
                    return 'step %d (%s): probe distances out of order at slot %d' % (n, op, i)
    return None


def corr(case, impl, model):
    if impl == model:
        return None
    if model.startswith('HARNESS-'):
        return None      # the model DRIVER ran out of its time slice (counted in coverage): not an observation of the library
    if '!' in model or '!' in impl:
        return None      # flagged as outside the model's scope (nested collection outside a sweep; an address the
                         # allocator could not / the model would not hand out) - judged by the oracle only
    a, b = impl.split(' | '), model.split(' | ')
    for n, (x, y) in enumerate(zip(a, b)):
        if x != y:
            return 'step %d: implementation %s / model %s' % (n, x[:300], y[:300])
    return 'length %d vs %d' % (len(a), len(b))


def nontrivial(case, impl):
    """an entry sits away from its home slot, or a destructor issued a removal (an `r` event
    that is not the step's own del) or an allocation (`s` event), or the registry was rehashed
    to a smaller size"""
    ops = case.split('|', 1)[1].split(' ')
    ops = [t for t in ops if t]
    prev = None
    for n, f in enumerate(steps_of(impl)):
        if len(f) != 11:
            return True
        ev, slots = f[1], f[9]
        op = ops[n - 1] if 0 < n <= len(ops) else ''
        if 'r' in ev and not (op.startswith('d') and ev.count('r') == 1):
            return True
        if 's' in ev:
            return True
        for i, s in enumerate(slots.split(',')):
            if s != '_' and s and s.split(':')[0] != str(i + 1):
                return True
        if prev is not None and int(f[2]) < prev and int(f[2]) > 1:
            return True
        prev = int(f[2])
    return False


def split(case):
    hd, ops = case.split('|', 1)
    return hd, [t for t in ops.split(' ') if t]


def join(hd, toks):
    return hd + '|' + ' '.join(toks)


def corpus(b):
    return ['B=%d;' % b + c for c in [
        # the very first allocation triggers a collection (mitems = 0); newborn on the stack or not
        '0:0,1:8|a0 k1 a1 m0 m1',
        # all homes equal modulo 5: displacement chain, delete in the middle, re-insert
        '0:0,1:55,2:110,3:165|k0.1.2.3 a0 a1 a2 a3 d1 m1 m2 a1 d0 d3 m2',
        # wrap-around: homes at the last slot of 5, deletion shifts slot 0 back to slot 4
        '0:4,1:59,2:114,3:9|k0.1.2.3 a0 a1 a2 a3 d0 m1 m2 m3 d3 m1',
        # two objects with home = LAST slot, the live one inserted first (so the second displaces it to slot 0),
        # then a collection reclaiming the second: the backward shift pulls the already visited survivor from
        # slot 0 into the last slot, which is looked at again (seeded C17-r7-2: a single-pass sweep drops it)
        '0:4,1:59|k0 a0 a1 c m0 m1',
        '0:4,1:59,2:114|k0.2 a0 a1 a2 k0 c m0 m1 m2',
        '0:10,1:21,2:32,3:43,4:54,5:65,6:76|k0.1.2.3.4.5.6 A2 A3 A4 A5 A6 a0 a1 k0 c m0 m1',
        # ids re-used inside ONE step: 6 is spawned as a root temporary, deleted, spawned again as a managed
        # temporary and then reclaimed by the nested collection its own allocation starts (outside a sweep)
        '0:5818:1.3:7.6t,1:142:4:7.6t,2:7060:4.4:5rt.7r,3:184:4:5rt.7.6rt,4:514::6t.7r.5t,5:4576,6:874,7:6778689|k1.0 a0 a3 d0',
        # sweep compaction with wrap-around: unmarked entry at slot 4, cluster continues at 0,1
        '0:4,1:59,2:114,3:169|k0.1.2.3 a0 a1 a2 a3 k1.3 c m0 m1 m2 m3',
        # a swept owner deletes an object LATER in the pending list, and one that survives
        '0:0,1:55,2:110:1.0,3:165,4:220:2|k0 a0 k0.1 a1 k1.2 a2 k a3 a4 c',
        '0:0:1,1:55:2,2:110|k0.1.2 A2 a1 a0 k c m2 d2',
        # finaliser removes a marked survivor and a root while the sweep's finaliser loop runs
        '0:0:1.2,1:6,2:12,3:18|k0.1.2.3 a0 a1 A2 a3 k1.3 c m1 m2 m3',
        # cycle of owners, deleted explicitly
        '0:0:1,1:55:2,2:110:0,3:5|k0.1.2.3 a0 a1 a2 a3 d0 m1 m2 m3',
        # raw owner deleted with del_raw removes managed objects; stop window
        '0:0:1.2,1:8,2:16,3:24|w0 k1.2 a1 a2 S a3 d1 T x0 m1 m2 m3',
        # address reuse after del and after a collection
        '0:0,1:8|k0 a0 d0 a0 k c a1 d0 a0 m0',
        # unaligned and foreign words on the stack; sweep without mark (teardown)
        '0:0,1:8,2:16|ku0.1 a0 a1 A2 c m0 m1 z m1 m2',
        # destructors that allocate while a sweep runs: managed + root, one far outside the address
        # window, one colliding with a survivor; then mem, del of the spawned ones
        '0:0::3.4r,1:55,2:110,3:9000,4:165|k1.2 a0 a1 a2 k1 c m3 m4 d3 m3 d4 m4',
        '0:40::3.4r,1:95:0,2:150,3:0,4:7040|k0.1.2 a0 a1 a2 k2 c m3 m4 k c m3 m4',
        # a destructor allocates a temporary at the address of an object finalised and released EARLIER in
        # the same sweep, and deletes it again (stale pending slot must not catch the deletion)
        '0:0,1:6::0t,2:12|k0.1.2 a0 a1 a2 k2 c m0 m1 k c',
        '0:0,1:6,2:12::0t.1rt,3:18|k0.1.2.3 a0 a1 a2 a3 k3 c m0 m1 m2 k c',
        # ... and from a destructor run by an explicit del (no sweep in progress)
        '0:0:1:3,1:55,3:165|k0.1 a0 a1 d0 m3 m1 d3 m3',
        # growth past 5 and 11 slots with roots, then shrink back
        ','.join('%d:%d' % (i, 55 * 23 * i) for i in range(14)) + '|' + ' '.join('A%d' % i for i in range(14)) + ' ' + ' '.join('d%d' % i for i in range(14)),
    ]]


def run(ctx):
    quick = ctx.tier == 'quick'
    ctx.cov['rule'] = (
        'seeded histories of alloc / alloc_root / alloc_raw / del / del_raw / mem / forced collection (scripted stack words) / '
        'sweep-only / stop / start over 2-%d objects (a few growth cases up to %d) whose addresses 8*(B+off) are scripted: off = multiples of 5*11*23*53*101 (and *197, *389) '
        'so that all homes coincide modulo every registry size, homes at the last slots / all at the last slot (every probe run wraps; with stack words keeping the object inserted first), two homes, dense, small, mixed; '
        'objects own other objects (their destructor issues del: removals during a sweep or during another removal, cycles allowed) and/or '
        'allocate managed/root objects from their destructor (GC_Set while a sweep runs or inside a removal; addresses outside the current [minptr,maxptr] '
        'and colliding with survivors; never an address a destructor deletes), or create temporaries (allocate + delete at once) at the address of '
        'another object of the case, e.g. one finalised and released earlier in the same sweep; '
        'threshold collections fire by themselves (the first allocation already does); generator rule: an address is re-allocated only after a '
        'top-level del/del_raw of it. A case is non-trivial when an entry sits away from its home slot, or a destructor issued a removal, or the '
        'registry shrank by rehashing; distinct = distinct implementation transcripts' % (60 if quick else 420, 130 if quick else 1500))
    ctx.assumptions += [
        'C text tied by correspondence only: extracted Gallina model vs src/GC.c of the working tree (white-box include), registry dumped after every step',
        'the conservative stack scan GC_Mark_Stack is replaced in the harness by a scripted word list handed to the real GC_Mark_Item (no source edit); '
        'objects of the probe type hold no pointers, so GC_Recurse adds no marks',
        'double arithmetic of GC_Ideal_Size modelled as floor((n+1)*10/9)',
        'allocator contract (hypothesis of the theorems, rule of the generator): GC_Set is never handed an address that is still registered or pending',
        'a destructor that allocates OUTSIDE a sweep and crosses the threshold starts a nested collection in the C code: outside the model (flagged, '
        'compared by the oracle only)']
    ctx.coq()
    drv = ctx.build_driver('Registry')
    h = ctx.build_harness('gcreg_wb.c', whitebox='GC')
    last = {}

    def run_impl(cs):
        rc, lines, err = ctx.run_lines(h, cs, timeout=1800)
        for c, l in zip(cs, lines):
            last[c] = l
        return lines

    def run_model(cs):
        # the extracted model works with unary naturals: a history over hundreds of objects takes tens of
        # seconds, so the per-shard stall budget of run_lines (30 s + 3 * H_TIMEOUT) is raised for the driver
        lines = ctx.run_lines(drv, cs, args=['model'], timeout=1800, env=dict(os.environ, H_TIMEOUT='150'))[1]
        st = sum(1 for l in lines if l.startswith('HARNESS-'))
        if st:
            ctx.cov['model_driver_stalls'] = ctx.cov.get('model_driver_stalls', 0) + st
        return lines

    def run_spec(cs):
        inp = []
        for c in cs:
            try:
                inp.append(spec_input(c, last.get(c, '')))
            except Exception:
                inp.append('-')
        return ctx.run_lines(drv, inp, args=['spec'], timeout=1800, env=dict(os.environ, H_TIMEOUT='150'))[1]

    base = None
    for b in BASES:
        l = run_impl(['B=%d;0:0,1:%d|a0 a1' % (b, L5 * 197 * 389 * 20)])
        if l and 'NOMAP' not in l[0] and 'CRASH' not in l[0]:
            base = b
            break
    if base is None:
        raise vlib.HarnessBuildError('gcreg_wb: cannot map the probe arena at any of the fixed bases')
    d = vlib.Differential(ctx, 'gcreg', run_impl, run_model, run_spec, oracle, corr, nontrivial, split, join)
    _shrink0 = d.shrink

    def _shrink(case, fails):
        # delta debugging re-runs the case hundreds of times: only worth it (and affordable) for cases
        # whose model run is short; very long histories are reported as they are
        return case if len(case) > 30000 else _shrink0(case, fails)
    d.shrink = _shrink
    rp = os.environ.get('VERIF_REPLAY')
    if rp:
        r = json.load(open(rp))
        d.feed([r['case']] if 'case' in r else corpus(base))
        for x in d.oracle_fail + d.corr_fail:
            print('REPLAY: %s\n  impl  %s\n  model %s\n  spec  %s' % (x[4], x[1], x[2], x[3]))
        d.report()
        return
    d.feed(corpus(base), 'corpus')
    n = 2400 if quick else 100000
    nmax = 60 if quick else 420
    chunk = 1000
    done = 0
    import time as _time
    # wall-clock budget of the whole check (thorough tier), counted from its start (Coq build and coqchk
    # included); the complete parts run first, the random stream takes what is left
    _budget = float(os.environ.get('VERIF_THOROUGH_BUDGET_S', '1500'))
    _left = lambda: _budget - (_time.time() - ctx.t0)

    def _progress(what):
        if os.environ.get('VERIF_PROGRESS'):
            print('[%6.0f s] %s' % (_time.time() - ctx.t0, what), file=__import__('sys').stderr, flush=True)
    _progress('streams start')

    def feed_exhaustive():
        ex = exhaustive_cases(base, 3 if quick else 4)
        fed = 0
        for i in range(0, len(ex), 2000):
            if not quick and _left() < 0:
                break
            d.feed(ex[i:i + 2000])
            fed += len(ex[i:i + 2000])
            _progress('exhaustive %d/%d' % (fed, len(ex)))
        ctx.cov['exhaustive'] = ('%s %d admissible sequences of <= %d operations over {a0,a1,a2,A1,d0,d1,d2,c} x stack words {none, 0, all} '
                                 'x 2 address patterns x 4 destructor behaviours (none, deleting, allocating, temporaries)'
                                 % ('all' if fed == len(ex) else 'INCOMPLETE (wall-clock budget): %d of' % fed, len(ex), 3 if quick else 4))

    if not quick:
        feed_exhaustive()
        if not d.oracle_fail and _left() > 300:
            # past 1259 and 2417 slots and back; slot arrays compared by hash (brief dumps)
            d.feed([gen_grow(ctx.rng, nbig, base, brief=True) for nbig in (1200, 1500)])
            ctx.cov['growth_to_2417_slots'] = 'done (2 cases)'
            _progress('growth cases done')
        else:
            ctx.cov['growth_to_2417_slots'] = 'skipped (wall-clock budget)'
    while done < n and not d.oracle_fail:
        if not quick and _left() < 0:
            ctx.notes.append('random stream stopped after %d of %d cases: wall-clock budget of %.0f s (VERIF_THOROUGH_BUDGET_S) used up' % (done, n, _budget))
            break
        m = min(chunk, n - done)
        cases = []
        for i in range(m):
            j = done + i
            if j % 3 == 0:
                cases.append(gen_case(ctx.rng, 14, 6, base))
            elif j % 40 == 1:
                # growth past 11, 23, 53, 101 (197, 389, 683 in the thorough tier) slots and back
                if quick:
                    cases.append(gen_grow(ctx.rng, ctx.rng.choice([30, 60, 100, 130]), base))
                else:
                    nb = ctx.rng.choice([60] * 10 + [130] * 6 + [200] * 3 + [400])
                    if j % 4000 == 1:
                        nb = 650
                    cases.append(gen_grow(ctx.rng, nb, base, brief=nb >= 400))
            elif not quick and j % 50 == 2:
                cases.append(gen_case(ctx.rng, 1500, nmax, base))
            else:
                cases.append(gen_case(ctx.rng, 150, nmax if j % 7 else 20, base))
        d.feed(cases)
        done += m
        _progress('random %d' % done)
    ctx.cov['random_stream'] = '%d of %d planned cases' % (done, n)
    for x in (d.oracle_fail + d.corr_fail)[:3]:
        _progress('DISAGREEMENT %s | case %s' % (x[4][:600], x[0][:300]))
    if quick and not d.oracle_fail:
        feed_exhaustive()

    def extra(dd):
        dd.feed([gen_case(ctx.rng, 60, 20, base) for _ in range(10 * min(n, 2000))])
    d.report(extra)
